package main

import (
	"fmt"
	"go/token"
	"sort"
	"strings"

	"golang.org/x/tools/go/ssa"
)

func init() { register("C12", checkC12) }

func checkC12(c *Ctx) {
	r := c.R
	r.Rule("R06.3", "(shared with C06) a non-terminating call returns and a terminating record is written first: the tag width setter stores no width outside the tag tables (an index out of range inside Level.ShortTag is a panic in every colored record)")
	r.Rule("R02.3", "(shared with C02) the record is written first and whole: the blank-line shortcut is taken for lvl == AlwaysLevel only, never for a Panic/Fatal record")
	r.Rule("R13.1", "(shared with C13) record first, on every destination of the set: the fan-out has its natural exit only")
	r.Rule("R01.3", "(shared with C01) a Panic/Fatal call terminates exactly when it is admitted by the logger's own level: Entry.Level returns the receiver's own level field")
	r.Rule("R10.3", "(shared with C10) creation copies only the documented settings")
	r.Rule("R12.9", "the documented flags are the ones in force: AddFlags / RemoveFlags apply every flag of their argument list (the loop around the flag-word update has its natural exit only), so LnoInterrupt / Linterruptalways given after another flag are not dropped")
	r.Rule("R01.8", "(shared with C01) package-level Panic/Fatal write and terminate for every kind of default logger: the dispatcher has an emitting arm for *logimp and for *Entry")
	r.Rule("R03.1", "(shared with C03) record first: the routing decision function equals the documented one (an emptied per-level list for Panic/Fatal does not hide the error device)")
	r.Rule("R03.3", "(shared with C03) record first: each Set/Add operation of the writer set stores into the list it names (SetErrorWriter installs the error list), so the destination Panic/Fatal are routed to is never left empty by the setter that names it")
	r.Rule("R12.1", "termination decision: the decision function extracted from the function that prints and then terminates (logContext), over the atoms {inTesting, interrupt-always flag, no-interrupt flag, lvl==Panic, lvl==Fatal} and every other branch condition universally quantified, equals the property's table: panic(msg) for Panic, os.Exit(-3) for Fatal, only when (not testing or interrupt-always) and not no-interrupt; nothing otherwise")
	r.Rule("R12.2", "record first: on every path that terminates, the emission call precedes the panic/exit")
	r.Rule("R12.3", "only admitted calls terminate: the terminating function is reached only through the admission gate (shared with R01.1)")
	r.Rule("R12.4", "nobody else terminates: os.Exit, log.Fatal*, runtime.Goexit are called nowhere else in the package, and no explicit panic on the print tree is selected by a severity (shared allow-table of R02.5)")
	r.Rule("R12.6", "no bypass: from every native entry point (every exported function or method of the package that reaches the record printer, except the raw record entry points of the log/slog and std-log bridges) every static route to the printer passes the function that holds the termination step")
	r.Rule("R12.7", "the testing-mode atom of R12.1 is what the property means by it: the package variable inTesting is initialised by is.InTesting() itself and never reassigned")
	r.Rule("R12.5", "no foreign level becomes terminating: in every function mapping a log/slog level to a Level, Panic/Fatal are returned only under equality with the explicit LevelPanic/LevelFatal constants, and the lookup table has no terminating value")
	r.Rule("R02.9", "(shared with C02) a nil context never has a method called on it: for every method call on a context.Context value on the print path, every origin of the receiver (through parameters over all static call sites, and joins) is a value made by package context or the raw parameter on the not-nil side of a test of that parameter")
	r.Rule("R12.8", "terminating leaves the destinations as they are: the terminating function and its private helpers outside the record printer close no destination and write no writer-set state (a recovered Panic is followed by more records)")
	r.Assume("inTesting (is.InTesting()) identifies a go test binary; the flags word is read at the time of the call")
	for _, tags := range c.Configs([]string{""}, []string{"", "verbose", "hint", "verbose,hint"}) {
		p := c.Prog(tags)
		if p == nil {
			continue
		}
		m, err := BuildModel(p)
		if err != nil {
			r.Unk("R12.1", "model", "-", "cannot build the emission model: %v", err)
			continue
		}
		c12Decision(c, p, m)
		noRecoverOnSpine(c, p, m, "R12.1")
		tagWidthSetter(c, p)
		c12Others(c, p, m)
		wrapperForwarding(c, p, "R12.2")
		c12Mapping(c, p, m)
		noTerminationBypass(c, p, m)
		terminationKeepsWriters(c, p, m)
		nilContextSafe(c, p, m, "R02.9")
		testingPredicate(c, p)
		c03Frames(c, p, m)
		c03Routing(c, p, m)
		c02Newline(c, p, m)
		c13Fanout(c, p, m)
		c01Decision(c, p, m)
		c10Creation(c, p, m)
		flagLoopsTraversal(c, p, "R12.9")
		flagsRestoreIsExact(c, p, "R12.9")
		c01DefaultKinds(c, p, m, "R01.8")
	}
	c.Floor["R12.1"] = 16
	c.Floor["R12.5"] = 3
	c.Floor["R02.9"] = 1
}

// terminators: functions in the package that contain os.Exit or a panic of a parameter.
func c12Decision(c *Ctx, p *Prog, m *Model) {
	r := c.R
	// the terminating function = spine function that calls os.Exit (role), fall back to name
	var term *ssa.Function
	for fn := range m.Spine {
		for _, cs := range callsIn(fn) {
			if cal := calleeOf(cs); cal != nil && cal.String() == "os.Exit" {
				term = fn
			}
		}
	}
	if term == nil {
		term = p.Method(p.Slog, "Entry", "logContext")
	}
	if term == nil {
		r.Unk("R12.1", "terminator", "-", "no function on the emission spine calls os.Exit and Entry.logContext does not exist")
		return
	}
	lvlIdx := m.levelParamIndex(term)
	var msgParam *ssa.Parameter
	for _, prm := range term.Params {
		if nm(prm) == "msg" {
			msgParam = prm
		}
	}
	if lvlIdx < 0 || msgParam == nil {
		r.Unk("R12.1", "terminator:"+shortName(term), p.FuncPos(term), "the terminating function has no level/msg parameters")
		return
	}
	lvl := term.Params[lvlIdx]
	// helpers the termination tail may have been moved into: in-package, not on the spine, able to terminate
	canTerminate := map[*ssa.Function]bool{}
	for _, fn := range p.RepoFuncs() {
		if fn.Pkg != p.Slog || m.Spine[fn] {
			continue
		}
		for _, b := range fn.Blocks {
			for _, in := range b.Instrs {
				switch x := in.(type) {
				case *ssa.Panic:
					canTerminate[fn] = true
				case ssa.CallInstruction:
					if cal := calleeOf(x); cal != nil && cal.String() == "os.Exit" {
						canTerminate[fn] = true
					}
				}
			}
		}
	}
	subst := map[ssa.Value]ssa.Value{}
	res := func(v ssa.Value) ssa.Value {
		v = strip(v)
		for i := 0; i < 6; i++ {
			w, ok := subst[v]
			if !ok {
				break
			}
			v = strip(w)
		}
		return v
	}
	inline := func(cs ssa.CallInstruction) *ssa.Function {
		if cal := calleeOf(cs); cal != nil && canTerminate[cal] {
			if _, isCall := cs.(*ssa.Call); isCall {
				return cal
			}
		}
		return nil
	}
	flagName := func(v ssa.Value) string {
		cv, ok := constInt(v)
		if !ok {
			return ""
		}
		for _, n := range []string{"LnoInterrupt", "Linterruptalways"} {
			if x, ok := p.ConstInt(p.Slog, n); ok && x == cv {
				return n
			}
		}
		return fmt.Sprintf("flags(%d)", cv)
	}
	namer := func(cond ssa.Value) string {
		switch x := cond.(type) {
		case *ssa.BinOp:
			if (x.Op == token.EQL || x.Op == token.NEQ) && res(x.X) == ssa.Value(lvl) {
				if cv, ok := constInt(x.Y); ok {
					n := "lvl==" + m.LevelByVal[cv]
					if x.Op == token.NEQ {
						return "!" + n
					}
					return n
				}
			}
			// flags & F != 0 inline form
			if x.Op == token.NEQ || x.Op == token.EQL {
				if and, ok := strip(x.X).(*ssa.BinOp); ok && and.Op == token.AND {
					if g, ok := globalLoad(and.X); ok && nm(g) == "flags" {
						if x.Op == token.NEQ {
							if z, ok := constInt(x.Y); ok && z == 0 {
								return "any:" + flagName(and.Y)
							}
						}
						if x.Op == token.EQL && sameLevelValue(and.Y, x.Y) {
							return "all:" + flagName(and.Y)
						}
					}
				}
			}
		case *ssa.Call:
			if cal := calleeOf(x); cal != nil && len(x.Common().Args) == 1 {
				switch nm(cal) {
				case "IsAnyBitsSet":
					return "any:" + flagName(x.Common().Args[0])
				case "IsAllBitsSet":
					return "all:" + flagName(x.Common().Args[0])
				}
			}
		case *ssa.UnOp:
			if g, ok := globalLoad(x); ok {
				return "global:" + nm(g)
			}
		}
		return "other:" + m.condDesc(cond)
	}
	// collect atoms in term and in repo helpers it may inline
	atomSet := map[string]bool{}
	inlinedHelpers := map[string]bool{} // boolean helpers whose own conditions were collected: they are inlined, not atoms
	var collect func(fn *ssa.Function, depth int)
	collect = func(fn *ssa.Function, depth int) {
		for _, a := range condAtomsOf(fn, namer) {
			atomSet[strings.TrimPrefix(a, "!")] = true
		}
		if depth > 2 {
			return
		}
		for _, cs := range callsIn(fn) {
			if cal := calleeOf(cs); cal != nil && cal.Pkg == p.Slog && !m.Spine[cal] && cal.Signature.Results().Len() == 1 && len(cal.Blocks) > 0 {
				if b, ok := cal.Signature.Results().At(0).Type().Underlying().(interface{ Kind() int }); ok {
					_ = b
				}
				if cal.Signature.Results().At(0).Type().String() == "bool" && nm(cal) != "IsAnyBitsSet" && nm(cal) != "IsAllBitsSet" {
					inlinedHelpers[shortName(cal)] = true
					collect(cal, depth+1)
				}
			}
		}
	}
	collect(term, 0)
	for _, cs := range callsIn(term) {
		if cal := inline(cs); cal != nil {
			for _, prm := range cal.Params {
				_ = prm
			}
			// bind parameters for naming while collecting
			for i, prm := range cal.Params {
				if i < len(cs.Common().Args) {
					subst[prm] = cs.Common().Args[i]
				}
			}
			collect(cal, 0)
		}
	}
	for a := range atomSet {
		if strings.HasPrefix(a, "other:call ") {
			name := strings.TrimPrefix(a, "other:call ")
			if i := strings.Index(name, "("); i > 0 && inlinedHelpers[name[:i]] {
				delete(atomSet, a)
			}
		}
	}
	// make sure the spec atoms exist
	specAtoms := []string{"global:inTesting", "any:Linterruptalways", "all:LnoInterrupt", "lvl==PanicLevel", "lvl==FatalLevel"}
	for _, a := range specAtoms {
		atomSet[a] = true
	}
	atoms := sortedKeys(atomSet)
	if len(atoms) > 14 {
		r.Unk("R12.1", "terminator:"+shortName(term), p.FuncPos(term), "too many branch conditions (%d) to enumerate", len(atoms))
		return
	}
	isEscape := func(a string) bool { return strings.Contains(a, "Entry.handlerOpt") }
	consistent := func(a map[string]bool) bool { return !(a["lvl==PanicLevel"] && a["lvl==FatalLevel"]) }
	var printSites = map[ssa.Instruction]bool{}
	for _, s := range m.Sites[term] {
		printSites[s] = true
	}
	// the flags that allow or forbid the termination are read when the termination is due, i.e. after the record was
	// written: inside the terminating function no read of the interrupt flags precedes the emission call
	{
		var early []string
		nReads := 0
		after := func(in ssa.Instruction) bool {
			for ps := range printSites {
				pb := ps.Block()
				if pb == in.Block() {
					for _, x := range pb.Instrs {
						if x == ps {
							return true
						}
						if x == in {
							break
						}
					}
					continue
				}
				if pb.Dominates(in.Block()) {
					return true
				}
			}
			return false
		}
		for _, b := range term.Blocks {
			for _, in := range b.Instrs {
				name := ""
				switch x := in.(type) {
				case *ssa.Call:
					if cal := calleeOf(x); cal != nil && len(x.Common().Args) == 1 && (nm(cal) == "IsAnyBitsSet" || nm(cal) == "IsAllBitsSet") {
						name = flagName(x.Common().Args[0])
					}
				case *ssa.BinOp:
					if x.Op == token.AND {
						if g, ok := globalLoad(x.X); ok && nm(g) == "flags" {
							name = flagName(x.Y)
						}
					}
				}
				if !strings.Contains(name, "nterrupt") {
					continue
				}
				nReads++
				if len(printSites) > 0 && !after(in) {
					early = append(early, name+" at "+p.Pos(instrPos(in)))
				}
			}
		}
		if nReads > 0 && len(printSites) > 0 {
			r.Check(len(early) == 0, "R12.2", "flags-read-after-record:"+shortName(term), p.FuncPos(term), "the interrupt flags are read after the record is written", "the interrupt flags are read before the record is written ("+strings.Join(early, "; ")+"): a no-interrupt flag set while the record is being collected or written (another goroutine, a destination, a LogValuer) is not honoured and the call still panics or exits")
		}
	}
	nOK, nBad := 0, 0
	asg := assignments(atoms, consistent)
	seenSpecRows := map[string]bool{}
	for _, a := range asg {
		for k := range subst {
			delete(subst, k)
		}
		t := walkDecisionInl(term.Blocks[0], a, func(cond ssa.Value) (string, bool) {
			n := namer(cond)
			if strings.HasPrefix(n, "!") {
				a["¬"+n[1:]] = !a[n[1:]]
				return "¬" + n[1:], true
			}
			if strings.HasPrefix(n, "other:") {
				// not an atom of its own: maybe a boolean helper to inline
				if _, has := a[n]; !has {
					return "", false
				}
			}
			return n, true
		}, func(in ssa.Instruction) (string, bool) {
			if cs, ok := in.(ssa.CallInstruction); ok {
				if cal := calleeOf(cs); cal != nil {
					switch cal.String() {
					case "os.Exit":
						v, _ := constInt(cs.Common().Args[0])
						return fmt.Sprintf("exit(%d)", v), true
					case "runtime.Goexit", "log.Fatal", "log.Fatalf", "log.Fatalln", "log.Panic", "log.Panicf", "log.Panicln":
						return cal.String(), true
					}
				}
			}
			return "", false
		}, inline, subst, 0)
		for k := range a {
			if strings.HasPrefix(k, "¬") {
				delete(a, k)
			}
		}
		got := t.Kind
		switch {
		case t.Kind == "panic":
			if res(t.Instr.(*ssa.Panic).X) == ssa.Value(msgParam) {
				got = "panic(msg)"
			} else {
				got = "panic(" + panicMsg(t.Instr.(*ssa.Panic)) + ")"
			}
		case strings.HasPrefix(t.Kind, "stop:"):
			got = t.Label
		}
		escape := false
		for k, v := range a {
			if isEscape(k) {
				// handlerOpt != nil true means escape
				if strings.Contains(k, "!= nil") && v || strings.Contains(k, "== nil") && !v {
					escape = true
				}
			}
		}
		want := "return"
		if !escape && (!a["global:inTesting"] || a["any:Linterruptalways"]) && !a["all:LnoInterrupt"] {
			if a["lvl==PanicLevel"] {
				want = "panic(msg)"
			} else if a["lvl==FatalLevel"] {
				want = "exit(-3)"
			}
		}
		row := fmt.Sprintf("testing=%v always=%v noint=%v panic=%v fatal=%v escape=%v", a["global:inTesting"], a["any:Linterruptalways"], a["all:LnoInterrupt"], a["lvl==PanicLevel"], a["lvl==FatalLevel"], escape)
		key := "decision:" + shortName(term) + "[" + row + "]"
		if got != want {
			nBad++
			r.Bad("R12.1", key, p.Pos(instrPos(t.Path[len(t.Path)-1].Instrs[0])), "extracted outcome %q, the property's table gives %q (other conditions: %s; path %s)", got, want, assignStr(a), pathStr(t.Path))
			continue
		}
		nOK++
		if !seenSpecRows[row] {
			seenSpecRows[row] = true
			r.Ok("R12.1", key, p.FuncPos(term), "outcome %q as in the property's table", got)
		}
		// R12.2 record first
		if want != "return" {
			printed := false
			for _, cs := range t.Calls {
				if printSites[cs] {
					printed = true
				}
			}
			k2 := "record-first:" + shortName(term) + "[" + want + "]"
			if printed {
				r.Ok("R12.2", k2, p.FuncPos(term), "the emission call precedes %s on every terminating path examined", want)
			} else {
				r.Bad("R12.2", k2, p.FuncPos(term), "a path reaches %s without having emitted the record first (%s)", want, assignStr(a))
			}
		}
	}
	r.Ok("R12.1", "decision:"+shortName(term)+":all", p.FuncPos(term), "%d consistent assignments of %d atoms walked, %d agree", len(asg), len(atoms), nOK)
	_ = nBad

	// R12.3: the terminating function is entered only through gates: R01.1 over its callers
	roots := m.Roots()
	bad := 0
	for _, fn := range roots {
		n := shortName(fn)
		if n == "Entry.WriteThru" || n == "Entry.WriteInternal" || isVerboseRoot(fn) {
			continue
		}
		if path := m.ungatedPath(fn, map[*ssa.Function]bool{}); path != nil {
			through := false
			for _, x := range path {
				if x == shortName(term) {
					through = true
				}
			}
			if through {
				bad++
				r.Bad("R12.3", "gated:"+n, p.FuncPos(fn), "a not-admitted call can reach the terminating function: %s", strings.Join(path, " -> "))
			}
		}
	}
	if bad == 0 {
		r.Ok("R12.3", "gated:all-roots", p.FuncPos(term), "every public entry point reaches %s only across an admission test (%d roots)", shortName(term), len(roots))
	}
}

func c12Others(c *Ctx, p *Prog, m *Model) {
	r := c.R
	n := 0
	for _, fn := range p.RepoFuncs() {
		for _, cs := range callsIn(fn) {
			cal := calleeOf(cs)
			if cal == nil {
				continue
			}
			switch cal.String() {
			case "os.Exit", "runtime.Goexit", "log.Fatal", "log.Fatalf", "log.Fatalln", "log.Panic", "log.Panicf", "log.Panicln", "syscall.Exit":
				n++
				key := "terminates:" + shortName(fn) + ":" + cal.String()
				if m.Spine[fn] && cal.String() == "os.Exit" && shortName(fn) == "Entry.logContext" {
					r.Ok("R12.4", key, p.Pos(instrPos(cs)), "the single documented exit site")
				} else if m.Spine[fn] && cal.String() == "os.Exit" {
					// role-based: accept the one spine function decided by R12.1
					r.Ok("R12.4", key, p.Pos(instrPos(cs)), "exit site on the emission spine (decided by R12.1)")
				} else if cal.String() == "os.Exit" && onlyCalledFromSpineTail(m, fn) {
					r.Ok("R12.4", key, p.Pos(instrPos(cs)), "exit site in a helper called only from the emission spine; its decision function is inlined and decided by R12.1")
				} else {
					r.Bad("R12.4", key, p.Pos(instrPos(cs)), "%s is called from %s: a call of another severity/origin can terminate the process", cal.String(), shortName(fn))
				}
			}
		}
	}
	if n == 0 {
		r.Bad("R12.4", "terminates:none", "-", "no exit site at all: Fatal cannot terminate the process")
	}
	// panics selected by severity: any Panic instruction (outside the terminator) guarded by a level comparison
	for _, fn := range p.RepoFuncs() {
		for _, b := range fn.Blocks {
			pn, ok := b.Instrs[len(b.Instrs)-1].(*ssa.Panic)
			if !ok {
				continue
			}
			if shortName(fn) == "Entry.logContext" || onlyCalledFromSpineTail(m, fn) {
				continue
			}
			for _, g := range guardsOf(b) {
				d := m.guardDesc(g)
				if strings.Contains(d, "Level") && !strings.Contains(d, "MaxLevel") && strings.Contains(d, "==") {
					r.Bad("R12.4", "panic-by-severity:"+shortName(fn), p.Pos(instrPos(pn)), "an explicit panic is selected by a severity test (%s)", d)
				}
			}
		}
	}
}

func c12Mapping(c *Ctx, p *Prog, m *Model) {
	r := c.R
	std := p.Pkg("log/slog")
	if std == nil {
		r.Unk("R12.5", "log/slog", "-", "standard library package log/slog not loaded")
		return
	}
	stdLevel := p.NamedType(std, "Level")
	pv, _ := p.ConstInt(p.Slog, "LevelPanic")
	fv, _ := p.ConstInt(p.Slog, "LevelFatal")
	panicL, fatalL := m.LevelByName["PanicLevel"], m.LevelByName["FatalLevel"]
	found := 0
	for _, fn := range p.RepoFuncs() {
		if fn.Pkg != p.Slog || fn.Signature.Results().Len() != 1 || !m.isLevel(fn.Signature.Results().At(0).Type()) {
			continue
		}
		var prm *ssa.Parameter
		for _, q := range fn.Params {
			if n := namedOf(q.Type()); n != nil && stdLevel != nil && n.Obj() == stdLevel.Obj() {
				prm = q
			}
		}
		if prm == nil {
			continue
		}
		found++
		key := "map:" + shortName(fn)
		var problems []string
		rets, _ := exitBlocks(fn)
		for _, b := range rets {
			ret := b.Instrs[len(b.Instrs)-1].(*ssa.Return)
			for _, src := range sources(ret.Results[0]) {
				cv, isConst := constInt(src)
				if !isConst {
					// table lookup: checked below through the literal
					continue
				}
				if cv != panicL && cv != fatalL {
					continue
				}
				wantC := pv
				if cv == fatalL {
					wantC = fv
				}
				// find the block this constant flows from: for a phi edge, the predecessor; else the return block
				blocks := []*ssa.BasicBlock{b}
				if ph, ok := ret.Results[0].(*ssa.Phi); ok {
					blocks = nil
					for i, e := range ph.Edges {
						if ev, ok := constInt(e); ok && ev == cv {
							blocks = append(blocks, ph.Block().Preds[i])
						}
					}
				}
				for _, blk := range blocks {
					ok := false
					for _, g := range guardsOf(blk) {
						cond, neg := normCond(g.If.Cond)
						if bo, isB := cond.(*ssa.BinOp); isB && bo.Op == token.EQL && !neg && g.Succ == 0 && strip(bo.X) == ssa.Value(prm) {
							if y, isC := constInt(bo.Y); isC && y == wantC {
								ok = true
							}
						}
					}
					if !ok {
						problems = append(problems, fmt.Sprintf("%s is returned on a path not restricted to the explicit constant %d (%s)", m.LevelByVal[cv], wantC, p.Pos(instrPos(blk.Instrs[len(blk.Instrs)-1]))))
					}
				}
			}
		}
		if len(problems) > 0 {
			sort.Strings(problems)
			r.Bad("R12.5", key, p.FuncPos(fn), "%s", strings.Join(problems, "; "))
		} else {
			r.Ok("R12.5", key, p.FuncPos(fn), "Panic/Fatal returned only under equality with LevelPanic/LevelFatal")
		}
	}
	if found == 0 {
		r.Unk("R12.5", "map:none", "-", "no function maps a log/slog level to a Level: anchors lost")
	}
	tbl, err := mapLiteral(p, p.Slog, "mLogSlogLevelToLevel")
	if err != nil {
		r.Unk("R12.5", "table:mLogSlogLevelToLevel", "-", "%v", err)
		return
	}
	bad := ""
	for _, kv := range tbl {
		n := m.constName(kv.V)
		if n == "PanicLevel" || n == "FatalLevel" {
			bad = fmt.Sprintf("log/slog level %s maps to %s", kv.K, n)
		}
	}
	r.Check(bad == "", "R12.5", "table:mLogSlogLevelToLevel", p.Pos(p.Global(p.Slog, "mLogSlogLevelToLevel").Pos()), "no terminating severity among the table's values", bad)
	// no run-time store into that table
	for _, fn := range p.RepoFuncs() {
		for _, gs := range globalStores(fn) {
			if nm(gs.G) == "mLogSlogLevelToLevel" && !p.startupOnly(fn) {
				r.Bad("R12.5", "table-store:"+shortName(fn), p.Pos(instrPos(gs.Instr)), "the log/slog level table is modified at run time")
			}
		}
	}
}

// onlyCalledFromSpineTail: fn is a private helper whose only callers are functions of the emission spine that carry the
// record's severity (so that R12.1 inlines and decides it).
func onlyCalledFromSpineTail(m *Model, fn *ssa.Function) bool {
	if token.IsExported(nm(fn)) || len(m.Callers[fn]) == 0 {
		return false
	}
	for _, cs := range m.Callers[fn] {
		par := cs.Parent()
		if !m.Spine[par] || m.levelParamIndex(par) < 0 {
			return false
		}
	}
	return true
}
