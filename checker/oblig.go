package main

import (
	"encoding/json"
	"fmt"
	"os"
	"path/filepath"
	"sort"
	"strings"
	"time"
)

type Verdict string

const (
	OK        Verdict = "ok"
	Violation Verdict = "violation"
	Undecided Verdict = "undecided"
)

// Obligation is one rule instance decided on the current tree.
type Obligation struct {
	Rule       string  `json:"rule"`
	Construct  string  `json:"construct"` // stable key: function / field / table / call-site role; never a line number
	Pos        string  `json:"pos,omitempty"`
	Verdict    Verdict `json:"verdict"`
	Detail     string  `json:"detail,omitempty"`
	Config     string  `json:"config,omitempty"`
	NonTrivial bool    `json:"nontrivial"` // needed a path / flow / table argument, not a mere existence test
}

func (o *Obligation) Key() string { return o.Rule + "|" + o.Construct }

// Report collects the obligations of one property run.
type Report struct {
	Property    string
	Tier        string
	Seed        int64
	Level       string
	Start       time.Time
	Obls        []*Obligation
	Rules       map[string]string // rule id -> text
	ruleOrder   []string
	Assumptions []string
	Configs     []string
	Funcs       int
	Extra       map[string]any
	cfg         string
}

func NewReport(prop, tier string, seed int64) *Report {
	return &Report{Property: prop, Tier: tier, Seed: seed, Level: "other", Start: time.Now(), Rules: map[string]string{}, Extra: map[string]any{}}
}

func (r *Report) Rule(id, text string) {
	if _, ok := r.Rules[id]; !ok {
		r.ruleOrder = append(r.ruleOrder, id)
	}
	r.Rules[id] = text
}

func (r *Report) Assume(s string) {
	for _, a := range r.Assumptions {
		if a == s {
			return
		}
	}
	r.Assumptions = append(r.Assumptions, s)
}

func (r *Report) add(rule, construct, pos string, v Verdict, nontrivial bool, format string, args ...any) *Obligation {
	o := &Obligation{Rule: rule, Construct: construct, Pos: pos, Verdict: v, Detail: fmt.Sprintf(format, args...), Config: r.cfg, NonTrivial: nontrivial}
	if l := os.Getenv("LOGGCHECK_LIST"); l != "" && strings.HasPrefix(rule, l) {
		fmt.Fprintf(os.Stderr, "LIST %s %s [%s] %v: %s\n", rule, construct, pos, v, o.Detail)
	}
	// the same rule+construct in another configuration: keep the worst verdict
	for _, e := range r.Obls {
		if e.Key() == o.Key() {
			if rank(o.Verdict) > rank(e.Verdict) {
				*e = *o
			} else if e.Config != o.Config && !strings.Contains(e.Config, o.Config) {
				e.Config += "," + o.Config
			}
			return e
		}
	}
	r.Obls = append(r.Obls, o)
	return o
}

func rank(v Verdict) int {
	switch v {
	case Violation:
		return 2
	case Undecided:
		return 1
	}
	return 0
}

func (r *Report) Ok(rule, construct, pos string, format string, args ...any) {
	r.add(rule, construct, pos, OK, true, format, args...)
}
func (r *Report) OkTrivial(rule, construct, pos string, format string, args ...any) {
	r.add(rule, construct, pos, OK, false, format, args...)
}
func (r *Report) Bad(rule, construct, pos string, format string, args ...any) {
	r.add(rule, construct, pos, Violation, true, format, args...)
}
func (r *Report) Unk(rule, construct, pos string, format string, args ...any) {
	r.add(rule, construct, pos, Undecided, true, format, args...)
}

// Check records ok when cond holds, violation otherwise.
func (r *Report) Check(cond bool, rule, construct, pos string, okMsg, badMsg string) bool {
	if cond {
		r.Ok(rule, construct, pos, "%s", okMsg)
	} else {
		r.Bad(rule, construct, pos, "%s", badMsg)
	}
	return cond
}

// ---- known findings ---------------------------------------------------

type KnownFinding struct {
	Property  string `json:"property"`
	Rule      string `json:"rule"`
	Construct string `json:"construct"`
	What      string `json:"what"`
}

type KnownFile struct {
	Findings []KnownFinding `json:"findings"`
	Fixed    []string       `json:"fixed"`
}

func loadKnown(path string) (*KnownFile, error) {
	b, err := os.ReadFile(path)
	if err != nil {
		if os.IsNotExist(err) {
			return &KnownFile{}, nil
		}
		return nil, err
	}
	var k KnownFile
	if err := json.Unmarshal(b, &k); err != nil {
		return nil, err
	}
	return &k, nil
}

// ---- finishing: evidence, replay files, exit status ---------------------

type evidence struct {
	PropertyID  string         `json:"property_id"`
	Tier        string         `json:"tier"`
	Seed        int64          `json:"seed"`
	Level       string         `json:"level"`
	Coverage    map[string]any `json:"coverage"`
	Assumptions []string       `json:"assumptions"`
	WallS       float64        `json:"wall_s"`
	Violations  int            `json:"violations"`
}

// Finish writes evidence and replay files and returns the process exit status.
func (r *Report) Finish(verifDir string, known *KnownFile, floor map[string]int) int {
	sort.SliceStable(r.Obls, func(i, j int) bool {
		if r.Obls[i].Rule != r.Obls[j].Rule {
			return r.Obls[i].Rule < r.Obls[j].Rule
		}
		return r.Obls[i].Construct < r.Obls[j].Construct
	})
	// instance-count floors: a rule matching fewer sites than confirmed by hand must not pass vacuously
	perRule := map[string]int{}
	for _, o := range r.Obls {
		perRule[o.Rule]++
	}
	var floorRules []string
	for k := range floor {
		floorRules = append(floorRules, k)
	}
	sort.Strings(floorRules)
	for _, rule := range floorRules {
		if perRule[rule] < floor[rule] {
			r.cfg = ""
			r.Unk(rule, "instance-floor", "-", "rule matched %d instance(s), fewer than the %d confirmed by hand: the rule may have lost sight of its anchors", perRule[rule], floor[rule])
		}
	}

	evDir := filepath.Join(verifDir, "evidence")
	rpDir := filepath.Join(evDir, "replay")
	_ = os.MkdirAll(rpDir, 0o755)
	// remove stale replay files of this property
	if old, _ := filepath.Glob(filepath.Join(rpDir, r.Property+"-*.json")); old != nil {
		for _, f := range old {
			_ = os.Remove(f)
		}
	}

	nOK, nBad, nUnk, nKnown, nNonTrivial := 0, 0, 0, 0, 0
	var out []string
	distinct := map[string]bool{}
	var samples []any
	sampleRules := map[string]int{}
	nrep := 0
	for _, o := range r.Obls {
		if o.NonTrivial && !distinct[o.Key()] {
			distinct[o.Key()] = true
			nNonTrivial++
		}
		switch o.Verdict {
		case OK:
			nOK++
			if sampleRules[o.Rule] < 2 && len(samples) < 24 {
				sampleRules[o.Rule]++
				samples = append(samples, o)
			}
			continue
		}
		// violation or undecided: known finding?
		matched := false
		if o.Verdict == Violation {
			for _, k := range known.Findings {
				if k.Property == r.Property && k.Rule == o.Rule && k.Construct == o.Construct {
					out = append(out, fmt.Sprintf("KNOWN-FINDING: property=%s %s [%s %s at %s]", r.Property, k.What, o.Rule, o.Construct, o.Pos))
					matched = true
					nKnown++
					break
				}
			}
		}
		if matched {
			samples = append(samples, o)
			continue
		}
		if o.Verdict == Violation {
			nBad++
		} else {
			nUnk++
		}
		nrep++
		rp := filepath.Join(rpDir, fmt.Sprintf("%s-%d.json", r.Property, nrep))
		b, _ := json.MarshalIndent(map[string]any{
			"property": r.Property, "rule": o.Rule, "rule_text": r.Rules[o.Rule], "construct": o.Construct,
			"pos": o.Pos, "verdict": o.Verdict, "detail": o.Detail, "config": o.Config,
		}, "", " ")
		_ = os.WriteFile(rp, append(b, '\n'), 0o644)
		out = append(out, fmt.Sprintf("%s: [%s] %s: %s (%s)", o.Pos, o.Rule, o.Construct, o.Detail, o.Verdict))
		out = append(out, fmt.Sprintf("VIOLATION property=%s replay=%s", r.Property, rp))
		samples = append(samples, o)
	}

	var ruleTexts []string
	for _, id := range r.ruleOrder {
		ruleTexts = append(ruleTexts, id+": "+r.Rules[id])
	}
	cov := map[string]any{
		"explanation":           "Static analysis of /repo's current source (type-checked, SSA form, call graph); nothing is executed. Rules applied: " + strings.Join(ruleTexts, " | "),
		"obligations":           len(r.Obls),
		"discharged":            nOK,
		"violations":            nBad,
		"undecided":             nUnk,
		"known_findings":        nKnown,
		"evaluations":           len(r.Obls),
		"distinct_nontrivial":   nNonTrivial,
		"rule":                  "one obligation per rule instance (entry point, call site, field store, table row, path family); non-trivial = the verdict needed a dominance/path/flow/table argument rather than an existence test; distinct = distinct (rule, construct) pairs",
		"samples":               samples,
		"build_configurations":  r.Configs,
		"repo_functions_loaded": r.Funcs,
		"per_rule_instances":    perRule,
		"checker_cmd":           strings.Join(os.Args, " "),
		"trusted_base":          []string{"go/types and go/ssa of golang.org/x/tools v0.29.0", "the Go toolchain's standard library source as loaded from GOROOT"},
	}
	for k, v := range r.Extra {
		cov[k] = v
	}
	ev := evidence{PropertyID: r.Property, Tier: r.Tier, Seed: r.Seed, Level: r.Level, Coverage: cov,
		Assumptions: r.Assumptions, WallS: time.Since(r.Start).Seconds(), Violations: nBad + nUnk}
	if ev.Assumptions == nil {
		ev.Assumptions = []string{}
	}
	b, _ := json.MarshalIndent(ev, "", " ")
	if err := os.WriteFile(filepath.Join(evDir, r.Property+".json"), append(b, '\n'), 0o644); err != nil {
		fmt.Fprintln(os.Stderr, "cannot write evidence:", err)
		return 2
	}
	fmt.Printf("property=%s tier=%s configs=%v obligations=%d ok=%d violations=%d undecided=%d known=%d wall=%.1fs\n",
		r.Property, r.Tier, r.Configs, len(r.Obls), nOK, nBad, nUnk, nKnown, time.Since(r.Start).Seconds())
	for _, l := range out {
		fmt.Println(l)
	}
	if nBad+nUnk > 0 {
		return 1
	}
	return 0
}
