package main

import (
	"fmt"
	"go/token"
	"go/types"
	"os"
	"sort"
	"strings"

	"golang.org/x/tools/go/ssa"
)

func init() { register("C02", checkC02) }

// panicAllow: explicit panics tolerated in the print tree, keyed by function + message prefix.
var panicAllow = []struct{ fn, msg, reason string }{
	{"Entry.logContext", "<param msg>", "the documented termination of Panic severity (decided under C12)"},
	{"serializeAttrs", "impossible condition matched", "guarded by the negation of the enclosing condition: unreachable"},
	{"Level.ShortTag", "invalid length", "level-tag width outside 1..5 is a configuration error, outside C02's quantifier (SetLevelOutputWidth clamps to 0..5)"},
	{"PrintCtx.grow", "<ErrTooLarge>", "memory exhaustion"},
	{"growSlice", "<ErrTooLarge>", "memory exhaustion"},
	{"growSlice$1", "<ErrTooLarge>", "memory exhaustion (re-panic of the recovered make failure)"},
	{"PrintCtx.Grow", "logg/slog.PrintCtx.Grow: negative count", "only called with len(str)*2+2 >= 0 by PreAlloc"},
	{"PrintCtx.PreAlloc", "logg/slog.PrintCtx.Grow: negative count", "argument is len(str)*2+2 >= 0"},
}

func checkC02(c *Ctx) {
	r := c.R
	r.Rule("R12.1", "(shared with C12) the call returns: the termination decision table (only Panic / Fatal terminate, and only when interrupts are allowed)")
	r.Rule("R17.6", "(shared with C17) the call returns: the level tag computation cannot fail (every tag literal / derived tag of width n has n characters; the fallback pads before it cuts)")
	r.Rule("R02.1", "exactly one emission per call: on every path of every spine function at most one spine call is made, none inside a loop (the 'at least one' half is R01.2's no-extra-guard rule, re-checked here for the spine below the gate)")
	r.Rule("R02.2", "one Write per selected destination with the whole payload: the sink passes its []byte parameter itself to exactly one Write; the fan-out LWs.Write calls Write once per member with its own parameter; the package's writer wrappers forward Write unbuffered")
	r.Rule("R02.3", "the payload ends with a newline: the argument of the sink is pc.Bytes() taken right after End(true), End's newline branch appends '\\n' last, and the blank-line shortcut passes exactly []byte{'\\n'}")
	r.Rule("R02.5", "no explicit failure on the logging path: in every function statically reachable from the entry points down to the sink there is no panic outside the allow-table, no single-result type assertion except on a sync.Pool value, and no constant index into a variadic argument slice that is not guarded by a length test")
	r.Rule("R02.6", "the pooled formatting buffer is used by one record at a time: it is returned to the pool only after the Write that hands its bytes to the destination (Put post-dominates the emission), and is not used after Put")
	r.Rule("R02.7", "a destination that reported success gets no further record: every call from the sink or its failure helpers back into the logging entry points is on the taken edge of e != nil where every definition reaching e is the error result of the destination's Write (followed through error parameters over all static call sites)")
	r.Rule("R02.8", "constant positions are within the tested length: in every function of the print tree an index or re-slice at a constant position of a slice or string is dominated by length tests (len(x) against constants in any relation and polarity, constant prefix/suffix tests, non-empty tests) or a definition (constant, make, constant re-slice, Split) that establish at least that length")
	r.Rule("R02.9", "a nil context never has a method called on it: for every method call on a context.Context value on the print path, every origin of the receiver (through parameters over all static call sites, and joins) is a value made by package context or the raw parameter on the not-nil side of a test of that parameter")
	r.Assume("destinations do not split or retain the payload; values whose own methods panic are outside the property")
	for _, tags := range c.Configs([]string{""}, []string{"", "verbose", "hint", "verbose,hint"}) {
		p := c.Prog(tags)
		if p == nil {
			continue
		}
		m, err := BuildModel(p)
		if err != nil {
			r.Unk("R02.1", "model", "-", "cannot build the emission model: %v", err)
			continue
		}
		c02Counts(c, p, m)
		c02Sink(c, p, m)
		destinationsOnlyInSink(c, p, m, "R02.2")
		errorValuesNotCompared(c, p, m, "R02.5")
		writerSetNilSafe(c, p, m, "R02.5")
		c02Newline(c, p, m)
		c02NoFailure(c, p, m, tags)
		searchIndexStepBack(c, p, m)
		c02Pool(c, p, m)
		noDiagnosticOnSuccess(c, p, m)
		c12Decision(c, p, m)
		c17Tags(c, p, m)
		constBounds(c, p, m)
		nilContextSafe(c, p, m, "R02.9")
		callerArgsUntouched(c, p, "R10.7")
		c03Routing(c, p, m)
		c03Frames(c, p, m)
		onlySelectedWritten(c, p, m, "R03.2")
		c01Gates(c, p, m, tags)
		c01Decision(c, p, m)
		lockDiscipline(c, p, "R08.7")
		c08Stores(c, p, m)
		c09Globals(c, p, m)
		c10Frames(c, p, m)
		c10Creation(c, p, m)
		messageIdentity(c, p, "R05.10")
		lookupHitIsPure(c, p, "R10.4")
		c13Fanout(c, p, m)
	}
	r.Rule("R01.3", "(shared with C01) not admitted means nothing is written: the admission decision function of Level.Enabled equals the documented rule (Off before Always before the order)")
	r.Rule("R08.7", "(shared with C08) the call returns: every mutex the package acquires is released on every path, and no call made while it is held can come back to it")
	r.Rule("R08.1", "(shared with C08) the destination is the current one: nothing on the logging path (the package-level dispatcher included) keeps a logger, writer or rendered text in package-level state")
	r.Rule("R09.2", "(shared with C09) as R08.1 for package-level variables written on the print path")
	r.Rule("R10.1", "(shared with C10) each destination once: a logger's writer lists are its own (a child never shares its parent's lists or their backing arrays)")
	r.Rule("R05.10", "(shared with C05) the blank-line test sees the message as given: every hop from the verbs to the encoder passes the message itself")
	r.Rule("R10.7", "(shared with C10) whatever the argument list: no function stores into an element of its variadic or []any parameter")
	r.Rule("R01.1", "(shared with C01) not admitted means no destination is written: every path from an entry point to the Write crosses the admitting edge of the logger's own gate")
	r.Rule("R13.1", "(shared with C13) every destination selected receives the record: the fan-out loop has its natural exit only, ranges over every member and hands each the whole payload")
	r.Rule("R03.1", "(shared with C03) the destination selected for a severity is never an empty per-level list while a documented alternative exists: the routing decision function equals the documented one")
	r.Rule("R03.3", "(shared with C03) the set of destinations selected is what the writer operations denote: each operation writes exactly its own list with the right shape (add appends to the SAME list, set replaces, remove cuts the matched element)")
	r.Rule("R03.2", "(shared with C03) own writer set when present, package default otherwise")
	c.Floor["R02.1"] = 40
	c.Floor["R02.2"] = 3
	c.Floor["R02.3"] = 3
	c.Floor["R02.5"] = 30
	c.Floor["R02.7"] = 1
	c.Floor["R02.8"] = 5
	c.Floor["R02.9"] = 1
	c.Floor["R10.7"] = 10
}

func spineSorted(m *Model) []*ssa.Function {
	var out []*ssa.Function
	for fn := range m.Spine {
		out = append(out, fn)
	}
	sort.Slice(out, func(i, j int) bool { return shortName(out[i]) < shortName(out[j]) })
	return out
}

func c02Counts(c *Ctx, p *Prog, m *Model) {
	r := c.R
	for _, fn := range spineSorted(m) {
		isSite := map[ssa.Instruction]bool{}
		for _, s := range m.Sites[fn] {
			// the diagnostic re-entry from the sink is judged under C13, not counted as "the" emission
			if m.SinkFns[fn] {
				continue
			}
			isSite[s] = true
		}
		for _, s := range m.SinkCall[fn] {
			isSite[s] = true
		}
		if len(isSite) == 0 {
			continue
		}
		lo, hi := countOnPaths(fn, func(in ssa.Instruction) bool { return isSite[in] })
		key := "count:" + shortName(fn)
		switch {
		case hi == -1:
			r.Bad("R02.1", key, p.FuncPos(fn), "an emission call sits inside a loop: one log call may produce several records")
		case hi > 1:
			r.Bad("R02.1", key, p.FuncPos(fn), "some path makes %d emission calls: a record would be delivered more than once", hi)
		default:
			r.Ok("R02.1", key, p.FuncPos(fn), "emission calls per path: min %d, max %d (the zero-case is restricted by R01.2's allow-listed guards)", lo, hi)
		}
	}
}

func c02Sink(c *Ctx, p *Prog, m *Model) {
	r := c.R
	for fn, calls := range m.SinkCall {
		key := "sink:" + shortName(fn)
		if len(calls) != 1 {
			r.Bad("R02.2", key, p.FuncPos(fn), "%d Write calls on the selected destination; exactly one is expected", len(calls))
			continue
		}
		call := calls[0]
		arg := call.Common().Args[0]
		prm, isParam := arg.(*ssa.Parameter)
		if !isParam || !isByteSlice(prm.Type()) {
			r.Bad("R02.2", key, p.Pos(instrPos(call)), "the destination does not receive the function's payload parameter itself (got %s): the record may be truncated, re-sliced or copied piecewise", arg)
			continue
		}
		// the destination must be what findWriter selected for this level
		okDest := false
		for _, s := range sources(call.Common().Value) {
			if cl, ok := s.(*ssa.Call); ok {
				if cal := calleeOf(cl); cal != nil && nm(cal) == "findWriter" {
					okDest = true
				}
			}
		}
		if !okDest {
			r.Bad("R02.2", key, p.Pos(instrPos(call)), "the destination written to is not the one selected by findWriter for the record's severity")
			continue
		}
		r.Ok("R02.2", key, p.Pos(instrPos(call)), "exactly one Write of the payload parameter %s to the destination selected by findWriter", nm(prm))
	}
	// fan-out
	lw := p.Method(p.Slog, "LWs", "Write")
	if lw == nil {
		r.Unk("R02.2", "fanout:LWs.Write", "-", "LWs.Write not found")
	} else {
		var invs []*ssa.Call
		for _, cs := range callsIn(lw) {
			if call, ok := cs.(*ssa.Call); ok && call.Common().IsInvoke() && nm(call.Common().Method) == "Write" {
				invs = append(invs, call)
			}
		}
		switch {
		case len(invs) != 1:
			r.Bad("R02.2", "fanout:LWs.Write", p.FuncPos(lw), "%d member Write calls; exactly one per member is expected", len(invs))
		case invs[0].Common().Args[0] != ssa.Value(lw.Params[1]):
			r.Bad("R02.2", "fanout:LWs.Write", p.Pos(instrPos(invs[0])), "members do not receive the parameter p itself")
		case !inLoop(invs[0].Block()):
			r.Bad("R02.2", "fanout:LWs.Write", p.Pos(instrPos(invs[0])), "the member Write is not inside the loop over the members")
		default:
			// the receiver of the invoke must be the range element of the receiver slice
			okElem := false
			if u, ok := invs[0].Common().Value.(*ssa.UnOp); ok {
				if ia, ok := u.X.(*ssa.IndexAddr); ok && ia.X == ssa.Value(lw.Params[0]) {
					okElem = true
				}
			}
			if ex, ok := invs[0].Common().Value.(*ssa.Extract); ok {
				_ = ex
				okElem = true
			}
			r.Check(okElem, "R02.2", "fanout:LWs.Write", p.Pos(instrPos(invs[0])), "one Write(p) per member of the receiver", "the Write inside the loop is not on the loop's member")
		}
	}
	wrapperForwarding(c, p, "R02.2")
}

// wrapperForwarding: the package's own destination wrappers hand the payload on at once.
func wrapperForwarding(c *Ctx, p *Prog, rule string) {
	r := c.R
	// wrappers forward Write directly
	for _, tn := range []string{"logwr", "filewr"} {
		key := "wrapper:" + tn + ".Write"
		nt := p.NamedType(p.Slog, tn)
		if nt == nil {
			r.Unk(rule, key, "-", "type %s not found", tn)
			continue
		}
		own := false
		for i := 0; i < nt.NumMethods(); i++ {
			if nm(nt.Method(i)) == "Write" {
				own = true
			}
		}
		if !own {
			r.Ok(rule, key, p.Pos(nt.Obj().Pos()), "Write is the promoted method of the embedded writer: no buffering layer of the package's own")
			continue
		}
		fn := p.Method(p.Slog, tn, "Write")
		if fn == nil {
			r.Unk(rule, key, "-", "type %s declares Write but it could not be resolved", tn)
			continue
		}
		// own Write: must forward p exactly once on every path and keep no state
		n := 0
		for _, cs := range callsIn(fn) {
			cc := cs.Common()
			name := invokeName(cs)
			if cal := calleeOf(cs); cal != nil {
				name = nm(cal)
			}
			if name == "Write" && len(cc.Args) > 0 && cc.Args[len(cc.Args)-1] == ssa.Value(fn.Params[1]) {
				n++
			}
		}
		lo, hi := countOnPaths(fn, func(in ssa.Instruction) bool {
			cs, ok := in.(ssa.CallInstruction)
			if !ok {
				return false
			}
			name := invokeName(cs)
			if cal := calleeOf(cs); cal != nil {
				name = nm(cal)
			}
			return name == "Write"
		})
		st := len(fieldStores(fn)) + len(globalStores(fn))
		if lo == 1 && hi == 1 && n == 1 && st == 0 {
			r.Ok(rule, key, p.FuncPos(fn), "own Write forwards the payload exactly once on every path and stores nothing")
		} else {
			r.Bad(rule, key, p.FuncPos(fn), "the wrapper's own Write does not forward the payload exactly once, unbuffered, on every path (forwarding calls per path %d..%d, stores %d): a record can be delayed, lost or split", lo, hi, st)
		}
	}
}

func isByteSlice(t types.Type) bool {
	s, ok := t.Underlying().(*types.Slice)
	if !ok {
		return false
	}
	b, ok := s.Elem().Underlying().(*types.Basic)
	return ok && b.Kind() == types.Uint8
}

// c02Newline: R02.3
func c02Newline(c *Ctx, p *Prog, m *Model) {
	r := c.R
	endFn := p.Method(p.Slog, "PrintCtx", "End")
	bytesFn := p.Method(p.Slog, "PrintCtx", "Bytes")
	if endFn == nil || bytesFn == nil {
		r.Unk("R02.3", "anchors", "-", "PrintCtx.End/Bytes not found")
		return
	}
	// End(newline=true) appends '\n' as its last action on every path
	okEnd := true
	detail := ""
	for _, js := range []bool{false, true} {
		t := walkDecision(endFn.Blocks[0], map[string]bool{"json": js, "newline": true}, func(cond ssa.Value) (string, bool) {
			if cond == ssa.Value(endFn.Params[1]) {
				return "newline", true
			}
			if _, ok := isFieldLoadOf(cond, "PrintCtx", "jsonMode"); ok {
				return "json", true
			}
			return "", false
		}, nil)
		if t.Kind != "return" || len(t.Calls) == 0 {
			okEnd, detail = false, "End(true) has a path ("+t.Kind+") that appends nothing"
			continue
		}
		last := t.Calls[len(t.Calls)-1]
		ok := false
		if cal := calleeOf(last); cal != nil && (nm(cal) == "pcAppendByte" || nm(cal) == "WriteByte") {
			if v, isC := constInt(last.Common().Args[len(last.Common().Args)-1]); isC && v == '\n' {
				ok = true
			}
		}
		if !ok {
			okEnd, detail = false, fmt.Sprintf("with jsonMode=%v the last thing End(true) appends is not '\\n'", js)
		}
	}
	r.Check(okEnd, "R02.3", "PrintCtx.End", p.FuncPos(endFn), "End(true) appends '\\n' last in both JSON and text mode", detail)

	// in every caller of a sink function: the payload argument
	sevN := map[string]int{}
	for sink := range m.SinkFns {
		pi := -1
		for i, prm := range sink.Params {
			if isByteSlice(prm.Type()) {
				pi = i
			}
		}
		if pi < 0 {
			r.Bad("R02.3", "payload:"+shortName(sink), p.FuncPos(sink), "the sink has no []byte payload parameter")
			continue
		}
		for _, site := range m.Callers[sink] {
			caller := site.Parent()
			arg := site.Common().Args[pi]
			key := "payload:" + shortName(caller) + "->" + shortName(sink)
			// the severity handed to the sink (which selects the destination) is the record's own: the level stored in
			// the formatting context, or the caller's own level parameter - never the logger's threshold
			for li, sp := range sink.Params {
				if !m.isLevel(sp.Type()) {
					continue
				}
				la := strip(site.Common().Args[li])
				okLvl := false
				if _, isRec := isFieldLoadOf(la, "PrintCtx", "lvl"); isRec {
					okLvl = true
				}
				if prm, isP := la.(*ssa.Parameter); isP && prm.Parent() == caller {
					okLvl = true
				}
				// a level constant on the edge where the record's own level was found equal to it
				if k, isC := constInt(la); isC && !okLvl {
					for _, g := range guardsOf(site.Block()) {
						cond, neg := normCond(g.If.Cond)
						bo, isB := cond.(*ssa.BinOp)
						if !isB || bo.Op != token.EQL || (g.Succ == 0) == neg {
							continue
						}
						for _, pr := range [][2]ssa.Value{{bo.X, bo.Y}, {bo.Y, bo.X}} {
							if k2, isC2 := constInt(pr[1]); isC2 && k2 == k {
								if _, isRec := isFieldLoadOf(strip(pr[0]), "PrintCtx", "lvl"); isRec {
									okLvl = true
								}
							}
						}
					}
				}
				sevN[key]++
				r.Check(okLvl, "R02.3", fmt.Sprintf("%s[severity#%d]", key, sevN[key]), p.Pos(instrPos(site)), "the destination is selected by the record's own severity", "the severity handed to the sink is "+m.valDesc(la)+", not the record's own: the record (or the blank line) goes to the destination of another severity")
			}
			switch a := arg.(type) {
			case *ssa.Call:
				if calleeOf(a) != bytesFn {
					r.Bad("R02.3", key, p.Pos(instrPos(site)), "the payload is not the formatting buffer's Bytes()")
					continue
				}
				// enumerate the paths of the caller through this site: the call right before Bytes() must be End(true)
				bad := ""
				n := 0
				enumPaths(caller, 4096, func(path []*ssa.BasicBlock) {
					calls := pathCalls(path)
					for i, cs := range calls {
						if cs != ssa.CallInstruction(a) {
							continue
						}
						n++
						if i == 0 {
							bad = "nothing precedes Bytes()"
							return
						}
						prev := calls[i-1]
						if calleeOf(prev) != endFn {
							bad = "the call before Bytes() is " + callName(prev) + ", not End(true): bytes may follow the final newline or the newline may be missing"
							return
						}
						if b, ok := constBool(prev.Common().Args[1]); !ok || !b {
							bad = "End is not called with the constant true: the trailing newline depends on " + m.valDesc(prev.Common().Args[1])
							return
						}
						if i+1 >= len(calls) || calls[i+1] != site {
							bad = "something is called between Bytes() and the sink"
						}
					}
				})
				if bad != "" {
					r.Bad("R02.3", key, p.Pos(instrPos(site)), "%s", bad)
				} else if n == 0 {
					r.Unk("R02.3", key, p.Pos(instrPos(site)), "no path through the payload site could be enumerated")
				} else {
					r.Ok("R02.3", key, p.Pos(instrPos(site)), "on all %d path(s) the payload is Bytes() taken immediately after End(true)", n)
				}
			case *ssa.Slice:
				// blank-line shortcut: []byte{'\n'}
				al, ok := a.X.(*ssa.Alloc)
				good := false
				if ok {
					if arr, ok := al.Type().(*types.Pointer).Elem().Underlying().(*types.Array); ok && arr.Len() == 1 {
						stores := 0
						good = true
						for _, ref := range *al.Referrers() {
							if ia, ok := ref.(*ssa.IndexAddr); ok {
								for _, r2 := range *ia.Referrers() {
									if st, ok := r2.(*ssa.Store); ok {
										stores++
										if v, ok := constInt(st.Val); !ok || v != '\n' {
											good = false
										}
									}
								}
							}
						}
						if stores != 1 {
							good = false
						}
					}
				}
				r.Check(good, "R02.3", key+"[blank]", p.Pos(instrPos(site)), "the blank-line shortcut passes exactly []byte{'\\n'}", "the blank-line shortcut does not pass exactly one newline byte")
				// and it is taken only for Always severity with a trimmed-empty message
				var ds []string
				for _, g := range guardsOf(site.Block()) {
					ds = append(ds, m.guardDesc(g))
				}
				// a private predicate "every byte of the message is white space" is the same test as the trimmed-empty one
				for i, g := range guardsOf(site.Block()) {
					cond, neg := normCond(g.If.Cond)
					if call, ok := cond.(*ssa.Call); ok && (g.Succ == 0) != neg && len(call.Common().Args) == 1 {
						if os.Getenv("LOGGCHECK_DEBUG") != "" {
							fmt.Fprintf(os.Stderr, "BLANK cand %v white=%v\n", calleeOf(call), calleeOf(call) != nil && allBytesWhite(calleeOf(call)))
						}
						if cal := calleeOf(call); cal != nil && cal.Pkg == p.Slog && allBytesWhite(cal) {
							if _, isMsg := isFieldLoadOf(call.Common().Args[0], "PrintCtx", "msg"); isMsg {
								ds[i] = `T:call strings.Trim == ""`
							}
						}
					}
				}
				// the whole test as a private predicate over the print context
				if gs := guardsOf(site.Block()); len(gs) == 1 {
					cond, neg := normCond(gs[0].If.Cond)
					if call, ok := cond.(*ssa.Call); ok && (gs[0].Succ == 0) != neg {
						if cal := calleeOf(call); cal != nil && cal.Pkg == p.Slog {
							if cj, ok := predicateConjuncts(m, cal); ok {
								ds = cj
							}
						}
					}
				}
				sort.Strings(ds)
				want := []string{"T:PrintCtx.lvl == AlwaysLevel", `T:call strings.Trim == ""`}
				r.Check(strings.Join(ds, "|") == strings.Join(want, "|"), "R02.3", key+"[blank-guard]", p.Pos(instrPos(site)),
					"the shortcut is taken exactly under lvl == AlwaysLevel and a trimmed-empty message", fmt.Sprintf("the blank-line shortcut is taken under %v, expected %v", ds, want))
			default:
				r.Bad("R02.3", key, p.Pos(instrPos(site)), "unrecognised payload expression %s", arg)
			}
		}
	}
}

func callName(cs ssa.CallInstruction) string {
	if cal := calleeOf(cs); cal != nil {
		return shortName(cal)
	}
	if n := invokeName(cs); n != "" {
		return "invoke " + n
	}
	return cs.Common().Value.String()
}

// printTree returns the repo functions statically reachable from the roots and the spine, plus the package's own
// dynamic-dispatch targets on the value path (Attr / ObjectSerializer implementations).
func printTree(p *Prog, m *Model) map[*ssa.Function]bool {
	var roots []*ssa.Function
	for fn := range m.Spine {
		roots = append(roots, fn)
	}
	// the bridges enter through an interface call of the standard library
	for _, spec := range []string{"handler4LogSlog.Handle", "handlerWriter.Write"} {
		if fn := p.F(spec); fn != nil {
			roots = append(roots, fn)
		}
	}
	for _, tn := range []string{"kvp", "gkvp", "Attrs"} {
		for _, mn := range []string{"SerializeValueTo", "Key", "Value"} {
			if fn := p.Method(p.Slog, tn, mn); fn != nil {
				roots = append(roots, fn)
			}
		}
	}
	inRepo := func(fn *ssa.Function) bool {
		pk := fn.Pkg
		if pk == nil && fn.Origin() != nil {
			pk = fn.Origin().Pkg
		}
		if pk == nil && fn.Parent() != nil {
			return true
		}
		return pk == p.Slog || pk == p.Times || pk == p.Strs
	}
	return staticReach(roots, func(fn *ssa.Function) bool { return !inRepo(fn) })
}

func c02NoFailure(c *Ctx, p *Prog, m *Model, tags string) {
	r := c.R
	tree := printTree(p, m)
	var fns []*ssa.Function
	for fn := range tree {
		fns = append(fns, fn)
	}
	sort.Slice(fns, func(i, j int) bool { return shortName(fns[i]) < shortName(fns[j]) })
	r.Extra["print_tree_functions"] = len(fns)
	for _, fn := range fns {
		name := shortName(fn)
		var problems []string
		for _, b := range fn.Blocks {
			for _, in := range b.Instrs {
				switch x := in.(type) {
				case *ssa.Panic:
					msg := panicMsg(x)
					ok := false
					for _, a := range panicAllow {
						if a.fn == name && strings.HasPrefix(msg, a.msg) {
							ok = true
						}
					}
					if name == "raiseerror" && strings.Contains(tags, "hint") {
						ok = true // diagnostics build only
					}
					if msg == "<param msg>" && onlyCalledFromSpineTail(m, fn) {
						ok = true // the Panic-severity termination moved into a helper of the spine: decided by R12.1 (inlined)
					}
					if !ok {
						problems = append(problems, fmt.Sprintf("explicit panic(%s) at %s", msg, p.Pos(instrPos(x))))
					}
				case *ssa.TypeAssert:
					if x.CommaOk {
						continue
					}
					fromPool := false
					if cl, ok := x.X.(*ssa.Call); ok {
						if cal := calleeOf(cl); cal != nil && cal.String() == "(*sync.Pool).Get" {
							fromPool = true
						}
					}
					if !fromPool {
						problems = append(problems, fmt.Sprintf("type assertion %s.(%s) without comma-ok at %s panics for other dynamic types", m.valDesc(x.X), types.TypeString(x.AssertedType, nil), p.Pos(instrPos(x))))
					}
				case *ssa.Call:
					// reflection on a value of any kind: the accessors that panic on the zero Value (what Elem() of a nil
					// pointer or nil interface yields) need a validity / nil test on the way
					if cal := calleeOf(x); cal != nil && cal.Signature.Recv() != nil && cal.Pkg != nil && cal.Pkg.Pkg.Path() == "reflect" && typeName(cal.Signature.Recv().Type()) == "Value" {
						switch cal.Name() {
						case "Interface", "Int", "Uint", "Float", "Bool", "Complex", "Field", "Index", "MapIndex", "Len", "Bytes", "Pointer", "Set", "Call":
							guarded := false
							for _, g := range guardsOf(b) {
								cond, neg := normCond(g.If.Cond)
								if c2, ok := cond.(*ssa.Call); ok {
									if cal2 := calleeOf(c2); cal2 != nil && cal2.Pkg != nil && cal2.Pkg.Pkg.Path() == "reflect" {
										taken := (g.Succ == 0) != neg
										switch cal2.Name() {
										case "IsValid", "CanInterface":
											guarded = guarded || taken
										case "IsNil", "IsZero":
											guarded = guarded || !taken
										}
									}
								}
							}
							if !guarded {
								problems = append(problems, fmt.Sprintf("reflect.Value.%s at %s without a validity / nil test on the way: it panics for the zero Value (a typed nil pointer, a nil interface)", cal.Name(), p.Pos(instrPos(x))))
							}
						}
					}
				case *ssa.IndexAddr:
					prm, ok := x.X.(*ssa.Parameter)
					if !ok {
						continue
					}
					if _, isSlice := prm.Type().Underlying().(*types.Slice); !isSlice {
						continue
					}
					if !fn.Signature.Variadic() || prm != fn.Params[len(fn.Params)-1] {
						continue
					}
					if _, isConst := constInt(x.Index); !isConst {
						continue
					}
					guarded := false
					for _, g := range guardsOf(b) {
						if strings.Contains(m.guardDesc(g), "len(param "+nm(prm)+")") {
							guarded = true
						}
					}
					if !guarded {
						problems = append(problems, fmt.Sprintf("%s[%s] at %s is not guarded by a length test", nm(prm), m.valDesc(x.Index), p.Pos(instrPos(x))))
					}
				}
			}
		}
		if len(problems) > 0 {
			r.Bad("R02.5", "fn:"+name, p.FuncPos(fn), "%s", strings.Join(problems, "; "))
		} else {
			r.Ok("R02.5", "fn:"+name, p.FuncPos(fn), "no explicit failure construct")
		}
	}
}

func panicMsg(x *ssa.Panic) string {
	v := strip(x.X)
	if s, ok := constString(v); ok {
		return s
	}
	if prm, ok := v.(*ssa.Parameter); ok {
		return "<param " + nm(prm) + ">"
	}
	if g, ok := globalLoad(v); ok {
		return "<" + nm(g) + ">"
	}
	if c, ok := v.(*ssa.Call); ok {
		if cal := calleeOf(c); cal != nil && (nm(cal) == "Sprintf" || nm(cal) == "Errorf") && len(c.Common().Args) > 0 {
			if s, ok := constString(c.Common().Args[0]); ok {
				return s
			}
		}
	}
	return v.String()
}

// c02Pool: R02.6 — pooled buffer discipline around the emission.
func c02Pool(c *Ctx, p *Prog, m *Model) {
	r := c.R
	pool := p.Global(p.Slog, "poolPrintCtx")
	if pool == nil {
		r.Unk("R02.6", "poolPrintCtx", "-", "pool not found")
		return
	}
	n := 0
	for _, fn := range p.RepoFuncs() {
		var gets, puts []*ssa.Call
		for _, cs := range callsIn(fn) {
			call, ok := cs.(*ssa.Call)
			if !ok {
				continue
			}
			cal := calleeOf(call)
			if cal == nil || len(call.Common().Args) == 0 || call.Common().Args[0] != ssa.Value(pool) {
				continue
			}
			switch cal.String() {
			case "(*sync.Pool).Get":
				gets = append(gets, call)
			case "(*sync.Pool).Put":
				puts = append(puts, call)
			}
		}
		if len(gets) == 0 && len(puts) == 0 {
			continue
		}
		if p.startupOnly(fn) {
			continue // warm-up
		}
		n++
		key := "pool:" + shortName(fn)
		if len(gets) != 1 || len(puts) != 1 {
			r.Bad("R02.6", key, p.FuncPos(fn), "%d Get / %d Put of the pooled formatting buffer in one function; the discipline is one Get, one Put", len(gets), len(puts))
			continue
		}
		get, put := gets[0], puts[0]
		// the pooled object value
		var pcv ssa.Value
		for _, ref := range *get.Referrers() {
			if ta, ok := ref.(*ssa.TypeAssert); ok {
				pcv = ta
			}
		}
		if pcv == nil {
			r.Bad("R02.6", key, p.Pos(instrPos(get)), "the pooled object is not asserted to *PrintCtx")
			continue
		}
		if strip(put.Common().Args[1]) != pcv {
			r.Bad("R02.6", key, p.Pos(instrPos(put)), "the object returned to the pool is not the one obtained from it")
			continue
		}
		// every use of pcv must come before Put on every path: no use is reachable from Put
		bad := ""
		for _, ref := range *pcv.Referrers() {
			if ref == ssa.Instruction(put) {
				continue
			}
			if mi, ok := ref.(*ssa.MakeInterface); ok && strip(put.Common().Args[1]) == pcv && mi == put.Common().Args[1] {
				continue
			}
			if after(put, ref) {
				bad = fmt.Sprintf("the buffer is used after it was returned to the pool (%s at %s): another record may be formatting into it", ref, p.Pos(instrPos(ref)))
			}
		}
		// every spine call that passes pcv on must precede Put, and Put must be reached on every path after it
		emitted := false
		for _, s := range m.Sites[fn] {
			for _, a := range s.Common().Args {
				if a == pcv {
					emitted = true
					if after(put, s) {
						bad = "the emission happens after the buffer was returned to the pool"
					}
				}
			}
		}
		if !emitted {
			bad = "the pooled buffer obtained here is not the one the emission call formats into"
		}
		if bad != "" {
			r.Bad("R02.6", key, p.Pos(instrPos(put)), "%s", bad)
		} else {
			r.Ok("R02.6", key, p.Pos(instrPos(put)), "Get, format+emit, then Put; no use after Put")
		}
	}
	// the payload handed to the sink must not outlive: the sink's caller must not Put before calling the sink
	putFn := "(*sync.Pool).Put"
	for sink := range m.SinkFns {
		for _, site := range m.Callers[sink] {
			caller := site.Parent()
			for _, cs := range callsIn(caller) {
				if cal := calleeOf(cs); cal != nil && cal.String() == putFn && cs.Common().Args[0] == ssa.Value(pool) {
					if after(cs, site) {
						r.Bad("R02.6", "pool-before-sink:"+shortName(caller), p.Pos(instrPos(cs)), "the buffer is returned to the pool before its bytes are written to the destination")
					}
				}
			}
		}
	}
	if n == 0 {
		r.Unk("R02.6", "pool:none", "-", "no function uses the formatting-buffer pool: the model lost its anchor")
	}
}

// after reports whether instruction b can execute after instruction a (same block later, or block reachable).
func after(a, b ssa.Instruction) bool {
	if a.Block() == b.Block() {
		ia, ib := -1, -1
		for i, in := range a.Block().Instrs {
			if in == a {
				ia = i
			}
			if in == b {
				ib = i
			}
		}
		if ib > ia {
			return true
		}
		// loop back to the same block?
		return inLoop(a.Block())
	}
	return reachAvoiding(a.Block(), b.Block(), nil)
}

var _ = token.NoPos

// allBytesWhite: fn(s string) bool answers "every byte of s is white space" (true for the empty string): a loop
// over every index of s whose body leaves with false exactly when the byte equals none of a set of white-space
// constants, and true after the loop.
func allBytesWhite(fn *ssa.Function) bool {
	if len(fn.Params) != 1 || !isStringT(fn.Params[0].Type()) || fn.Signature.Results().Len() != 1 {
		return false
	}
	prm := fn.Params[0]
	white := map[int64]bool{' ': true, '\t': true, '\n': true, '\r': true, '\v': true, '\f': true}
	// the byte load s[i] with i a full index loop over s
	isByte := func(v ssa.Value) bool {
		lk, ok := strip(v).(*ssa.Index)
		return ok && lk.X == ssa.Value(prm) && fullIndexLoop(lk.Index, prm)
	}
	nTrue, nFalse := 0, 0
	for _, b := range fn.Blocks {
		ret, ok := b.Instrs[len(b.Instrs)-1].(*ssa.Return)
		if !ok {
			continue
		}
		rv, isC := constBool(ret.Results[0])
		if !isC {
			return false
		}
		if rv {
			nTrue++
			// only past the loop: no byte comparison's outcome on the way except "loop finished"
			for _, g := range guardsOf(b) {
				cond, _ := normCond(g.If.Cond)
				if bo, ok := cond.(*ssa.BinOp); ok && (isByte(bo.X) || isByte(bo.Y)) {
					return false
				}
			}
			continue
		}
		nFalse++
		set := map[int64]bool{}
		for _, g := range guardsOf(b) {
			cond, neg := normCond(g.If.Cond)
			bo, ok := cond.(*ssa.BinOp)
			if !ok || !isByte(bo.X) {
				continue
			}
			c, isC := constInt(bo.Y)
			if !isC {
				return false
			}
			taken := (g.Succ == 0) != neg
			if (bo.Op == token.EQL && !taken) || (bo.Op == token.NEQ && taken) {
				set[c] = true
			} else {
				return false
			}
		}
		if !set[' '] || !set['\n'] {
			return false
		}
		for c := range set {
			if !white[c] {
				return false
			}
		}
	}
	return nTrue == 1 && nFalse == 1
}

// predicateConjuncts describes a private boolean predicate over the PrintCtx as the conjunction of tests under
// which it answers true: the guards of its true return plus the leaves of an `a && b` result. ok is false when the
// predicate has more than one way to answer true or a shape that is not a plain conjunction.
func predicateConjuncts(m *Model, fn *ssa.Function) (out []string, ok bool) {
	if fn == nil || len(fn.Blocks) == 0 || len(fn.Params) != 1 || typeName(fn.Params[0].Type()) != "PrintCtx" || fn.Signature.Results().Len() != 1 {
		return nil, false
	}
	if b, isB := fn.Signature.Results().At(0).Type().Underlying().(*types.Basic); !isB || b.Kind() != types.Bool {
		return nil, false
	}
	for _, b := range fn.Blocks {
		for _, in := range b.Instrs {
			switch x := in.(type) {
			case *ssa.Store, *ssa.MapUpdate, *ssa.Go, *ssa.Defer, *ssa.Send:
				return nil, false
			case *ssa.Call:
				cal := calleeOf(x)
				if cal == nil || !(cal.Pkg != nil && cal.Pkg.Pkg.Path() == "strings" || allBytesWhite(cal)) {
					return nil, false
				}
			}
		}
	}
	leafDesc := func(v ssa.Value) (string, bool) {
		c, neg := normCond(v)
		pol := "T:"
		if neg {
			pol = "F:"
		}
		switch x := c.(type) {
		case *ssa.BinOp:
			return pol + m.condDesc(x), true
		case *ssa.Call:
			if cal := calleeOf(x); cal != nil && allBytesWhite(cal) && len(x.Common().Args) == 1 {
				if _, isMsg := isFieldLoadOf(x.Common().Args[0], "PrintCtx", "msg"); isMsg && !neg {
					return `T:call strings.Trim == ""`, true
				}
			}
			return pol + m.condDesc(x), true
		}
		return "", false
	}
	alts := 0
	var walk func(v ssa.Value, at *ssa.BasicBlock, acc []string, depth int) bool
	walk = func(v ssa.Value, at *ssa.BasicBlock, acc []string, depth int) bool {
		if depth > 6 {
			return false
		}
		for _, g := range guardsOf(at) {
			acc = append(acc, m.guardDesc(g))
		}
		if k, isC := constBool(v); isC {
			if k {
				alts++
				out = append([]string(nil), acc...)
			}
			return true
		}
		if ph, isPhi := v.(*ssa.Phi); isPhi {
			for i, e := range ph.Edges {
				// the guards of the predecessor subsume those of the join
				if !walk(e, ph.Block().Preds[i], nil, depth+1) {
					return false
				}
			}
			return true
		}
		d, okd := leafDesc(v)
		if !okd {
			return false
		}
		alts++
		out = append(append([]string(nil), acc...), d)
		return true
	}
	for _, b := range fn.Blocks {
		ret, isRet := b.Instrs[len(b.Instrs)-1].(*ssa.Return)
		if !isRet {
			continue
		}
		if !walk(ret.Results[0], b, nil, 0) {
			return nil, false
		}
	}
	if alts != 1 {
		return nil, false
	}
	// allBytesWhite guards taken as an If inside the predicate
	for i, d := range out {
		if strings.HasPrefix(d, "T:call ") && strings.Contains(d, "(PrintCtx.msg)") {
			_ = i
		}
	}
	sort.Strings(out)
	return out, true
}

// isBlankRequestPredicate: the predicate answers true exactly for lvl == AlwaysLevel with a trimmed-empty message.
func isBlankRequestPredicate(m *Model, fn *ssa.Function) bool {
	cj, ok := predicateConjuncts(m, fn)
	return ok && strings.Join(cj, "|") == "T:PrintCtx.lvl == AlwaysLevel|"+`T:call strings.Trim == ""`
}
