package main

import (
	"fmt"
	"go/constant"
	"go/token"
	"go/types"
	"sort"
	"strings"

	"golang.org/x/tools/go/ssa"
)

func checkC05(c *Ctx) {
	r := c.R
	r.Rule("R07.1", "(shared with C07) one member per attribute with its own value: in argsToAttrs the pending-key test is the first decision of a round and a pending key takes the next element as its value whatever it is")
	r.Rule("R07.2", "(shared with C07) every attribute with its own value: the collection order (context, ancestors outermost first, own, call site) decides which of two equal keys is printed")
	r.Rule("R05.12", "every attribute is printed: the loop of serializeAttrs over the member list has its natural exit only; a break or return from the body drops every member after that point")
	r.Rule("R05.1", "every attribute keeps its key: in the member loop the branch that skips printing an element's key is controlled only by facts about THIS element (its own group assertion), never by a value carried across loop iterations")
	r.Rule("R05.2", "string-like values are quoted: in logfmt mode (mode bits pruned, testing/debug dump excluded) no site copies message, value, error text, fallback formatting or the logger name into the record verbatim; only keys (legal-key domain), strconv/time output and user marshaller output are written raw")
	r.Rule("R05.8", "value fidelity (necessary for 'parses back to its exact value'): as R04.8, in logfmt mode")
	r.Rule("R05.10", "the message is handed on as given: from the verbs down to the encoder's message field every hop passes its message parameter itself; no hop passes a value computed from it (re-sliced, trimmed, concatenated or merged at a join)")
	r.Rule("R02.6", "(shared with C02) the pooled formatting context is returned to the pool by the normal path only, after the Write, and not used afterwards: a context put back by a deferred call after a panic inside a value's own method carries the half-built state (group prefix, colours) into the records that follow")
	r.Rule("R05.11", "pair grammar of the fixed members: over every mode-feasible path of the printers of time, logger, level, msg and caller no two pairs follow each other without a separator, no separator follows a separator or an opening brace or precedes a closing one, whatever flags decide which parts are printed")
	r.Rule("R05.9", "every attribute under its own key: the de-duplication of a member list merges two attributes only when their Key() strings are equal (its equality function returns nothing but a.Key() == b.Key(), identity of the two values, or a constant)")
	r.Rule("R01.1", "(shared with C01) the level pair is the severity of the verb called: every verb emits at the severity it gates on")
	r.Rule("R11.1", "(shared with C11) SetColorMode(false) selects logfmt whatever the logger's earlier mode: the mode setters' effect tables")
	r.Rule("R07.3", "(shared with C07) among equal keys the last one given wins: stable sort, consistent comparator")
	r.Rule("R09.2", "(shared with C09) every attribute under its own key: no dotted key, number or text rendered for one record is kept in package-level state (an interning table) for another")
	r.Rule("R02.8", "(shared with C02) hand-written formatters stay inside their scratch tables")
	r.Rule("R16.2", "(shared with C16) the time member identifies the instant: layout decision and layout table (no 12-hour clock without AM/PM, zone printed)")
	r.Rule("R19.1", "(shared with C19) the record is the bytes the encoder appended: the write side of the formatting buffer is isomorphic to bytes.Buffer")
	r.Rule("R15.3", "(shared with C15) attributes arriving through the log/slog handler keep key and value: each kind arm hands on the key and the value read with the accessor of its own kind, groups nested, LogValuers resolved")
	r.Rule("R15.4", "(shared with C15) every attribute under its own key with its own value: handlers derived for log/slog own a fresh copy of the bound field list")
	r.Rule("R02.3", "(shared with C02) every record is one line of pairs: the only payload that is not the finished buffer is the blank line of Print/Println, taken exactly for lvl == AlwaysLevel with a blank message")
	r.Rule("R08.1", "(shared with C08) what a record says was logged by this call: nothing on the print path writes memory that outlives the call other than the pooled objects of this call")
	r.Rule("R08.2", "(shared with C08) attribute lists that are sorted/compacted in place or appended to belong to this call, never to a logger, handler, group or caller")
	r.Rule("R05.3", "the quoting routine is strconv.Unquote-compatible: in non-JSON mode appendQuotedString produces its output only through appendQuotedWith with the double quote; appendQuotedWith appends nothing but the quote byte, \\xHH of an invalid byte and the result of appendEscapedRune; appendEscapedRune copies a rune verbatim only under an IsPrint/graphic test and otherwise emits only escapes strconv.Unquote accepts")
	r.Rule("R05.4", "one line in production: with the testing/debug flags off, the only constant containing a line break that logfmt mode can emit is the one End(true) writes")
	r.Rule("R05.5", "dotted group keys: members of a group are printed under DotPrefix(member key, enclosing prefix), the prefix is set to the group's key while its value is rendered and restored afterwards (R09.1's save/restore invariant, shared)")
	r.Rule("R05.6", "field order: time, logger, level, msg, attributes, caller")
	r.Rule("R05.7", "no pooled encoder field is read stale in logfmt mode (engine E10): material formatted for a previous record cannot surface in the line")
	r.Assume("attribute keys are legal logfmt keys (the property's domain); user marshallers are outside the domain")
	r.Assume("value exactness after parsing is not decided (value-level)")
	mode := Mode{false, true}
	for _, tags := range c.Configs([]string{""}, []string{"", "verbose"}) {
		p := c.Prog(tags)
		if p == nil {
			continue
		}
		m, err := BuildModel(p)
		if err != nil {
			r.Unk("R05.2", "model", "-", "%v", err)
			continue
		}
		mr := emissionCommon(c, p, m, mode, "R05.2")
		c05Keys(c, p, m, mr)
		c05Quoting(c, p, m, mr)
		valueFidelity(c, p, m, mr, "R05.8")
		elementsSamePrinter(c, p, m, "R05.8")
		loopIndexVaries(c, p, m, "R05.8")
		attrsTraversal(c, p, "R05.12")
		argsPairing(c, p, "R07.1")
		inDomainArmsFirst(c, p, m, "R05.2")
		fixedMemberGrammar(c, p, m, Mode{false, true}, "R05.11")
		messageIdentity(c, p, "R05.10")
		messageEmittedAsIs(c, p, m, mr, "R05.10")
		c02Pool(c, p, m)
		dedupeEquality(c, p, m, "R05.9")
		pooledCtxFromConstructor(c, p, "R05.9")
		c07Collect(c, p, m)
		c16Timestamp(c, p, m)
		countersBalanced(c, p, m, "R05.7")
		c09Globals(c, p, m)
		constBounds(c, p, m)
		timeTextQuoted(c, p, m, Mode{false, true}, "R05.2")
		bufferAppendOnly(c, p, m, "R05.11")
		c11Transitions(c, p, m)
		c07Sort(c, p, m)
		c01Gates(c, p, m, tags)
		c19WriteSide(c, p)
		c15Handler(c, p, m)
		c02Newline(c, p, m)
		c08Stores(c, p, m)
		newlineRule(c, p, mr, "R05.4", map[string]string{"PrintCtx.End": "the record terminator of End(true)", "PrintCtx.EndArray": "EndArray(newline) for user marshallers", "Entry.printImpl": "blank-line shortcut"})
		fieldOrder(c, p, m, mode, "R05.6", []string{"Begin", "printTimestamp", "printLoggerName", "printSeverity", "printMsg", "serializeAttrs", "printPC", "printRestLinesOfMsg", "End", "Bytes", "printOut"}, map[string]bool{"printPC": true, "printRestLinesOfMsg": true})
		c09Pooled(c, p, m, "R05.7", []Mode{mode})
	}
	c.Floor["R05.2"] = 5
	c.Floor["R05.3"] = 3
	c.Floor["R05.10"] = 30
}

// c05Keys: R05.1 and R05.5 on serializeAttrs.
func c05Keys(c *Ctx, p *Prog, m *Model, mr *ModeReach) {
	r := c.R
	sa := p.Func(p.Slog, "serializeAttrs")
	if sa == nil {
		r.Unk("R05.1", "serializeAttrs", "-", "not found")
		return
	}
	keyFn := p.Method(p.Slog, "PrintCtx", "pcAppendStringKey")
	fb := mr.Blocks[sa]
	// the key emission(s) for an element, feasible in this mode
	var sites []ssa.CallInstruction
	for _, cs := range callsTo(sa, keyFn) {
		if fb[cs.Block()] && inLoop(cs.Block()) {
			sites = append(sites, cs)
		}
	}
	if len(sites) == 0 {
		r.Bad("R05.1", "key-emission", p.FuncPos(sa), "the member loop never prints a key in %s mode", mr.Mode)
		return
	}
	// loop header blocks: blocks with a phi that have a predecessor they dominate (back edge)
	isLoopHeader := func(b *ssa.BasicBlock) bool {
		for _, pr := range b.Preds {
			if b.Dominates(pr) {
				return true
			}
		}
		return false
	}
	var carried func(v ssa.Value, seen map[ssa.Value]bool) string
	carried = func(v ssa.Value, seen map[ssa.Value]bool) string {
		if v == nil || seen[v] {
			return ""
		}
		seen[v] = true
		if ph, ok := v.(*ssa.Phi); ok {
			if isLoopHeader(ph.Block()) && ph.Comment != "rangeindex" && !strings.Contains(ph.Comment, "rangeindex") {
				// a value merged at the loop head: carried over from the previous iteration
				return ph.Comment
			}
		}
		if in, ok := v.(ssa.Instruction); ok {
			switch v.(type) {
			case *ssa.Call:
				return "" // results of calls on the element are about this element
			}
			for _, op := range in.Operands(nil) {
				if *op != nil {
					if s := carried(*op, seen); s != "" {
						return s
					}
				}
			}
		}
		return ""
	}
	// branches that decide whether an element's key is printed: one successor leads to a key emission, another
	// reaches the next iteration (or the exit) without one
	keyBlocks := map[*ssa.BasicBlock]bool{}
	for _, cs := range sites {
		keyBlocks[cs.Block()] = true
	}
	var header *ssa.BasicBlock
	for _, b := range sa.Blocks {
		if isLoopHeader(b) && b.Dominates(sites[0].Block()) {
			header = b
		}
	}
	isKey := func(b *ssa.BasicBlock) bool { return keyBlocks[b] }
	nCtl := 0
	bad := ""
	for _, b := range sa.Blocks {
		iff := ifOf(b)
		if iff == nil || !fb[b] || !inLoop(b) || header == nil || b == header {
			continue
		}
		toKey, skips := false, false
		for _, s := range feasibleSuccs(b, mr.Mode) {
			if isKey(s) || anyReach(s, keyBlocks, func(x *ssa.BasicBlock) bool { return x == header }) {
				toKey = true
			}
			if !isKey(s) && (s == header || reachAvoiding(s, header, isKey)) {
				skips = true
			}
		}
		if !toKey || !skips {
			continue
		}
		nCtl++
		cond, _ := normCond(iff.Cond)
		if name := carried(cond, map[ssa.Value]bool{}); name != "" {
			bad = fmt.Sprintf("whether an element's key is printed depends on %q, a value carried over from previous loop iterations (%s at %s): once it flips, every following attribute is printed without its key", name, m.condDesc(cond), p.Pos(instrPos(iff)))
		}
	}
	r.Check(bad == "" && nCtl > 0, "R05.1", "key-emission", p.Pos(instrPos(sites[0])), fmt.Sprintf("the %d branch(es) deciding whether a key is printed depend only on the current element and the mode", nCtl), bad)
	// the group test is a type assertion on the loop element
	grpOK := false
	for _, b := range sa.Blocks {
		for _, in := range b.Instrs {
			if ta, ok := in.(*ssa.TypeAssert); ok && ta.CommaOk && typeName(ta.AssertedType) == "groupedValue" && inLoop(b) {
				if u, ok := ta.X.(*ssa.UnOp); ok {
					if _, ok := u.X.(*ssa.IndexAddr); ok {
						grpOK = true
					}
				}
			}
		}
	}
	r.Check(grpOK, "R05.1", "group-test", p.FuncPos(sa), "groupness is decided by asserting the current element", "the member loop no longer decides groupness from the current element")
	// R05.5: DotPrefix(key of the element, saved prefix); prefix := key before rendering the value
	var saved ssa.Value
	for _, in := range sa.Blocks[0].Instrs {
		if u, ok := in.(*ssa.UnOp); ok {
			if f, ok := pcField(u.X); ok && f == "prefix" {
				saved = u
			}
		}
	}
	nDot := 0
	okDot := saved != nil
	for _, cs := range callsIn(sa) {
		cal := calleeOf(cs)
		if cal == nil || nm(cal) != "DotPrefix" || !fb[cs.Block()] {
			continue
		}
		nDot++
		a := cs.Common().Args
		if call, ok := a[0].(*ssa.Call); !ok || invokeName(call) != "Key" {
			okDot = false
		}
		if saved != nil && !flowsFrom(a[1], saved) {
			okDot = false
		}
	}
	r.Check(okDot && nDot >= 1, "R05.5", "dotted-key", p.FuncPos(sa), "keys are DotPrefix(element key, prefix saved at entry)", "member keys are not formed as DotPrefix(element key, enclosing prefix)")
	setsPrefix := false
	for _, b := range sa.Blocks {
		for _, in := range b.Instrs {
			if st, ok := in.(*ssa.Store); ok && fb[b] {
				if f, ok := pcField(st.Addr); ok && f == "prefix" && st.Val != saved {
					if _, isPhi := st.Val.(*ssa.Phi); isPhi {
						setsPrefix = true
					}
				}
			}
		}
	}
	// ... and what is pushed is the DOTTED key on every mode-feasible way to the push: a group's own key without the
	// enclosing prefix makes the members of a group inside a group lose the outer path
	for _, b := range sa.Blocks {
		for _, in := range b.Instrs {
			st, ok := in.(*ssa.Store)
			if !ok || !fb[b] {
				continue
			}
			if f, ok := pcField(st.Addr); !ok || f != "prefix" || st.Val == saved {
				continue
			}
			var raw []string
			seen := map[ssa.Value]bool{}
			var walk func(v ssa.Value, from *ssa.BasicBlock)
			walk = func(v ssa.Value, from *ssa.BasicBlock) {
				if seen[v] {
					return
				}
				seen[v] = true
				switch x := v.(type) {
				case *ssa.Phi:
					for i, e := range x.Edges {
						if fb[x.Block().Preds[i]] && modeEdgeFeasible(x.Block().Preds[i], x.Block(), mr.Mode) {
							walk(e, x.Block().Preds[i])
						}
					}
				case *ssa.Call:
					if cal := calleeOf(x); cal != nil && nm(cal) == "DotPrefix" {
						return
					}
					raw = append(raw, "a value that is not a dotted key at "+p.Pos(instrPos(x)))
				default:
					raw = append(raw, "an undotted key")
				}
			}
			walk(st.Val, b)
			r.Check(len(raw) == 0, "R05.5", "prefix-push:dotted", p.Pos(instrPos(st)), "on every feasible way the prefix pushed is DotPrefix(key, enclosing prefix)",
				"the prefix pushed for the members of a value can be "+strings.Join(dedupStr(raw), ", ")+": members of a group nested in a group are printed without the outer group's name")
		}
	}
	r.Check(setsPrefix, "R05.5", "prefix-push", p.FuncPos(sa), "the element's (dotted) key becomes the prefix while its value is rendered", "the prefix is not set to the element's key before its value is rendered: nested members lose their group path")
}

// c05Quoting: R05.3
func c05Quoting(c *Ctx, p *Prog, m *Model, mr *ModeReach) {
	r := c.R
	aq := p.Method(p.Slog, "PrintCtx", "appendQuotedString")
	aqw := p.Func(p.Slog, "appendQuotedWith")
	aer := p.Func(p.Slog, "appendEscapedRune")
	if aq == nil || aqw == nil || aer == nil {
		r.Unk("R05.3", "anchors", "-", "appendQuotedString/appendQuotedWith/appendEscapedRune not all found")
		return
	}
	// appendQuotedString, non-JSON: on every path buf := appendQuotedWith(buf, str, '"', ...), nothing else written
	bad := ""
	n := 0
	enumPathsMode(aq, mr.Mode, 64, func(path []*ssa.BasicBlock) {
		n++
		quoted := 0
		for _, b := range path {
			for _, in := range b.Instrs {
				switch x := in.(type) {
				case ssa.CallInstruction:
					cal := calleeOf(x)
					if cal == nil {
						continue
					}
					switch nm(cal) {
					case "appendQuotedWith":
						a := x.Common().Args
						if a[1] != ssa.Value(aq.Params[1]) {
							bad = "appendQuotedWith is not given the string itself"
						}
						if q, ok := constInt(a[2]); !ok || q != '"' {
							bad = "the quote character is not the double quote"
						}
						if _, ok := isFieldLoadOf(a[0], "PrintCtx", "buf"); !ok {
							bad = "does not append to the record buffer"
						}
						quoted++
					case "PreAlloc", "Grow", "preCheck":
					default:
						if tn := cal.Signature.Recv(); tn != nil && typeName(tn.Type()) == "PrintCtx" {
							bad = "also writes through " + nm(cal) + " (a path that does not go through the escaper)"
						}
					}
				case *ssa.Store:
					if f, ok := pcField(x.Addr); ok && f == "buf" {
						if call, ok := x.Val.(*ssa.Call); !ok || calleeOf(call) != aqw {
							bad = "stores to the buffer something other than appendQuotedWith's result"
						}
					}
				}
			}
		}
		if quoted != 1 && bad == "" {
			bad = fmt.Sprintf("%d calls of appendQuotedWith on a path", quoted)
		}
	})
	r.Check(bad == "" && n > 0, "R05.3", "appendQuotedString", p.FuncPos(aq), "non-JSON: exactly appendQuotedWith(buf, str, '\"') on every path", "appendQuotedString (text modes) "+bad+": some strings reach the record without full escaping")
	// appendQuotedWith: what it appends
	var probs []string
	for _, b := range aqw.Blocks {
		for _, in := range b.Instrs {
			call, ok := in.(*ssa.Call)
			if !ok || !isBuiltinCall(call, "append") {
				continue
			}
			for _, a := range call.Common().Args[1:] {
				a = stripNoIface(a)
				switch {
				case a == ssa.Value(aqw.Params[2]): // quote
				case func() bool { s, ok := constString(a); return ok && s == `\x` }():
				case isHexDigit(a):
				case func() bool {
					// varargs array holding one of the above
					sl, ok := a.(*ssa.Slice)
					if !ok {
						return false
					}
					al, ok := sl.X.(*ssa.Alloc)
					if !ok {
						return false
					}
					for _, ref := range *al.Referrers() {
						if ia, ok := ref.(*ssa.IndexAddr); ok {
							for _, r2 := range *ia.Referrers() {
								if st, ok := r2.(*ssa.Store); ok {
									if st.Val != ssa.Value(aqw.Params[2]) && !isHexDigit(st.Val) {
										return false
									}
								}
							}
						}
					}
					return true
				}():
				default:
					probs = append(probs, "appends "+a.String()+" at "+p.Pos(instrPos(call)))
				}
			}
		}
	}
	// the one-byte escape is written only for ONE undecodable byte: its block is entered only when the decoder returned
	// width 1 together with RuneError (a valid U+FFFD has width 3; escaping its first byte and advancing by 3 loses two bytes)
	for _, b := range aqw.Blocks {
		for _, in := range b.Instrs {
			call, ok := in.(*ssa.Call)
			if !ok || !isBuiltinCall(call, "append") || len(call.Common().Args) < 2 {
				continue
			}
			if sx, ok := constString(stripNoIface(call.Common().Args[1])); !ok || sx != `\x` {
				continue
			}
			w1, rErr := false, false
			for _, g := range guardsOf(b) {
				cond, neg := normCond(g.If.Cond)
				bo, ok := cond.(*ssa.BinOp)
				if !ok {
					continue
				}
				taken := (g.Succ == 0) != neg
				k, isC := constInt(bo.Y)
				if !isC || !((bo.Op == token.EQL && taken) || (bo.Op == token.NEQ && !taken)) {
					continue
				}
				if k == 1 && intBits(bo.X.Type()) > 0 {
					w1 = true
				}
				if k == 0xFFFD {
					rErr = true
				}
			}
			if !w1 || !rErr {
				probs = append(probs, fmt.Sprintf("the \\xHH escape at %s is not restricted to a decoding of width 1 that gave RuneError (width test %v, RuneError test %v): a valid multi-byte rune is then replaced by the escape of its first byte", p.Pos(instrPos(call)), w1, rErr))
			}
		}
	}
	// the loop body routes every rune through appendEscapedRune
	routes := false
	for _, cs := range callsTo(aqw, aer) {
		if inLoop(cs.Block()) {
			routes = true
		}
	}
	if !routes {
		probs = append(probs, "runes are not routed through appendEscapedRune")
	}
	r.Check(len(probs) == 0, "R05.3", "appendQuotedWith", p.FuncPos(aqw), "appends only the quote, \\xHH of an invalid byte and appendEscapedRune's output", strings.Join(probs, "; "))
	// appendEscapedRune: alphabet and raw copies
	okEsc := map[string]bool{`\a`: true, `\b`: true, `\f`: true, `\n`: true, `\r`: true, `\t`: true, `\v`: true, `\x`: true, `\u`: true, `\U`: true}
	var badC []string
	rawOK := true
	for _, b := range aer.Blocks {
		for _, in := range b.Instrs {
			call, ok := in.(*ssa.Call)
			if !ok {
				continue
			}
			if isBuiltinCall(call, "append") {
				for _, a := range call.Common().Args[1:] {
					if s, ok := constString(a); ok && !okEsc[s] {
						badC = append(badC, fmt.Sprintf("%q", s))
					}
				}
			}
			// raw copies: append(buf, byte(r)) and utf8.AppendRune must be under IsPrint / quote-backslash tests
			isRaw := false
			if cal := calleeOf(call); cal != nil && cal.String() == "unicode/utf8.AppendRune" {
				isRaw = true
			}
			if isRaw {
				// every way into this block is the true edge of a printability test
				g := len(b.Preds) > 0
				for _, pr := range b.Preds {
					iff := ifOf(pr)
					if iff == nil {
						g = false
						continue
					}
					cond, neg := normCond(iff.Cond)
					c2, isCall := cond.(*ssa.Call)
					okTest := false
					if isCall {
						if cal := calleeOf(c2); cal != nil && (cal.String() == "strconv.IsPrint" || nm(cal) == "isInGraphicList" || cal.String() == "strconv.IsGraphic" || cal.String() == "unicode.IsPrint") {
							okTest = true
						}
					}
					idx := 0
					if pr.Succs[1] == b {
						idx = 1
					}
					if !okTest || (idx == 0) == neg {
						g = false
					}
				}
				if !g {
					rawOK = false
				}
			}
		}
	}
	// the two-digit escape \xHH denotes ONE BYTE when the text is read back; it stands for the rune only below 0x80.
	// Every way into the block that writes it bounds the rune by 0x7f.
	for _, b := range aer.Blocks {
		for _, in := range b.Instrs {
			call, ok := in.(*ssa.Call)
			if !ok || !isBuiltinCall(call, "append") || len(call.Common().Args) < 2 {
				continue
			}
			if sx, ok := constString(stripNoIface(call.Common().Args[1])); !ok || sx != `\x` {
				continue
			}
			var rv ssa.Value
			for _, prm := range aer.Params {
				if bt, isB := prm.Type().Underlying().(*types.Basic); isB && bt.Kind() == types.Int32 {
					rv = prm
				}
			}
			up, okb := int64(0), false
			if rv != nil {
				up, okb = upperOnEntry(rv, b)
			}
			r.Check(okb && up <= 0x7f, "R05.3", "appendEscapedRune:byte-escape", p.Pos(instrPos(call)), fmt.Sprintf("the \\xHH escape is written only for runes <= %#x", up),
				fmt.Sprintf("the \\xHH escape is written for runes up to %#x (bounded: %v): above 0x7f the two hex digits read back as one raw byte, not as the rune, so the string does not parse back to itself", up, okb))
		}
	}
	sort.Strings(badC)
	r.Check(len(badC) == 0 && rawOK, "R05.3", "appendEscapedRune", p.FuncPos(aer), "emits only escapes strconv.Unquote accepts; verbatim copies only of printable runes", fmt.Sprintf("appendEscapedRune can emit %v / copies runes verbatim without a printability test (%v)", badC, !rawOK))
	// lowerhex digits in the internal quote() of package times are not part of the record
	_ = constant.MakeBool
	_ = token.ADD
}

func isHexDigit(v ssa.Value) bool {
	// hex[x] lookups
	for _, s := range sources(v) {
		var x ssa.Value
		switch t := s.(type) {
		case *ssa.Lookup:
			x = t.X
		case *ssa.Index:
			x = t.X
		default:
			return false
		}
		if g, ok := globalLoad(x); !ok || nm(g) != "hex" {
			if c, ok := x.(*ssa.Const); !ok || c.Value == nil {
				return false
			}
		}
	}
	return true
}

// flowsFrom: target is among the values v is built from, following stores into local arrays (varargs).
func flowsFrom(v, target ssa.Value) bool {
	seen := map[ssa.Value]bool{}
	var walk func(v ssa.Value) bool
	walk = func(v ssa.Value) bool {
		if v == nil || seen[v] {
			return false
		}
		seen[v] = true
		if v == target {
			return true
		}
		if al, ok := v.(*ssa.Alloc); ok {
			for _, ref := range *al.Referrers() {
				switch x := ref.(type) {
				case *ssa.IndexAddr:
					for _, r2 := range *x.Referrers() {
						if st, ok := r2.(*ssa.Store); ok && walk(st.Val) {
							return true
						}
					}
				case *ssa.Store:
					if x.Addr == v && walk(x.Val) {
						return true
					}
				}
			}
		}
		if in, ok := v.(ssa.Instruction); ok {
			for _, op := range in.Operands(nil) {
				if *op != nil && walk(*op) {
					return true
				}
			}
		}
		return false
	}
	return walk(v)
}

// anyReach: some target block is reachable from b without entering a block for which avoid holds.
func anyReach(b *ssa.BasicBlock, targets map[*ssa.BasicBlock]bool, avoid func(*ssa.BasicBlock) bool) bool {
	seen := map[*ssa.BasicBlock]bool{}
	var dfs func(x *ssa.BasicBlock) bool
	dfs = func(x *ssa.BasicBlock) bool {
		if targets[x] {
			return true
		}
		if seen[x] || avoid(x) {
			return false
		}
		seen[x] = true
		for _, s := range x.Succs {
			if dfs(s) {
				return true
			}
		}
		return false
	}
	return dfs(b)
}

// modeEdgeFeasible: the edge from -> to is not pruned by a mode test in `from`.
func modeEdgeFeasible(from, to *ssa.BasicBlock, mode Mode) bool {
	for _, s := range feasibleSuccs(from, mode) {
		if s == to {
			return true
		}
	}
	return false
}
