package main

import (
	"go/constant"
	"go/token"
	"sort"

	"golang.org/x/tools/go/ssa"
)

// Engine E10: pooled-state reset analysis, specialised per output mode.
//
// For the pooled type PrintCtx and a feasible mode (jsonMode, noColor), a forward must-write /
// may-read-before-write dataflow is run over the print tree with branches on the two mode bits
// pruned. Summary per function g and field f:
//   W[g][f]  - f is definitely stored on every path of g that returns
//   R[g][f]  - some path of g can load f before f has definitely been stored in g
// A field with R[session entry][f] is read before this session wrote it, i.e. it carries the
// value a previous record left in the pooled object.

type Mode struct {
	JSON    bool
	NoColor bool
}

func (m Mode) String() string {
	switch {
	case m.JSON && m.NoColor:
		return "json"
	case !m.JSON && m.NoColor:
		return "logfmt"
	case !m.JSON && !m.NoColor:
		return "colored"
	}
	return "infeasible"
}

var feasibleModes = []Mode{{true, true}, {false, true}, {false, false}}

type witness struct {
	Fn  *ssa.Function
	Pos token.Pos
}

type pooledResult struct {
	W   map[*ssa.Function]map[string]bool
	R   map[*ssa.Function]map[string]*witness
	Fns []*ssa.Function
}

// pcField recognises the address of a field of a *PrintCtx.
func pcField(v ssa.Value) (string, bool) {
	fa, ok := v.(*ssa.FieldAddr)
	if !ok {
		return "", false
	}
	if typeName(fa.X.Type()) != "PrintCtx" {
		return "", false
	}
	st := structOf(fa.X.Type())
	if st == nil {
		return "", false
	}
	return nm(st.Field(fa.Field)), true
}

// modeCond evaluates a branch condition that is a (negated) load of PrintCtx.jsonMode / noColor.
func modeCond(cond ssa.Value, m Mode) (bool, bool) {
	c, neg := normCond(cond)
	if b, ok := c.(*ssa.BinOp); ok && (b.Op == token.EQL || b.Op == token.NEQ) {
		// a comparison of a mode-classifying helper's result with a constant (switch pc.flavor() { case ... })
		for _, xy := range [][2]ssa.Value{{b.X, b.Y}, {b.Y, b.X}} {
			k, ok := xy[1].(*ssa.Const)
			if !ok || k.Value == nil {
				continue
			}
			if r := modeConstOf(xy[0], m, 0); r != nil && r.Value != nil {
				eq := constant.Compare(r.Value, token.EQL, k.Value)
				return (eq == (b.Op == token.EQL)) != neg, true
			}
		}
		return false, false
	}
	if ph, ok := c.(*ssa.Phi); ok {
		// a boolean joined from several edges (quoted := jsonMode || noColor): its value over the edges that the mode
		// leaves feasible
		if modeCondBusy[ph] {
			return false, false
		}
		modeCondBusy[ph] = true
		defer delete(modeCondBusy, ph)
		have, val := false, false
		for i, e := range ph.Edges {
			pr := ph.Block().Preds[i]
			feas := false
			for _, sx := range feasibleSuccs(pr, m) {
				if sx == ph.Block() {
					feas = true
				}
			}
			if !feas {
				continue
			}
			var ev bool
			if k, isC := constBool(e); isC {
				ev = k
			} else if v, ok := modeCond(e, m); ok {
				ev = v
			} else {
				return false, false
			}
			if have && ev != val {
				return false, false
			}
			have, val = true, ev
		}
		if have {
			return val != neg, true
		}
		return false, false
	}
	if cl, ok := c.(*ssa.Call); ok {
		if r := modeConstOf(cl, m, 0); r != nil && r.Value != nil && r.Value.Kind() == constant.Bool {
			return constant.BoolVal(r.Value) != neg, true
		}
		return false, false
	}
	u, ok := c.(*ssa.UnOp)
	if !ok || u.Op != token.MUL {
		return false, false
	}
	f, ok := pcField(u.X)
	if !ok {
		return false, false
	}
	switch f {
	case "jsonMode":
		return m.JSON != neg, true
	case "noColor":
		return m.NoColor != neg, true
	}
	return false, false
}

var modeCondBusy = map[*ssa.Phi]bool{}

// modeConstOf: the constant a call of a private helper over the PrintCtx returns in mode m, when the helper's
// decision is made by the mode bits alone (every branch on the way to its return folds under the mode).
func modeConstOf(v ssa.Value, m Mode, depth int) *ssa.Const {
	cl, ok := v.(*ssa.Call)
	if !ok || depth > 2 {
		return nil
	}
	fn := cl.Call.StaticCallee()
	if fn == nil || len(fn.Blocks) == 0 || len(fn.Params) != 1 || typeName(fn.Params[0].Type()) != "PrintCtx" {
		return nil
	}
	if fn.Signature.Results().Len() != 1 {
		return nil
	}
	b := fn.Blocks[0]
	var prev *ssa.BasicBlock
	for steps := 0; steps < 64; steps++ {
		for _, in := range b.Instrs {
			switch in.(type) {
			case *ssa.Call, *ssa.Store, *ssa.Go, *ssa.Defer, *ssa.Send, *ssa.MapUpdate, *ssa.Panic:
				if c, ok := in.(*ssa.Call); ok && modeConstOf(c, m, depth+1) != nil {
					continue
				}
				return nil
			}
		}
		switch t := b.Instrs[len(b.Instrs)-1].(type) {
		case *ssa.Return:
			r := t.Results[0]
			for {
				ph, ok := r.(*ssa.Phi)
				if !ok || ph.Block() != b || prev == nil {
					break
				}
				found := false
				for i, pb := range b.Preds {
					if pb == prev {
						r, found = ph.Edges[i], true
						break
					}
				}
				if !found {
					return nil
				}
				break
			}
			if k, ok := r.(*ssa.Const); ok {
				return k
			}
			if cv, ok := modeCond(r, m); ok {
				return ssa.NewConst(constant.MakeBool(cv), r.Type())
			}
			return nil
		case *ssa.If:
			cv, ok := modeCond(t.Cond, m)
			if !ok {
				return nil
			}
			prev = b
			if cv {
				b = b.Succs[0]
			} else {
				b = b.Succs[1]
			}
		case *ssa.Jump:
			prev = b
			b = b.Succs[0]
		default:
			return nil
		}
	}
	return nil
}

// feasibleSuccs returns the successors of b that are feasible in mode m.
func feasibleSuccs(b *ssa.BasicBlock, m Mode) []*ssa.BasicBlock {
	if i := ifOf(b); i != nil {
		if v, ok := modeCond(i.Cond, m); ok {
			if v {
				return b.Succs[:1]
			}
			return b.Succs[1:2]
		}
	}
	return b.Succs
}

func copySet(a map[string]bool) map[string]bool {
	o := make(map[string]bool, len(a))
	for k := range a {
		o[k] = true
	}
	return o
}

func intersect(a, b map[string]bool) map[string]bool {
	o := map[string]bool{}
	for k := range a {
		if b[k] {
			o[k] = true
		}
	}
	return o
}

func sameSet(a, b map[string]bool) bool {
	if len(a) != len(b) {
		return false
	}
	for k := range a {
		if !b[k] {
			return false
		}
	}
	return true
}

// writerIfaceMethods: io.Writer-style invokes on a value that wraps the PrintCtx resolve to the PrintCtx methods.
var writerIfaceMethods = map[string]bool{"Write": true, "WriteString": true, "WriteByte": true, "WriteRune": true}

func analyzePooled(p *Prog, tree map[*ssa.Function]bool, mode Mode) *pooledResult {
	res := &pooledResult{W: map[*ssa.Function]map[string]bool{}, R: map[*ssa.Function]map[string]*witness{}}
	for fn := range tree {
		if len(fn.Blocks) > 0 {
			res.Fns = append(res.Fns, fn)
		}
	}
	sort.Slice(res.Fns, func(i, j int) bool { return res.Fns[i].String() < res.Fns[j].String() })
	for _, fn := range res.Fns {
		res.W[fn] = map[string]bool{}
		res.R[fn] = map[string]*witness{}
	}
	impls := func(name string) []*ssa.Function {
		var out []*ssa.Function
		switch {
		case name == "SerializeValueTo":
			for _, tn := range []string{"kvp", "gkvp", "Attrs"} {
				if f := p.Method(p.Slog, tn, name); f != nil {
					out = append(out, f)
				}
			}
		case writerIfaceMethods[name]:
			if f := p.Method(p.Slog, "PrintCtx", name); f != nil {
				out = append(out, f)
			}
		}
		return out
	}
	// callees of an instruction (static, closures made, known dynamic targets)
	calleesOf := func(in ssa.Instruction) []*ssa.Function {
		var out []*ssa.Function
		switch x := in.(type) {
		case ssa.CallInstruction:
			if cal := calleeOf(x); cal != nil {
				if tree[cal] {
					out = append(out, cal)
				}
			} else if n := invokeName(x); n != "" {
				for _, f := range impls(n) {
					if tree[f] {
						out = append(out, f)
					}
				}
			}
		case *ssa.MakeClosure:
			if f, ok := x.Fn.(*ssa.Function); ok && tree[f] {
				out = append(out, f)
			}
		}
		return out
	}
	// one pass over fn with current summaries; computeR selects the phase
	pass := func(fn *ssa.Function, computeR bool) (map[string]bool, map[string]*witness) {
		in := map[*ssa.BasicBlock]map[string]bool{}
		reach := map[*ssa.BasicBlock]bool{fn.Blocks[0]: true}
		in[fn.Blocks[0]] = map[string]bool{}
		R := map[string]*witness{}
		var retSets []map[string]bool
		changed := true
		out := map[*ssa.BasicBlock]map[string]bool{}
		for iter := 0; changed && iter < 50; iter++ {
			changed = false
			retSets = nil
			for _, b := range fn.Blocks {
				if !reach[b] {
					continue
				}
				cur := copySet(in[b])
				for _, ins := range b.Instrs {
					switch x := ins.(type) {
					case *ssa.UnOp:
						if x.Op == token.MUL {
							if f, ok := pcField(x.X); ok && computeR && !cur[f] {
								if R[f] == nil {
									R[f] = &witness{fn, instrPos(x)}
								}
							}
						}
					case *ssa.Store:
						if f, ok := pcField(x.Addr); ok {
							cur[f] = true
						}
					}
					cs := calleesOf(ins)
					if len(cs) > 0 {
						if computeR {
							for _, cal := range cs {
								for f, w := range res.R[cal] {
									if !cur[f] && R[f] == nil {
										R[f] = w
									}
								}
							}
						}
						// definitely written by the call: intersection over possible callees (closures made are not necessarily run)
						if _, isClosure := ins.(*ssa.MakeClosure); !isClosure {
							var all map[string]bool
							for _, cal := range cs {
								if all == nil {
									all = copySet(res.W[cal])
								} else {
									all = intersect(all, res.W[cal])
								}
							}
							for f := range all {
								cur[f] = true
							}
						}
					}
					if _, ok := ins.(*ssa.Return); ok {
						retSets = append(retSets, copySet(cur))
					}
				}
				if o, ok := out[b]; !ok || !sameSet(o, cur) {
					out[b] = cur
					changed = true
				}
				for _, s := range feasibleSuccs(b, mode) {
					if !reach[s] {
						reach[s] = true
						in[s] = copySet(cur)
						changed = true
					} else {
						ni := intersect(in[s], cur)
						if !sameSet(ni, in[s]) {
							in[s] = ni
							changed = true
						}
					}
				}
			}
		}
		var W map[string]bool
		for _, rs := range retSets {
			if W == nil {
				W = rs
			} else {
				W = intersect(W, rs)
			}
		}
		if W == nil {
			W = map[string]bool{}
		}
		return W, R
	}
	// phase 1: W to a fixpoint (grows from empty)
	for iter := 0; iter < 30; iter++ {
		changed := false
		for _, fn := range res.Fns {
			W, _ := pass(fn, false)
			if !sameSet(W, res.W[fn]) {
				// monotone: only accept growth
				for f := range W {
					if !res.W[fn][f] {
						res.W[fn][f] = true
						changed = true
					}
				}
			}
		}
		if !changed {
			break
		}
	}
	// phase 2: R to a fixpoint (grows)
	for iter := 0; iter < 30; iter++ {
		changed := false
		for _, fn := range res.Fns {
			_, R := pass(fn, true)
			for f, w := range R {
				if res.R[fn][f] == nil {
					res.R[fn][f] = w
					changed = true
				}
			}
		}
		if !changed {
			break
		}
	}
	return res
}

// pcFields lists the field names of PrintCtx.
func pcFields(p *Prog) []string {
	n := p.NamedType(p.Slog, "PrintCtx")
	if n == nil {
		return nil
	}
	st := structOf(n)
	var out []string
	for i := 0; i < st.NumFields(); i++ {
		out = append(out, nm(st.Field(i)))
	}
	return out
}
