package main

import (
	"fmt"
	"go/token"
	"sort"
	"strings"

	"golang.org/x/tools/go/ssa"
)

// Engine E3: decision-function extraction. A function's CFG is walked under a truth
// assignment of named atoms (conditions recognised by an Atomizer); the walk ends at a
// terminal (return, panic, or a designated instruction). Comparing the terminals with a
// reference table over all consistent assignments decides the branch structure for all
// inputs without running anything: this is evaluation of an extracted formula.

// Atomizer names a branch condition. ok=false means the condition is not understood.
type Atomizer func(cond ssa.Value) (atom string, ok bool)

type Terminal struct {
	Kind  string // "return", "panic", "stop:<label>", "unknown:<cond>", "loop"
	Label string
	Instr ssa.Instruction
	Path  []*ssa.BasicBlock
	Calls []ssa.CallInstruction // calls passed on the way, in order
	// Rets: for every call that was inlined on the way, the value(s) it returned on the path taken inside it
	// (already resolved along that inner path)
	Rets map[ssa.Value][]ssa.Value
}

// deep resolves v to the value it holds on the path walked: phis along the path, results of inlined calls
// through the return taken, parameters of inlined callees through the arguments bound at the call (subst).
func (t Terminal) deep(v ssa.Value, subst map[ssa.Value]ssa.Value) ssa.Value {
	for i := 0; i < 24; i++ {
		v = resolveAlong(v, t.Path)
		switch x := v.(type) {
		case *ssa.MakeInterface:
			v = x.X
			continue
		case *ssa.ChangeType:
			v = x.X
			continue
		case *ssa.Extract:
			if rs, ok := t.Rets[x.Tuple]; ok && x.Index < len(rs) {
				v = rs[x.Index]
				continue
			}
		}
		if rs, ok := t.Rets[v]; ok && len(rs) > 0 {
			v = rs[0]
			continue
		}
		if w, ok := subst[v]; ok && w != v {
			v = w
			continue
		}
		return v
	}
	return v
}

// walkDecision walks fn from block `start` under `assign`. stop may end the walk at an instruction.
func walkDecision(start *ssa.BasicBlock, assign map[string]bool, atomize Atomizer, stop func(ssa.Instruction) (string, bool)) Terminal {
	return walkDecisionInl(start, assign, atomize, stop, nil, nil, 0)
}

// walkDecisionInl additionally inlines calls for which inline() returns the callee: the callee is walked under the
// same assignment; subst receives callee parameter -> caller argument bindings so that atomizers can name conditions
// on the callee's parameters in terms of the caller's values.
func walkDecisionInl(start *ssa.BasicBlock, assign map[string]bool, atomize Atomizer, stop func(ssa.Instruction) (string, bool),
	inline func(ssa.CallInstruction) *ssa.Function, subst map[ssa.Value]ssa.Value, depth int) Terminal {
	var path []*ssa.BasicBlock
	var calls []ssa.CallInstruction
	rets := map[ssa.Value][]ssa.Value{}
	visits := map[*ssa.BasicBlock]int{}
	b := start
	for {
		path = append(path, b)
		visits[b]++
		if visits[b] > 2 {
			return Terminal{Kind: "loop", Path: path, Calls: calls, Rets: rets}
		}
		for _, in := range b.Instrs {
			if stop != nil {
				if lbl, ok := stop(in); ok {
					return Terminal{Kind: "stop:" + lbl, Label: lbl, Instr: in, Path: path, Calls: calls, Rets: rets}
				}
			}
			if c, ok := in.(ssa.CallInstruction); ok {
				calls = append(calls, c)
				if inline != nil && depth < 4 {
					if cal := inline(c); cal != nil && len(cal.Blocks) > 0 {
						if subst != nil {
							for i, prm := range cal.Params {
								if i < len(c.Common().Args) {
									subst[prm] = c.Common().Args[i]
								}
							}
						}
						t := walkDecisionInl(cal.Blocks[0], assign, atomize, stop, inline, subst, depth+1)
						calls = append(calls, t.Calls...)
						for k, v := range t.Rets {
							rets[k] = v
						}
						if t.Kind != "return" {
							t.Calls = calls
							t.Path = append(append([]*ssa.BasicBlock(nil), path...), t.Path...)
							t.Rets = rets
							return t
						}
						if cv := c.Value(); cv != nil {
							var rs []ssa.Value
							for _, rv := range t.Instr.(*ssa.Return).Results {
								rs = append(rs, t.deep(rv, nil))
							}
							rets[cv] = rs
						}
					}
				}
			}
			switch x := in.(type) {
			case *ssa.Return:
				return Terminal{Kind: "return", Instr: x, Path: path, Calls: calls, Rets: rets}
			case *ssa.Panic:
				return Terminal{Kind: "panic", Instr: x, Path: path, Calls: calls, Rets: rets}
			case *ssa.Jump:
				b = b.Succs[0]
			case *ssa.If:
				cond, neg := normCond(x.Cond)
				if subst != nil {
					if w, ok := subst[cond]; ok {
						if _, isC := w.(*ssa.Const); isC {
							cond = w // a boolean parameter bound to a constant
						}
					}
				}
				// constant condition
				if cb, ok := constBool(cond); ok {
					if cb != neg {
						b = b.Succs[0]
					} else {
						b = b.Succs[1]
					}
					continue
				}
				// a comparison whose operands are constants once the parameters of an inlined callee are bound
				if bo, ok := cond.(*ssa.BinOp); ok && subst != nil {
					var cvd func(v ssa.Value, d int) (int64, bool)
					cvd = func(v ssa.Value, d int) (int64, bool) {
						for i := 0; i < 6; i++ {
							if w, ok := subst[v]; ok {
								v = w
								continue
							}
							break
						}
						if k, ok := constInt(v); ok {
							return k, true
						}
						if d > 8 {
							return 0, false
						}
						// small non-negative arithmetic over bound values, phis resolved along the path walked so far
						switch x := v.(type) {
						case *ssa.Phi:
							if w := resolveAlong(x, path); w != ssa.Value(x) {
								return cvd(w, d+1)
							}
						case *ssa.Convert:
							if k, ok := cvd(x.X, d+1); ok && k >= 0 {
								return k, true
							}
						case *ssa.ChangeType:
							return cvd(x.X, d+1)
						case *ssa.BinOp:
							xa, ok1 := cvd(x.X, d+1)
							ya, ok2 := cvd(x.Y, d+1)
							if !ok1 || !ok2 || xa < 0 || ya < 0 || xa > 1<<40 || ya > 1<<40 {
								return 0, false
							}
							switch x.Op {
							case token.ADD:
								return xa + ya, true
							case token.MUL:
								if xa < 1<<20 && ya < 1<<20 {
									return xa * ya, true
								}
							case token.QUO:
								if ya != 0 {
									return xa / ya, true
								}
							case token.REM:
								if ya != 0 {
									return xa % ya, true
								}
							case token.SUB:
								if xa >= ya {
									return xa - ya, true
								}
							}
						}
						return 0, false
					}
					cv := func(v ssa.Value) (int64, bool) { return cvd(v, 0) }
					if xv, ok1 := cv(bo.X); ok1 {
						if yv, ok2 := cv(bo.Y); ok2 {
							var res, known bool
							switch bo.Op {
							case token.EQL:
								res, known = xv == yv, true
							case token.NEQ:
								res, known = xv != yv, true
							case token.LSS:
								res, known = xv < yv, true
							case token.LEQ:
								res, known = xv <= yv, true
							case token.GTR:
								res, known = xv > yv, true
							case token.GEQ:
								res, known = xv >= yv, true
							}
							if known {
								if res != neg {
									b = b.Succs[0]
								} else {
									b = b.Succs[1]
								}
								continue
							}
						}
					}
				}
				// a phi that the atomizer itself names (e.g. the value picked by a loop) is an atom
				if _, isPhi := cond.(*ssa.Phi); isPhi {
					if atom, ok := atomize(cond); ok {
						if val, has := assign[atom]; has {
							if val != neg {
								b = b.Succs[0]
							} else {
								b = b.Succs[1]
							}
							continue
						}
					}
				}
				// a phi of booleans (short-circuit value) is resolved along the path
				cond2 := resolveAlong(cond, path)
				if cb, ok := constBool(cond2); ok {
					if cb != neg {
						b = b.Succs[0]
					} else {
						b = b.Succs[1]
					}
					continue
				}
				c3, neg3 := normCond(cond2)
				if neg3 {
					neg = !neg
				}
				atom, ok := atomize(c3)
				if !ok {
					// a boolean helper of the repository: evaluate its own decision function (bounded inlining)
					if bv, ok2 := inlineBool(c3, assign, atomize, 0); ok2 {
						if bv != neg {
							b = b.Succs[0]
						} else {
							b = b.Succs[1]
						}
						continue
					}
					return Terminal{Kind: "unknown:" + c3.String(), Instr: x, Path: path, Calls: calls, Rets: rets}
				}
				val, has := assign[atom]
				if !has {
					return Terminal{Kind: "unassigned:" + atom, Instr: x, Path: path, Calls: calls, Rets: rets}
				}
				if val != neg {
					b = b.Succs[0]
				} else {
					b = b.Succs[1]
				}
			}
		}
	}
}

// resolveAlong resolves phis using the block path walked so far.
func resolveAlong(v ssa.Value, path []*ssa.BasicBlock) ssa.Value {
	for i := 0; i < 16; i++ {
		ph, ok := v.(*ssa.Phi)
		if !ok {
			return v
		}
		// find last occurrence of the phi's block in the path
		idx := -1
		for k := len(path) - 1; k >= 1; k-- {
			if path[k] == ph.Block() {
				idx = k
				break
			}
		}
		if idx < 1 {
			return v
		}
		pred := path[idx-1]
		found := false
		for e, p := range ph.Block().Preds {
			if p == pred {
				v = ph.Edges[e]
				found = true
				break
			}
		}
		if !found {
			return v
		}
	}
	return v
}

// assignments enumerates all truth assignments of atoms that satisfy consistent().
func assignments(atoms []string, consistent func(map[string]bool) bool) []map[string]bool {
	var out []map[string]bool
	n := len(atoms)
	for mask := 0; mask < 1<<n; mask++ {
		a := map[string]bool{}
		for i, at := range atoms {
			a[at] = mask&(1<<i) != 0
		}
		if consistent == nil || consistent(a) {
			out = append(out, a)
		}
	}
	return out
}

func assignStr(a map[string]bool) string {
	var ks []string
	for k := range a {
		ks = append(ks, k)
	}
	sort.Strings(ks)
	var s []string
	for _, k := range ks {
		if a[k] {
			s = append(s, k)
		} else {
			s = append(s, "!"+k)
		}
	}
	return strings.Join(s, " ")
}

func pathStr(p []*ssa.BasicBlock) string {
	var s []string
	for _, b := range p {
		s = append(s, fmt.Sprint(b.Index))
	}
	return strings.Join(s, ">")
}

// inlineBool evaluates a call to a parameter-independent boolean helper of the repository
// under the assignment (depth-bounded): every branch in the helper must be an atom, and
// the returned value must be a constant or an atom.
func inlineBool(cond ssa.Value, assign map[string]bool, atomize Atomizer, depth int) (bool, bool) {
	call, ok := cond.(*ssa.Call)
	if !ok || depth > 3 {
		return false, false
	}
	cal := calleeOf(call)
	if cal == nil || len(cal.Blocks) == 0 || cal.Pkg == nil || !strings.HasPrefix(cal.Pkg.Pkg.Path(), "github.com/hedzr/logg") {
		return false, false
	}
	t := walkDecision(cal.Blocks[0], assign, atomize, nil)
	if t.Kind != "return" {
		return false, false
	}
	ret := t.Instr.(*ssa.Return)
	if len(ret.Results) != 1 {
		return false, false
	}
	v, neg := normCond(resolveAlong(ret.Results[0], t.Path))
	v = resolveAlong(v, t.Path)
	if cb, ok := constBool(v); ok {
		return cb != neg, true
	}
	if at, ok := atomize(v); ok {
		if val, has := assign[at]; has {
			return val != neg, true
		}
	}
	if bv, ok := inlineBool(v, assign, atomize, depth+1); ok {
		return bv != neg, true
	}
	return false, false
}

// enumPaths enumerates the acyclic entry→exit paths of fn (each back edge at most once), up to limit.
// Each path is delivered with the instructions in order. Returns false if the limit was hit.
func enumPaths(fn *ssa.Function, limit int, visit func(path []*ssa.BasicBlock)) bool {
	n := 0
	var cur []*ssa.BasicBlock
	onPath := map[*ssa.BasicBlock]int{}
	ok := true
	var dfs func(b *ssa.BasicBlock)
	dfs = func(b *ssa.BasicBlock) {
		if !ok {
			return
		}
		if onPath[b] >= 2 {
			return
		}
		onPath[b]++
		cur = append(cur, b)
		if len(b.Succs) == 0 {
			n++
			if n > limit {
				ok = false
			} else {
				cp := make([]*ssa.BasicBlock, len(cur))
				copy(cp, cur)
				visit(cp)
			}
		} else {
			for _, s := range b.Succs {
				dfs(s)
			}
		}
		cur = cur[:len(cur)-1]
		onPath[b]--
	}
	if len(fn.Blocks) > 0 {
		dfs(fn.Blocks[0])
	}
	return ok
}

// pathCalls lists the call instructions along a block path.
func pathCalls(path []*ssa.BasicBlock) []ssa.CallInstruction {
	var out []ssa.CallInstruction
	for _, b := range path {
		for _, in := range b.Instrs {
			if c, ok := in.(ssa.CallInstruction); ok {
				out = append(out, c)
			}
		}
	}
	return out
}

// condAtomsOf collects the distinct atom names of all branch conditions of fn using namer.
func condAtomsOf(fn *ssa.Function, namer func(ssa.Value) string) []string {
	seen := map[string]bool{}
	var out []string
	for _, b := range fn.Blocks {
		if i := ifOf(b); i != nil {
			c, _ := normCond(i.Cond)
			if _, ok := constBool(c); ok {
				continue
			}
			if _, isPhi := c.(*ssa.Phi); isPhi {
				continue
			}
			n := namer(c)
			if !seen[n] {
				seen[n] = true
				out = append(out, n)
			}
		}
	}
	sort.Strings(out)
	return out
}
