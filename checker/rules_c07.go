package main

import (
	"fmt"
	"go/token"
	"go/types"
	"sort"
	"strings"

	"golang.org/x/tools/go/ssa"
)

func init() { register("C07", checkC07) }

func checkC07(c *Ctx) {
	r := c.R
	r.Rule("R10.3", "(shared with C10) own attributes registered through option forms stay: an argument applied as an option is consumed, it is not collected as a leftover argument too")
	r.Rule("R10.9", "(shared with C10) own attributes belong to one logger: an unnamed child is a new logger (the name given decides alone whether an existing child is returned)")
	r.Rule("R05.9", "(shared with C05) each key once: the de-duplication merges two members exactly when their Key() strings are equal (nothing else - not their kind - keeps two members of one key apart)")
	r.Rule("R09.1", "(shared with C09) the members printed are this group's own: no field of the pooled encoder is read before the current record (or group) wrote it")
	r.Rule("R10.2", "(shared with C10) the logger's registered context keys: each With-form (WithContextKeys included) applies its setting to the new child and leaves the receiver alone")
	r.Rule("R07.6", "every registered key, every attribute: the loop of fromCtx over the registered context keys and the loop of serializeAttrs over the member list have their natural exit only (an absent key or a special-cased member must not end the traversal)")
	r.Rule("R07.1", "source order: on every path of collectArgs the per-call slice receives context values, then the logger chain, then the call's own arguments (call order fromCtx < walkParentAttrs < argsToAttrs on the same slice)")
	r.Rule("R07.2", "ancestors first, iff the flag: the decision functions extracted from collectArgs and walkParentAttrs over {logger has own attrs, inherit flag, owner != nil, ...} say: the chain is walked whenever the flag is on or the logger has attributes; inside the walk the recursive visit of the owner happens exactly when flag and owner != nil, before this logger's own attributes are appended, and emptiness of a logger's own list never cuts the walk when the flag is on")
	r.Rule("R08.1", "(shared with C08) the attributes of a record are those of this call: nothing on the print path writes memory that outlives the call other than the pooled objects of this call (a logger-held attribute slot reused across records would let one record show another record's context values)")
	r.Rule("R08.2", "(shared with C08) attribute lists and attribute objects belong to their owners: no in-place reordering or appending into a shared list, no mutating call on an attribute object shared with a logger")
	r.Rule("R02.9", "(shared with C02) a nil context never has a method called on it: for every method call on a context.Context value on the print path, every origin of the receiver (through parameters over all static call sites, and joins) is a value made by package context or the raw parameter on the not-nil side of a test of that parameter")
	r.Rule("R07.3", "last occurrence wins: the sort applied before de-duplication is a stable sort; its comparator and the de-duplication equality read only Key() (and nil-ness); dedupeSlice overwrites the kept slot with the later element of an equal run and returns the prefix")
	r.Rule("R07.4", "every level sorted: serializeAttrs is the one member-list emitter, it sorts unconditionally (the switch is a constructor constant true), de-duplicates the sorted slice and ranges over the result; groups recurse into it")
	r.Rule("R07.5", "nil context: the context handed to the attribute collection is never nil (replaced by context.TODO/Background before use); context values are taken for the logger's registered keys under their string / Stringer key")
	r.Rule("R10.1", "(shared with C10) a logger's own attribute list is its own: the slice stored into attrs is a fresh slice or append(own attrs, ...), never a caller's slice or another logger's backing array (otherwise a later SetAttrs on one logger rewrites what another one prints)")
	r.Assume("Key() of the package's own Attr implementations returns the key field; user Stringer keys are user code")
	for _, tags := range c.Configs([]string{""}, []string{"", "verbose", "hint"}) {
		p := c.Prog(tags)
		if p == nil {
			continue
		}
		m, err := BuildModel(p)
		if err != nil {
			r.Unk("R07.1", "model", "-", "%v", err)
			continue
		}
		c07Collect(c, p, m)
		c08Stores(c, p, m)
		c07Sort(c, p, m)
		pooledCtxFromConstructor(c, p, "R07.4")
		dedupeEquality(c, p, m, "R05.9")
		attrCopiesWhole(c, p, "R07.4")
		c09Pooled(c, p, m, "R09.1", feasibleModes)
		nilContextSafe(c, p, m, "R02.9")
		c10Frames(c, p, m)
		contextKeysRegistered(c, p)
		attrsTraversal(c, p, "R07.6")
		argsPairing(c, p, "R07.1")
		childNameDecision(c, p, "R10.9")
		optionConsumed(c, p, "R10.3")
		ctxKeysTraversal(c, p, "R07.6")
		c10WithSet(c, p, m)
	}
	c.Floor["R07.2"] = 12
	c.Floor["R07.3"] = 6
	c.Floor["R02.9"] = 1
}

func c07Collect(c *Ctx, p *Prog, m *Model) {
	r := c.R
	ca := p.Method(p.Slog, "Entry", "collectArgs")
	wp := p.Method(p.Slog, "Entry", "walkParentAttrs")
	fc := p.Method(p.Slog, "Entry", "fromCtx")
	a2a := p.Func(p.Slog, "argsToAttrs")
	if ca == nil || wp == nil || fc == nil || a2a == nil {
		r.Unk("R07.1", "anchors", "-", "collectArgs/walkParentAttrs/fromCtx/argsToAttrs not all found")
		return
	}
	// The per-call attribute list is a "thread": either one *Attrs handed to every source in turn (out-pointer style)
	// or an Attrs value that each source takes and returns extended (value style). Roles are found by type, not by
	// position: the list parameter is the one of type Attrs / *Attrs, the walked logger the *Entry parameter (or the
	// receiver when there is no other).
	isAttrsT := func(t types.Type) bool { return typeName(t) == "Attrs" }
	listParam := func(fn *ssa.Function) *ssa.Parameter {
		for _, q := range fn.Params {
			if isAttrsT(q.Type()) {
				return q
			}
		}
		return nil
	}
	kv := listParam(ca)
	if kv == nil {
		r.Unk("R07.1", "anchors", p.FuncPos(ca), "collectArgs has no attribute-list parameter")
		return
	}
	// thread membership along a walked path
	newThread := func(root ssa.Value) map[ssa.Value]bool { return map[ssa.Value]bool{root: true} }
	inThread := func(th map[ssa.Value]bool, v ssa.Value, path []*ssa.BasicBlock) bool {
		v = resolveAlong(v, path)
		if th[v] || th[strip(v)] {
			return true
		}
		// the address of a local that holds the thread (argsToAttrs(&kvps, ...)), or a load of such a local
		probe := v
		if u, ok := v.(*ssa.UnOp); ok && u.Op == token.MUL {
			probe = u.X
		}
		if al, ok := probe.(*ssa.Alloc); ok {
			for _, ref := range *al.Referrers() {
				if st, ok := ref.(*ssa.Store); ok && st.Addr == ssa.Value(al) && (th[st.Val] || th[strip(st.Val)]) {
					return true
				}
			}
		}
		// a load through the out-pointer
		if u, ok := v.(*ssa.UnOp); ok && u.Op == token.MUL && th[u.X] {
			return true
		}
		return false
	}
	onThread := func(th map[ssa.Value]bool, cs ssa.CallInstruction, path []*ssa.BasicBlock) bool {
		for _, a := range cs.Common().Args {
			if (isAttrsT(a.Type())) && inThread(th, a, path) {
				return true
			}
		}
		return false
	}
	extend := func(th map[ssa.Value]bool, cs ssa.CallInstruction) {
		if v := cs.Value(); v != nil && isAttrsT(v.Type()) {
			th[v] = true
			// and locals it is stored into
			for _, ref := range *v.Referrers() {
				if st, ok := ref.(*ssa.Store); ok && st.Val == ssa.Value(v) {
					th[st.Addr] = true
				}
				if ph, ok := ref.(*ssa.Phi); ok {
					th[ph] = true
				}
			}
		}
	}
	entryArgs := func(cs ssa.CallInstruction) []ssa.Value {
		var out []ssa.Value
		for _, a := range cs.Common().Args {
			if typeName(a.Type()) == "Entry" {
				out = append(out, a)
			}
		}
		return out
	}
	lattrsR, _ := p.ConstInt(p.Slog, "LattrsR")
	var flagAtom func(cond ssa.Value) bool
	flagAtom = func(cond ssa.Value) bool {
		// the flag sampled once by a caller and handed down as a boolean parameter: every static call site passes
		// the flag test itself or (recursion) the parameter on
		if prm, isPrm := cond.(*ssa.Parameter); isPrm {
			fn := prm.Parent()
			idx := -1
			for i, q := range fn.Params {
				if q == prm {
					idx = i
				}
			}
			sites := p.staticCallers()[fn]
			if idx < 0 || len(sites) == 0 || p.usedAsValue()[fn] || (fn.Object() != nil && fn.Object().Exported()) {
				return false
			}
			for _, cs := range sites {
				if idx >= len(cs.Common().Args) {
					return false
				}
				a := cs.Common().Args[idx]
				if a == ssa.Value(prm) {
					continue
				}
				if _, again := a.(*ssa.Parameter); again || !flagAtom(a) {
					return false
				}
			}
			return true
		}
		call, ok := cond.(*ssa.Call)
		if !ok {
			return false
		}
		cal := calleeOf(call)
		if cal != nil && flagPredicate(p, cal, lattrsR) {
			return true // a parameterless predicate of the package that is exactly this flag test
		}
		if cal == nil || (nm(cal) != "IsAnyBitsSet" && nm(cal) != "IsAllBitsSet") {
			return false
		}
		v, ok := constInt(call.Common().Args[0])
		return ok && v == lattrsR
	}
	// --- collectArgs
	atomCA := func(cond ssa.Value) (string, bool) {
		if flagAtom(cond) {
			return "flag", true
		}
		if call, ok := cond.(*ssa.Call); ok {
			if cal := calleeOf(call); cal != nil && nm(cal) == "ctxKeysWanted" {
				return "ctxkeys", true
			}
		}
		if bo, ok := cond.(*ssa.BinOp); ok {
			if call, ok := bo.X.(*ssa.Call); ok && isBuiltinCall(call, "len") {
				z, isC := constInt(bo.Y)
				if !isC || z != 0 {
					return "", false
				}
				name := ""
				if b, ok := isFieldLoadOf(call.Common().Args[0], "Entry", "attrs"); ok && b == ssa.Value(receiver(ca)) {
					name = "hasattrs"
				} else if call.Common().Args[0] == ssa.Value(ca.Params[len(ca.Params)-1]) {
					name = "hasargs"
				} else if b, ok := isFieldLoadOf(call.Common().Args[0], "Entry", "contextKeys"); ok && b == ssa.Value(receiver(ca)) {
					name = "ctxkeys"
				}
				if name == "" {
					return "", false
				}
				switch bo.Op {
				case token.GTR, token.NEQ:
					return name, true
				case token.EQL:
					return "!" + name, true
				}
			}
		}
		return "", false
	}
	for _, a := range assignments([]string{"ctxkeys", "hasattrs", "flag", "hasargs"}, nil) {
		t := walkDecision(ca.Blocks[0], a, negAware(a, atomCA), nil)
		cleanNeg(a)
		key := "collectArgs[" + assignStr(a) + "]"
		if t.Kind != "return" {
			r.Bad("R07.2", key, p.FuncPos(ca), "attribute collection depends on a condition outside {context keys wanted, own attrs, inherit flag, call has args}: %s", t.Kind)
			continue
		}
		th := newThread(kv)
		var seq []string
		for _, cs := range t.Calls {
			switch calleeOf(cs) {
			case fc:
				if onThread(th, cs, t.Path) {
					seq = append(seq, "ctx")
					extend(th, cs)
				}
			case wp:
				good := onThread(th, cs, t.Path)
				for _, ea := range entryArgs(cs) {
					if ea != ssa.Value(receiver(ca)) {
						good = false
					}
				}
				if good {
					seq = append(seq, "chain")
					extend(th, cs)
				} else {
					seq = append(seq, "chain(wrong start or slice)")
				}
			case a2a:
				if onThread(th, cs, t.Path) {
					seq = append(seq, "args")
					extend(th, cs)
				}
			}
		}
		// value style: what is returned is the thread
		if ret, ok := t.Instr.(*ssa.Return); ok && len(ret.Results) == 1 && isAttrsT(ret.Results[0].Type()) {
			if !inThread(th, ret.Results[0], t.Path) {
				seq = append(seq, "returns(another list)")
			}
		}
		var want []string
		if a["ctxkeys"] {
			want = append(want, "ctx")
		}
		if a["hasattrs"] || a["flag"] {
			want = append(want, "chain")
		}
		if a["hasargs"] {
			want = append(want, "args")
		}
		r.Check(fmt.Sprint(seq) == fmt.Sprint(want), "R07.2", key, p.FuncPos(ca), fmt.Sprintf("sources %v in this order", want), fmt.Sprintf("sources collected %v, expected %v (order context < logger chain < call arguments; the chain is walked whenever the inherit flag is on or the logger has attributes)", seq, want))
	}
	r.Ok("R07.1", "order:collectArgs", p.FuncPos(ca), "on every assignment the sources are appended in the order context, logger chain, call arguments (obligations under R07.2)")

	// --- walkParentAttrs
	kv2 := listParam(wp)
	var e *ssa.Parameter
	for _, q := range wp.Params {
		if typeName(q.Type()) == "Entry" && q != receiver(wp) {
			e = q
		}
	}
	if e == nil {
		e = receiver(wp)
	}
	if kv2 == nil || e == nil {
		r.Unk("R07.2", "walkParentAttrs", p.FuncPos(wp), "unexpected signature")
		return
	}
	atomWP := func(cond ssa.Value) (string, bool) {
		if flagAtom(cond) {
			return "flag", true
		}
		bo, ok := cond.(*ssa.BinOp)
		if !ok {
			return "", false
		}
		if bo.X == ssa.Value(e) && isNilConst(bo.Y) {
			if bo.Op == token.EQL {
				return "e==nil", true
			}
			return "!e==nil", true
		}
		if b, ok := isFieldLoadOf(bo.X, "Entry", "owner"); ok && b == ssa.Value(e) && isNilConst(bo.Y) {
			if bo.Op == token.NEQ {
				return "owner!=nil", true
			}
			return "!owner!=nil", true
		}
		if call, ok := strip(bo.X).(*ssa.Call); ok && isBuiltinCall(call, "len") {
			if b, ok := isFieldLoadOf(call.Common().Args[0], "Entry", "attrs"); ok && b == ssa.Value(e) {
				z, isC := constInt(bo.Y)
				if isC && z == 0 {
					switch bo.Op {
					case token.EQL:
						return "empty", true
					case token.NEQ, token.GTR:
						return "!empty", true
					}
				}
				if isC {
					return "cap-hint", true // capacity heuristics: must not matter
				}
			}
		}
		if ph, ok := strip(bo.X).(*ssa.Phi); ok {
			_ = ph
			if _, isC := constInt(bo.Y); isC {
				return "cap-hint", true
			}
		}
		return "", false
	}
	for _, a := range assignments([]string{"e==nil", "empty", "flag", "owner!=nil", "cap-hint"}, nil) {
		t := walkDecision(wp.Blocks[0], a, negAware(a, atomWP), nil)
		cleanNeg(a)
		key := "walkParentAttrs[" + assignStr(a) + "]"
		if t.Kind != "return" {
			r.Bad("R07.2", key, p.FuncPos(wp), "the ancestor walk depends on a condition outside {e==nil, own list empty, inherit flag, owner != nil}: %s", t.Kind)
			continue
		}
		th := newThread(kv2)
		var ev []string
		for _, b := range t.Path {
			for _, in := range b.Instrs {
				switch x := in.(type) {
				case ssa.CallInstruction:
					if calleeOf(x) == wp {
						good := onThread(th, x, t.Path)
						walked := false
						for _, ea := range entryArgs(x) {
							if bb, ok := isFieldLoadOf(ea, "Entry", "owner"); ok && bb == ssa.Value(e) {
								walked = true
							} else if ea != ssa.Value(receiver(wp)) || e == receiver(wp) {
								good = false
							}
						}
						if good && walked {
							ev = append(ev, "ancestors")
							extend(th, x)
						} else {
							ev = append(ev, "recursion(on something else)")
						}
					} else if call, ok := x.(*ssa.Call); ok && isBuiltinCall(call, "append") && isAttrsT(call.Type()) {
						// value style: kvps = append(kvps, e.attrs...)
						if inThread(th, call.Common().Args[0], t.Path) {
							if bb, ok := isFieldLoadOf(call.Common().Args[1], "Entry", "attrs"); ok && bb == ssa.Value(e) {
								// counted when it becomes the thread (returned or stored through the out-pointer)
								th[call] = true
								for _, ref := range *call.Referrers() {
									if st, ok := ref.(*ssa.Store); ok && st.Addr == ssa.Value(kv2) {
										_ = st
									} else if _, isRet := ref.(*ssa.Return); isRet || true {
										_ = ref
									}
								}
								ev = append(ev, "own")
							} else {
								ev = append(ev, "store(other)")
							}
						}
					}
				case *ssa.Store:
					if x.Addr == ssa.Value(kv2) {
						if call, ok := x.Val.(*ssa.Call); !ok || !th[call] {
							ev = append(ev, "store(other)")
						}
					}
				}
			}
		}
		if ret, ok := t.Instr.(*ssa.Return); ok && len(ret.Results) == 1 && isAttrsT(ret.Results[0].Type()) {
			if !inThread(th, ret.Results[0], t.Path) {
				ev = append(ev, "returns(another list)")
			}
		}
		var want []string
		switch {
		case a["e==nil"]:
		case a["empty"] && !a["flag"]:
		default:
			if a["flag"] && a["owner!=nil"] {
				want = append(want, "ancestors")
			}
			want = append(want, "own")
		}
		if !a["owner!=nil"] {
			// visiting a nil owner is a no-op (the walk returns at once on a nil logger: the e==nil rows): optional
			dropAnc := func(in []string) []string {
				var o []string
				for _, x := range in {
					if x != "ancestors" {
						o = append(o, x)
					}
				}
				return o
			}
			ev, want = dropAnc(ev), dropAnc(want)
		}
		if a["empty"] {
			// appending an empty own list is a no-op: optional
			strip := func(in []string) []string {
				var o []string
				for _, x := range in {
					if x != "own" {
						o = append(o, x)
					}
				}
				return o
			}
			ev, want = strip(ev), strip(want)
		}
		r.Check(fmt.Sprint(ev) == fmt.Sprint(want), "R07.2", key, p.FuncPos(wp), fmt.Sprintf("appends %v", want), fmt.Sprintf("the walk appends %v, expected %v (ancestors outermost first iff the flag is on, then the logger's own attributes; an empty own list must not stop the walk while the flag is on)", ev, want))
	}

	// R07.5 nil context
	lc := p.Method(p.Slog, "Entry", "logContext")
	if lc != nil {
		n := 0
		for _, cs := range callsTo(lc, ca) {
			n++
			arg := cs.Common().Args[1]
			okAll := true
			for _, s := range sources(arg) {
				switch x := s.(type) {
				case *ssa.Parameter:
					// the edge carrying the raw parameter must come from ctx != nil
					ph, isPhi := arg.(*ssa.Phi)
					if !isPhi {
						okAll = false
						continue
					}
					for i, ed := range ph.Edges {
						if ed == ssa.Value(x) {
							pred := ph.Block().Preds[i]
							good := false
							if iff := ifOf(pred); iff != nil {
								cond, neg := normCond(iff.Cond)
								if bo, ok := cond.(*ssa.BinOp); ok && bo.X == ssa.Value(x) && isNilConst(bo.Y) {
									// this edge is the "not nil" side
									idx := 0
									if pred.Succs[1] == ph.Block() {
										idx = 1
									}
									taken := (idx == 0) != neg
									if (bo.Op == token.EQL && !taken) || (bo.Op == token.NEQ && taken) {
										good = true
									}
								}
							}
							if !good {
								okAll = false
							}
						}
					}
				case *ssa.Call:
					if cal := calleeOf(x); cal == nil || (cal.String() != "context.TODO" && cal.String() != "context.Background") {
						okAll = false
					}
				default:
					okAll = false
				}
			}
			r.Check(okAll, "R07.5", "nilctx:logContext->collectArgs", p.Pos(instrPos(cs)), "a nil context is replaced before the context keys are looked up", "the context handed to the attribute collection can be nil (ctx.Value would panic) or is not the caller's context")
		}
		if n == 0 {
			r.Unk("R07.5", "nilctx:logContext->collectArgs", p.FuncPos(lc), "logContext does not call collectArgs")
		}
	}
	// fromCtx: for each registered key, ctx.Value(k) non-nil -> kvp{string key, v}
	{
		var probs []string
		rng := false
		for _, cs := range callsIn(fc) {
			if invokeName(cs) == "Value" && inLoop(cs.Block()) {
				rng = true
			}
		}
		if !rng {
			probs = append(probs, "does not look up ctx.Value for each registered key")
		}
		nAppend := 0
		for _, b := range fc.Blocks {
			for _, in := range b.Instrs {
				if st, ok := in.(*ssa.Store); ok && listParam(fc) != nil && st.Addr == ssa.Value(listParam(fc)) {
					nAppend++
					call, ok := st.Val.(*ssa.Call)
					if !ok || !isBuiltinCall(call, "append") {
						probs = append(probs, "stores something other than an append to the slice")
					}
				}
				if call, ok := in.(*ssa.Call); ok && isBuiltinCall(call, "append") && isAttrsT(call.Type()) && listParam(fc) != nil && !strings.HasPrefix(listParam(fc).Type().String(), "*") {
					nAppend++ // value style: kvps = append(kvps, ...)
				}
			}
		}
		// nothing but the key's own kind and the presence of its value decides whether it is appended: every branch edge
		// that dominates an append in the lookup loop is a type test of the key, a nil test of the value looked up, or
		// the loop's own bound
		for _, b := range fc.Blocks {
			isAppendSite := false
			for _, in := range b.Instrs {
				if call, ok := in.(*ssa.Call); ok && isBuiltinCall(call, "append") && isAttrsT(call.Type()) {
					isAppendSite = true
				}
			}
			if !isAppendSite || !inLoop(b) {
				continue
			}
			for _, g := range guardsOf(b) {
				cond, _ := normCond(g.If.Cond)
				okGuard := false
				switch x := cond.(type) {
				case *ssa.Extract:
					if _, isTA := x.Tuple.(*ssa.TypeAssert); isTA && x.Index == 1 {
						okGuard = true
					}
					if _, isNext := x.Tuple.(*ssa.Next); isNext {
						okGuard = true
					}
					// "can this key be named": the ok of a private helper that looks at nothing but the key handed to it
					// (its only conditions are type tests of its parameter)
					if call, isCall := x.Tuple.(*ssa.Call); isCall {
						if cal := calleeOf(call); cal != nil && privateHelper(p)(cal) && len(cal.Params) == 1 {
							pure := true
							for _, hb := range cal.Blocks {
								if iff := ifOf(hb); iff != nil {
									hc, _ := normCond(iff.Cond)
									ex2, isEx := hc.(*ssa.Extract)
									if !isEx {
										pure = false
										continue
									}
									if ta, isTA := ex2.Tuple.(*ssa.TypeAssert); !isTA || strip(ta.X) != ssa.Value(cal.Params[0]) {
										pure = false
									}
								}
							}
							if pure {
								okGuard = true
							}
						}
					}
				case *ssa.BinOp:
					if isNilConst(x.Y) || isNilConst(x.X) {
						v := x.X
						if isNilConst(x.X) {
							v = x.Y
						}
						if call, isCall := strip(v).(*ssa.Call); isCall && invokeName(call) == "Value" {
							okGuard = true
						}
						if _, isPrm := strip(v).(*ssa.Parameter); isPrm {
							okGuard = true // the context / the list itself
						}
					}
					for _, side := range []ssa.Value{x.X, x.Y} {
						if call, isCall := strip(side).(*ssa.Call); isCall && isBuiltinCall(call, "len") {
							okGuard = true // loop bound / "any keys registered"
						}
					}
				case *ssa.Call:
					if n := calleeOf(x); n != nil && nm(n) == "ctxKeysWanted" {
						okGuard = true
					}
				}
				if !okGuard {
					probs = append(probs, fmt.Sprintf("whether a context value is appended also depends on %s (%s): a registered key present in the context can be skipped", m.guardDesc(g), p.Pos(instrPos(g.If))))
				}
			}
		}
		// both key kinds are recognised (in fromCtx or a private helper of it)
		hasStr, hasStringer := false, false
		_, region := newTermEval(p).callsOf(fc, privateHelper(p))
		for g := range region {
			for _, b := range g.Blocks {
				for _, in := range b.Instrs {
					ta, ok := in.(*ssa.TypeAssert)
					if !ok {
						continue
					}
					if bt, ok := ta.AssertedType.Underlying().(*types.Basic); ok && bt.Kind() == types.String {
						hasStr = true
					}
					if it, ok := ta.AssertedType.Underlying().(*types.Interface); ok {
						for i := 0; i < it.NumMethods(); i++ {
							if it.Method(i).Name() == "String" {
								hasStringer = true
							}
						}
					}
				}
			}
		}
		// pairing: the name a context value is stored under is computed from the very key it was looked up with
		// (not from a parallel table that another method has to keep in step)
		{
			te := newTermEval(p)
			effs := te.effectsOf(fc, privateHelper(p))
			nPairs := 0
			for _, ev := range effs {
				if ev.Struct != "kvp" || ev.Field != "val" || ev.Val.Op != "invoke" || ev.Val.Name != "Value" || len(ev.Val.Args) < 2 {
					continue
				}
				looked := ev.Val.Args[1].String()
				for _, ek := range effs {
					if ek.Struct == "kvp" && ek.Field == "key" && ek.Base.V == ev.Base.V {
						nPairs++
						for _, alt := range ek.Val.alts() {
							if alt.Op == "const" && (alt.Name == `""` || strings.HasPrefix(alt.Name, "zero:")) {
								continue // the helper's "not a usable key" result (path-insensitive term)
							}
							if !alt.contains(func(t *Term) bool { return t.String() == looked }) {
								probs = append(probs, "a context value looked up with "+looked+" is stored under a name not computed from that key ("+alt.String()+")")
							}
						}
					}
				}
			}
			if nPairs == 0 {
				probs = append(probs, "no (name, ctx.Value(key)) pair is built")
			}
		}
		if nAppend < 1 || !hasStr || !hasStringer {
			probs = append(probs, "string and Stringer keys are not both handled")
		}
		r.Check(len(probs) == 0, "R07.5", "fromCtx", p.FuncPos(fc), "appends a (key, ctx.Value(key)) pair per registered string/Stringer key present in the context", strings.Join(probs, "; "))
	}
}

// negAware wraps an atomizer that may return "!name" into one usable by walkDecision.
func negAware(a map[string]bool, at func(ssa.Value) (string, bool)) Atomizer {
	return func(cond ssa.Value) (string, bool) {
		n, ok := at(cond)
		if !ok {
			return "", false
		}
		if strings.HasPrefix(n, "!") {
			a["¬"+n[1:]] = !a[n[1:]]
			return "¬" + n[1:], true
		}
		return n, true
	}
}

func cleanNeg(a map[string]bool) {
	for k := range a {
		if strings.HasPrefix(k, "¬") {
			delete(a, k)
		}
	}
}

// printedKeyIsOwnKey: R07.4 — what the member loop prints as the key is the key the list was sorted and
// de-duplicated by: the element's Key(), or DotPrefix(Key(), prefix) (a strictly monotone, injective image for a
// fixed prefix). Any other rewriting at print time (a rename table, a sanitiser) can reorder the keys or make two
// distinct keys collide after the de-duplication has run.
func printedKeyIsOwnKey(c *Ctx, p *Prog, sa *ssa.Function) {
	r := c.R
	keyFn := p.Method(p.Slog, "PrintCtx", "pcAppendStringKey")
	n := 0
	var probs []string
	var ok func(v ssa.Value, depth int) bool
	ok = func(v ssa.Value, depth int) bool {
		v = strip(v)
		if depth > 6 {
			return false
		}
		switch x := v.(type) {
		case *ssa.Phi:
			for _, e := range x.Edges {
				if !ok(e, depth+1) {
					return false
				}
			}
			return true
		case *ssa.Call:
			if invokeName(x) == "Key" {
				return true
			}
			if cal := calleeOf(x); cal != nil && nm(cal) == "DotPrefix" && len(x.Common().Args) >= 1 {
				return ok(x.Common().Args[0], depth+1)
			}
		}
		return false
	}
	for _, cs := range callsIn(sa) {
		if calleeOf(cs) != keyFn || keyFn == nil {
			continue
		}
		n++
		arg := cs.Common().Args[len(cs.Common().Args)-1]
		if !ok(arg, 0) {
			probs = append(probs, fmt.Sprintf("the key written at %s is %s", p.Pos(instrPos(cs)), arg.String()))
		}
	}
	if n == 0 {
		return // keys are written by a helper: the shape is judged where R05.1 finds the key emission
	}
	r.Check(len(probs) == 0, "R07.4", "printed-key", p.FuncPos(sa), "the key printed is the element's own Key(), dot-prefixed at most", "the key printed is not the key the list was sorted and de-duplicated by: "+strings.Join(probs, "; ")+" (a rewriting at print time can put the keys out of order or print one key twice)")
}

func c07Sort(c *Ctx, p *Prog, m *Model) {
	r := c.R
	sa := p.Func(p.Slog, "serializeAttrs")
	if sa == nil {
		r.Unk("R07.3", "serializeAttrs", "-", "not found")
		return
	}
	stable := map[string]bool{"slices.SortStableFunc": true, "sort.SliceStable": true, "sort.Stable": true}
	unstable := map[string]bool{"slices.SortFunc": true, "sort.Slice": true, "sort.Sort": true, "slices.Sort": true}
	// the member-list emitter and the private helpers it is cut into
	te := newTermEval(p)
	te.noInline = func(f *ssa.Function) bool { return strings.HasPrefix(nm(f), "dedupeSlice") }
	ph := privateHelper(p)
	sites, region := te.callsOf(sa, func(f *ssa.Function) bool { return ph(f) && !strings.HasPrefix(nm(f), "dedupeSlice") })
	var sortCall, dedupeCall *CallSite
	var cmpFn, eqFn *ssa.Function
	fnOf := func(v ssa.Value) *ssa.Function {
		switch x := v.(type) {
		case *ssa.MakeClosure:
			return x.Fn.(*ssa.Function)
		case *ssa.Function:
			return x
		}
		return nil
	}
	for i := range sites {
		cs := sites[i]
		cal := calleeOf(cs.Instr)
		if cal == nil {
			continue
		}
		base := origin(cal).String()
		base = strings.TrimPrefix(base, "github.com/hedzr/logg/slog.")
		if i := strings.Index(base, "["); i > 0 {
			base = base[:i]
		}
		if o := origin(cal).Object(); o != nil {
			if a, ok := aliasOf[o]; ok && cal.Pkg == p.Slog {
				base = a
			}
		}
		args := cs.Instr.Common().Args
		if stable[base] || unstable[base] {
			sortCall = &sites[i]
			if unstable[base] {
				r.Bad("R07.3", "sort:stability", p.Pos(instrPos(cs.Instr)), "%s is not a stable sort: among attributes with equal keys the later one is no longer guaranteed to win the de-duplication (manifests above 12 elements)", base)
			} else {
				r.Ok("R07.3", "sort:stability", p.Pos(instrPos(cs.Instr)), "%s keeps equal keys in their original order", base)
			}
			cmpFn = fnOf(args[len(args)-1])
		}
		if base == "dedupeSlice" {
			dedupeCall = &sites[i]
			eqFn = fnOf(args[1])
		}
	}
	printedKeyIsOwnKey(c, p, sa)
	attrsIdentity(c, p, "R07.4")
	if sortCall == nil {
		r.Bad("R07.3", "sort:stability", p.FuncPos(sa), "serializeAttrs does not sort its members with a recognised sort function: ascending key order is not established")
	}
	if dedupeCall == nil {
		r.Bad("R07.3", "dedupe:call", p.FuncPos(sa), "serializeAttrs does not de-duplicate its members: a key can be printed more than once")
	}
	// comparator and equality read only Key()
	for name, fn := range map[string]*ssa.Function{"comparator": cmpFn, "equality": eqFn} {
		if fn == nil {
			r.Unk("R07.3", "keyonly:"+name, p.FuncPos(sa), "the %s closure could not be resolved", name)
			continue
		}
		var other []string
		nKey := 0
		for _, cs := range callsIn(fn) {
			if n := invokeName(cs); n != "" {
				if n == "Key" {
					nKey++
				} else {
					other = append(other, "invoke "+n)
				}
			} else if cal := calleeOf(cs); cal != nil {
				if cn := origin(cal).String(); (cn == "cmp.Compare" || cn == "strings.Compare") && name == "comparator" {
					continue // the standard three-way comparison of the two keys (operands checked below)
				}
				other = append(other, shortName(cal))
			}
		}
		r.Check(len(other) == 0 && nKey >= 2, "R07.3", "keyonly:"+name, p.FuncPos(fn), "compares the two attributes by Key() only", fmt.Sprintf("the %s does not compare the two attributes by their Key() alone (Key calls %d, other calls %v)", name, nKey, other))
	}
	if cmpFn != nil {
		// ascending: returns -1 when k1 < k2
		asc := false
		for _, b := range cmpFn.Blocks {
			if ret, ok := b.Instrs[len(b.Instrs)-1].(*ssa.Return); ok && len(ret.Results) == 1 {
				if v, ok := constInt(ret.Results[0]); ok && v < 0 {
					for _, g := range guardsOf(b) {
						cond, neg := normCond(g.If.Cond)
						if bo, ok := cond.(*ssa.BinOp); ok && bo.Op == token.LSS && !neg && g.Succ == 0 {
							if isKeyOf(bo.X, cmpFn.Params[0]) && isKeyOf(bo.Y, cmpFn.Params[1]) {
								asc = true
							}
						}
					}
				}
			}
		}
		// or: the result IS the standard three-way comparison of (a.Key(), b.Key()) in this order
		for _, b := range cmpFn.Blocks {
			if ret, ok := b.Instrs[len(b.Instrs)-1].(*ssa.Return); ok && len(ret.Results) == 1 {
				for _, sv := range sources(ret.Results[0]) {
					if call, ok := sv.(*ssa.Call); ok {
						if cal := calleeOf(call); cal != nil && (origin(cal).String() == "cmp.Compare" || origin(cal).String() == "strings.Compare") {
							if isKeyOf(call.Common().Args[0], cmpFn.Params[0]) && isKeyOf(call.Common().Args[1], cmpFn.Params[1]) {
								asc = true
							}
						}
					}
				}
			}
		}
		r.Check(asc, "R07.3", "comparator:ascending", p.FuncPos(cmpFn), "negative result exactly when a.Key() < b.Key()", "the comparator does not order by ascending key (a.Key() < b.Key() must give a negative result)")
		comparatorTable(c, p, cmpFn)
	}
	// the members are only reordered and dropped, never rewritten: no function of the emitter region (serializeAttrs and
	// the private helpers it is cut into, dedupeSlice excluded - it compacts) stores into an element of an Attrs list
	{
		var rewrites []string
		var fns []*ssa.Function
		for f := range region {
			fns = append(fns, f)
			for _, an := range f.AnonFuncs {
				fns = append(fns, an)
			}
		}
		sort.Slice(fns, func(i, j int) bool { return fns[i].Pos() < fns[j].Pos() })
		for _, f := range fns {
			if strings.HasPrefix(nm(f), "dedupeSlice") {
				continue
			}
			for _, b := range f.Blocks {
				for _, in := range b.Instrs {
					st, isS := in.(*ssa.Store)
					if !isS {
						continue
					}
					ia, isI := st.Addr.(*ssa.IndexAddr)
					if !isI {
						continue
					}
					if typeName(ia.X.Type()) == "Attrs" {
						rewrites = append(rewrites, shortName(f)+" at "+p.Pos(instrPos(st)))
					} else if sl, isSl := ia.X.Type().Underlying().(*types.Slice); isSl && typeName(sl.Elem()) == "Attr" {
						rewrites = append(rewrites, shortName(f)+" at "+p.Pos(instrPos(st)))
					}
				}
			}
		}
		r.Check(len(rewrites) == 0, "R07.4", "members:not-rewritten", p.FuncPos(sa), "no member of the list is replaced on the way from the sort to the emission", "a member of the attribute list is overwritten in place ("+strings.Join(rewrites, "; ")+"): the attribute printed for a key is no longer the last occurrence given but a value built by the emitter (members of a shadowed occurrence can come back)")
	}
	// order and data flow: sort precedes dedupe; dedupe gets the sorted slice; the loop ranges over the result
	if sortCall != nil && dedupeCall != nil {
		sortedT := te.eval(sortCall.Instr.Common().Args[0], sortCall.Ctx)
		dedupT := te.eval(dedupeCall.Instr.Common().Args[0], dedupeCall.Ctx)
		var kvps *ssa.Parameter
		for _, q := range sa.Params {
			if typeName(q.Type()) == "Attrs" {
				kvps = q
			}
		}
		ok := orderedBefore(*sortCall, *dedupeCall) && sortedT.String() == dedupT.String() && kvps != nil && sortedT.isParam(kvps)
		r.Check(ok, "R07.4", "order:sort-then-dedupe", p.Pos(instrPos(dedupeCall.Instr)), "the member list given is sorted and then de-duplicated", fmt.Sprintf("de-duplication does not run after the sort on the member list given (sorted: %s, de-duplicated: %s)", sortedT, dedupT))
		ranged := false
		for _, b := range sa.Blocks {
			for _, in := range b.Instrs {
				if ia, ok := in.(*ssa.IndexAddr); ok && inLoop(b) {
					all, has := true, false
					for _, alt := range te.eval(ia.X, nil).alts() {
						switch {
						case alt.Op == "call" && strings.HasPrefix(alt.Name, "dedupeSlice"):
							has = true
						case kvps != nil && alt.isParam(kvps):
							// the list as given: an alternative only under the constructor switch (checked below)
						default:
							all = false
						}
					}
					if all && has {
						ranged = true
					}
				}
			}
		}
		r.Check(ranged, "R07.4", "emit:ranges-over-result", p.FuncPos(sa), "the members printed are the de-duplicated result", "the loop that prints the members does not range over the de-duplicated slice")
		// guarded only by the constructor constant
		var gs []string
		for _, g := range sortCall.guards() {
			gs = append(gs, m.guardDesc(g))
		}
		gs = dedupStr(gs)
		okG := len(gs) == 0 || (len(gs) == 1 && gs[0] == "T:PrintCtx.dedupeAttrs")
		r.Check(okG, "R07.4", "sort:unconditional", p.Pos(instrPos(sortCall.Instr)), "sorting depends at most on the constructor constant dedupeAttrs", fmt.Sprintf("sorting is conditional on %v", gs))
		if len(gs) == 1 {
			// dedupeAttrs is stored only by the constructor, with true
			bad := ""
			n := 0
			for _, fn := range p.RepoFuncs() {
				for _, fs := range fieldStores(fn) {
					if fs.Struct == "PrintCtx" && fs.Field == "dedupeAttrs" {
						n++
						if b, isC := constBool(fs.Val); !isC || !b || nm(fn) != "newPrintCtx" {
							bad = shortName(fn) + " stores " + m.valDesc(fs.Val)
						}
					}
				}
			}
			r.Check(bad == "" && n > 0, "R07.4", "dedupeAttrs:const-true", "-", "the switch is set to true by the constructor only", "the sort/de-dup switch is not a constructor constant true: "+bad)
		}
	}
	// groups recurse
	for _, spec := range []string{"Attrs.SerializeValueTo", "gkvp.SerializeValueTo"} {
		fn := p.F(spec)
		if fn == nil {
			r.Unk("R07.4", "recurse:"+spec, "-", "not found")
			continue
		}
		reach := staticReach([]*ssa.Function{fn}, func(f *ssa.Function) bool { return f.Pkg != p.Slog && f.Parent() == nil })
		r.Check(reach[sa], "R07.4", "recurse:"+spec, p.FuncPos(fn), "group members are printed by serializeAttrs as well", spec+" does not print its members through serializeAttrs: they are neither sorted nor de-duplicated")
	}
	// who-may-emit: Key() results reach key emission only in serializeAttrs (and the kvp serializer)
	for _, fn := range p.RepoFuncs() {
		if fn.Pkg != p.Slog || fn == sa || fn.Parent() == sa || fn == cmpFn || fn == eqFn || region[fn] {
			continue
		}
		for _, cs := range callsIn(fn) {
			if invokeName(cs) == "Key" {
				if n := namedOf(cs.Common().Value.Type()); n != nil && nm(n.Obj()) == "Attr" {
					if fn.Parent() != nil && fn.Parent() == sa {
						continue
					}
					r.Bad("R07.4", "other-emitter:"+shortName(fn), p.Pos(instrPos(cs)), "%s reads attribute keys outside serializeAttrs: a second member-list path that does not sort/de-duplicate", shortName(fn))
				}
			}
		}
	}
	// dedupeSlice shape
	dd := p.Func(p.Slog, "dedupeSlice")
	if dd == nil {
		r.Unk("R07.3", "dedupeSlice", "-", "not found")
		return
	}
	x, cmp := dd.Params[0], dd.Params[1]
	// The loop compares the current element E (x[i], i from 1; or the element of a range over x[1:]) with the
	// kept element K = x[j] (j from 0). Along every path from the comparison back to the loop head:
	//   equal     -> E is stored into slot j and j stays          (the later element wins)
	//   not equal -> E is stored into slot j+1 and j becomes j+1  (a new key is kept)
	elemOf := func(v ssa.Value) (low int64, idx ssa.Value, ok bool) {
		u, isU := v.(*ssa.UnOp)
		if !isU || u.Op != token.MUL {
			return 0, nil, false
		}
		ia, isIA := u.X.(*ssa.IndexAddr)
		if !isIA {
			return 0, nil, false
		}
		if ia.X == ssa.Value(x) {
			return 0, ia.Index, true
		}
		if sl, isS := ia.X.(*ssa.Slice); isS && sl.X == ssa.Value(x) && sl.High == nil {
			if sl.Low == nil {
				return 0, ia.Index, true
			}
			if l, isC := constInt(sl.Low); isC {
				return l, ia.Index, true
			}
		}
		return 0, nil, false
	}
	isRangeIdx := func(v ssa.Value) bool {
		bo, ok := v.(*ssa.BinOp)
		if !ok || bo.Op != token.ADD {
			return false
		}
		one, isC := constInt(bo.Y)
		return isC && one == 1 && startsAt(bo.X, -1)
	}
	sameElem := func(a, b ssa.Value) bool {
		if a == b {
			return true
		}
		ua, ok1 := a.(*ssa.UnOp)
		ub, ok2 := b.(*ssa.UnOp)
		if !ok1 || !ok2 {
			return false
		}
		ia, ok1 := ua.X.(*ssa.IndexAddr)
		ib, ok2 := ub.X.(*ssa.IndexAddr)
		return ok1 && ok2 && ia.X == ib.X && ia.Index == ib.Index
	}
	var cmpCall *ssa.Call
	for _, cs := range callsIn(dd) {
		if call, ok := cs.(*ssa.Call); ok && call.Common().Value == ssa.Value(cmp) && inLoop(call.Block()) {
			cmpCall = call
		}
	}
	lastWins, advance := false, false
	why := "no comparison of neighbouring elements in a loop"
	if cmpCall != nil && len(cmpCall.Common().Args) == 2 {
		var E ssa.Value
		var j *ssa.Phi
		for k, a := range cmpCall.Common().Args {
			low, idx, ok := elemOf(a)
			if !ok {
				continue
			}
			if ph, isPhi := idx.(*ssa.Phi); isPhi && low == 0 && startsAt(ph, 0) && j == nil {
				j = ph
				other := cmpCall.Common().Args[1-k]
				if l2, i2, ok2 := elemOf(other); ok2 {
					// the element compared is a LATER one: its absolute index starts at 1 or above
					var minStart func(v ssa.Value, d int) (int64, bool)
					minStart = func(v ssa.Value, d int) (int64, bool) {
						if d > 4 {
							return 0, false
						}
						if isRangeIdx(v) {
							return 0, true
						}
						if ph, isPhi := v.(*ssa.Phi); isPhi {
							for c0 := int64(0); c0 <= 2; c0++ {
								if startsAt(ph, c0) {
									return c0, true
								}
							}
							return 0, false
						}
						if bo, isB := v.(*ssa.BinOp); isB && bo.Op == token.ADD {
							if k, isC := constInt(bo.Y); isC && k >= 0 {
								if m0, ok := minStart(bo.X, d+1); ok {
									return m0 + k, true
								}
							}
						}
						return 0, false
					}
					if m0, ok := minStart(i2, 0); ok && l2+m0 >= 1 {
						E = other
					}
				}
			}
		}
		var iff *ssa.If
		negated := false
		if j != nil && E != nil {
			if i := ifOf(cmpCall.Block()); i != nil {
				cond, neg := normCond(i.Cond)
				if cond == ssa.Value(cmpCall) {
					iff, negated = i, neg
				}
			}
		}
		switch {
		case j == nil || E == nil:
			why = "the comparison is not between the current element and the kept element x[j]"
		case iff == nil:
			why = "the loop does not branch on the comparison"
		default:
			head := j.Block()
			check := func(equal bool) bool {
				succ := 0
				if equal == negated {
					succ = 1
				}
				okAll, n := true, 0
				var dfs func(b *ssa.BasicBlock, path []*ssa.BasicBlock)
				dfs = func(b *ssa.BasicBlock, path []*ssa.BasicBlock) {
					if n > 64 {
						return
					}
					if b == head || len(b.Succs) == 0 {
						n++
						// stores along the path
						stored := false
						for _, pb := range path[1:] {
							for _, in := range pb.Instrs {
								st, ok := in.(*ssa.Store)
								if !ok {
									continue
								}
								ia, ok := st.Addr.(*ssa.IndexAddr)
								if !ok || ia.X != ssa.Value(x) {
									continue
								}
								d := resolveAlong(ia.Index, path)
								v := resolveAlong(st.Val, path)
								goodD := d == ssa.Value(j)
								if !equal {
									bo, isB := d.(*ssa.BinOp)
									one := int64(0)
									if isB {
										one, _ = constInt(bo.Y)
									}
									goodD = isB && bo.Op == token.ADD && bo.X == ssa.Value(j) && one == 1
								}
								if goodD && sameElem(v, E) {
									stored = true
								} else {
									okAll = false
								}
							}
						}
						if !stored {
							okAll = false
						}
						if b == head {
							// the kept index after this iteration
							full := append(append([]*ssa.BasicBlock(nil), path...), head)
							nj := resolveAlong(j, full)
							if equal {
								if nj != ssa.Value(j) {
									okAll = false
								}
							} else {
								bo, isB := nj.(*ssa.BinOp)
								one := int64(0)
								if isB {
									one, _ = constInt(bo.Y)
								}
								if !(isB && bo.Op == token.ADD && bo.X == ssa.Value(j) && one == 1) {
									okAll = false
								}
							}
						} else {
							okAll = false // leaves the loop from inside the body
						}
						return
					}
					for _, pb := range path {
						if pb == b {
							return
						}
					}
					for _, sc := range b.Succs {
						dfs(sc, append(append([]*ssa.BasicBlock(nil), path...), b))
					}
				}
				dfs(iff.Block().Succs[succ], []*ssa.BasicBlock{iff.Block()})
				return okAll && n > 0
			}
			lastWins, advance = check(true), check(false)
		}
	}
	_ = why
	r.Check(lastWins, "R07.3", "dedupeSlice:last-wins", p.FuncPos(dd), "on equal keys the kept slot is overwritten with the later element", "dedupeSlice does not overwrite the kept slot with the LATER element of a run of equal keys: the first occurrence would win")
	r.Check(advance, "R07.3", "dedupeSlice:advance", p.FuncPos(dd), "on a new key the element is moved to the next kept slot", "dedupeSlice does not keep elements with a new key")
	// returns x[:j+1]
	okRet := false
	rets, _ := exitBlocks(dd)
	for _, b := range rets {
		ret := b.Instrs[len(b.Instrs)-1].(*ssa.Return)
		if sl, ok := ret.Results[0].(*ssa.Slice); ok && sl.X == ssa.Value(x) && sl.Low == nil {
			if l, ok := linOf(sl.High); ok && l.c == 1 && len(l.atoms) == 1 {
				for at := range l.atoms {
					if startsAt(at, 0) {
						okRet = true
					}
				}
			}
		}
	}
	r.Check(okRet, "R07.3", "dedupeSlice:result", p.FuncPos(dd), "returns the prefix of kept elements x[:j+1]", "dedupeSlice does not return the prefix x[:j+1] of kept elements")
}

func isKeyOf(v ssa.Value, prm *ssa.Parameter) bool {
	call, ok := v.(*ssa.Call)
	return ok && invokeName(call) == "Key" && call.Common().Value == ssa.Value(prm)
}

func idxOfElem(v ssa.Value, x *ssa.Parameter) ssa.Value {
	if u, ok := v.(*ssa.UnOp); ok {
		if ia, ok := u.X.(*ssa.IndexAddr); ok && ia.X == ssa.Value(x) {
			return ia.Index
		}
	}
	return nil
}

// startsAt: v is a loop phi whose entry edge is the constant c.
func startsAt(v ssa.Value, c int64) bool {
	ph, ok := v.(*ssa.Phi)
	if !ok {
		return false
	}
	for _, e := range ph.Edges {
		if cv, ok := constInt(e); ok && cv == c {
			return true
		}
	}
	return false
}

// comparatorTable: the sort's comparator, read as a decision function over {a is nil, b is nil, the relation of the
// two keys}, is a consistent three-way order: 0 for two nils, opposite non-zero results for the two one-nil rows,
// and the sign of the key relation otherwise. A comparator that answers "equal" for a nil against anything is not
// transitive: a stable sort then leaves the keys around a nil placeholder unsorted.
func comparatorTable(c *Ctx, p *Prog, fn *ssa.Function) {
	r := c.R
	if len(fn.Params) < 2 {
		return
	}
	a, b := fn.Params[len(fn.Params)-2], fn.Params[len(fn.Params)-1]
	keyRel := func(x, y ssa.Value) int { // 1: (a,b), -1: (b,a), 0: neither
		switch {
		case isKeyOf(x, a) && isKeyOf(y, b):
			return 1
		case isKeyOf(x, b) && isKeyOf(y, a):
			return -1
		}
		return 0
	}
	atomize := func(cond ssa.Value) (string, bool) {
		bo, ok := cond.(*ssa.BinOp)
		if !ok {
			return "", false
		}
		if isNilConst(bo.Y) || isNilConst(bo.X) {
			v := bo.X
			if isNilConst(bo.X) {
				v = bo.Y
			}
			who := ""
			switch strip(v) {
			case ssa.Value(a):
				who = "a"
			case ssa.Value(b):
				who = "b"
			default:
				return "", false
			}
			switch bo.Op {
			case token.EQL:
				return who + "=nil", true
			case token.NEQ:
				return who + "!=nil", true
			}
			return "", false
		}
		d := keyRel(bo.X, bo.Y)
		if d == 0 {
			return "", false
		}
		op := bo.Op
		if d < 0 {
			switch op {
			case token.LSS:
				op = token.GTR
			case token.GTR:
				op = token.LSS
			case token.LEQ:
				op = token.GEQ
			case token.GEQ:
				op = token.LEQ
			}
		}
		return "k" + op.String(), true
	}
	sign := func(v int64) int {
		switch {
		case v < 0:
			return -1
		case v > 0:
			return 1
		}
		return 0
	}
	type row struct {
		an, bn bool
		rel    int
	}
	eval := func(rw row) (int, string) {
		as := map[string]bool{"a=nil": rw.an, "a!=nil": !rw.an, "b=nil": rw.bn, "b!=nil": !rw.bn,
			"k<": rw.rel < 0, "k==": rw.rel == 0, "k>": rw.rel > 0, "k<=": rw.rel <= 0, "k>=": rw.rel >= 0, "k!=": rw.rel != 0}
		t := walkDecision(fn.Blocks[0], as, atomize, nil)
		if t.Kind != "return" {
			return 0, t.Kind
		}
		for _, cs := range t.Calls {
			if invokeName(cs) == "Key" {
				if (cs.Common().Value == ssa.Value(a) && rw.an) || (cs.Common().Value == ssa.Value(b) && rw.bn) {
					return 0, "Key() is called on a nil attribute"
				}
			}
		}
		rv := resolveAlong(t.Instr.(*ssa.Return).Results[0], t.Path)
		if v, ok := constInt(rv); ok {
			return sign(v), ""
		}
		if call, ok := rv.(*ssa.Call); ok {
			if cal := calleeOf(call); cal != nil && (origin(cal).String() == "cmp.Compare" || origin(cal).String() == "strings.Compare") {
				if d := keyRel(call.Common().Args[0], call.Common().Args[1]); d != 0 {
					return d * rw.rel, ""
				}
			}
		}
		return 0, "result not recognised: " + rv.String()
	}
	var probs []string
	get := func(rw row, name string) (int, bool) {
		v, why := eval(rw)
		if why != "" {
			probs = append(probs, name+": "+why)
			return 0, false
		}
		return v, true
	}
	if v, ok := get(row{true, true, 0}, "both nil"); ok && v != 0 {
		probs = append(probs, fmt.Sprintf("two nil placeholders compare as %d, not equal", v))
	}
	v1, ok1 := get(row{true, false, 0}, "a nil")
	v2, ok2 := get(row{false, true, 0}, "b nil")
	if ok1 && ok2 && !(v1 != 0 && v2 == -v1) {
		probs = append(probs, fmt.Sprintf("a nil placeholder against an attribute gives %d and the reverse gives %d: they must be opposite and non-zero, otherwise 'equal to nil' links keys that are not equal and the stable sort leaves the keys on either side of a placeholder unsorted", v1, v2))
	}
	for _, rel := range []int{-1, 0, 1} {
		if v, ok := get(row{false, false, rel}, fmt.Sprintf("keys related %d", rel)); ok && v != rel {
			probs = append(probs, fmt.Sprintf("for keys with a.Key() %s b.Key() the comparator answers %d", map[int]string{-1: "<", 0: "==", 1: ">"}[rel], v))
		}
	}
	r.Check(len(probs) == 0, "R07.3", "comparator:table", p.FuncPos(fn), "a consistent three-way order over {nil, nil}, {nil, attribute} and the key relation (6 rows)", "the sort's comparator is not a consistent order: "+strings.Join(probs, "; "))
}
