package main

import (
	"fmt"
	"sort"

	"golang.org/x/tools/go/ssa"
)

func init() { register("C19", checkC19) }

var c19Methods = []string{"Write", "WriteString", "WriteByte", "WriteRune", "Read", "ReadByte", "ReadRune", "UnreadByte", "UnreadRune", "Next",
	"ReadBytes", "ReadString", "ReadFrom", "WriteTo", "Truncate", "Grow", "Reset", "Len", "Bytes", "String"}

func checkC19(c *Ctx) {
	r := c.R
	r.Level = "translation_validation"
	r.Rule("R19.1", "clone agreement: for each listed method of PrintCtx and every helper it calls, the SSA form of the repository's function is isomorphic to that of the same-named bytes.Buffer function of the toolchain's standard library (blocks, instructions, operators, field names, numeric constants and operand correspondence equal; type Buffer renamed to PrintCtx; message strings ignored): same results, errors, panics and remaining contents for every operation sequence")
	r.Rule("R19.2", "the representation is private to the cloned methods: the read offset and the unread bookkeeping are stored only by functions that were shown isomorphic to their bytes.Buffer originals (or store the zero/initial value)")
	r.Assume("the toolchain's bytes.Buffer (GOROOT source loaded by the same go/packages run) is the reference the property names")
	r.Assume("isomorphism is sound but incomplete: a behaviour-preserving rewrite that changes the structure is reported as 'equivalence not established'")
	for _, tags := range c.Configs([]string{""}, []string{"", "verbose"}) {
		p := c.Prog(tags)
		if p == nil {
			continue
		}
		bp := p.Pkg("bytes")
		if bp == nil {
			r.Unk("R19.1", "bytes", "-", "standard library package bytes not loaded")
			continue
		}
		ic := newIso(p, map[string]string{"PrintCtx": "Buffer"})
		done := map[*ssa.Function]bool{}
		proven := map[*ssa.Function]bool{}
		nPairs, nDiff := 0, 0
		var samples []any
		cmp := func(fa, fb *ssa.Function) {
			if done[fa] {
				return
			}
			done[fa] = true
			nPairs++
			key := "pair:" + shortName(fa) + "~" + fb.String()
			if d := ic.compare(fa, fb); d != "" {
				nDiff++
				r.Bad("R19.1", key, p.FuncPos(fa), "not isomorphic to %s: %s — equivalence with bytes.Buffer is not established for this method", fb, d)
			} else {
				proven[fa] = true
				r.Ok("R19.1", key, p.FuncPos(fa), "isomorphic (%d blocks)", len(fa.Blocks))
				if len(samples) < 6 {
					samples = append(samples, map[string]any{"repo": shortName(fa), "stdlib": fb.String(), "blocks": len(fa.Blocks), "verdict": "isomorphic"})
				}
			}
		}
		for _, mn := range c19Methods {
			fa := p.Method(p.Slog, "PrintCtx", mn)
			fb := p.Method(bp, "Buffer", mn)
			if fa == nil || fb == nil {
				r.Bad("R19.1", "pair:PrintCtx."+mn, "-", "method missing (repo: %v, bytes.Buffer: %v)", fa != nil, fb != nil)
				continue
			}
			ic.fnPairs[fa] = fb
			cmp(fa, fb)
		}
		for len(ic.queue) > 0 {
			pr := ic.queue[0]
			ic.queue = ic.queue[1:]
			if pr[0].Pkg == p.Slog {
				cmp(pr[0], pr[1])
			}
		}
		// globals matched must be plausible (errors by role): report them
		var gl []string
		for a, b := range ic.globals {
			gl = append(gl, nm(a)+"~"+nm(b.Pkg.Pkg)+"."+nm(b))
		}
		sort.Strings(gl)
		r.Extra["matched_package_variables"] = gl
		r.Extra["programs"] = nPairs
		r.Extra["disagreements_checked"] = nDiff
		if len(samples) > 0 {
			r.Extra["tv_samples"] = samples
		}
		// R19.2
		for _, fn := range p.RepoFuncs() {
			for _, fs := range fieldStores(fn) {
				if fs.Struct != "PrintCtx" || (fs.Field != "off" && fs.Field != "lastRead") || fs.Kind == "addr-escape" {
					continue
				}
				key := fmt.Sprintf("repr:%s:%s", shortName(fn), fs.Field)
				if proven[fn] {
					r.Ok("R19.2", key, p.Pos(instrPos(fs.Instr)), "stored by a function shown isomorphic to its bytes.Buffer original")
					continue
				}
				if v, ok := constInt(fs.Val); ok && v == 0 {
					r.Ok("R19.2", key, p.Pos(instrPos(fs.Instr)), "stores the initial value 0")
					continue
				}
				r.Bad("R19.2", key, p.Pos(instrPos(fs.Instr)), "%s writes the buffer's %s outside the cloned bytes.Buffer methods: the read side no longer behaves like bytes.Buffer", shortName(fn), fs.Field)
			}
		}
	}
	c.Floor["R19.1"] = 25
}

// c19WriteSide (R19.1 shared): the write side of the formatting buffer (what every encoder appends through) agrees
// with bytes.Buffer: a record is the bytes appended, in order, nothing else.
var c19WriteMethods = []string{"Write", "WriteString", "WriteByte", "WriteRune", "Truncate", "Grow", "Reset", "Len", "Bytes", "String"}

func c19WriteSide(c *Ctx, p *Prog) {
	r := c.R
	bp := p.Pkg("bytes")
	if bp == nil {
		r.Unk("R19.1", "bytes", "-", "standard library package bytes not loaded")
		return
	}
	ic := newIso(p, map[string]string{"PrintCtx": "Buffer"})
	done := map[*ssa.Function]bool{}
	cmp := func(fa, fb *ssa.Function) {
		if done[fa] {
			return
		}
		done[fa] = true
		key := "pair:" + shortName(fa) + "~" + fb.String()
		if d := ic.compare(fa, fb); d != "" {
			r.Bad("R19.1", key, p.FuncPos(fa), "not isomorphic to %s: %s — the formatting buffer no longer appends like bytes.Buffer, so a record is not the bytes the encoder wrote", fb, d)
		} else {
			r.Ok("R19.1", key, p.FuncPos(fa), "isomorphic (%d blocks)", len(fa.Blocks))
		}
	}
	for _, mn := range c19WriteMethods {
		fa := p.Method(p.Slog, "PrintCtx", mn)
		fb := p.Method(bp, "Buffer", mn)
		if fa == nil || fb == nil {
			r.Bad("R19.1", "pair:PrintCtx."+mn, "-", "method missing (repo: %v, bytes.Buffer: %v)", fa != nil, fb != nil)
			continue
		}
		ic.fnPairs[fa] = fb
		cmp(fa, fb)
	}
	for len(ic.queue) > 0 {
		pr := ic.queue[0]
		ic.queue = ic.queue[1:]
		if pr[0].Pkg == p.Slog {
			cmp(pr[0], pr[1])
		}
	}
	growPrimitiveCallers(c, p, "R19.1")
}
