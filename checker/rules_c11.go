package main

import (
	"fmt"
	"go/token"
	"sort"
	"strings"

	"golang.org/x/tools/go/ssa"
)

func init() { register("C11", checkC11) }

func checkC11(c *Ctx) {
	r := c.R
	r.Rule("R04.9", "(shared with C04) every record of a JSON logger is one JSON object: whether the member separator is written does not depend on the attribute")
	r.Rule("R11.1", "transition functions: the effect of SetJSONMode(m) and SetColorMode(m) on (useJSON,useColor), extracted from their code with m = last variadic argument (default true), equals the property's table: SetJSONMode(m): useJSON:=m, useColor:=false if m else unchanged; SetColorMode(m): useJSON:=false, useColor:=m")
	r.Rule("R11.2", "getters: JSONMode returns the receiver's useJSON and ColorMode the receiver's useColor")
	r.Rule("R11.3", "bytes follow the state: setentry derives the encoder's mode bits as jsonMode = useJSON and noColor = !(useColor && !useJSON) from the emitting logger, on every path; these two encoder fields are stored nowhere else; the encoder's top-level format branch tests exactly these fields")
	r.Rule("R11.4", "options and With-forms: WithJSONMode/WithColorMode (methods and Opt constructors) call the namesake Set with their own arguments (methods: shared with R10.2)")
	r.Rule("R11.6", "the shape of a record comes from this record's state only: in each of the three modes no field of the pooled encoder can be read before the current record wrote it (engine E10, shared with R09.1), so material formatted for a previous record in another format cannot surface")
	r.Rule("R11.7", "no colour outside colored mode: in JSON and logfmt mode (mode bits pruned, the testing/debug dump included) no reachable site writes a constant containing the escape byte; positive control: the same query finds the escape writers in colored mode")
	r.Rule("R09.2", "(shared with C09) the shape of a record comes from its own logger's state: nothing on the print path keeps rendered text in package-level state (a memo filled by a logger of one format would be replayed into a record of another)")
	r.Rule("R08.1", "(shared with C08) nothing on the print path writes memory that outlives the call (fields of package-level objects included): text rendered for a record of one format is never kept for another record")
	r.Rule("R08.2", "(shared with C08) lists appended to or reordered in place belong to this call")
	r.Rule("R02.3", "(shared with C02) every record has the shape of the format in force: the only payload that is not the finished buffer is the blank line of Print/Println, taken exactly for lvl == AlwaysLevel with a blank message")
	r.Rule("R10.9", "(shared with C10) isolation of anonymous children: two New(\"\") children are distinct loggers (the caller's name is the registry key only when it is a non-empty string)")
	r.Rule("R04.2", "(shared with C04) a JSON logger emits JSON: in JSON mode everything written verbatim is encoder text, a number, a time, a quoted string or MarshalJSON output (raw MarshalText output is not)")
	r.Rule("R05.11", "(shared with C05) the shape of the format in force: pairs and separators of the fixed members alternate on every mode-feasible path (no dangling separator)")
	r.Rule("R02.2", "(shared with C02) every destination gets the record in the format in force: the sink and the fan-out hand each member the payload itself")
	r.Rule("R13.1", "(shared with C13) as R02.2 for the fan-out loop")
	r.Rule("R10.3", "(shared with C10) the format a child starts with is inherited before its options run and not afterwards (creation copies the documented settings only, in the documented order)")
	r.Rule("R11.5", "isolation: no store to useJSON/useColor of another logger (shared with R10.1)")
	for _, tags := range c.Configs([]string{""}, []string{"", "verbose", "hint"}) {
		p := c.Prog(tags)
		if p == nil {
			continue
		}
		m, err := BuildModel(p)
		if err != nil {
			r.Unk("R11.1", "model", "-", "%v", err)
			continue
		}
		c11Transitions(c, p, m)
		c11Encoder(c, p, m)
		optionsInOrder(c, p, "R11.4")
		freshChildren(c, p, m, "R11.5", func(n string) bool { return n == "WithJSONMode" || n == "WithColorMode" })
		// the record's shape must come from this record's mode only: no pooled encoder field is read stale in any mode
		c09Pooled(c, p, m, "R11.6", feasibleModes)
		c11NoEscapes(c, p, m)
		childNameDecision(c, p, "R10.9")
		separatorIndependentOfMember(c, p, "R04.9")
		c02Sink(c, p, m)
		c13Fanout(c, p, m)
		c10Creation(c, p, m)
		emissionCommon(c, p, m, Mode{true, true}, "R04.2")
		timeTextQuoted(c, p, m, Mode{true, true}, "R04.2")
		timeTextQuoted(c, p, m, Mode{false, true}, "R04.2")
		fixedMemberGrammar(c, p, m, Mode{true, true}, "R05.11")
		fixedMemberGrammar(c, p, m, Mode{false, true}, "R05.11")
		c02Newline(c, p, m)
		c09Globals(c, p, m)
		c08Stores(c, p, m)
	}
	c.Floor["R11.1"] = 4
	c.Floor["R11.3"] = 5
	c.Floor["R11.7"] = 3
}

// pickLoop recognises "the last variadic argument, true when there is none" and returns the value holding the
// pick: the phi of `mode := true; for _, bb := range b { mode = bb }`, or the result of a private helper with
// that meaning (`lastBool(true, b)`), decided on the value's term: its alternatives are the constant true and
// elements of the variadic parameter, indexed by the range variable or by len-1.
func pickLoop(p *Prog, fn *ssa.Function) (ssa.Value, string) {
	if !fn.Signature.Variadic() {
		return nil, "not variadic"
	}
	vp := fn.Params[len(fn.Params)-1]
	te := newTermEval(p)
	why := "no 'last argument, default true' pick found"
	for _, b := range fn.Blocks {
		for _, in := range b.Instrs {
			v, ok := in.(ssa.Value)
			if !ok || v.Type().String() != "bool" {
				continue
			}
			switch in.(type) {
			case *ssa.Phi, *ssa.Call:
			default:
				continue
			}
			var hasTrue, hasElem, other bool
			for _, a := range te.eval(v, nil).alts() {
				switch {
				case a.Op == "const" && a.Name == "true":
					hasTrue = true
				case a.Op == "index" && a.Args[0].isParam(vp):
					ix := a.Args[1].String()
					if ix == "bin:-(len($"+vp.Name()+"), 1)" || strings.Contains(ix, "loop") || strings.HasPrefix(ix, "bin:+(") {
						hasElem = true
					} else {
						other = true
					}
				default:
					other = true
				}
			}
			if hasElem && hasTrue && !other {
				return v, ""
			}
			if hasElem && !other {
				why = "the picked value does not default to true when no argument is given"
			}
		}
	}
	return nil, why
}

// isArgCountTest: cond compares len(<the variadic parameter>) with 0 (the "were arguments given" test of the
// direct-last-element form of the pick; its outcome does not matter once the picked value is assigned).
func isArgCountTest(cond ssa.Value, fn *ssa.Function) bool {
	bo, ok := cond.(*ssa.BinOp)
	if !ok || len(fn.Params) == 0 {
		return false
	}
	vp := fn.Params[len(fn.Params)-1]
	for _, pr := range [][2]ssa.Value{{bo.X, bo.Y}, {bo.Y, bo.X}} {
		lc, isL := pr[0].(*ssa.Call)
		if !isL || !isBuiltinCall(lc, "len") || strip(lc.Common().Args[0]) != ssa.Value(vp) {
			continue
		}
		if z, isC := constInt(pr[1]); isC && (z == 0 || z == 1) {
			return true
		}
	}
	return false
}

func c11Transitions(c *Ctx, p *Prog, m *Model) {
	r := c.R
	type spec struct {
		name string
		eff  func(mv bool) map[string]string
	}
	specs := []spec{
		{"SetJSONMode", func(mv bool) map[string]string {
			if mv {
				return map[string]string{"useJSON": "true", "useColor": "false"}
			}
			return map[string]string{"useJSON": "false"}
		}},
		{"SetColorMode", func(mv bool) map[string]string {
			return map[string]string{"useJSON": "false", "useColor": fmt.Sprint(mv)}
		}},
	}
	for _, sp := range specs {
		fn := p.Method(p.Slog, "Entry", sp.name)
		if fn == nil {
			r.Unk("R11.1", "transition:"+sp.name, "-", "method not found")
			continue
		}
		ph, why := pickLoop(p, fn)
		if ph == nil {
			r.Bad("R11.1", "transition:"+sp.name+":pick", p.FuncPos(fn), "%s", why)
			continue
		}
		r.Ok("R11.1", "transition:"+sp.name+":pick", p.FuncPos(fn), "m = last variadic argument, default true")
		for _, mv := range []bool{true, false} {
			assign := map[string]bool{"more": false, "mode": mv}
			t := walkDecision(fn.Blocks[0], assign, func(cond ssa.Value) (string, bool) {
				if cond == ssa.Value(ph) {
					return "mode", true
				}
				if bo, ok := cond.(*ssa.BinOp); ok && bo.Op == token.LSS {
					if phi, isPhi := ph.(*ssa.Phi); isPhi && bo.Block() == phi.Block() {
						return "more", true
					}
				}
				if isArgCountTest(cond, fn) {
					return "more", true
				}
				return "", false
			}, nil)
			key := fmt.Sprintf("transition:%s(m=%v)", sp.name, mv)
			if t.Kind != "return" {
				r.Bad("R11.1", key, p.FuncPos(fn), "the effect depends on a condition outside the table (%s)", t.Kind)
				continue
			}
			got := map[string]string{}
			for _, b := range t.Path {
				for _, in := range b.Instrs {
					st, ok := in.(*ssa.Store)
					if !ok {
						continue
					}
					fa, ok := st.Addr.(*ssa.FieldAddr)
					if !ok || fa.X != ssa.Value(receiver(fn)) {
						continue
					}
					f := nm(structOf(fa.X.Type()).Field(fa.Field))
					switch {
					case st.Val == ssa.Value(ph):
						got[f] = fmt.Sprint(mv)
					default:
						if cb, ok := constBool(st.Val); ok {
							got[f] = fmt.Sprint(cb)
						} else if u, ok := st.Val.(*ssa.UnOp); ok && u.Op == token.NOT && u.X == ssa.Value(ph) {
							got[f] = fmt.Sprint(!mv)
						} else {
							got[f] = "?" + m.valDesc(st.Val)
						}
					}
				}
			}
			want := sp.eff(mv)
			r.Check(fmt.Sprint(got) == fmt.Sprint(want), "R11.1", key, p.FuncPos(fn), fmt.Sprintf("effect %v as in the property's table", want), fmt.Sprintf("extracted effect %v, the property's table gives %v", got, want))
		}
	}
	// getters
	for _, g := range []struct{ name, field string }{{"JSONMode", "useJSON"}, {"ColorMode", "useColor"}} {
		fn := p.Method(p.Slog, "Entry", g.name)
		if fn == nil {
			r.Unk("R11.2", "getter:"+g.name, "-", "not found")
			continue
		}
		rets, _ := exitBlocks(fn)
		ok := len(rets) == 1
		if ok {
			b, isF := isFieldLoadOf(rets[0].Instrs[len(rets[0].Instrs)-1].(*ssa.Return).Results[0], "Entry", g.field)
			ok = isF && b == ssa.Value(receiver(fn))
		}
		r.Check(ok, "R11.2", "getter:"+g.name, p.FuncPos(fn), "returns the receiver's "+g.field, g.name+" does not simply return the receiver's "+g.field+": getter and state can disagree")
	}
	// Opt constructors
	for _, on := range []string{"WithJSONMode", "WithColorMode"} {
		fn := p.Func(p.Slog, on)
		if fn == nil {
			r.Unk("R11.4", "opt:"+on, "-", "not found")
			continue
		}
		want := "Set" + strings.TrimPrefix(on, "With")
		ok := false
		for _, an := range fn.AnonFuncs {
			for _, cs := range callsIn(an) {
				if cal := calleeOf(cs); cal != nil && nm(cal) == want && len(an.Params) == 1 && cs.Common().Args[0] == ssa.Value(an.Params[0]) {
					// variadic args are the captured parameter
					if len(cs.Common().Args) == 2 {
						if _, isFV := sources(cs.Common().Args[1])[0].(*ssa.FreeVar); isFV {
							ok = true
						}
						if u, isU := cs.Common().Args[1].(*ssa.UnOp); isU {
							if _, isFV := u.X.(*ssa.FreeVar); isFV {
								ok = true
							}
						}
					}
				}
			}
		}
		r.Check(ok, "R11.4", "opt:"+on, p.FuncPos(fn), "the option applies "+want+" with its own arguments to the logger under construction", "the option constructor "+on+" does not apply "+want+" with its own arguments")
	}
	// With methods (R10.2 machinery, re-checked here for the two mode methods)
	ncl := p.Method(p.Slog, "Entry", "newChildLogger")
	for _, wn := range []string{"WithJSONMode", "WithColorMode"} {
		fn := p.Method(p.Slog, "Entry", wn)
		if fn == nil || ncl == nil {
			r.Unk("R11.4", "with:"+wn, "-", "not found")
			continue
		}
		want := "Set" + strings.TrimPrefix(wn, "With")
		ok := false
		for _, cs := range callsIn(fn) {
			if cal := calleeOf(cs); cal != nil && nm(cal) == want {
				if c0, isCall := strip(cs.Common().Args[0]).(*ssa.Call); isCall && calleeOf(c0) == ncl && len(cs.Common().Args) == 2 && cs.Common().Args[1] == ssa.Value(fn.Params[1]) {
					ok = true
				}
			}
		}
		r.Check(ok, "R11.4", "with:"+wn, p.FuncPos(fn), "applies "+want+"(own args) to a new child", wn+" does not apply "+want+" with its own arguments to the new child")
	}
	// R11.5: all stores to the two mode bits go through receiver / fresh
	n := 0
	for _, fn := range p.RepoFuncs() {
		for _, fs := range fieldStores(fn) {
			if fs.Struct == "Entry" && (fs.Field == "useJSON" || fs.Field == "useColor") {
				n++
				prov := provenance(fs.Base, fn)
				r.Check(prov == "receiver" || prov == "fresh", "R11.5", fmt.Sprintf("store:%s:%s", shortName(fn), fs.Field), p.Pos(instrPos(fs.Instr)), "written through "+prov, "the format bit "+fs.Field+" of another logger is written (base "+prov+")")
				// who may write: only the two setters and the constructor
				sn := shortName(fn)
				r.Check(sn == "Entry.SetJSONMode" || sn == "Entry.SetColorMode" || sn == "newentry", "R11.5", fmt.Sprintf("writer:%s:%s", sn, fs.Field), p.Pos(instrPos(fs.Instr)), "a mode call or the constructor", "the format state is also changed by "+sn+", which is not one of the mode calls")
			}
		}
	}
	if n == 0 {
		r.Unk("R11.5", "store:none", "-", "no store to useJSON/useColor found")
	}
}

// evalBool evaluates a boolean SSA value along a path under atom values.
func evalBool(v ssa.Value, path []*ssa.BasicBlock, atom func(ssa.Value) (bool, bool)) (bool, bool) {
	v = resolveAlong(v, path)
	if cb, ok := constBool(v); ok {
		return cb, true
	}
	if u, ok := v.(*ssa.UnOp); ok && u.Op == token.NOT {
		x, ok := evalBool(u.X, path, atom)
		return !x, ok
	}
	if a, ok := atom(v); ok {
		return a, true
	}
	return false, false
}

func c11Encoder(c *Ctx, p *Prog, m *Model) {
	r := c.R
	se := p.Method(p.Slog, "PrintCtx", "setentry")
	if se == nil || len(se.Params) != 2 {
		r.Unk("R11.3", "PrintCtx.setentry", "-", "not found")
		return
	}
	e := se.Params[1]
	for _, uj := range []bool{false, true} {
		for _, uc := range []bool{false, true} {
			atomV := func(v ssa.Value) (bool, bool) {
				if b, ok := isFieldLoadOf(v, "Entry", "useJSON"); ok && b == ssa.Value(e) {
					return uj, true
				}
				if b, ok := isFieldLoadOf(v, "Entry", "useColor"); ok && b == ssa.Value(e) {
					return uc, true
				}
				return false, false
			}
			assign := map[string]bool{"useJSON": uj, "useColor": uc}
			t := walkDecision(se.Blocks[0], assign, func(cond ssa.Value) (string, bool) {
				if b, ok := isFieldLoadOf(cond, "Entry", "useJSON"); ok && b == ssa.Value(e) {
					return "useJSON", true
				}
				if b, ok := isFieldLoadOf(cond, "Entry", "useColor"); ok && b == ssa.Value(e) {
					return "useColor", true
				}
				return "", false
			}, nil)
			key := fmt.Sprintf("setentry[useJSON=%v,useColor=%v]", uj, uc)
			if t.Kind != "return" {
				r.Bad("R11.3", key, p.FuncPos(se), "the mode derivation depends on something other than the logger's two mode bits (%s)", t.Kind)
				continue
			}
			got := map[string]string{}
			for _, b := range t.Path {
				for _, in := range b.Instrs {
					st, ok := in.(*ssa.Store)
					if !ok {
						continue
					}
					fa, ok := st.Addr.(*ssa.FieldAddr)
					if !ok || fa.X != ssa.Value(receiver(se)) {
						continue
					}
					f := nm(structOf(fa.X.Type()).Field(fa.Field))
					if f != "jsonMode" && f != "noColor" {
						continue
					}
					if v, ok := evalBool(st.Val, t.Path, atomV); ok {
						got[f] = fmt.Sprint(v)
					} else {
						got[f] = "?" + m.valDesc(st.Val)
					}
				}
			}
			want := map[string]string{"jsonMode": fmt.Sprint(uj), "noColor": fmt.Sprint(!(uc && !uj))}
			r.Check(fmt.Sprint(got) == fmt.Sprint(want), "R11.3", key, p.FuncPos(se), fmt.Sprintf("encoder bits %v", want), fmt.Sprintf("encoder bits %v, the state machine requires %v", got, want))
		}
	}
	// stored nowhere else
	var others []string
	for _, fn := range p.RepoFuncs() {
		if fn == se {
			continue
		}
		for _, fs := range fieldStores(fn) {
			if fs.Struct == "PrintCtx" && (fs.Field == "jsonMode" || fs.Field == "noColor") {
				others = append(others, shortName(fn)+" writes "+fs.Field+" at "+p.Pos(instrPos(fs.Instr)))
			}
		}
	}
	sort.Strings(others)
	r.Check(len(others) == 0, "R11.3", "modebits:single-writer", p.FuncPos(se), "jsonMode/noColor are stored only by setentry", "the encoder's mode bits are also written elsewhere: "+strings.Join(others, "; "))
	// set() calls setentry with the emitting logger on every path
	if set := p.Method(p.Slog, "PrintCtx", "set"); set != nil {
		lo, hi := countOnPaths(set, func(in ssa.Instruction) bool {
			cs, ok := in.(ssa.CallInstruction)
			return ok && calleeOf(cs) == se && cs.Common().Args[1] == ssa.Value(set.Params[1])
		})
		r.Check(lo == 1 && hi == 1, "R11.3", "set->setentry", p.FuncPos(set), "set() derives the mode from the logger passed in, once on every path", "PrintCtx.set does not call setentry(logger) exactly once on every path")
	}
	// print passes its own receiver as the logger
	if pr := p.Method(p.Slog, "Entry", "print"); pr != nil {
		ok := false
		for _, cs := range callsIn(pr) {
			if cal := calleeOf(cs); cal != nil && nm(cal) == "set" && len(cs.Common().Args) > 1 && cs.Common().Args[1] == ssa.Value(receiver(pr)) {
				ok = true
			}
		}
		r.Check(ok, "R11.3", "print->set", p.FuncPos(pr), "the encoder is configured from the emitting logger", "Entry.print does not configure the encoder from its own receiver")
	}
	// the printers used are those of the logger's format: decided per mode by the record-order rule (mode bits
	// pruned), whatever function holds the branch
	for _, mode := range feasibleModes {
		msgPrinter := "printMsg"
		opt := map[string]bool{"printPC": true, "printRestLinesOfMsg": true}
		if !mode.NoColor {
			msgPrinter = "printFirstLineOfMsg"
			opt = map[string]bool{"printPC": true}
		}
		fieldOrder(c, p, m, mode, "R11.3", []string{"Begin", "printTimestamp", "printLoggerName", "printSeverity", msgPrinter, "serializeAttrs", "printPC", "printRestLinesOfMsg", "End", "Bytes", "printOut"}, opt)
	}
}

// c11NoEscapes: R11.7 — the shape of a record agrees with the state also in what it does NOT contain: in JSON and
// logfmt mode (the dump appended under go test or a debugger included) no reachable site writes a constant that
// starts a terminal escape sequence. The colour helpers are reachable in colored mode only.
func c11NoEscapes(c *Ctx, p *Prog, m *Model) {
	r := c.R
	for _, mode := range []Mode{{true, true}, {false, true}} {
		mr := NewModeReach(p, m, mode, sessionEntries(p), false)
		if len(mr.Funcs()) < 10 {
			r.Unk("R11.7", fmt.Sprintf("escapes[%s]", mode), "-", "only %d functions reachable: the emission model lost its anchors", len(mr.Funcs()))
			continue
		}
		var where []string
		for _, ce := range mr.constEmissions() {
			if strings.Contains(ce.Text, "\x1b") {
				where = append(where, shortName(ce.Fn)+" at "+p.Pos(instrPos(ce.Instr)))
			}
		}
		where = append(where, depColourCalls(p, mr)...)
		where = dedupStr(where)
		r.Check(len(where) == 0, "R11.7", fmt.Sprintf("escapes[%s]", mode), "-", fmt.Sprintf("no escape-sequence constant is written in %s mode (%d functions reachable, testing/debug dump included)", mode, len(mr.Funcs())),
			fmt.Sprintf("a %s logger can write terminal escape sequences (%s): the record, or the diagnostics that follow it, have the colored shape although both getters say otherwise", mode, strings.Join(where, "; ")))
	}
	mrc := NewModeReach(p, m, Mode{false, false}, sessionEntries(p), false)
	n := len(depColourCalls(p, mrc))
	for _, ce := range mrc.constEmissions() {
		if strings.Contains(ce.Text, "\x1b") {
			n++
		}
	}
	if n == 0 {
		r.Unk("R11.7", "escapes[control]", "-", "the query finds no escape writer in colored mode either: it cannot see them")
	} else {
		r.Ok("R11.7", "escapes[control]", "-", "positive control: %d escape-writing sites are reachable in colored mode", n)
	}
}

// depColourCalls: mode-reachable calls into the colour package of the dependency that write to a Writer or wrap a
// text in a colour (its helpers produce the escape sequences themselves).
func depColourCalls(p *Prog, mr *ModeReach) []string {
	var out []string
	for _, fn := range mr.Funcs() {
		fb := mr.Blocks[fn]
		for _, cs := range callsIn(fn) {
			if !fb[cs.Block()] {
				continue
			}
			cal := calleeOf(cs)
			if cal == nil || cal.Pkg == nil || !strings.HasSuffix(cal.Pkg.Pkg.Path(), "/term/color") {
				continue
			}
			writes := false
			for _, q := range cal.Params {
				if q.Type().String() == "io.Writer" {
					writes = true
				}
			}
			if strings.HasPrefix(cal.Name(), "Wrap") || strings.HasPrefix(cal.Name(), "Highlight") || strings.HasPrefix(cal.Name(), "Echo") {
				writes = true
			}
			if writes {
				out = append(out, shortName(fn)+" calls "+cal.String()+" at "+p.Pos(instrPos(cs)))
			}
		}
	}
	return out
}

// variadicBoolCases: the effect of a `...bool` setter for the three call forms - no argument, last argument true, last
// argument false - read off by walking its decisions ("were arguments given" and "the last element" are the only
// conditions allowed): the receiver-field stores on each path with their constants. ok is false when a path depends
// on anything else.
func variadicBoolCases(fn *ssa.Function) (outs [3]string, ok bool) {
	if fn == nil || len(fn.Params) == 0 || len(fn.Blocks) == 0 || !fn.Signature.Variadic() {
		return outs, false
	}
	vp := fn.Params[len(fn.Params)-1]
	classify := func(cond ssa.Value) (string, bool) {
		if bo, isB := cond.(*ssa.BinOp); isB && isArgCountTest(cond, fn) {
			// orientation: len(b) OP k
			x, y := bo.X, bo.Y
			op := bo.Op
			if _, isC := constInt(x); isC {
				x, y = y, x
				switch op {
				case token.LSS:
					op = token.GTR
				case token.GTR:
					op = token.LSS
				case token.LEQ:
					op = token.GEQ
				case token.GEQ:
					op = token.LEQ
				}
			}
			_ = x
			k, _ := constInt(y)
			switch {
			case (op == token.GTR && k == 0) || (op == token.NEQ && k == 0) || (op == token.GEQ && k == 1):
				return "has", true
			case (op == token.EQL && k == 0) || (op == token.LSS && k == 1) || (op == token.LEQ && k == 0):
				return "hasnot", true
			}
			return "", false
		}
		if u, isU := cond.(*ssa.UnOp); isU && u.Op == token.MUL {
			if ia, isI := u.X.(*ssa.IndexAddr); isI && strip(ia.X) == ssa.Value(vp) {
				return "last", true
			}
		}
		return "", false
	}
	cases := []map[string]bool{
		{"has": false, "hasnot": true, "last": true},
		{"has": true, "hasnot": false, "last": true},
		{"has": true, "hasnot": false, "last": false},
	}
	for i, as := range cases {
		t := walkDecision(fn.Blocks[0], as, classify, nil)
		if t.Kind != "return" {
			return outs, false
		}
		var parts []string
		for _, b := range t.Path {
			for _, in := range b.Instrs {
				st, isSt := in.(*ssa.Store)
				if !isSt {
					continue
				}
				fa, isFA := st.Addr.(*ssa.FieldAddr)
				if !isFA || fa.X != ssa.Value(receiver(fn)) {
					continue
				}
				v := resolveAlong(st.Val, t.Path)
				desc := "?"
				if k, isC := constInt(v); isC {
					desc = fmt.Sprint(k)
				} else if bv, isB := constBool(v); isB {
					desc = fmt.Sprint(bv)
				} else if u, isU := strip(v).(*ssa.UnOp); isU && u.Op == token.MUL {
					if ia, isI := u.X.(*ssa.IndexAddr); isI && strip(ia.X) == ssa.Value(vp) {
						desc = fmt.Sprint(as["last"])
					}
				}
				parts = append(parts, fieldOf(fa)+"="+desc)
			}
		}
		outs[i] = strings.Join(parts, ",")
	}
	return outs, true
}
