package main

import (
	"fmt"
	"go/token"
	"go/types"
	"sort"
	"strings"

	"golang.org/x/tools/go/ssa"
)

func init() { register("C03", checkC03) }

// dualWriter operation table: method -> fields it writes and the kind of update.
var dwOps = map[string]struct {
	fields []string
	kind   string
}{
	"Set":               {[]string{"Normal"}, "set"},
	"SetWriter":         {[]string{"Normal"}, "set"},
	"SetErrorWriter":    {[]string{"Error"}, "set"},
	"Add":               {[]string{"Normal"}, "add"},
	"AddErrorWriter":    {[]string{"Error"}, "add"},
	"AddLevelWriter":    {[]string{"leveled"}, "addlevel"},
	"Remove":            {[]string{"Normal"}, "remove"},
	"RemoveErrorWriter": {[]string{"Error"}, "remove"},
	"RemoveLevelWriter": {[]string{"leveled"}, "removelevel"},
	"ResetLevelWriter":  {[]string{"leveled"}, "resetlevel"},
	"ResetLevelWriters": {[]string{"leveled"}, "nil"},
	"Clear":             {[]string{"Normal", "Error"}, "nil"},
	"Reset":             {[]string{"Normal", "Error", "leveled"}, "reset"},
}

// Entry wrapper -> dualWriter delegate, and whether the writer set is created lazily.
var entryWriterOps = map[string]struct {
	delegate string
	lazy     bool
}{
	"SetWriter":         {"SetWriter", true},
	"AddWriter":         {"Add", true},
	"RemoveWriter":      {"Remove", false},
	"SetErrorWriter":    {"SetErrorWriter", true},
	"AddErrorWriter":    {"AddErrorWriter", true},
	"RemoveErrorWriter": {"RemoveErrorWriter", false},
	"ResetWriters":      {"Reset", true},
	"AddLevelWriter":    {"AddLevelWriter", true},
	"RemoveLevelWriter": {"RemoveLevelWriter", true},
	"ResetLevelWriter":  {"ResetLevelWriter", true},
	"ResetLevelWriters": {"ResetLevelWriters", true},
}

// Opt constructor -> Entry method
var optWriterOps = map[string]string{
	"WithWriter": "SetWriter", "AddWriter": "AddWriter", "WithErrorWriter": "SetErrorWriter", "AddErrorWriter": "AddErrorWriter",
	"ResetWriters": "ResetWriters", "AddLevelWriter": "AddLevelWriter", "RemoveLevelWriter": "RemoveLevelWriter",
	"ResetLevelWriter": "ResetLevelWriter", "ResetLevelWriters": "ResetLevelWriters",
}

func checkC03(c *Ctx) {
	r := c.R
	r.Rule("R17.5", "(shared with C17) routed to the error device exactly if so requested: each setting of the registration pack is written by one option constructor only")
	r.Rule("R10.1", "(shared with C10) a logger's writer set is its own: a child starts without one (package defaults until configured) and never shares its parent's set or its per-level map")
	r.Rule("R08.1", "(shared with C08) told immediately before each Write: the sink keeps no per-logger memory of what it told a destination (no store to a logger field on the logging path)")
	r.Rule("R03.1", "routing decision: the decision function extracted from dualWriter.Get over {lvl==Off, leveled!=nil, leveled[lvl] present, non-empty, lvl in error-device table} equals the documented routing (Off -> discard; a non-empty per-level list for exactly lvl takes precedence; error-class -> Error list; else Normal list); the error-device table initially holds exactly Panic, Fatal, Error, Warn, Fail; the table's reader and writers agree on presence vs value")
	r.Rule("R03.2", "fallback: findWriter uses the logger's own writer set when it has one and the package default set otherwise, with the same level; dualWriter.Reset (the initial state) stores stdout to Normal, stderr to Error and nil to leveled")
	r.Rule("R03.3", "operation frame table: each dualWriter method writes exactly its own list(s) and with the right shape: set = a fresh one-element list not derived from the old one; add = append(old same list, w); remove = the same list without the matched element; level operations touch only leveled[lvl] with the lvl parameter as key; reset writes all three")
	r.Rule("R03.4", "wrapper agreement: each Entry writer method and each Opt constructor delegates to its namesake with its own arguments on the receiver's own writer set; the delegate is called when the set exists, and when it does not exist it is either created first or (remove family) the call is skipped: never a call through a nil set")
	r.Rule("R03.5", "add/remove agreement: every wrapper type in which the add/set family packs a plain io.Writer is unwrapped by the remove family (the wrapped writer is compared with the argument), so that what was added can be removed")
	r.Rule("R03.6", "severity notification is live: the LevelSettable assertion before the Write is applied to a value whose possible dynamic types implement it, the notification precedes the Write, and the list type forwards SetLevel(lvl) to every member that wants it (itself or as the wrapped writer)")
	r.Rule("R13.1", "(shared with C13) every writer of the selected set receives the record: the fan-out loop has its natural exit only and ranges over every member")
	r.Rule("R10.3", "(shared with C10) writer operations given as New(...) options are all applied: newentry offers every element of its argument list to the option test, in order, dropping a leading element only when it was recognised as the name")
	r.Assume("os.Stdout/os.Stderr are the process's standard streams at run time")
	for _, tags := range c.Configs([]string{""}, []string{"", "verbose"}) {
		p := c.Prog(tags)
		if p == nil {
			continue
		}
		m, err := BuildModel(p)
		if err != nil {
			r.Unk("R03.1", "model", "-", "%v", err)
			continue
		}
		c03Routing(c, p, m)
		c03Frames(c, p, m)
		addOpsUnconditional(c, p, m)
		recordLevelWrittenOnce(c, p, m, "R03.2")
		regOptsIndependent(c, p)
		writerSetNilSafe(c, p, m, "R03.4")
		fallbackSetIndependent(c, p, "R03.4")
		c03Wrappers(c, p, m)
		c03AddRemove(c, p, m)
		c03Notify(c, p, m)
		c13Fanout(c, p, m)
		onlySelectedWritten(c, p, m, "R03.2")
		optionsInOrder(c, p, "R10.3")
		c10Frames(c, p, m)
		c10Creation(c, p, m)
		c08Stores(c, p, m)
	}
	c.Floor["R03.1"] = 15
	c.Floor["R03.3"] = 13
	c.Floor["R03.4"] = 20
	c.Floor["R03.5"] = 3
}

func c03Routing(c *Ctx, p *Prog, m *Model) {
	r := c.R
	get := p.Method(p.Slog, "dualWriter", "Get")
	if get == nil || len(get.Params) != 2 {
		r.Unk("R03.1", "dualWriter.Get", "-", "not found")
		return
	}
	recv, lvl := get.Params[0], get.Params[1]
	errG := p.Global(p.Slog, "mLevelUseErrorDevice")
	off := m.LevelByName["OffLevel"]
	isLeveledLookup := func(v ssa.Value) *ssa.Lookup {
		lk, ok := v.(*ssa.Lookup)
		if !ok {
			return nil
		}
		if b, ok := isFieldLoadOf(lk.X, "dualWriter", "leveled"); ok && b == ssa.Value(recv) && strip(lk.Index) == ssa.Value(lvl) {
			return lk
		}
		return nil
	}
	isErrLookup := func(v ssa.Value) *ssa.Lookup {
		lk, ok := v.(*ssa.Lookup)
		if !ok {
			return nil
		}
		if g, ok := globalLoad(lk.X); ok && g == errG && strip(lk.Index) == ssa.Value(lvl) {
			return lk
		}
		return nil
	}
	presenceBased := false
	atomize := func(cond ssa.Value) (string, bool) {
		switch x := cond.(type) {
		case *ssa.BinOp:
			if (x.Op == token.EQL || x.Op == token.NEQ) && strip(x.X) == ssa.Value(lvl) {
				if cv, ok := constInt(x.Y); ok && cv == off {
					if x.Op == token.NEQ {
						return "!lvl==Off", true
					}
					return "lvl==Off", true
				}
			}
			if (x.Op == token.EQL || x.Op == token.NEQ) && isNilConst(x.Y) {
				if b, ok := isFieldLoadOf(x.X, "dualWriter", "leveled"); ok && b == ssa.Value(recv) {
					if x.Op == token.EQL {
						return "!leveled!=nil", true
					}
					return "leveled!=nil", true
				}
			}
			if x.Op == token.GTR || x.Op == token.NEQ {
				if call, ok := x.X.(*ssa.Call); ok && isBuiltinCall(call, "len") {
					a0 := call.Common().Args[0]
					if ex, ok := a0.(*ssa.Extract); ok && ex.Index == 0 {
						a0 = ex.Tuple
					}
					// (a plain lookup in a nil map or of a missing key gives the empty list: "non-empty" implies both)
					if isLeveledLookup(a0) != nil {
						if z, ok := constInt(x.Y); ok && z == 0 {
							return "nonempty", true
						}
					}
				}
			}
		case *ssa.Extract:
			if x.Index == 1 && isLeveledLookup(x.Tuple) != nil {
				return "hit", true
			}
			if isErrLookup(x.Tuple) != nil {
				if x.Index == 1 {
					presenceBased = true
				}
				return "errdev", true
			}
		case *ssa.Lookup:
			if isErrLookup(x) != nil {
				return "errdev", true
			}
		}
		return "", false
	}
	atoms := []string{"lvl==Off", "leveled!=nil", "hit", "nonempty", "errdev"}
	asg := assignments(atoms, func(a map[string]bool) bool {
		if !a["leveled!=nil"] && (a["hit"] || a["nonempty"]) {
			return false
		}
		if !a["hit"] && a["nonempty"] {
			return false
		}
		return true
	})
	nOK := 0
	for _, a := range asg {
		t := walkDecision(get.Blocks[0], a, func(cond ssa.Value) (string, bool) {
			at, ok := atomize(cond)
			if ok && strings.HasPrefix(at, "!") {
				a["¬"+at[1:]] = !a[at[1:]]
				return "¬" + at[1:], true
			}
			return at, ok
		}, nil)
		for k := range a {
			if strings.HasPrefix(k, "¬") {
				delete(a, k)
			}
		}
		got := t.Kind
		if t.Kind == "return" {
			v := resolveAlong(t.Instr.(*ssa.Return).Results[0], t.Path)
			v = strip(v)
			switch {
			case func() bool { g, ok := globalLoad(v); return ok && nm(g) == "discardWriter" }():
				got = "discard"
			case func() bool {
				ex, ok := v.(*ssa.Extract)
				return ok && ex.Index == 0 && isLeveledLookup(ex.Tuple) != nil
			}():
				got = "leveled[lvl]"
			case func() bool { lk, ok := v.(*ssa.Lookup); return ok && isLeveledLookup(lk) != nil }():
				got = "leveled[lvl]"
			default:
				if b, _, f, ok := fieldLoad(v); ok && b == ssa.Value(recv) {
					got = nm(f)
				} else {
					got = "?" + m.valDesc(v)
				}
			}
		}
		want := "Normal"
		switch {
		case a["lvl==Off"]:
			want = "discard"
		case a["leveled!=nil"] && a["hit"] && a["nonempty"]:
			want = "leveled[lvl]"
		case a["errdev"]:
			want = "Error"
		}
		key := "route[" + assignStr(a) + "]"
		if got == want {
			nOK++
			r.Ok("R03.1", key, p.FuncPos(get), "destination %s as documented", got)
		} else {
			r.Bad("R03.1", key, p.FuncPos(get), "extracted destination %q, the documented routing gives %q (path %s)", got, want, pathStr(t.Path))
		}
	}
	// table
	if tbl, err := mapLiteral(p, p.Slog, "mLevelUseErrorDevice"); err != nil {
		r.Unk("R03.1", "table:mLevelUseErrorDevice", "-", "%v", err)
	} else {
		var got []string
		allTrue := true
		for _, kv := range tbl {
			got = append(got, m.constName(kv.K))
			if kv.V == nil || kv.V.String() != "true" {
				allTrue = false
			}
		}
		sort.Strings(got)
		want := []string{"ErrorLevel", "FailLevel", "FatalLevel", "PanicLevel", "WarnLevel"}
		r.Check(fmt.Sprint(got) == fmt.Sprint(want) && allTrue, "R03.1", "table:mLevelUseErrorDevice", p.Pos(errG.Pos()), "initially exactly Panic, Fatal, Error, Warn, Fail", fmt.Sprintf("the error-class table holds %v (all true: %v), documented: %v", got, allTrue, want))
	}
	// reader/writer agreement
	for _, fn := range p.RepoFuncs() {
		for _, gs := range globalStores(fn) {
			if gs.G != errG || p.startupOnly(fn) {
				continue
			}
			key := "errdev-writer:" + shortName(fn)
			if gs.Kind != "mapupdate" {
				r.Bad("R03.1", key, p.Pos(instrPos(gs.Instr)), "the error-class table is modified by %s (%s)", shortName(fn), gs.Kind)
				continue
			}
			if !presenceBased {
				r.Ok("R03.1", key, p.Pos(instrPos(gs.Instr)), "reader tests the stored value")
				continue
			}
			okv := false
			if b, ok := constBool(gs.Val); ok && b {
				// must be conditional on the request
				okv = true
			}
			guarded := false
			for _, g := range guardsOf(gs.Instr.Block()) {
				if d := m.guardDesc(g); strings.HasPrefix(d, "T:") && strings.Contains(d, "printOutToErrorDevice") {
					guarded = true
				}
			}
			r.Check(okv && guarded, "R03.1", key, p.Pos(instrPos(gs.Instr)), "an entry is added (value true) only when the error device was requested; the reader tests presence", "the routing reader tests only whether the level is PRESENT in the error-class table, but this writer adds an entry regardless of the request (value "+m.valDesc(gs.Val)+"): every such level is routed to the error writers")
		}
	}

	// R03.2
	fw := p.Method(p.Slog, "Entry", "findWriter")
	if fw == nil {
		r.Unk("R03.2", "Entry.findWriter", "-", "not found")
	} else {
		// the selector is judged in the context of its call from the sink: its parameters stand for the sink's
		// receiver / writer set / level (so it may be a method of the logger or a function taking the set)
		subst := map[ssa.Value]ssa.Value{}
		var sinkRecv, sinkLvl ssa.Value = receiver(fw), nil
		if len(fw.Params) > 1 {
			sinkLvl = fw.Params[len(fw.Params)-1]
		}
		for sink := range m.SinkFns {
			for _, cs := range callsTo(sink, fw) {
				for i, prm := range fw.Params {
					if i < len(cs.Common().Args) {
						subst[prm] = cs.Common().Args[i]
					}
				}
				sinkRecv = receiver(sink)
				if k := m.levelParamIndex(sink); k >= 0 {
					sinkLvl = sink.Params[k]
				}
			}
		}
		res := func(v ssa.Value) ssa.Value {
			v = strip(v)
			if w, ok := subst[v]; ok {
				return strip(w)
			}
			return v
		}
		isOwnSet := func(v ssa.Value) bool {
			b, ok := isFieldLoadOf(res(v), "Entry", "writer")
			return ok && res(b) == sinkRecv
		}
		var own, def *ssa.Call
		for _, cs := range callsTo(fw, get) {
			call, isCall := cs.(*ssa.Call)
			if !isCall {
				continue
			}
			a0 := call.Common().Args[0]
			if isOwnSet(a0) {
				own = call
			} else if g, ok := globalLoad(a0); ok && nm(g) == "defaultWriter" {
				def = call
			}
		}
		var probs []string
		if own == nil {
			probs = append(probs, "the logger's own writer set is not consulted")
		} else if res(own.Common().Args[1]) != sinkLvl {
			probs = append(probs, "own set asked for another level")
		}
		if def == nil {
			probs = append(probs, "no fallback to the package default writers")
		} else if res(def.Common().Args[1]) != sinkLvl {
			probs = append(probs, "the default set is asked for another level")
		}
		if own != nil && def != nil {
			// decision function over {own set present, own set's answer is nil}
			isOwn := func(v ssa.Value) bool {
				for _, s := range sources(v) {
					if s == ssa.Value(own) {
						return true
					}
				}
				return false
			}
			// (when Get returns a concrete list type, its answer converted to the interface is never nil: that row is not a case)
			_, getIface := get.Signature.Results().At(0).Type().Underlying().(*types.Interface)
			for _, a := range assignments([]string{"writer!=nil", "own==nil"}, func(a map[string]bool) bool {
				if a["writer!=nil"] && a["own==nil"] && !getIface {
					return false
				}
				return a["writer!=nil"] || a["own==nil"]
			}) {
				t := walkDecision(fw.Blocks[0], a, func(cond ssa.Value) (string, bool) {
					bo, ok := cond.(*ssa.BinOp)
					if !ok || (bo.Op != token.EQL && bo.Op != token.NEQ) || !isNilConst(bo.Y) {
						return "", false
					}
					name := ""
					if isOwnSet(bo.X) {
						name = "writer!=nil"
						if bo.Op == token.EQL {
							a["¬writer!=nil"] = !a["writer!=nil"]
							return "¬writer!=nil", true
						}
						return name, true
					}
					if isOwn(bo.X) {
						if bo.Op == token.NEQ {
							a["¬own==nil"] = !a["own==nil"]
							return "¬own==nil", true
						}
						return "own==nil", true
					}
					return "", false
				}, nil)
				wn, on := a["writer!=nil"], a["own==nil"]
				for k := range a {
					if strings.HasPrefix(k, "¬") {
						delete(a, k)
					}
				}
				if t.Kind != "return" {
					probs = append(probs, "the choice depends on something other than 'own set present' and 'own set gave nothing' ("+t.Kind+")")
					continue
				}
				got := "other"
				switch v := strip(resolveAlong(t.Instr.(*ssa.Return).Results[0], t.Path)); {
				case v == ssa.Value(own):
					got = "own"
				case v == ssa.Value(def):
					got = "default"
				case isNilConst(v):
					got = "nil"
				default:
					got = m.valDesc(v)
				}
				want := "default"
				if wn && !on {
					want = "own"
				}
				if got != want {
					probs = append(probs, fmt.Sprintf("with own set present=%v and its answer nil=%v the result is %s, documented: %s", wn, on, got, want))
				}
				// the own set is only dereferenced when it exists
				if !wn {
					for _, cs := range t.Calls {
						if cs == ssa.CallInstruction(own) {
							probs = append(probs, "own set used without a non-nil test")
						}
					}
				}
			}
		}
		r.Check(len(probs) == 0, "R03.2", "Entry.findWriter", p.FuncPos(fw), "own set when present, package default otherwise, same level", strings.Join(dedupStr(probs), "; "))
	}
	if rs := p.Method(p.Slog, "dualWriter", "Reset"); rs != nil {
		got := map[string]string{}
		for _, fs := range fieldStores(rs) {
			if fs.Struct != "dualWriter" || fs.Base != ssa.Value(receiver(rs)) {
				continue
			}
			if isNilConst(fs.Val) {
				got[fs.Field] = "nil"
				continue
			}
			desc := "?"
			if sl, ok := strip(fs.Val).(*ssa.Slice); ok {
				if al, ok := sl.X.(*ssa.Alloc); ok {
					var elems []string
					for _, ref := range *al.Referrers() {
						if ia, ok := ref.(*ssa.IndexAddr); ok {
							for _, r2 := range *ia.Referrers() {
								if st, ok := r2.(*ssa.Store); ok {
									elems = append(elems, wrappedGlobal(st.Val))
								}
							}
						}
					}
					desc = strings.Join(elems, ",")
				}
			}
			got[fs.Field] = desc
		}
		want := map[string]string{"Normal": "filewr(os.Stdout)", "Error": "filewr(os.Stderr)", "leveled": "nil"}
		r.Check(fmt.Sprint(got) == fmt.Sprint(want), "R03.2", "dualWriter.Reset", p.FuncPos(rs), "defaults: Normal=stdout, Error=stderr, leveled=nil", fmt.Sprintf("Reset installs %v, the documented defaults are %v", got, want))
	}
	if nd := p.Func(p.Slog, "newDualWriter"); nd != nil {
		ok := false
		for _, cs := range callsIn(nd) {
			if cal := calleeOf(cs); cal != nil && nm(cal) == "Reset" {
				ok = true
			}
		}
		if rs := p.Method(p.Slog, "dualWriter", "Reset"); !ok && rs != nil {
			// or it builds the very state Reset installs (same value terms for the three lists; nil = zero value)
			te := newTermEval(p)
			state := func(fn *ssa.Function) map[string]string {
				out := map[string]string{}
				for _, ef := range te.effectsOf(fn, nil) {
					if ef.Struct == "dualWriter" && ef.Kind == "store" && ef.Val.Op != "nil" {
						out[ef.Field] = ef.Val.String()
					}
				}
				return out
			}
			a, b := state(nd), state(rs)
			ok = len(a) > 0 && fmt.Sprint(a) == fmt.Sprint(b)
		}
		r.Check(ok, "R03.2", "newDualWriter", p.FuncPos(nd), "a new writer set starts from Reset()", "a new writer set is not initialised by Reset()")
	}
}

// wrappedGlobal describes `&T{*pkg.Global}` made into an interface.
func wrappedGlobal(v ssa.Value) string {
	v = strip(v)
	al, ok := v.(*ssa.Alloc)
	if !ok {
		return "?"
	}
	tn := typeName(al.Type())
	for _, ref := range *al.Referrers() {
		if fa, ok := ref.(*ssa.FieldAddr); ok {
			for _, r2 := range *fa.Referrers() {
				if st, ok := r2.(*ssa.Store); ok {
					if g, ok := globalLoad(st.Val); ok {
						return tn + "(" + nm(g.Pkg.Pkg) + "." + nm(g) + ")"
					}
				}
			}
		}
	}
	return tn + "(?)"
}

// allowedListWriters: the documented operations plus private helpers called only from them.
func allowedListWriters(p *Prog, m *Model) map[*ssa.Function]bool {
	ok := map[*ssa.Function]bool{}
	for n := range dwOps {
		if fn := p.Method(p.Slog, "dualWriter", n); fn != nil {
			ok[fn] = true
		}
	}
	for changed := true; changed; {
		changed = false
		for _, fn := range p.RepoFuncs() {
			if ok[fn] || fn.Parent() != nil || fn.Object() == nil || fn.Object().Exported() {
				continue
			}
			sites := m.Callers[fn]
			if len(sites) == 0 {
				continue
			}
			all := true
			for _, cs := range sites {
				caller := cs.Parent()
				for caller.Parent() != nil {
					caller = caller.Parent()
				}
				if !ok[caller] {
					all = false
				}
			}
			if all {
				ok[fn] = true
				changed = true
			}
		}
	}
	return ok
}

func c03Frames(c *Ctx, p *Prog, m *Model) {
	r := c.R
	var names []string
	for n := range dwOps {
		names = append(names, n)
	}
	sort.Strings(names)
	te := newTermEval(p)
	for _, n := range names {
		op := dwOps[n]
		fn := p.Method(p.Slog, "dualWriter", n)
		key := "op:dualWriter." + n
		if fn == nil {
			r.Unk("R03.3", key, "-", "method not found")
			continue
		}
		recv := receiver(fn)
		var wparam, lparam *ssa.Parameter
		for _, q := range fn.Params[1:] {
			if m.isLevel(q.Type()) {
				lparam = q
			} else {
				wparam = q
			}
		}
		effs := te.effectsOf(fn, nil)
		got := map[string]bool{}
		var probs []string
		var mine []Effect
		for _, ef := range effs {
			if ef.Struct != "dualWriter" {
				continue
			}
			if !ef.Base.isParam(recv) {
				probs = append(probs, "writes "+ef.Field+" of a writer set other than its receiver at "+p.Pos(instrPos(ef.Instr)))
				continue
			}
			got[ef.Field] = true
			mine = append(mine, ef)
		}
		gs := sortedKeys(got)
		ws := append([]string(nil), op.fields...)
		sort.Strings(ws)
		if fmt.Sprint(gs) != fmt.Sprint(ws) {
			probs = append(probs, fmt.Sprintf("writes %v, its own lists are %v", gs, ws))
		}
		// outer instruction of an effect (its call site in fn when it happens in a helper)
		outer := func(ef Effect) ssa.Instruction {
			if len(ef.Chain) > 0 {
				return ef.Chain[0]
			}
			return ef.Instr
		}
		comparedWithWriter := func(a *Term) bool {
			in, ok := a.V.(ssa.Instruction)
			if !ok || in.Block() == nil {
				return false
			}
			isW := func(v ssa.Value) bool { return wparam != nil && te.eval(v, a.C).mentionsParam(wparam) }
			// "found by a finder": i >= 0 (or != -1, > -1) with i the result of a private helper or slices.Index that
			// returns a non-negative position only for an element it compared with the writer handed to it
			found := func(cd ssa.Value) bool {
				bo, ok := cd.(*ssa.BinOp)
				if !ok {
					return false
				}
				k, isC := constInt(bo.Y)
				if !isC || !((bo.Op == token.GEQ && k == 0) || (bo.Op == token.GTR && k == -1) || (bo.Op == token.NEQ && k == -1)) {
					return false
				}
				call, ok := strip(bo.X).(*ssa.Call)
				if !ok {
					return false
				}
				cal := calleeOf(call)
				if cal == nil {
					return false
				}
				widx := -1
				for ai, arg := range call.Common().Args {
					if isW(arg) {
						widx = ai
					}
				}
				if widx < 0 {
					return false
				}
				if on := origin(cal).String(); on == "slices.Index" {
					return true
				}
				if cal.Pkg != p.Slog || len(cal.Blocks) == 0 || widx >= len(cal.Params) {
					return false
				}
				wp := cal.Params[widx]
				isW2 := func(v ssa.Value) bool {
					for _, sv := range sources(v) {
						if mi, ok := sv.(*ssa.MakeInterface); ok {
							sv = mi.X
						}
						if ct, ok := sv.(*ssa.ChangeInterface); ok {
							sv = ct.X
						}
						if sv == ssa.Value(wp) {
							return true
						}
					}
					return false
				}
				for _, b := range cal.Blocks {
					ret, ok := b.Instrs[len(b.Instrs)-1].(*ssa.Return)
					if !ok || len(ret.Results) != 1 {
						continue
					}
					for pi, src := range phiEdgesWithPreds(ret.Results[0], b) {
						_ = pi
						if c, isC := constInt(src.v); isC && c < 0 {
							continue
						}
						if !enteredOnlyOverCompare(src.from, isW2) {
							return false
						}
					}
				}
				return true
			}
			return enteredOnlyOverCompare2(in.Block(), isW, found)
		}
		cutOut := func(a *Term, old func(*Term) bool) bool {
			if a.Op != "append" || len(a.Args) < 2 {
				return false
			}
			for _, x := range a.Args {
				if !x.contains(old) {
					return false
				}
			}
			return true
		}
		// the identity test of the remove family cannot itself fail: comparing two interface values panics when both hold
		// an uncomparable dynamic type (the package's own writer list LWs is one, and is a LogWriter)
		if (op.kind == "remove" || op.kind == "removelevel") && r.Property == "C03" {
			ws := uncomparableCompares(p, fn)
			r.Check(len(ws) == 0, "R03.3", "identity:dualWriter."+n, p.FuncPos(fn), "the identity test cannot panic", "removing a writer of an uncomparable type panics instead of deleting it: "+strings.Join(ws, "; "))
		}
		// an add/addlevel operation appends once: on no path is its list stored twice (a fall-through after the first
		// store appends the same destination a second time, and remove then takes out only one of the two)
		if op.kind == "add" || op.kind == "addlevel" {
			isMine := map[ssa.Instruction]bool{}
			for _, ef := range mine {
				if (op.kind == "addlevel") == (ef.Kind == "mapupdate") {
					isMine[outer(ef)] = true
				}
			}
			if _, hi := countOnPaths(fn, func(in ssa.Instruction) bool { return isMine[in] }); hi > 1 || hi == -1 {
				probs = append(probs, "on some path the list is stored more than once: the writer given is added twice (each record is then written to it twice, and a remove leaves one copy behind)")
			}
		}
		for _, ef := range mine {
			pos := p.Pos(instrPos(ef.Instr))
			isOld := func(t *Term) bool { return t.isFieldOf(recv, ef.Field) }
			switch op.kind {
			case "add":
				if ef.Kind != "store" {
					probs = append(probs, "unexpected "+ef.Kind+" of "+ef.Field+" at "+pos)
					continue
				}
				for _, a := range ef.Val.alts() {
					switch {
					case a.Op != "append" || len(a.Args) < 2:
						probs = append(probs, "stores something that is not append(old list, w) at "+pos)
					case !isOld(a.Args[0]):
						probs = append(probs, "does not append to the old "+ef.Field+" list at "+pos)
					case wparam != nil && !a.Args[1].mentionsParam(wparam):
						probs = append(probs, "the appended element is not the writer given at "+pos)
					}
				}
			case "set":
				if ef.Kind != "store" {
					probs = append(probs, "unexpected "+ef.Kind+" of "+ef.Field+" at "+pos)
					continue
				}
				for _, a := range ef.Val.alts() {
					if a.Op == "nil" {
						continue
					}
					if wparam != nil && !a.mentionsParam(wparam) {
						probs = append(probs, "the list installed does not hold the writer given at "+pos)
					}
					if a.contains(isOld) {
						// allowed only as "clear, then add": a nil store of the same list comes first on every path
						cleared := false
						for _, e2 := range mine {
							if e2.Kind == "store" && e2.Field == ef.Field && e2.Val.Op == "nil" && after(outer(e2), outer(ef)) && !after(outer(ef), outer(e2)) {
								cleared = true
							}
						}
						if !cleared {
							probs = append(probs, "the new list is derived from the old one at "+pos+" (set must replace)")
						}
					}
				}
			case "remove":
				if ef.Kind != "store" {
					probs = append(probs, "unexpected "+ef.Kind+" of "+ef.Field+" at "+pos)
					continue
				}
				for _, a := range ef.Val.alts() {
					if isOld(a) {
						continue // unchanged
					}
					if !cutOut(a, isOld) {
						probs = append(probs, "the list stored is not the old "+ef.Field+" list with one element cut out at "+pos)
						continue
					}
					if !comparedWithWriter(a) {
						probs = append(probs, "an element is removed without having been compared with the writer given at "+pos)
					}
				}
			case "addlevel", "removelevel":
				isOldL := func(t *Term) bool {
					return (t.Op == "lookup") && len(t.Args) == 2 && t.Args[0].isFieldOf(recv, "leveled") && lparam != nil && t.Args[1].isParam(lparam)
				}
				switch ef.Kind {
				case "mapupdate":
					if lparam == nil || !ef.Key.isParam(lparam) {
						probs = append(probs, "leveled is updated under a key other than the lvl parameter at "+pos)
					}
					for _, a := range ef.Val.alts() {
						if op.kind == "addlevel" {
							switch {
							case a.Op != "append" || len(a.Args) < 2:
								probs = append(probs, "leveled[lvl] is not assigned an append of its old value at "+pos)
							case !isOldL(a.Args[0]):
								probs = append(probs, "does not append to the old leveled[lvl] at "+pos)
							case wparam != nil && !a.Args[1].mentionsParam(wparam):
								probs = append(probs, "the appended element is not the writer given at "+pos)
							}
						} else {
							if isOldL(a) {
								continue
							}
							if !cutOut(a, isOldL) {
								probs = append(probs, "leveled[lvl] is not assigned its old value with one element cut out at "+pos)
							} else if !comparedWithWriter(a) {
								probs = append(probs, "an element is removed without having been compared with the writer given at "+pos)
							}
						}
					}
				case "store":
					if ef.Val.Op != "makemap" {
						probs = append(probs, "leveled is replaced by something other than a fresh map at "+pos)
					}
					okg := false
					for _, g := range ef.guardsWithChain() {
						if d := m.guardDesc(g); d == "T:dualWriter.leveled == nil" || d == "F:dualWriter.leveled != nil" {
							okg = true
						}
					}
					if !okg {
						probs = append(probs, "leveled is replaced although it may hold writers at "+pos)
					}
				default:
					probs = append(probs, "unexpected "+ef.Kind+" of "+ef.Field+" at "+pos)
				}
			case "resetlevel":
				if ef.Kind == "delete" {
					if lparam == nil || !ef.Key.isParam(lparam) {
						probs = append(probs, "deletes a key other than the lvl parameter at "+pos)
					}
				} else {
					probs = append(probs, "unexpected "+ef.Kind+" of "+ef.Field+" at "+pos)
				}
			case "nil":
				if ef.Kind != "store" || ef.Val.Op != "nil" {
					probs = append(probs, ef.Field+" is not cleared at "+pos)
				}
			}
		}
		r.Check(len(probs) == 0, "R03.3", key, p.FuncPos(fn), fmt.Sprintf("writes only %v with the %s shape", ws, op.kind), strings.Join(dedupStr(probs), "; "))
	}
	// Set: clears before adding
	if set := p.Method(p.Slog, "dualWriter", "Set"); set != nil {
		var clr, add ssa.Instruction
		recv := receiver(set)
		derives := false
		for _, ef := range te.effectsOf(set, nil) {
			if ef.Struct != "dualWriter" || ef.Field != "Normal" || !ef.Base.isParam(recv) || ef.Kind != "store" {
				continue
			}
			if ef.Val.mentionsField(recv, "Normal") {
				derives = true
			}
			o := ef.Instr
			if len(ef.Chain) > 0 {
				o = ef.Chain[0]
			}
			if ef.Val.Op == "nil" {
				if clr == nil {
					clr = o
				}
			} else {
				add = o
			}
		}
		if !derives && add != nil {
			clr = add // nothing is derived from the old list: the store replaces it by construction (shape decided above)
			r.Ok("R03.3", "op:dualWriter.Set:order", p.FuncPos(set), "installs a list that does not derive from the old one")
		} else {
			r.Check(clr != nil && add != nil && after(clr, add) && !after(add, clr), "R03.3", "op:dualWriter.Set:order", p.FuncPos(set), "clears the list, then adds the writer", "Set does not clear the normal list before adding the writer (it would append instead of replace)")
		}
	}
	// no other function writes the three lists
	allowed := allowedListWriters(p, m)
	// ... except a further operation of the writer set itself whose effects have one of the documented shapes on its own
	// lists (a new "set the writer of one level", say): judged by shape, like the named ones
	for _, fn := range p.RepoFuncs() {
		if allowed[fn] || fn.Parent() != nil || fn.Signature.Recv() == nil || typeName(fn.Signature.Recv().Type()) != "dualWriter" {
			continue
		}
		recv := receiver(fn)
		var wparam, lparam *ssa.Parameter
		for _, q := range fn.Params[1:] {
			if m.isLevel(q.Type()) {
				lparam = q
			} else if _, isI := q.Type().Underlying().(*types.Interface); isI {
				wparam = q
			}
		}
		effs := te.effectsOf(fn, nil)
		n, shape := 0, ""
		var probs []string
		for _, ef := range effs {
			if ef.Struct != "dualWriter" {
				continue
			}
			n++
			pos := p.Pos(instrPos(ef.Instr))
			if !ef.Base.isParam(recv) {
				probs = append(probs, "writes a list of another writer set at "+pos)
				continue
			}
			isOld := func(t *Term) bool {
				if ef.Kind == "mapupdate" {
					return t.Op == "lookup" && len(t.Args) == 2 && t.Args[0].isFieldOf(recv, "leveled") && lparam != nil && t.Args[1].isParam(lparam)
				}
				return t.isFieldOf(recv, ef.Field)
			}
			if ef.Kind == "mapupdate" && (lparam == nil || !ef.Key.isParam(lparam)) {
				probs = append(probs, "updates leveled under a key other than its level parameter at "+pos)
				continue
			}
			if ef.Kind != "store" && ef.Kind != "mapupdate" {
				probs = append(probs, "unexpected "+ef.Kind+" at "+pos)
				continue
			}
			for _, a := range ef.Val.alts() {
				switch {
				case a.Op == "nil" || a.Op == "makemap":
				case a.Op == "append" && len(a.Args) >= 2 && isOld(a.Args[0]) && wparam != nil && a.Args[1].mentionsParam(wparam):
					shape = "add"
				case wparam != nil && a.mentionsParam(wparam) && !a.contains(isOld):
					shape = "set"
				default:
					probs = append(probs, "stores a list that is neither a fresh list holding the writer given nor the old list with that writer appended at "+pos)
				}
			}
		}
		if n == 0 {
			continue
		}
		if len(probs) == 0 && shape != "" {
			allowed[fn] = true
			r.Ok("R03.3", "op:dualWriter."+fn.Name()+":further", p.FuncPos(fn), "a further operation of the writer set with the documented %s shape on its own list, keyed by its own level parameter", shape)
		}
	}
	for _, fn := range p.RepoFuncs() {
		top := fn
		for top.Parent() != nil {
			top = top.Parent()
		}
		if !allowed[top] {
			for _, fs := range fieldStores(fn) {
				if _, fresh := fs.Base.(*ssa.Alloc); fresh {
					continue // a writer set under construction in this function (judged by R03.2 newDualWriter)
				}
				if fs.Struct == "dualWriter" && fs.Kind != "addr-escape" {
					r.Bad("R03.3", "foreign-writer:"+shortName(fn)+":"+fs.Field, p.Pos(instrPos(fs.Instr)), "%s writes the destination list %s outside the documented operations", shortName(fn), fs.Field)
				}
			}
		}
		// element stores into the lists (in-place edits) anywhere
		for _, b := range fn.Blocks {
			for _, in := range b.Instrs {
				if st, ok := in.(*ssa.Store); ok {
					if ia, ok := st.Addr.(*ssa.IndexAddr); ok && typeName(ia.X.Type()) == "LWs" {
						r.Bad("R03.3", "inplace:"+shortName(fn), p.Pos(instrPos(st)), "a destination list is edited in place by %s: lists are shared between the normal/error/per-level views", shortName(fn))
					}
				}
			}
		}
	}
}

func dependsOnFieldLoad(v ssa.Value, typ, field string) bool {
	seen := map[ssa.Value]bool{}
	var walk func(v ssa.Value) bool
	walk = func(v ssa.Value) bool {
		if v == nil || seen[v] {
			return false
		}
		seen[v] = true
		if _, ok := isFieldLoadOf(v, typ, field); ok {
			return true
		}
		if in, ok := v.(ssa.Instruction); ok {
			for _, op := range in.Operands(nil) {
				if *op != nil && walk(*op) {
					return true
				}
			}
		}
		return false
	}
	return walk(v)
}

func c03Wrappers(c *Ctx, p *Prog, m *Model) {
	r := c.R
	var names []string
	for n := range entryWriterOps {
		names = append(names, n)
	}
	sort.Strings(names)
	ndw := p.Func(p.Slog, "newDualWriter")
	te := newTermEval(p)
	for _, n := range names {
		op := entryWriterOps[n]
		fn := p.Method(p.Slog, "Entry", n)
		key := "wrapper:Entry." + n
		if fn == nil {
			r.Unk("R03.4", key, "-", "method not found")
			continue
		}
		del := p.Method(p.Slog, "dualWriter", op.delegate)
		recv := receiver(fn)
		var probs []string
		isDW := func(f *ssa.Function) bool {
			return f == ndw || (f.Signature.Recv() != nil && typeName(f.Signature.Recv().Type()) == "dualWriter")
		}
		te.noInline = isDW
		for _, isNil := range []bool{true, false} {
			a := map[string]bool{"writer==nil": isNil}
			subst := map[ssa.Value]ssa.Value{}
			res := func(v ssa.Value) ssa.Value {
				for i := 0; i < 8; i++ {
					w, ok := subst[v]
					if !ok {
						break
					}
					v = w
				}
				return v
			}
			t := walkDecisionInl(fn.Blocks[0], a, func(cond ssa.Value) (string, bool) {
				if bo, ok := cond.(*ssa.BinOp); ok && isNilConst(bo.Y) {
					if b, ok := isFieldLoadOf(bo.X, "Entry", "writer"); ok && res(b) == ssa.Value(recv) {
						if bo.Op == token.EQL {
							return "writer==nil", true
						}
						a["¬writer==nil"] = !a["writer==nil"]
						return "¬writer==nil", true
					}
				}
				return "", false
			}, nil, func(cs ssa.CallInstruction) *ssa.Function {
				// private helpers of the wrapper (e.g. "give me the writer set, creating it first") are part of it
				cal := calleeOf(cs)
				if cal == nil || cal.Pkg != p.Slog || isDW(cal) || cal.Object() == nil || cal.Object().Exported() {
					return nil
				}
				return cal
			}, subst, 0)
			if t.Kind != "return" {
				probs = append(probs, "depends on a condition other than 'writer set present' ("+t.Kind+")")
				continue
			}
			called, created := false, false
			var callInstr ssa.CallInstruction
			for _, cs := range t.Calls {
				if calleeOf(cs) == ndw && ndw != nil && cs.Value() != nil {
					// stored to s.writer?
					for _, ref := range *cs.Value().Referrers() {
						if st, ok := ref.(*ssa.Store); ok {
							if fa, ok := st.Addr.(*ssa.FieldAddr); ok && res(fa.X) == ssa.Value(recv) && nm(structOf(fa.X.Type()).Field(fa.Field)) == "writer" {
								if !called {
									created = true
								}
							}
						}
					}
				}
				if del != nil && calleeOf(cs) == del {
					called = true
					callInstr = cs
				}
			}
			switch {
			case isNil && called && !created:
				probs = append(probs, "on a logger WITHOUT a writer set the delegate "+op.delegate+" is called through the nil set (nil dereference)")
			case !isNil && !called:
				probs = append(probs, "on a logger WITH a writer set the delegate "+op.delegate+" is never called (the operation is silently dropped)")
			case isNil && op.lazy && !called:
				probs = append(probs, "on a fresh logger the operation is dropped instead of creating the writer set")
			}
			if called && callInstr.Parent() == fn {
				args := callInstr.Common().Args
				own := false
				for _, alt := range te.eval(args[0], nil).alts() {
					switch {
					case alt.isFieldOf(recv, "writer"):
						own = true
					case alt.Op == "call" && ndw != nil && alt.V != nil && isCallTo(alt.V, ndw) && storedToField(alt.V, "writer"):
						// the set just created for this logger and stored into its writer field ("give me the set, creating it first")
						own = true
					default:
						own = false
					}
					if !own {
						break
					}
				}
				if !own {
					probs = append(probs, "the delegate is not applied to the receiver's own writer set")
				}
				for i, q := range fn.Params[1:] {
					if i+1 >= len(args) || !te.eval(args[i+1], nil).isParam(q) {
						probs = append(probs, "parameter "+q.Name()+" is not handed to the delegate unchanged")
					}
				}
			} else if called {
				probs = append(probs, "the delegate is called from a helper, not from the wrapper itself (not analysed)")
			}
		}
		// no other dualWriter method is called
		for _, cs := range callsIn(fn) {
			if cal := calleeOf(cs); cal != nil && cal.Signature.Recv() != nil && typeName(cal.Signature.Recv().Type()) == "dualWriter" && cal != del {
				probs = append(probs, "also calls dualWriter."+nm(cal))
			}
		}
		probs = dedupStr(probs)
		r.Check(len(probs) == 0, "R03.4", key, p.FuncPos(fn), "delegates to dualWriter."+op.delegate+" on its own set, never through a nil set", strings.Join(probs, "; "))
	}
	var onames []string
	for n := range optWriterOps {
		onames = append(onames, n)
	}
	sort.Strings(onames)
	for _, n := range onames {
		fn := p.Func(p.Slog, n)
		key := "opt:" + n
		if fn == nil {
			r.Unk("R03.4", key, "-", "option constructor not found")
			continue
		}
		want := p.Method(p.Slog, "Entry", optWriterOps[n])
		ok := false
		for _, an := range fn.AnonFuncs {
			for _, cs := range callsIn(an) {
				if calleeOf(cs) == want && len(an.Params) == 1 && cs.Common().Args[0] == ssa.Value(an.Params[0]) {
					good := true
					for i := range fn.Params {
						if i+1 >= len(cs.Common().Args) {
							good = false
							continue
						}
						fv, isFV := strip(cs.Common().Args[i+1]).(*ssa.FreeVar)
						if !isFV {
							if u, isU := cs.Common().Args[i+1].(*ssa.UnOp); isU {
								fv, isFV = u.X.(*ssa.FreeVar)
							}
						}
						if !isFV || nm(fv) != nm(fn.Params[i]) {
							good = false
						}
					}
					if good {
						ok = true
					}
				}
			}
		}
		// or: the option is a method value of a small struct that bundles the arguments (o.wr, o.lvl)
		if !ok {
			for _, b := range fn.Blocks {
				ret, isRet := b.Instrs[len(b.Instrs)-1].(*ssa.Return)
				if !isRet || len(ret.Results) != 1 {
					continue
				}
				mc, isMC := strip(ret.Results[0]).(*ssa.MakeClosure)
				if !isMC || len(mc.Bindings) != 1 {
					continue
				}
				w := mc.Fn.(*ssa.Function)
				if !strings.Contains(w.Synthetic, "bound method wrapper") {
					continue
				}
				var M *ssa.Function
				for _, cs := range callsIn(w) {
					if cal := calleeOf(cs); cal != nil {
						M = cal
					}
				}
				if M == nil || len(M.Params) != 2 {
					continue
				}
				// the fields of the bound struct literal
				fieldVal := map[int]ssa.Value{}
				if u, isU := mc.Bindings[0].(*ssa.UnOp); isU {
					if al, isAl := u.X.(*ssa.Alloc); isAl {
						for _, ref := range *al.Referrers() {
							if fa, isFA := ref.(*ssa.FieldAddr); isFA {
								for _, r2 := range *fa.Referrers() {
									if st, isSt := r2.(*ssa.Store); isSt && st.Addr == ssa.Value(fa) {
										fieldVal[fa.Field] = st.Val
									}
								}
							}
						}
					}
				}
				for _, cs := range callsIn(M) {
					if calleeOf(cs) != want || cs.Common().Args[0] != ssa.Value(M.Params[1]) {
						continue
					}
					good := true
					for i := range fn.Params {
						if i+1 >= len(cs.Common().Args) {
							good = false
							continue
						}
						// o.f: a field of the receiver value (directly, or through the spilled copy of a value receiver)
						fidx := -1
						switch x := strip(cs.Common().Args[i+1]).(type) {
						case *ssa.Field:
							if x.X == ssa.Value(M.Params[0]) {
								fidx = x.Field
							}
						case *ssa.UnOp:
							if fa, isFA := x.X.(*ssa.FieldAddr); isFA && x.Op == token.MUL {
								if fa.X == ssa.Value(M.Params[0]) {
									fidx = fa.Field
								} else if al, isAl := fa.X.(*ssa.Alloc); isAl {
									for _, ref := range *al.Referrers() {
										if st, isSt := ref.(*ssa.Store); isSt && st.Addr == ssa.Value(al) && st.Val == ssa.Value(M.Params[0]) {
											fidx = fa.Field
										}
									}
								}
							}
						}
						if fidx < 0 || fieldVal[fidx] != ssa.Value(fn.Params[i]) {
							good = false
						}
					}
					if good {
						ok = true
					}
				}
			}
		}
		r.Check(ok, "R03.4", key, p.FuncPos(fn), "applies Entry."+optWriterOps[n]+" with its own arguments", "the option "+n+" does not apply Entry."+optWriterOps[n]+" with its own arguments to the logger under construction")
	}
}

func dedupStr(in []string) []string {
	seen := map[string]bool{}
	var out []string
	for _, s := range in {
		if !seen[s] {
			seen[s] = true
			out = append(out, s)
		}
	}
	return out
}

// c03AddRemove: R03.5
func c03AddRemove(c *Ctx, p *Prog, m *Model) {
	r := c.R
	lw := p.NamedType(p.Slog, "LogWriter")
	if lw == nil {
		r.Unk("R03.5", "LogWriter", "-", "type not found")
		return
	}
	// wrapper types created around the writer parameter in fn and its static in-package helpers
	created := func(fn *ssa.Function) map[string]bool {
		out := map[string]bool{}
		for g := range staticReach([]*ssa.Function{fn}, func(f *ssa.Function) bool { return f.Pkg != p.Slog }) {
			for _, b := range g.Blocks {
				for _, in := range b.Instrs {
					mi, ok := in.(*ssa.MakeInterface)
					if !ok {
						continue
					}
					if n := namedOf(mi.Type()); n == nil || n.Obj() != lw.Obj() {
						continue
					}
					if al, ok := mi.X.(*ssa.Alloc); ok {
						out[typeName(al.Type())] = true
					}
				}
			}
		}
		return out
	}
	unwrapped := func(fn *ssa.Function) map[string]bool {
		out := map[string]bool{}
		for g := range staticReach([]*ssa.Function{fn}, func(f *ssa.Function) bool { return f.Pkg != p.Slog }) {
			for _, b := range g.Blocks {
				for _, in := range b.Instrs {
					ta, ok := in.(*ssa.TypeAssert)
					if !ok {
						continue
					}
					tn := typeName(ta.AssertedType)
					// the asserted value's inner field must be compared with something
					var val ssa.Value = ta
					if ta.CommaOk {
						for _, ref := range *ta.Referrers() {
							if ex, ok := ref.(*ssa.Extract); ok && ex.Index == 0 {
								val = ex
							}
						}
					}
					for _, ref := range *val.Referrers() {
						fa, ok := ref.(*ssa.FieldAddr)
						if !ok {
							continue
						}
						for _, r2 := range *fa.Referrers() {
							if ld, ok := r2.(*ssa.UnOp); ok {
								for _, r3 := range *ld.Referrers() {
									if bo, ok := r3.(*ssa.BinOp); ok && bo.Op == token.EQL {
										out[tn] = true
									}
								}
							}
						}
					}
				}
			}
		}
		return out
	}
	pairs := [][2]string{{"Add", "Remove"}, {"AddErrorWriter", "RemoveErrorWriter"}, {"AddLevelWriter", "RemoveLevelWriter"}, {"SetWriter", "Remove"}, {"SetErrorWriter", "RemoveErrorWriter"}}
	for _, pr := range pairs {
		a, b := p.Method(p.Slog, "dualWriter", pr[0]), p.Method(p.Slog, "dualWriter", pr[1])
		key := "pair:" + pr[0] + "/" + pr[1]
		if a == nil || b == nil {
			r.Unk("R03.5", key, "-", "methods not found")
			continue
		}
		cr, un := created(a), unwrapped(b)
		var missing []string
		for t := range cr {
			if !un[t] {
				missing = append(missing, t)
			}
		}
		sort.Strings(missing)
		r.Check(len(missing) == 0, "R03.5", key, p.FuncPos(b), fmt.Sprintf("wrappers created by %s %v are all unwrapped by %s", pr[0], sortedKeys(cr), pr[1]),
			fmt.Sprintf("%s wraps a writer in %v but %s never looks inside that wrapper: such a writer can never be removed", pr[0], missing, pr[1]))
		// ... and a writer that is stored as it is (it already is a LogWriter) is found by comparing the member itself with
		// the argument, whether or not the member happens to be a wrapper
		nDirect, nFree := 0, 0
		for g := range staticReach([]*ssa.Function{b}, func(f *ssa.Function) bool { return f.Pkg != p.Slog }) {
			for _, blk := range g.Blocks {
				for _, in := range blk.Instrs {
					bo, ok := in.(*ssa.BinOp)
					if !ok || bo.Op != token.EQL || !types.IsInterface(bo.X.Type()) || !types.IsInterface(bo.Y.Type()) {
						continue
					}
					isPrm := func(v ssa.Value) bool { _, ok := strip(v).(*ssa.Parameter); return ok }
					isMember := func(v ssa.Value) bool {
						u, ok := strip(v).(*ssa.UnOp)
						if !ok || u.Op != token.MUL {
							return false
						}
						_, isIdx := u.X.(*ssa.IndexAddr)
						return isIdx
					}
					if !((isPrm(bo.X) && isMember(bo.Y)) || (isPrm(bo.Y) && isMember(bo.X))) {
						continue
					}
					nDirect++
					underOK := false
					for _, gd := range guardsOf(blk) {
						cond, neg := normCond(gd.If.Cond)
						if ex, isEx := cond.(*ssa.Extract); isEx && ex.Index == 1 && (gd.Succ == 0) != neg {
							if _, isTA := ex.Tuple.(*ssa.TypeAssert); isTA {
								underOK = true
							}
						}
					}
					if !underOK {
						nFree++
					}
				}
			}
		}
		r.Check(nDirect > 0 && nFree > 0, "R03.5", key+":direct", p.FuncPos(b), "a member stored unwrapped is found by comparing the member itself with the argument",
			fmt.Sprintf("%s stores a writer that already is a LogWriter as it is, but %s compares the member itself with the argument only after the member was found to be a wrapper (%d comparison(s), %d outside a wrapper test): such a writer is never removed", pr[0], pr[1], nDirect, nFree))
	}
}

// c03Notify: R03.6
func c03Notify(c *Ctx, p *Prog, m *Model) {
	r := c.R
	ls := p.NamedType(p.Slog, "LevelSettable")
	if ls == nil {
		r.Unk("R03.6", "LevelSettable", "-", "interface not found")
		return
	}
	lsI := ls.Underlying().(*types.Interface)
	for sink := range m.SinkFns {
		key := "notify:" + shortName(sink)
		var ta *ssa.TypeAssert
		for _, b := range sink.Blocks {
			for _, in := range b.Instrs {
				if x, ok := in.(*ssa.TypeAssert); ok {
					if n := namedOf(x.AssertedType); n != nil && n.Obj() == ls.Obj() {
						ta = x
					}
				}
			}
		}
		if ta == nil {
			r.Bad("R03.6", key, p.FuncPos(sink), "the sink never asks the destination whether it wants the severity")
			continue
		}
		// possible dynamic types of the operand: follow calls to findWriter
		dyn := map[string]types.Type{}
		var collect func(v ssa.Value, depth int)
		collect = func(v ssa.Value, depth int) {
			for _, s := range sources(v) {
				switch x := s.(type) {
				case *ssa.Call:
					if cal := calleeOf(x); cal != nil && depth < 3 && cal.Pkg == p.Slog {
						rets, _ := exitBlocks(cal)
						for _, b := range rets {
							ret := b.Instrs[len(b.Instrs)-1].(*ssa.Return)
							if len(ret.Results) > 0 {
								collectMI(ret.Results[0], dyn, func(v ssa.Value) { collect(v, depth+1) })
							}
						}
					}
				default:
					collectMI(s, dyn, nil)
				}
			}
		}
		collect(ta.X, 0)
		var live, dead []string
		for n, t := range dyn {
			if types.Implements(t, lsI) || types.Implements(types.NewPointer(t), lsI) {
				live = append(live, n)
			} else {
				dead = append(dead, n)
			}
		}
		sort.Strings(live)
		sort.Strings(dead)
		if len(live) == 0 {
			r.Bad("R03.6", key, p.Pos(instrPos(ta)), "the LevelSettable assertion is applied to a value whose only possible dynamic types are %v, none of which has SetLevel: no destination is ever told the severity", dead)
			continue
		}
		// ordering: SetLevel invoke precedes the Write
		var setc ssa.CallInstruction
		for _, cs := range callsIn(sink) {
			if invokeName(cs) == "SetLevel" {
				setc = cs
			}
		}
		okOrder := setc != nil && len(m.SinkCall[sink]) == 1 && after(setc, m.SinkCall[sink][0]) && !after(m.SinkCall[sink][0], setc)
		okArg := setc != nil && len(setc.Common().Args) == 1 && m.isLevel(setc.Common().Args[0].Type())
		if okArg {
			_, isP := setc.Common().Args[0].(*ssa.Parameter)
			okArg = isP
		}
		r.Check(okOrder && okArg, "R03.6", key, p.Pos(instrPos(ta)), fmt.Sprintf("live for %v; SetLevel(record severity) precedes the Write", live), "the severity notification does not precede the Write with the record's own severity")
	}
	// the list type forwards
	if fwd := p.Method(p.Slog, "LWs", "SetLevel"); fwd != nil {
		direct, wrapped := false, false
		te := newTermEval(p)
		for _, cs := range callsIn(fwd) {
			if invokeName(cs) != "SetLevel" || !inLoop(cs.Block()) {
				continue
			}
			if len(cs.Common().Args) != 1 || cs.Common().Args[0] != ssa.Value(fwd.Params[1]) {
				continue
			}
			// receiver: the member itself asserted LevelSettable, or member.(*logwr).Writer asserted so (directly or
			// through a private resolver helper): read off the receiver's term
			for _, alt := range te.eval(cs.Common().Value, nil).alts() {
				if alt.Op != "assert" || !strings.Contains(alt.Name, "LevelSettable") || len(alt.Args) != 1 {
					continue
				}
				if x := alt.Args[0]; x.Op == "field" && x.Name == "Writer" {
					wrapped = true
				} else {
					direct = true
				}
			}
		}
		// every member is told: the loop has its natural exit only and covers the whole list
		var anchor *ssa.Call
		for _, cs := range callsIn(fwd) {
			if call, ok := cs.(*ssa.Call); ok && invokeName(cs) == "SetLevel" && inLoop(cs.Block()) {
				anchor = call
			}
		}
		if anchor != nil {
			loop := loopBlocks(fwd)
			var exits []string
			natural := 0
			for b := range loop {
				for _, sc := range b.Succs {
					if !loop[sc] {
						if b.Dominates(anchor.Block()) {
							natural++
						} else {
							exits = append(exits, p.Pos(instrPos(b.Instrs[len(b.Instrs)-1])))
						}
					}
				}
			}
			sort.Strings(exits)
			r.Check(len(exits) == 0 && natural == 1, "R03.6", "forward:LWs.SetLevel:all-members", p.Pos(instrPos(anchor)), "the loop over the members is left only at its end", fmt.Sprintf("the loop that tells the members the severity can be left early (at %v): members after that point are not told", exits))
		}
		r.Check(direct && wrapped, "R03.6", "forward:LWs.SetLevel", p.FuncPos(fwd), "forwards the level to members that are LevelSettable themselves or wrap one", "LWs.SetLevel does not forward the level to both kinds of member (a LevelSettable member, and a plain writer wrapped by Add*/Set*)")
	} else {
		r.Bad("R03.6", "forward:LWs.SetLevel", "-", "the destination list has no SetLevel: members are never told the severity")
	}
}

func collectMI(v ssa.Value, dyn map[string]types.Type, more func(ssa.Value)) {
	for _, s := range sources2(v) {
		if mi, ok := s.(*ssa.MakeInterface); ok {
			dyn[types.TypeString(mi.X.Type(), nil)] = mi.X.Type()
		} else if more != nil {
			if _, isCall := s.(*ssa.Call); isCall {
				more(s)
			}
		}
	}
}

// sources2 is like sources but does not strip MakeInterface.
func sources2(v ssa.Value) []ssa.Value {
	seen := map[ssa.Value]bool{}
	var out []ssa.Value
	var walk func(v ssa.Value)
	walk = func(v ssa.Value) {
		if seen[v] {
			return
		}
		seen[v] = true
		switch x := v.(type) {
		case *ssa.Phi:
			for _, e := range x.Edges {
				walk(e)
			}
		case *ssa.ChangeInterface:
			walk(x.X)
		case *ssa.ChangeType:
			walk(x.X)
		default:
			out = append(out, v)
		}
	}
	walk(v)
	return out
}

func isCallTo(v ssa.Value, fn *ssa.Function) bool {
	c, ok := v.(*ssa.Call)
	return ok && calleeOf(c) == fn
}

// storedToField: v is stored into a field of that name (of any struct) in its own function.
func storedToField(v ssa.Value, field string) bool {
	refs := v.Referrers()
	if refs == nil {
		return false
	}
	for _, ref := range *refs {
		if st, ok := ref.(*ssa.Store); ok {
			if fa, ok := st.Addr.(*ssa.FieldAddr); ok && nm(structOf(fa.X.Type()).Field(fa.Field)) == field {
				return true
			}
		}
	}
	return false
}

type edgeVal struct {
	v    ssa.Value
	from *ssa.BasicBlock
}

// phiEdgesWithPreds: the values v can take in block b with, for each, the block control comes from when it does.
func phiEdgesWithPreds(v ssa.Value, b *ssa.BasicBlock) []edgeVal {
	if ph, ok := v.(*ssa.Phi); ok && ph.Block() == b {
		var out []edgeVal
		for i, e := range ph.Edges {
			out = append(out, phiEdgesWithPreds(e, b.Preds[i])...)
		}
		return out
	}
	return []edgeVal{{v, b}}
}

func enteredOnlyOverCompare(b *ssa.BasicBlock, isW func(ssa.Value) bool) bool {
	return enteredOnlyOverCompare2(b, isW, nil)
}

// enteredOnlyOverCompare2: block b is entered only over true-edges of an equality comparison one operand of which
// is the writer (isW), also as the value of a short-circuit expression, or of a condition accepted by extra.
func enteredOnlyOverCompare2(b *ssa.BasicBlock, isW func(ssa.Value) bool, extra func(ssa.Value) bool) bool {
	var holds func(cd ssa.Value, depth int) bool
	holds = func(cd ssa.Value, depth int) bool {
		cd, neg := normCond(cd)
		if neg || depth > 6 {
			return false
		}
		if extra != nil && extra(cd) {
			return true
		}
		switch x := cd.(type) {
		case *ssa.BinOp:
			return x.Op == token.EQL && (isW(x.X) || isW(x.Y))
		case *ssa.Phi:
			for i, ed := range x.Edges {
				if cb, isC := constBool(ed); isC {
					if !cb {
						continue
					}
					pi := ifOf(x.Block().Preds[i])
					if pi == nil || !holds(pi.Cond, depth+1) {
						return false
					}
					continue
				}
				if !holds(ed, depth+1) {
					return false
				}
			}
			return true
		}
		return false
	}
	seen := map[*ssa.BasicBlock]bool{}
	var only func(b *ssa.BasicBlock) bool
	only = func(b *ssa.BasicBlock) bool {
		if seen[b] {
			return true
		}
		seen[b] = true
		for _, g := range guardsOf(b) {
			if g.Succ == 0 && holds(g.If.Cond, 0) {
				return true
			}
		}
		if len(b.Preds) == 0 {
			return false
		}
		for _, pr := range b.Preds {
			if iff := ifOf(pr); iff != nil && pr.Succs[0] == b && pr.Succs[1] != b && holds(iff.Cond, 0) {
				continue
			}
			if !only(pr) {
				return false
			}
		}
		return true
	}
	return only(b)
}

// addOpsUnconditional (R03.3): an add/set operation of the writer set stores what it was given whenever it was given
// a writer: the only conditions on the way to its stores are the nil test of the writer, the "is it already a
// LogWriter" assertion and tests of the receiver's own fields (lazy creation of the per-level map). A test of
// anything else (a registry lookup of the level, a flag, a comparison of the level) makes the outcome depend on the
// order of configuration and registration calls.
func addOpsUnconditional(c *Ctx, p *Prog, m *Model) {
	r := c.R
	n := 0
	for name := range dwOps {
		if !strings.HasPrefix(name, "Add") && !strings.HasPrefix(name, "Set") {
			continue
		}
		fn := p.Method(p.Slog, "dualWriter", name)
		if fn == nil {
			continue
		}
		recv := receiver(fn)
		var foreign []string
		stores := 0
		for _, b := range fn.Blocks {
			has := false
			for _, in := range b.Instrs {
				switch x := in.(type) {
				case *ssa.Store:
					if fa, ok := x.Addr.(*ssa.FieldAddr); ok && fa.X == ssa.Value(recv) {
						has = true
					}
				case *ssa.MapUpdate:
					has = true
				}
			}
			if !has {
				continue
			}
			stores++
			for _, g := range guardsOf(b) {
				cond, _ := normCond(g.If.Cond)
				okG := false
				var leaves []ssa.Value
				switch x := cond.(type) {
				case *ssa.BinOp:
					leaves = []ssa.Value{x.X, x.Y}
				case *ssa.Extract:
					switch t := x.Tuple.(type) {
					case *ssa.TypeAssert:
						okG = true
					case *ssa.Lookup:
						leaves = []ssa.Value{t.X}
					}
				}
				if len(leaves) > 0 {
					okG = true
					for _, lv := range leaves {
						lv = strip(lv)
						if _, isC := lv.(*ssa.Const); isC {
							continue
						}
						if prm, isP := lv.(*ssa.Parameter); isP && !m.isLevel(prm.Type()) {
							continue // the writer given
						}
						if base, _, _, isF := fieldLoad(lv); isF && strip(base) == ssa.Value(recv) {
							continue // the receiver's own field
						}
						if lc, isL := lv.(*ssa.Call); isL && isBuiltinCall(lc, "len") {
							if base, _, _, isF := fieldLoad(strip(lc.Common().Args[0])); isF && strip(base) == ssa.Value(recv) {
								continue
							}
						}
						okG = false
					}
				}
				if !okG {
					foreign = append(foreign, m.guardDesc(g)+" at "+p.Pos(instrPos(g.If)))
				}
			}
		}
		if stores == 0 {
			continue
		}
		n++
		foreign = dedupStr(foreign)
		sort.Strings(foreign)
		r.Check(len(foreign) == 0, "R03.3", "op:dualWriter."+name+":unconditional", p.FuncPos(fn), "the stores depend only on the writer given and the receiver's own fields",
			"whether "+name+" records the writer also depends on "+strings.Join(foreign, "; ")+": the same configuration call has a different effect depending on what was registered or configured before it")
	}
	if n == 0 {
		r.Unk("R03.3", "op:unconditional", "-", "no add/set operation of the writer set found")
	}
}

// writerSetNilSafe: a logger that was never given writers has no writer set (it uses the package defaults). Every
// method call on a logger's writer set is therefore made under a test that the set exists, or after the function
// created it; a call through the nil set is a nil dereference on exactly those loggers (children, the default).
func writerSetNilSafe(c *Ctx, p *Prog, m *Model, rule string) {
	r := c.R
	n := 0
	for _, fn := range p.RepoFuncs() {
		if fn.Pkg != p.Slog {
			continue
		}
		for _, cs := range callsIn(fn) {
			cal := calleeOf(cs)
			if cal == nil || cal.Signature.Recv() == nil || typeName(cal.Signature.Recv().Type()) != "dualWriter" || len(cs.Common().Args) == 0 {
				continue
			}
			ra := strip(cs.Common().Args[0])
			if _, isW := isFieldLoadOf(ra, "Entry", "writer"); !isW {
				continue
			}
			n++
			rk := exprKey(ra)
			nonNilFact := func(fs []condFact) bool {
				for _, f := range fs {
					bo, ok := f.cond.(*ssa.BinOp)
					if !ok || !isNilConst(bo.Y) || exprKey(strip(bo.X)) != rk {
						continue
					}
					if (bo.Op == token.NEQ && f.taken) || (bo.Op == token.EQL && !f.taken) {
						return true
					}
				}
				return false
			}
			createsBefore := func(b *ssa.BasicBlock, upto ssa.Instruction) bool {
				for _, in := range b.Instrs {
					if in == upto {
						break
					}
					if st, ok := in.(*ssa.Store); ok {
						if fa, ok := st.Addr.(*ssa.FieldAddr); ok && typeName(fa.X.Type()) == "Entry" && nm(structOf(fa.X.Type()).Field(fa.Field)) == "writer" && !isNilConst(st.Val) {
							return true
						}
					}
					if c2, ok := in.(ssa.CallInstruction); ok {
						if h := calleeOf(c2); h != nil && h.Pkg == p.Slog && h.Object() != nil && !h.Object().Exported() {
							for _, fs := range fieldStores(h) {
								if fs.Struct == "Entry" && fs.Field == "writer" {
									return true
								}
							}
						}
					}
				}
				return false
			}
			busy := map[*ssa.BasicBlock]bool{}
			var ensured func(b *ssa.BasicBlock, upto ssa.Instruction) bool
			ensured = func(b *ssa.BasicBlock, upto ssa.Instruction) bool {
				if createsBefore(b, upto) {
					return true
				}
				if busy[b] || len(b.Preds) == 0 {
					return false
				}
				busy[b] = true
				defer func() { busy[b] = false }()
				for _, pr := range b.Preds {
					for _, alt := range factsOfEdge(pr, b) {
						if nonNilFact(alt) {
							continue
						}
						if !ensured(pr, nil) {
							return false
						}
					}
				}
				return true
			}
			safe := ensured(cs.Block(), cs)
			// the phi form: w := s.writer; if w == nil { w = new }: the receiver is then not a plain field load (skipped above)
			key := fmt.Sprintf("nil-set:%s->%s#%d", shortName(fn), nm(cal), ordinalOfCallI(fn, cs))
			r.Check(safe, rule, key, p.Pos(instrPos(cs)), "called under a test that the writer set exists (or after creating it)",
				shortName(fn)+" calls "+nm(cal)+" on the logger's writer set without having tested that the set exists: for a logger that was never given writers (a child, the default logger) the set is nil and the call panics with a nil dereference")
		}
	}
	if n == 0 {
		r.Unk(rule, "nil-set", "-", "no method call on a logger's writer set found")
	}
}

// fallbackSetIndependent (R03.4): the package-level fallback writer set (used by every logger that has no writers of
// its own) belongs to no logger: it is only ever replaced by a freshly built set, never by a set taken from a logger
// (or from any argument) - otherwise loggers that never were given writers start writing to that logger's
// destinations, i.e. outside their own selected set.
func fallbackSetIndependent(c *Ctx, p *Prog, rule string) {
	r := c.R
	g := p.Global(p.Slog, "defaultWriter")
	if g == nil {
		r.Unk(rule, "fallback-set-independent", "-", "defaultWriter not found")
		return
	}
	n := 0
	var bad []string
	for _, fn := range p.RepoFuncs() {
		for _, b := range fn.Blocks {
			for _, in := range b.Instrs {
				st, ok := in.(*ssa.Store)
				if !ok || st.Addr != ssa.Value(g) {
					continue
				}
				n++
				seen := map[ssa.Value]bool{}
				var foreign func(v ssa.Value) bool
				foreign = func(v ssa.Value) bool {
					if v == nil || seen[v] {
						return false
					}
					seen[v] = true
					switch x := v.(type) {
					case *ssa.Parameter, *ssa.FreeVar, *ssa.FieldAddr, *ssa.Field, *ssa.Global, *ssa.TypeAssert:
						return true
					case *ssa.Call:
						for _, a := range x.Common().Args {
							if foreign(a) {
								return true
							}
						}
						return x.Common().IsInvoke()
					case ssa.Instruction:
						for _, op := range x.Operands(nil) {
							if *op != nil && foreign(*op) {
								return true
							}
						}
					}
					return false
				}
				if foreign(st.Val) {
					bad = append(bad, shortName(fn)+" at "+p.Pos(instrPos(st)))
				}
			}
		}
	}
	sort.Strings(bad)
	if n == 0 {
		r.Unk(rule, "fallback-set-independent", "-", "no store to the package-level fallback writer set found")
		return
	}
	r.Check(len(bad) == 0, rule, "fallback-set-independent", p.Pos(g.Pos()), fmt.Sprintf("the %d stores to the package-level fallback writer set install a freshly built set", n),
		"the package-level fallback writer set is replaced by a set taken from a logger or an argument ("+strings.Join(bad, "; ")+"): every logger without writers of its own then writes to that logger's destinations, outside its own selected set")
}
