package main

import (
	"fmt"
	"go/constant"
	"go/token"
	"go/types"
	"sort"
	"strings"

	"golang.org/x/tools/go/ssa"
)

func init() { register("C01", checkC01) }

// allowedEmissionGuards are the conditions, besides the admission test, on which reaching
// the next spine call may depend (each with one line of reason). Keyed by guard description.
var allowedEmissionGuards = []struct{ prefix, reason string }{
	{"T:typeassert-ok global defaultLog.(", "package-level verbs dispatch on the dynamic type of the default logger"},
	{"F:typeassert-ok global defaultLog.(", "type switch fall-through to the next case of the default logger"},
	{"F:Entry.handlerOpt != nil", "configuration escape: a logger constructed with a log/slog handler option hands the record to it"},
	{"T:Entry.handlerOpt == nil", "configuration escape (other polarity)"},
	{"T:call Entry.findWriter != nil", "a destination was found (findWriter never returns nil: it falls back to the package default)"},
	{"F:len(param args) == 0", "Println with arguments"},
	{"T:len(param args) == 0", "Println without arguments prints a blank line"},
	{"T:len(param args) != 0", "Println with arguments"},
	{"T:len(param args) > 0", "Println with arguments"},
	{"PrintCtx.lvl == AlwaysLevel", "blank-line shortcut of Print/Println: both outcomes emit"},
	{`call strings.Trim == ""`, "blank-line shortcut of Print/Println: both outcomes emit"},
	{`call strings.Trim != ""`, "blank-line shortcut of Print/Println: both outcomes emit"},
	{"T:typeassert-ok handler4LogSlog.Logger.(LogSlogAware)", "adapter: native loggers take the WriteThru path, others LogAttrs"},
	{"F:typeassert-ok handler4LogSlog.Logger.(LogSlogAware)", "adapter: native loggers take the WriteThru path, others LogAttrs"},
	{"T:typeassert-ok handlerWriter.l.(LogLoggerAware)", "bridge: only loggers that accept raw bytes"},
	{"T:handlerWriter.capturePC", "bridge: pc capture switch (judged under C14)"},
	{"F:handlerWriter.capturePC", "bridge: pc capture switch (judged under C14)"},
	{"T:extract invoke Write != nil", "diagnostic after a failed Write (judged under C13)"},
	{"WarnLevel", "diagnostic after a failed Write is not issued for a warning (judged under C13)"},
}

// allowedEscape: edges on which an admitted record is legitimately not emitted by this function.
func allowedEscape(desc string) (string, bool) {
	desc = strings.Replace(desc, ":call findWriter ", ":call Entry.findWriter ", 1) // the selector as a package-level function
	for _, e := range []struct{ d, why string }{
		{"T:Entry.handlerOpt != nil", "a logger constructed with a log/slog handler option hands the record to it"},
		{"F:Entry.handlerOpt == nil", "a logger constructed with a log/slog handler option hands the record to it"},
		{"F:call Entry.findWriter != nil", "no destination (cannot happen: findWriter falls back to the package default)"},
		{"T:call Entry.findWriter == nil", "no destination (cannot happen: findWriter falls back to the package default)"},
		{"F:typeassert-ok global defaultLog.(*Entry)", "the default logger was replaced by a foreign Logger implementation (outside the decided domain)"},
		{"F:typeassert-ok handlerWriter.l.(LogLoggerAware)", "bridge on a logger that does not accept raw bytes"},
	} {
		if desc == e.d {
			return e.why, true
		}
	}
	return "", false
}

func allowedGuard(desc string) (string, bool) {
	desc = strings.Replace(desc, ":call findWriter ", ":call Entry.findWriter ", 1)
	for _, a := range allowedEmissionGuards {
		if strings.HasPrefix(desc, a.prefix) || strings.Contains(desc[2:], a.prefix) && !strings.HasPrefix(a.prefix, "T:") && !strings.HasPrefix(a.prefix, "F:") {
			return a.reason, true
		}
	}
	return "", false
}

// entryPointNames derives the public logging entry points from the interface method sets.
func entryPointNames(p *Prog) (methods []string, funcs []string) {
	seen := map[string]bool{}
	for _, in := range []string{"Printer", "PrinterWithContext", "ExtraPrintersI"} {
		n := p.NamedType(p.Slog, in)
		if n == nil {
			continue
		}
		it, ok := n.Underlying().(*types.Interface)
		if !ok {
			continue
		}
		for i := 0; i < it.NumMethods(); i++ {
			name := nm(it.Method(i))
			if !seen[name] {
				seen[name] = true
				methods = append(methods, name)
				if in != "ExtraPrintersI" {
					funcs = append(funcs, name)
				}
			}
		}
	}
	for _, name := range []string{"LogAttrs", "Logit", "Log"} {
		if !seen[name] {
			methods = append(methods, name)
		}
	}
	sort.Strings(methods)
	sort.Strings(funcs)
	return
}

// verbLevel derives the level constant name from a verb name.
func verbLevel(name string) string {
	n := strings.TrimSuffix(name, "Context")
	switch n {
	case "Print", "Println":
		return "AlwaysLevel"
	case "Verbose":
		return "TraceLevel"
	case "Infof":
		return "InfoLevel"
	case "Warnf":
		return "WarnLevel"
	case "Errorf":
		return "ErrorLevel"
	case "LogAttrs", "Logit", "Log":
		return ""
	}
	return n + "Level"
}

// verbLevelIn: as verbLevel, and a printf-style verb Xf belongs to the level X when there is no level named Xf.
func verbLevelIn(name string, levels map[string]int64) string {
	want := verbLevel(name)
	if want == "" {
		return ""
	}
	if _, ok := levels[want]; !ok {
		n := strings.TrimSuffix(strings.TrimSuffix(name, "Context"), "f")
		if _, ok2 := levels[n+"Level"]; ok2 && strings.HasSuffix(strings.TrimSuffix(name, "Context"), "f") {
			return n + "Level"
		}
	}
	return want
}

func checkC01(c *Ctx) {
	r := c.R
	r.Rule("R13.1", "(shared with C13) an admitted record is not lost after the gate: the fan-out loop visits every member whatever the earlier members returned")
	r.Rule("R10.3", "(shared with C10) the threshold a logger holds is the level it was given: newentry / SetLevel / Level() store and return the level value itself (nothing-else rule on creation and on the level field)")
	r.Rule("R01.8", "the package-level verbs emit for every kind of default logger: each spine function that dispatches on the dynamic type of the default logger has an emitting arm for *logimp and for *Entry (what New() returns and what its chained setters return)")
	r.Rule("R03.1", "(shared with C03) an admitted call produces output: the destination selected for a severity is never an empty per-level list while the documented routing names another (the routing decision function equals the documented one)")
	r.Rule("R17.3", "(shared with C17) a refused registration leaves the level tables untouched")
	r.Rule("R17.4", "(shared with C17) a successful registration records the treated-as level for EVERY level value given (including the zero value PanicLevel), so that the admission rule gates the new level as the level it is treated as")
	r.Rule("R01.1", "gate dominance: every static call path from a public entry point to the Write on the selected destination crosses the admitting edge of an Entry.Enabled/EnabledContext test on the emitting logger with the very level value passed on as the record's severity (Verbose in a `verbose` build is the documented exemption; WriteThru/WriteInternal are adapter plumbing judged under C15)")
	r.Rule("R01.2", "admitted implies emitted: reaching an emission call depends on nothing but the admission test and an allow-listed set of configuration conditions (no extra guard, no early return between gate and emission)")
	r.Rule("R01.3", "the admission rule itself: the decision function extracted from Level.Enabled equals the property's rule on every consistent assignment of its atoms; Entry.Enabled/EnabledContext return exactly Level.Enabled applied to the receiver's own level field; the initial treated-as table is OK,Success->Info, Fail->Error")
	r.Rule("R01.4", "single admission rule: no ordering comparison of Level values with a logger threshold operand outside Level.Enabled")
	r.Rule("R01.5", "verb/severity agreement: every entry point of a verb passes the level constant named after the verb, in every form (method, Context method, package function, printf form)")
	r.Rule("R01.6", "Verbose is silent in a default build: no emission is reachable (CHA call graph) from the Verbose entry points")
	r.Rule("R01.7", "sticky debug mode has one source inside the package: SetDebugMode(true) is called only by Entry.SetLevel under lvl == DebugLevel")
	r.Assume("states.Env().GetDebugMode() reports what is.SetDebugMode stored (dependency github.com/hedzr/is)")
	r.Assume("callers outside package slog reach the sink only through exported functions and methods")

	for _, tags := range c.Configs([]string{"", "verbose"}, []string{"", "verbose", "hint", "verbose,hint"}) {
		p := c.Prog(tags)
		if p == nil {
			continue
		}
		m, err := BuildModel(p)
		if err != nil {
			r.Unk("R01.1", "model", "-", "cannot build the emission model: %v", err)
			continue
		}
		c01Gates(c, p, m, tags)
		c01Decision(c, p, m)
		c01SingleRule(c, p, m)
		c01Verbs(c, p, m, tags)
		c01DebugMode(c, p)
		c01DefaultKinds(c, p, m, "R01.8")
		c10Creation(c, p, m)
		c03Routing(c, p, m)
		c13Fanout(c, p, m)
		c17Register(c, p, m)
	}
	c.Floor["R01.1"] = 58
	c.Floor["R01.5"] = 52
	c.Floor["R01.3"] = 20
}

func isVerboseRoot(fn *ssa.Function) bool {
	n := nm(fn)
	return n == "Verbose" || n == "VerboseContext" || n == "vlogctx"
}

func c01Gates(c *Ctx, p *Prog, m *Model, tags string) {
	r := c.R
	verbose := strings.Contains(tags, "verbose")
	methods, funcs := entryPointNames(p)
	want := map[*ssa.Function]string{}
	for _, n := range methods {
		if fn := p.Method(p.Slog, "Entry", n); fn != nil {
			want[fn] = "Entry." + n
		} else {
			r.Unk("R01.1", "entry:Entry."+n, "-", "entry point required by the interfaces in i.go not found")
		}
	}
	for _, n := range funcs {
		if fn := p.Func(p.Slog, n); fn != nil {
			want[fn] = n
		} else {
			r.Unk("R01.1", "entry:"+n, "-", "package-level entry point not found")
		}
	}
	exempt := map[string]string{
		"Entry.WriteThru":     "adapter plumbing (LogSlogAware): the log/slog handler contract gates through Handler.Enabled; in-package callers judged under C15",
		"Entry.WriteInternal": "adapter plumbing (LogLoggerAware): gated by the bridge writer, judged under C15",
	}
	// the record the sink issues about a failed Write is a record like any other: it re-enters through a gated entry
	// point, never below the admission test (a logger at Error level admits no warning, diagnostic or not)
	region := failureRegion(p, m)
	inRegion := map[*ssa.Function]bool{}
	for _, fn := range region {
		inRegion[fn] = true
	}
	for _, fn := range region {
		for _, cs := range callsIn(fn) {
			cal := calleeOf(cs)
			if cal == nil || !m.Spine[cal] || inRegion[cal] || fn == cal.Parent() {
				continue
			}
			key := "reentry:" + shortName(fn) + "->" + shortName(cal)
			if path := m.ungatedPath(cal, map[*ssa.Function]bool{}); path != nil {
				r.Bad("R01.1", key, p.Pos(instrPos(cs)), "the diagnostic record re-enters the logging path below the admission test: %s; it is written whatever the logger's level", strings.Join(path, " -> "))
			} else {
				r.Ok("R01.1", key, p.Pos(instrPos(cs)), "the diagnostic record re-enters through a gated entry point")
			}
		}
	}
	roots := m.Roots()
	rootSet := map[*ssa.Function]bool{}
	for _, fn := range roots {
		rootSet[fn] = true
	}
	// every interface entry point must be decided, whether or not it reaches the sink
	var all []*ssa.Function
	for fn := range want {
		all = append(all, fn)
	}
	for _, fn := range roots {
		if _, ok := want[fn]; !ok {
			all = append(all, fn)
		}
	}
	sort.Slice(all, func(i, j int) bool { return shortName(all[i]) < shortName(all[j]) })
	for _, fn := range all {
		name := shortName(fn)
		key := "entry:" + name
		if !m.Spine[fn] {
			if isVerboseRoot(fn) && !verbose {
				r.Ok("R01.1", key, p.FuncPos(fn), "emits nothing in this configuration (no static path to the sink)")
			} else if _, ok := want[fn]; ok {
				r.Bad("R01.1", key, p.FuncPos(fn), "public entry point has no static path to the emission sink: an admitted record is never written")
			}
			continue
		}
		if why, ok := exempt[name]; ok {
			r.OkTrivial("R01.1", key, p.FuncPos(fn), "exempt: %s", why)
			continue
		}
		if isVerboseRoot(fn) && verbose {
			r.OkTrivial("R01.1", key, p.FuncPos(fn), "exempt: Verbose is unconditional in a `verbose` build (documented)")
			continue
		}
		if m.SinkFns[fn] && len(m.Callers[fn]) > 0 {
			continue
		}
		if path := m.ungatedPath(fn, map[*ssa.Function]bool{}); path != nil {
			why := ""
			for _, s := range m.Sites[fn] {
				if _, w := m.localGate(s); w != "" {
					why = w
				}
			}
			r.Bad("R01.1", key, p.FuncPos(fn), "ungated path to the sink: %s (%s)", strings.Join(path, " -> "), why)
		} else {
			r.Ok("R01.1", key, p.FuncPos(fn), "every path to the sink crosses an admission test on the emitting logger with the level passed on")
		}
	}

	// R01.2: once admitted, every path emits: from the admitting edge of the gate (or from the entry of an ungated
	// spine function) no path reaches a return without passing an emission call, except through an allow-listed
	// configuration escape.
	var spine []*ssa.Function
	for fn := range m.Spine {
		spine = append(spine, fn)
	}
	sort.Slice(spine, func(i, j int) bool { return shortName(spine[i]) < shortName(spine[j]) })
	for _, fn := range spine {
		if len(fn.Blocks) == 0 {
			continue
		}
		H := map[*ssa.BasicBlock]bool{}
		var starts []*ssa.BasicBlock
		gated := false
		for _, s := range m.Sites[fn] {
			if m.SinkFns[fn] {
				continue // the diagnostic re-entry of the sink is not "the" emission
			}
			H[s.Block()] = true
			if g, _ := m.localGate(s); g != nil {
				gated = true
				starts = append(starts, g.Guard.Blk.Succs[g.Guard.Succ])
			}
			if _, isDefer := s.(*ssa.Defer); isDefer {
				delete(H, s.Block())
			}
		}
		for _, sc := range m.SinkCall[fn] {
			H[sc.Block()] = true
		}
		if len(H) == 0 {
			continue
		}
		if !gated {
			starts = []*ssa.BasicBlock{fn.Blocks[0]}
		}
		// escape blocks: entered by an allow-listed edge
		escape := map[*ssa.BasicBlock]string{}
		for _, b := range fn.Blocks {
			iff := ifOf(b)
			if iff == nil {
				continue
			}
			for k := 0; k < 2; k++ {
				d := m.guardDesc(guard{iff, b, k})
				if why, ok := allowedEscape(d); ok {
					escape[b.Succs[k]] = why
				}
			}
		}
		rets, _ := exitBlocks(fn)
		key := "emits:" + shortName(fn)
		bad := ""
		for _, st := range starts {
			if H[st] {
				continue
			}
			for _, rb := range rets {
				if H[rb] || escape[rb] != "" {
					continue
				}
				avoid := func(x *ssa.BasicBlock) bool { return H[x] || escape[x] != "" }
				if st == rb || reachAvoiding(st, rb, avoid) {
					if escape[st] != "" {
						continue
					}
					bad = fmt.Sprintf("a path from %s to the return at %s passes no emission call: an admitted record can be dropped", map[bool]string{true: "the admitting edge of the gate", false: "the function entry"}[gated], p.Pos(instrPos(rb.Instrs[len(rb.Instrs)-1])))
				}
			}
		}
		// ... and the gate is asked first: a gated function does not return before its admission test was evaluated
		// (a validity / fast-path test in front of the gate decides admission in this one entry point only)
		if gated && bad == "" {
			G := map[*ssa.BasicBlock]bool{}
			for _, s := range m.Sites[fn] {
				if g, _ := m.localGate(s); g != nil {
					G[g.Guard.Blk] = true
				}
			}
			avoid := func(x *ssa.BasicBlock) bool { return G[x] || H[x] || escape[x] != "" }
			// the tests in front of the gate that read the severity (the quantity the gate decides)
			for _, d := range fn.Blocks {
				iff := ifOf(d)
				if iff == nil || avoid(d) || bad != "" {
					continue
				}
				if d != fn.Blocks[0] && !reachAvoiding(fn.Blocks[0], d, avoid) {
					continue
				}
				onLevel := false
				for _, prm := range fn.Params {
					if typeName(prm.Type()) == "Level" && dependsOn(iff.Cond, prm) {
						onLevel = true
					}
				}
				if !onLevel {
					continue
				}
				for _, sc := range d.Succs {
					for _, rb := range rets {
						if avoid(rb) || avoid(sc) {
							continue
						}
						if sc == rb || reachAvoiding(sc, rb, avoid) {
							bad = fmt.Sprintf("the return at %s is reachable without the admission test having been asked, over a test of the severity at %s: a test in front of the gate decides admission in this entry point only (its siblings and Enabled answer differently)", p.Pos(instrPos(rb.Instrs[len(rb.Instrs)-1])), p.Pos(instrPos(iff)))
						}
					}
				}
			}
		}
		if bad != "" {
			r.Bad("R01.2", key, p.FuncPos(fn), "%s", bad)
		} else {
			r.Ok("R01.2", key, p.FuncPos(fn), "every path from %s passes an emission call or an allow-listed configuration escape (%d emission block(s))", map[bool]string{true: "the admitting edge", false: "the entry"}[gated], len(H))
		}
	}

	// R01.6 Verbose silent in default build
	if !verbose {
		cg := p.CHA()
		var sinks []*ssa.Function
		for fn := range m.SinkFns {
			sinks = append(sinks, fn)
		}
		for _, spec := range []string{"Entry.Verbose", "Entry.VerboseContext", "Verbose", "VerboseContext", "vlogctx"} {
			fn := p.F(spec)
			if fn == nil {
				r.Unk("R01.6", "verbose:"+spec, "-", "function not found")
				continue
			}
			reach := cgReach(cg, fn)
			bad := ""
			for _, s := range sinks {
				if reach[s] {
					bad = shortName(s)
				}
			}
			if bad != "" {
				r.Bad("R01.6", "verbose:"+spec, p.FuncPos(fn), "the emission sink %s is reachable from %s in a default build", bad, spec)
			} else {
				r.Ok("R01.6", "verbose:"+spec, p.FuncPos(fn), "no emission reachable in the over-approximate call graph (%d functions reachable)", len(reach))
			}
		}
	}
}

// c01Decision: R01.3.
func c01Decision(c *Ctx, p *Prog, m *Model) {
	r := c.R
	en := p.Method(p.Slog, "Level", "Enabled")
	if en == nil || len(en.Params) != 3 {
		r.Unk("R01.3", "Level.Enabled", "-", "Level.Enabled(ctx, level) not found")
		return
	}
	recv, arg := en.Params[0], en.Params[2]
	lv := m.LevelByName
	need := []string{"OffLevel", "AlwaysLevel", "DebugLevel", "InfoLevel", "ErrorLevel", "OKLevel", "SuccessLevel", "FailLevel"}
	for _, n := range need {
		if _, ok := lv[n]; !ok {
			r.Unk("R01.3", "Level.Enabled", "-", "level constant %s not found", n)
			return
		}
	}
	treatG := p.Global(p.Slog, "mLevelIsEnabledAs")
	atomize := func(cond ssa.Value) (string, bool) {
		switch x := cond.(type) {
		case *ssa.BinOp:
			if x.Op != token.EQL && x.Op != token.NEQ {
				return "", false
			}
			a, b := strip(x.X), strip(x.Y)
			if _, ok := a.(*ssa.Const); ok {
				a, b = b, a
			}
			cv, ok := constInt(b)
			if !ok {
				return "", false
			}
			who := ""
			if a == recv {
				who = "recv"
			} else if a == arg {
				who = "arg"
			} else {
				return "", false
			}
			name := m.LevelByVal[cv]
			if name != "OffLevel" && name != "AlwaysLevel" && name != "DebugLevel" {
				return "", false
			}
			at := who + "==" + strings.TrimSuffix(name, "Level")
			if x.Op == token.NEQ {
				return "!" + at, true
			}
			return at, true
		case *ssa.Call:
			if x.Common().IsInvoke() && nm(x.Common().Method) == "GetDebugMode" {
				return "debug", true
			}
			if cal := calleeOf(x); cal != nil && (nm(cal) == "DebugMode" || nm(cal) == "GetDebugMode") && cal.Pkg != nil && strings.HasPrefix(cal.Pkg.Pkg.Path(), "github.com/hedzr/is") {
				return "debug", true
			}
		case *ssa.Extract:
			if lk, ok := x.Tuple.(*ssa.Lookup); ok && x.Index == 1 && lk.CommaOk {
				if g, ok := globalLoad(lk.X); ok && g == treatG && strip(lk.Index) == arg {
					return "treated", true
				}
			}
		}
		return "", false
	}
	wrapped := func(cond ssa.Value) (string, bool) {
		a, ok := atomize(cond)
		return a, ok
	}
	atoms := []string{"recv==Off", "arg==Off", "recv==Always", "arg==Always", "debug", "arg==Debug", "treated"}
	consistent := func(a map[string]bool) bool {
		if a["recv==Off"] && a["recv==Always"] {
			return false
		}
		n := 0
		for _, k := range []string{"arg==Off", "arg==Always", "arg==Debug"} {
			if a[k] {
				n++
			}
		}
		return n <= 1
	}
	spec := func(a map[string]bool) string {
		switch {
		case a["recv==Off"] || a["arg==Off"]:
			return "false"
		case a["recv==Always"] || a["arg==Always"]:
			return "true"
		case a["debug"] && a["arg==Debug"]:
			return "true"
		case a["treated"]:
			return "recv >= mapped(arg)"
		}
		return "recv >= arg"
	}
	// negated-atom support: atomizer may return "!x"
	atomizeN := func(cond ssa.Value) (string, bool) {
		a, ok := wrapped(cond)
		return a, ok
	}
	describe := func(t Terminal) string {
		if t.Kind != "return" {
			return t.Kind
		}
		ret := t.Instr.(*ssa.Return)
		if len(ret.Results) != 1 {
			return "return(?)"
		}
		v := resolveAlong(ret.Results[0], t.Path)
		if b, ok := constBool(v); ok {
			return fmt.Sprint(b)
		}
		if bo, ok := v.(*ssa.BinOp); ok {
			x, y := resolveAlong(bo.X, t.Path), resolveAlong(bo.Y, t.Path)
			side := func(v ssa.Value) string {
				v = strip(v)
				if v == recv {
					return "recv"
				}
				if v == arg {
					return "arg"
				}
				if ex, ok := v.(*ssa.Extract); ok && ex.Index == 0 {
					if lk, ok := ex.Tuple.(*ssa.Lookup); ok {
						if g, ok := globalLoad(lk.X); ok && g == treatG && strip(lk.Index) == arg {
							return "mapped(arg)"
						}
					}
				}
				if lk, ok := v.(*ssa.Lookup); ok {
					if g, ok := globalLoad(lk.X); ok && g == treatG && strip(lk.Index) == arg {
						return "mapped(arg)"
					}
				}
				return "?" + v.String()
			}
			l, rr := side(x), side(y)
			op := bo.Op
			// normalise "arg <= recv" to "recv >= arg"
			if l != "recv" && rr == "recv" {
				l, rr = rr, l
				switch op {
				case token.LEQ:
					op = token.GEQ
				case token.LSS:
					op = token.GTR
				case token.GEQ:
					op = token.LEQ
				case token.GTR:
					op = token.LSS
				}
			}
			return l + " " + op.String() + " " + rr
		}
		return "return " + v.String()
	}
	nOK := 0
	asg := assignments(atoms, consistent)
	for _, a := range asg {
		// walk with support for negated atoms
		t := walkDecision(en.Blocks[0], a, func(cond ssa.Value) (string, bool) {
			at, ok := atomizeN(cond)
			if !ok {
				return "", false
			}
			if strings.HasPrefix(at, "!") {
				// express as the positive atom by flipping: emulate by synthetic atom
				pos := at[1:]
				a["¬"+pos] = !a[pos]
				return "¬" + pos, true
			}
			return at, true
		}, nil)
		got := describe(t)
		wantS := spec(a)
		for k := range a {
			if strings.HasPrefix(k, "¬") {
				delete(a, k)
			}
		}
		key := "Level.Enabled[" + assignStr(a) + "]"
		if got == wantS {
			nOK++
			r.Ok("R01.3", key, p.FuncPos(en), "extracted outcome %q equals the property's rule", got)
		} else {
			r.Bad("R01.3", key, p.FuncPos(en), "extracted outcome %q but the property's admission rule gives %q (path %s)", got, wantS, pathStr(t.Path))
		}
	}
	r.Ok("R01.3", "Level.Enabled:all-assignments", p.FuncPos(en), "%d of %d consistent atom assignments agree with the property's admission rule", nOK, len(asg))

	// Entry.Enabled / EnabledContext return Level.Enabled(receiver.Level() or receiver.level, _, lvl)
	for _, n := range []string{"Enabled", "EnabledContext"} {
		g := p.Method(p.Slog, "Entry", n)
		key := "Entry." + n
		if g == nil {
			r.Unk("R01.3", key, "-", "not found")
			continue
		}
		ok, why := false, "does not return the result of Level.Enabled on the receiver's own level"
		rets, _ := exitBlocks(g)
		good := 0
		for _, b := range rets {
			ret := b.Instrs[len(b.Instrs)-1].(*ssa.Return)
			if len(ret.Results) != 1 {
				continue
			}
			call, isCall := ret.Results[0].(*ssa.Call)
			if !isCall || calleeOf(call) != en {
				continue
			}
			args := call.Common().Args
			owner := m.thresholdOwner(args[0])
			if owner == nil || owner != ssa.Value(receiver(g)) {
				why = "the threshold operand of Level.Enabled is not the receiver's own level"
				continue
			}
			if strip(args[2]) != ssa.Value(g.Params[len(g.Params)-1]) {
				why = "the level passed to Level.Enabled is not the method's level parameter"
				continue
			}
			good++
		}
		ok = good == len(rets) && good > 0
		r.Check(ok, "R01.3", key, p.FuncPos(g), "returns Level.Enabled(receiver's level, ctx, lvl) on every path", why)
	}
	// Entry.Level returns the field
	if lf := p.Method(p.Slog, "Entry", "Level"); lf != nil {
		rets, _ := exitBlocks(lf)
		good := 0
		for _, b := range rets {
			ret := b.Instrs[len(b.Instrs)-1].(*ssa.Return)
			if len(ret.Results) == 1 {
				if base, ok := isFieldLoadOf(ret.Results[0], "Entry", "level"); ok && base == ssa.Value(receiver(lf)) {
					good++
				}
			}
		}
		r.Check(good == len(rets) && good > 0, "R01.3", "Entry.Level", p.FuncPos(lf), "returns the receiver's level field on every path", "Entry.Level does not simply return the receiver's own level field: the threshold used for admission is not the logger's own level")
	} else {
		r.Unk("R01.3", "Entry.Level", "-", "not found")
	}
	// initial treated-as table
	tbl, err := mapLiteral(p, p.Slog, "mLevelIsEnabledAs")
	if err != nil {
		r.Unk("R01.3", "table:mLevelIsEnabledAs", "-", "%v", err)
	} else {
		wantT := map[string]string{"OKLevel": "InfoLevel", "SuccessLevel": "InfoLevel", "FailLevel": "ErrorLevel"}
		got := map[string]string{}
		for _, kv := range tbl {
			got[m.constName(kv.K)] = m.constName(kv.V)
		}
		// the three documented aliases are there; any further built-in alias maps a NON-ordinal level onto an ordinal one
		// (an ordinal level - Panic..Trace, Off, Always - must never be gated as another)
		ordinal := map[string]bool{"PanicLevel": true, "FatalLevel": true, "ErrorLevel": true, "WarnLevel": true, "InfoLevel": true, "DebugLevel": true, "TraceLevel": true}
		okT := true
		for k, v := range wantT {
			if got[k] != v {
				okT = false
			}
		}
		for k, v := range got {
			if _, documented := wantT[k]; documented {
				continue
			}
			if ordinal[k] || k == "OffLevel" || k == "AlwaysLevel" || !ordinal[v] {
				okT = false
			}
		}
		if okT {
			got = wantT
		}
		r.Check(fmt.Sprint(got) == fmt.Sprint(wantT), "R01.3", "table:mLevelIsEnabledAs", p.Pos(p.Global(p.Slog, "mLevelIsEnabledAs").Pos()),
			"initial treated-as table is OK->Info, Success->Info, Fail->Error", fmt.Sprintf("initial treated-as table is %v, the documented one is %v", got, wantT))
	}
}

func (m *Model) constName(v constant.Value) string {
	if v == nil {
		return "nil"
	}
	if i, ok := constant.Int64Val(constant.ToInt(v)); ok {
		if n, ok := m.LevelByVal[i]; ok {
			return n
		}
	}
	return v.ExactString()
}

// c01SingleRule: R01.4.
func c01SingleRule(c *Ctx, p *Prog, m *Model) {
	r := c.R
	en := p.Method(p.Slog, "Level", "Enabled")
	n := 0
	for _, fn := range p.RepoFuncs() {
		if fn == en {
			continue
		}
		for _, b := range fn.Blocks {
			for _, in := range b.Instrs {
				bo, ok := in.(*ssa.BinOp)
				if !ok {
					continue
				}
				switch bo.Op {
				case token.LSS, token.LEQ, token.GTR, token.GEQ:
				default:
					continue
				}
				if !m.isLevel(bo.X.Type()) && !m.isLevel(bo.Y.Type()) {
					continue
				}
				thr := false
				for _, side := range []ssa.Value{bo.X, bo.Y} {
					for _, s := range sources(side) {
						if m.thresholdOwner(s) != nil {
							thr = true
						}
						if g, ok := globalLoad(s); ok && nm(g) == "lvlCurrent" {
							thr = true
						}
					}
				}
				if thr {
					n++
					r.Bad("R01.4", "compare:"+shortName(fn), p.Pos(instrPos(bo)), "ad-hoc ordering comparison of a logger threshold (%s %s %s): a second admission rule that ignores Off/Always/debug-mode/treated-as", m.valDesc(bo.X), bo.Op, m.valDesc(bo.Y))
				}
			}
		}
	}
	if n == 0 {
		r.Ok("R01.4", "package-wide", "-", "no ordering comparison with a logger-threshold operand outside Level.Enabled (%d functions scanned)", len(p.RepoFuncs()))
	}
}

// c01Verbs: R01.5.
func c01Verbs(c *Ctx, p *Prog, m *Model, tags string) {
	r := c.R
	methods, funcs := entryPointNames(p)
	type ep struct {
		fn   *ssa.Function
		name string
		verb string
	}
	var eps []ep
	for _, n := range methods {
		if fn := p.Method(p.Slog, "Entry", n); fn != nil {
			eps = append(eps, ep{fn, "Entry." + n, n})
		}
	}
	for _, n := range funcs {
		if fn := p.Func(p.Slog, n); fn != nil {
			eps = append(eps, ep{fn, n, n})
		}
	}
	for _, e := range eps {
		want := verbLevelIn(e.verb, m.LevelByName)
		if want == "" {
			continue
		}
		wantV, ok := m.LevelByName[want]
		if !ok {
			r.Bad("R01.5", "verb:"+e.name, p.FuncPos(e.fn), "no level constant %s exists for verb %s", want, e.verb)
			continue
		}
		if len(e.fn.Blocks) == 0 {
			continue
		}
		// all Level-typed arguments passed to callees in this function must be the verb's constant
		var seen []string
		bad := ""
		var scan func(fn *ssa.Function, depth int)
		scan = func(fn *ssa.Function, depth int) {
			for _, cs := range callsIn(fn) {
				cal := calleeOf(cs)
				if cal == nil {
					continue
				}
				hasLevel := false
				for i, prm := range cal.Params {
					if !m.isLevel(prm.Type()) || i >= len(cs.Common().Args) {
						continue
					}
					if cal.Signature.Recv() != nil && i == 0 {
						continue
					}
					hasLevel = true
					a := cs.Common().Args[i]
					if cv, ok := constInt(a); ok {
						seen = append(seen, m.LevelByVal[cv])
						if cv != wantV {
							bad = fmt.Sprintf("passes %s to %s", m.levelStr(a), shortName(cal))
						}
					} else {
						bad = fmt.Sprintf("passes a non-constant level (%s) to %s", m.valDesc(a), shortName(cal))
					}
				}
				// a private helper without a level parameter fixes the level itself (vlogctx)
				if !hasLevel && depth < 2 && cal.Pkg == p.Slog && !token.IsExported(nm(cal)) && m.Spine[cal] {
					scan(cal, depth+1)
				}
			}
		}
		scan(e.fn, 0)
		if bad != "" {
			r.Bad("R01.5", "verb:"+e.name, p.FuncPos(e.fn), "%s must issue %s but %s", e.name, want, bad)
		} else if len(seen) == 0 {
			if isVerboseRoot(e.fn) && !strings.Contains(tags, "verbose") {
				r.OkTrivial("R01.5", "verb:"+e.name, p.FuncPos(e.fn), "empty in this configuration")
			} else {
				r.Bad("R01.5", "verb:"+e.name, p.FuncPos(e.fn), "%s passes no level constant on: cannot issue %s", e.name, want)
			}
		} else {
			r.Ok("R01.5", "verb:"+e.name, p.FuncPos(e.fn), "every level operand is %s (%d site(s))", want, len(seen))
		}
	}
}

// c01DebugMode: R01.7.
func c01DebugMode(c *Ctx, p *Prog) {
	r := c.R
	n := 0
	for _, fn := range p.RepoFuncs() {
		for _, cs := range callsIn(fn) {
			cal := calleeOf(cs)
			if cal == nil || nm(cal) != "SetDebugMode" || cal.Pkg == nil || !strings.HasPrefix(cal.Pkg.Pkg.Path(), "github.com/hedzr/is") {
				continue
			}
			n++
			key := "SetDebugMode@" + shortName(fn)
			if shortName(fn) != "Entry.SetLevel" {
				r.Bad("R01.7", key, p.Pos(instrPos(cs)), "process-wide debug mode is switched from %s; the only documented source is Entry.SetLevel(DebugLevel)", shortName(fn))
				continue
			}
			// dominated by lvl == DebugLevel
			okGuard := false
			for _, g := range guardsOf(cs.Block()) {
				cond, neg := normCond(g.If.Cond)
				if bo, ok := cond.(*ssa.BinOp); ok && bo.Op == token.EQL && !neg && g.Succ == 0 {
					if cv, ok := constInt(bo.Y); ok && strip(bo.X) == ssa.Value(fn.Params[1]) {
						lv, _ := p.ConstInt(p.Slog, "DebugLevel")
						if cv == lv {
							okGuard = true
						}
					}
				}
			}
			r.Check(okGuard, "R01.7", key, p.Pos(instrPos(cs)), "called only under lvl == DebugLevel", "SetDebugMode is not restricted to lvl == DebugLevel: setting another level switches debug mode (and so admits Debug everywhere)")
		}
	}
	if n == 0 {
		r.OkTrivial("R01.7", "SetDebugMode:none", "-", "the package never switches debug mode")
	}
	// the gate reads the CURRENT debug switch: the state holder asked for the debug mode is obtained at decision time
	// (states.Env() called in the gate), not a holder captured earlier in a package-level variable (the application can
	// install another holder, and SetLevel(Debug) switches the mode through the current one)
	if en := p.Method(p.Slog, "Level", "Enabled"); en != nil {
		nq := 0
		for g := range staticReach([]*ssa.Function{en}, func(f *ssa.Function) bool { return f.Pkg != p.Slog }) {
			for _, cs := range callsIn(g) {
				if !cs.Common().IsInvoke() || nm(cs.Common().Method) != "GetDebugMode" {
					continue
				}
				nq++
				recv := strip(cs.Common().Value)
				fresh := false
				if call, ok := recv.(*ssa.Call); ok {
					if cal := calleeOf(call); cal != nil && cal.Name() == "Env" && cal.Pkg != nil && strings.HasPrefix(cal.Pkg.Pkg.Path(), "github.com/hedzr/is") {
						fresh = true
					}
				}
				r.Check(fresh, "R01.7", "debug-switch:"+shortName(g), p.Pos(instrPos(cs)), "the debug mode is read from states.Env() at decision time",
					"the gate reads the debug mode from "+recv.String()+" instead of the current states.Env(): once another state holder is installed, debug mode switched on (also by SetLevel(Debug) on any logger) no longer admits Debug records")
			}
		}
		if nq == 0 {
			// the package-level accessor form is.DebugMode() reads the current holder by itself
			r.Ok("R01.7", "debug-switch", p.FuncPos(en), "the gate does not query a state holder object directly")
		}
	}
}

// c01DefaultKinds: the package-level verbs work on whatever logger is the default: New() returns a *logimp, the
// chained Set... methods return the embedded *Entry, and SetDefault accepts both. Every spine function that
// dispatches on the dynamic type of the default logger has an arm for each of the package's own logger types, and
// each arm reaches an emission.
func c01DefaultKinds(c *Ctx, p *Prog, m *Model, rule string) {
	r := c.R
	dg := p.Global(p.Slog, "defaultLog")
	if dg == nil {
		r.Unk(rule, "default-kinds", "-", "defaultLog not found")
		return
	}
	want := []string{"Entry", "logimp"}
	n := 0
	// the dispatching function: a spine function, or a private helper a spine function calls to obtain the logger
	cand := map[*ssa.Function]bool{}
	for fn := range m.Spine {
		cand[fn] = true
		for _, cs := range callsIn(fn) {
			if h := calleeOf(cs); h != nil && h.Pkg == p.Slog && h.Object() != nil && !h.Object().Exported() && h.Signature.Recv() == nil {
				cand[h] = true
			}
		}
	}
	var fns []*ssa.Function
	for fn := range cand {
		fns = append(fns, fn)
	}
	sort.Slice(fns, func(i, j int) bool { return shortName(fns[i]) < shortName(fns[j]) })
	for _, fn := range fns {
		arms := map[string]bool{}
		emits := map[string]bool{}
		for _, b := range fn.Blocks {
			for _, in := range b.Instrs {
				ta, ok := in.(*ssa.TypeAssert)
				if !ok {
					continue
				}
				if g, isG := globalLoad(strip(ta.X)); !isG || g != dg {
					continue
				}
				tn := typeName(ta.AssertedType)
				arms[tn] = true
				okEdge := func(blk *ssa.BasicBlock) bool {
					for _, g := range guardsOf(blk) {
						cond, neg := normCond(g.If.Cond)
						if ex, isEx := cond.(*ssa.Extract); isEx && ex.Tuple == ssa.Value(ta) && (g.Succ == 0) != neg {
							return true
						}
					}
					return false
				}
				// an emission site reachable from the ok edge of this assertion (dominated by it, or after the join of the arms) ...
				siteBlocks := map[*ssa.BasicBlock]bool{}
				for _, s := range m.Sites[fn] {
					siteBlocks[s.Block()] = true
				}
				for _, blk := range fn.Blocks {
					if !okEdge(blk) {
						continue
					}
					seen := map[*ssa.BasicBlock]bool{}
					stack := []*ssa.BasicBlock{blk}
					for len(stack) > 0 {
						x := stack[len(stack)-1]
						stack = stack[:len(stack)-1]
						if seen[x] {
							continue
						}
						seen[x] = true
						if siteBlocks[x] {
							emits[tn] = true
							break
						}
						stack = append(stack, x.Succs...)
					}
				}
				// ... or (helper form) a return under that edge that hands a logger back
				if !m.Spine[fn] {
					for _, blk := range fn.Blocks {
						ret, isRet := blk.Instrs[len(blk.Instrs)-1].(*ssa.Return)
						if !isRet || !okEdge(blk) || len(ret.Results) == 0 {
							continue
						}
						if !isNilConst(ret.Results[0]) {
							emits[tn] = true
						}
					}
				}
			}
		}
		if len(arms) == 0 {
			continue
		}
		n++
		var missing []string
		for _, w := range want {
			if !arms[w] || !emits[w] {
				missing = append(missing, "*"+w)
			}
		}
		r.Check(len(missing) == 0, rule, "default-kinds:"+shortName(fn), p.FuncPos(fn), "an emitting arm for *Entry and for *logimp",
			shortName(fn)+" has no emitting arm for a default logger of type "+strings.Join(missing, ", ")+": with such a default logger (e.g. SetDefault(slog.New(..).SetWriter(..)), which is a *Entry) the package-level verbs admit the call and then write nothing - and Panic/Fatal neither write nor terminate")
	}
	if n == 0 {
		r.Unk(rule, "default-kinds", "-", "no spine function dispatches on the type of the default logger")
	}
}
