package main

import (
	"fmt"
	"go/ast"
	"go/constant"
	"go/types"

	"golang.org/x/tools/go/callgraph"
	"golang.org/x/tools/go/packages"
	"golang.org/x/tools/go/ssa"
)

// Engine E7: table agreement. Package-level composite literals are evaluated as constants
// from the type-checked syntax.

type KV struct {
	K, V  constant.Value
	KExpr ast.Expr
	VExpr ast.Expr
}

func (p *Prog) syntaxPkg(sp *ssa.Package) *packages.Package {
	var found *packages.Package
	packages.Visit(p.Pkgs, nil, func(pk *packages.Package) {
		if pk.Types == sp.Pkg {
			found = pk
		}
	})
	return found
}

// varInit finds the initialiser expression of a package-level variable.
func (p *Prog) varInit(sp *ssa.Package, name string) (ast.Expr, *packages.Package, error) {
	pk := p.syntaxPkg(sp)
	if pk == nil {
		return nil, nil, fmt.Errorf("syntax of package %s not loaded", sp.Pkg.Path())
	}
	if sp.Pkg.Scope().Lookup(name) == nil {
		if o := p.canon["global|"+pkgShort(sp.Pkg)+"||"+name]; o != nil {
			name = o.Name() // renamed variable (anchors.go)
		} else if o := p.canon["const|"+pkgShort(sp.Pkg)+"||"+name]; o != nil {
			name = o.Name()
		}
	}
	for _, f := range pk.Syntax {
		for _, d := range f.Decls {
			gd, ok := d.(*ast.GenDecl)
			if !ok {
				continue
			}
			for _, s := range gd.Specs {
				vs, ok := s.(*ast.ValueSpec)
				if !ok {
					continue
				}
				for i, n := range vs.Names {
					if n.Name == name && pk.TypesInfo.Defs[n] != nil && pk.TypesInfo.Defs[n].Parent() == pk.Types.Scope() {
						if i < len(vs.Values) {
							return vs.Values[i], pk, nil
						}
						return nil, pk, fmt.Errorf("variable %s has no initialiser", name)
					}
				}
			}
		}
	}
	return nil, pk, fmt.Errorf("variable %s not found", name)
}

// mapLiteral evaluates a package-level map (or keyed slice/array) composite literal with constant keys and values.
func mapLiteral(p *Prog, sp *ssa.Package, name string) ([]KV, error) {
	e, pk, err := p.varInit(sp, name)
	if err != nil {
		return nil, err
	}
	cl, ok := e.(*ast.CompositeLit)
	if !ok {
		return nil, fmt.Errorf("initialiser of %s is not a composite literal", name)
	}
	return evalLit(pk, cl)
}

func evalLit(pk *packages.Package, cl *ast.CompositeLit) ([]KV, error) {
	var out []KV
	for _, el := range cl.Elts {
		kv, ok := el.(*ast.KeyValueExpr)
		if !ok {
			tv := pk.TypesInfo.Types[el]
			out = append(out, KV{nil, tv.Value, nil, el})
			continue
		}
		k := pk.TypesInfo.Types[kv.Key]
		v := pk.TypesInfo.Types[kv.Value]
		out = append(out, KV{k.Value, v.Value, kv.Key, kv.Value})
	}
	return out, nil
}

// cgReach returns the functions reachable from fn in call graph cg.
func cgReach(cg *callgraph.Graph, fn *ssa.Function) map[*ssa.Function]bool {
	seen := map[*ssa.Function]bool{}
	n := cg.Nodes[fn]
	if n == nil {
		return seen
	}
	var stack []*callgraph.Node
	stack = append(stack, n)
	seen[fn] = true
	for len(stack) > 0 {
		x := stack[len(stack)-1]
		stack = stack[:len(stack)-1]
		for _, e := range x.Out {
			if !seen[e.Callee.Func] {
				seen[e.Callee.Func] = true
				stack = append(stack, e.Callee)
			}
		}
	}
	return seen
}

var _ = types.Identical

// globalLeaves evaluates the composite literal that initialises a package-level array/struct variable into its scalar
// leaves: path ("3.f1.") -> constant. Only constant leaves are returned; ok=false if the initialiser is not a literal
// or the variable is stored to anywhere (then it is not a table).
func (p *Prog) globalLeaves(g *ssa.Global) (map[string]constant.Value, bool) {
	if g == nil || g.Pkg == nil {
		return nil, false
	}
	e, pk, err := p.varInit(g.Pkg, g.Name())
	if err != nil {
		return nil, false
	}
	cl, ok := e.(*ast.CompositeLit)
	if !ok {
		return nil, false
	}
	for _, fn := range p.RepoFuncs() {
		for _, gs := range globalStores(fn) {
			if gs.G == g && !p.startupOnly(fn) {
				return nil, false
			}
		}
	}
	out := map[string]constant.Value{}
	var walk func(cl *ast.CompositeLit, t types.Type, prefix string) bool
	walk = func(cl *ast.CompositeLit, t types.Type, prefix string) bool {
		switch u := t.Underlying().(type) {
		case *types.Array:
			next := int64(0)
			for _, el := range cl.Elts {
				idx := next
				val := el
				if kv, ok := el.(*ast.KeyValueExpr); ok {
					kvv := pk.TypesInfo.Types[kv.Key].Value
					if kvv == nil {
						return false
					}
					idx, _ = constant.Int64Val(constant.ToInt(kvv))
					val = kv.Value
				}
				next = idx + 1
				pfx := prefix + fmt.Sprintf("%d.", idx)
				if sub, ok := val.(*ast.CompositeLit); ok {
					if !walk(sub, u.Elem(), pfx) {
						return false
					}
				} else if cv := pk.TypesInfo.Types[val].Value; cv != nil {
					out[pfx] = cv
				}
			}
			return true
		case *types.Struct:
			for i, el := range cl.Elts {
				fi := i
				val := el
				if kv, ok := el.(*ast.KeyValueExpr); ok {
					id, isID := kv.Key.(*ast.Ident)
					if !isID {
						return false
					}
					fi = -1
					for k := 0; k < u.NumFields(); k++ {
						if u.Field(k).Name() == id.Name {
							fi = k
						}
					}
					val = kv.Value
				}
				if fi < 0 || fi >= u.NumFields() {
					return false
				}
				pfx := prefix + fmt.Sprintf("f%d.", fi)
				if sub, ok := val.(*ast.CompositeLit); ok {
					if !walk(sub, u.Field(fi).Type(), pfx) {
						return false
					}
				} else if cv := pk.TypesInfo.Types[val].Value; cv != nil {
					out[pfx] = cv
				}
			}
			return true
		}
		return false
	}
	t := g.Type()
	if pt, ok := t.Underlying().(*types.Pointer); ok {
		t = pt.Elem()
	}
	if !walk(cl, t, "") {
		return nil, false
	}
	return out, true
}
