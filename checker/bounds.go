package main

import (
	"fmt"
	"go/token"
	"go/types"
	"os"
	"sort"
	"strings"

	"golang.org/x/tools/go/ssa"
)

// Constant-position bounds on the logging path (R02.8). A free-form argument list, a message or a path string can have
// any length, so an index or a re-slice at a constant position is safe only if a test of the length dominates it.
// The rule computes, for the sequence indexed, the least length it is known to have at the site: from its
// definition (constant, make, constant re-slice) and from every branch edge that dominates the site and compares
// len(x) with a constant (all six relations, either operand order, either polarity; == excludes a point, the
// others move the bound), or establishes a constant prefix/suffix. Variable positions are not in the scope of
// this rule (they are covered by the loop-shape rules and, for the ported buffer and the duration parser, by E9).

func lenCallOf(v ssa.Value) (ssa.Value, bool) {
	c, ok := strip(v).(*ssa.Call)
	if !ok || !isBuiltinCall(c, "len") {
		return nil, false
	}
	return strip(c.Common().Args[0]), true
}

// lenLower: the least length x is known to have when control is in b.
func lenLower(x ssa.Value, b *ssa.BasicBlock, depth int) int64 {
	x = strip(x)
	lo := int64(0)
	switch d := x.(type) {
	case *ssa.Extract:
		// v, ok := table[k] on the edge where ok holds: the least length any writer of the table stores
		if lk, isLk := d.Tuple.(*ssa.Lookup); isLk && lk.CommaOk && d.Index == 0 && boundsProg != nil {
			if g, isG := globalLoad(lk.X); isG {
				found := false
				for _, gd := range guardsOf(b) {
					cond, neg := normCond(gd.If.Cond)
					if ex, isEx := cond.(*ssa.Extract); isEx && ex.Tuple == d.Tuple && ex.Index == 1 && (gd.Succ == 0) != neg {
						found = true
					}
				}
				if found {
					if n, ok := boundsProg.tableMinLen(g); ok {
						lo = n
					}
				}
			}
		}
	case *ssa.Const:
		if s, ok := constString(d); ok {
			return int64(len(s))
		}
	case *ssa.MakeSlice:
		if n, ok := constInt(d.Len); ok {
			lo = n
		}
	case *ssa.Parameter:
		// a parameter of an unexported function that is only ever called directly: what every call site establishes
		if fn := d.Parent(); boundsProg != nil && depth < 3 && fn.Object() != nil && !fn.Object().Exported() && !boundsProg.usedAsValue()[fn] {
			idx := -1
			for i, q := range fn.Params {
				if q == d {
					idx = i
				}
			}
			sites := boundsProg.staticCallers()[fn]
			if idx >= 0 && len(sites) > 0 {
				min := int64(-1)
				for _, cs := range sites {
					n := int64(0)
					if idx < len(cs.Common().Args) {
						n = lenLower(cs.Common().Args[idx], cs.Block(), depth+1)
					}
					if min < 0 || n < min {
						min = n
					}
				}
				if min > lo {
					lo = min
				}
			}
		}
	case *ssa.Slice:
		if depth < 4 {
			l, lok := int64(0), d.Low == nil
			if d.Low != nil {
				l, lok = constInt(d.Low)
			}
			if pt, isPtr := d.X.Type().Underlying().(*types.Pointer); isPtr && d.Low == nil && d.High == nil {
				if at, isArr := pt.Elem().Underlying().(*types.Array); isArr {
					lo = at.Len()
				}
			} else if lok {
				if d.High != nil {
					if h, ok := constInt(d.High); ok && h >= l {
						lo = h - l
					}
				} else if _, isPtr := d.X.Type().Underlying().(*types.Pointer); !isPtr {
					if base := lenLower(d.X, d.Block(), depth+1); base > l {
						lo = base - l
					}
				}
			}
		}
	case *ssa.Call:
		// the result of a function of the repository: the least length over its returns; a nil return counts only
		// where the site is not behind a "!= nil" test of the result
		if cal := calleeOf(d); cal != nil && boundsProg != nil && len(cal.Blocks) > 0 && depth < 3 && (cal.Pkg == boundsProg.Slog || cal.Pkg == boundsProg.Strs || cal.Pkg == boundsProg.Times) && cal.Signature.Results().Len() == 1 {
			nonNilHere := false
			for _, g := range guardsOf(b) {
				cond, neg := normCond(g.If.Cond)
				if bo, ok := cond.(*ssa.BinOp); ok && strip(bo.X) == x && isNilConst(bo.Y) {
					taken := (g.Succ == 0) != neg
					if (bo.Op == token.NEQ && taken) || (bo.Op == token.EQL && !taken) {
						nonNilHere = true
					}
				}
			}
			min, any := int64(-1), false
			for _, rb := range cal.Blocks {
				ret, ok := rb.Instrs[len(rb.Instrs)-1].(*ssa.Return)
				if !ok {
					continue
				}
				for _, src := range sources(ret.Results[0]) {
					if isNilConst(src) {
						if !nonNilHere {
							min, any = 0, true
						}
						continue
					}
					blk := rb
					if in, ok := src.(ssa.Instruction); ok && in.Block() != nil {
						blk = in.Block()
					}
					n := lenLower(src, blk, depth+1)
					if !any || n < min {
						min, any = n, true
					}
				}
			}
			if any && min > lo {
				lo = min
			}
		}
		if cal := calleeOf(d); cal != nil && cal.Pkg != nil && cal.Pkg.Pkg.Path() == "strings" {
			switch cal.Name() {
			case "Split", "SplitAfter":
				// a non-empty separator always yields at least one element
				if s, ok := constString(d.Common().Args[1]); ok && s != "" {
					lo = 1
				}
			}
		}
	}
	excluded := map[int64]bool{}
	for _, g := range guardsOf(b) {
		cond, neg := normCond(g.If.Cond)
		taken := (g.Succ == 0) != neg
		switch c := cond.(type) {
		case *ssa.BinOp:
			var k int64
			op := c.Op
			if y, ok := lenCallOf(c.X); ok && y == x {
				kk, ok := constInt(c.Y)
				if !ok {
					continue
				}
				k = kk
			} else if y, ok := lenCallOf(c.Y); ok && y == x {
				kk, ok := constInt(c.X)
				if !ok {
					continue
				}
				k = kk
				switch op { // k op len  ==>  len op' k
				case token.LSS:
					op = token.GTR
				case token.LEQ:
					op = token.GEQ
				case token.GTR:
					op = token.LSS
				case token.GEQ:
					op = token.LEQ
				}
			} else {
				// s != "" / s == ""
				if isStringT(c.X.Type()) && strip(c.X) == x {
					if s, ok := constString(c.Y); ok && s == "" {
						if (op == token.NEQ && taken) || (op == token.EQL && !taken) {
							if lo < 1 {
								lo = 1
							}
						}
					}
				}
				continue
			}
			if !taken {
				switch op {
				case token.LSS:
					op = token.GEQ
				case token.LEQ:
					op = token.GTR
				case token.GTR:
					op = token.LEQ
				case token.GEQ:
					op = token.LSS
				case token.EQL:
					op = token.NEQ
				case token.NEQ:
					op = token.EQL
				}
			}
			switch op {
			case token.GTR:
				if lo < k+1 {
					lo = k + 1
				}
			case token.GEQ, token.EQL:
				if lo < k {
					lo = k
				}
			case token.NEQ:
				excluded[k] = true
			}
		case *ssa.Call:
			if !taken {
				continue
			}
			if cal := calleeOf(c); cal != nil && cal.Pkg != nil && (cal.Pkg.Pkg.Path() == "strings" || cal.Pkg.Pkg.Path() == "bytes") &&
				(cal.Name() == "HasPrefix" || cal.Name() == "HasSuffix") && strip(c.Common().Args[0]) == x {
				if n := lenLower(c.Common().Args[1], g.Blk, depth+1); depth < 4 && lo < n {
					lo = n
				}
			}
		}
	}
	for excluded[lo] {
		lo++
	}
	return lo
}

// boundsProg gives lenLower access to the writers of package-level tables (set by constBounds).
var boundsProg *Prog

// tableMinLen: g is a package-level map whose values are slices; the result is the least length any value stored into
// it has, over the initial literal and every map update in the repository. ok=false if a writer cannot be bounded
// or the map is handed to code that could write it.
func (p *Prog) tableMinLen(g *ssa.Global) (int64, bool) {
	mt, ok := g.Type().(*types.Pointer).Elem().Underlying().(*types.Map)
	if !ok {
		return 0, false
	}
	if _, ok := mt.Elem().Underlying().(*types.Slice); !ok {
		return 0, false
	}
	min := int64(-1)
	note := func(v ssa.Value, b *ssa.BasicBlock) {
		n := lenLower(v, b, 1)
		if min < 0 || n < min {
			min = n
		}
	}
	okAll := true
	fns := append([]*ssa.Function{}, p.RepoFuncs()...)
	if g.Pkg != nil {
		if init := g.Pkg.Func("init"); init != nil {
			fns = append(fns, init)
		}
	}
	seenFn := map[*ssa.Function]bool{}
	for _, fn := range fns {
		if seenFn[fn] {
			continue
		}
		seenFn[fn] = true
		for _, b := range fn.Blocks {
			for _, in := range b.Instrs {
				switch x := in.(type) {
				case *ssa.MapUpdate:
					if gg, ok := globalLoad(x.Map); ok && gg == g {
						note(x.Value, b)
					}
				case *ssa.Store:
					if x.Addr != ssa.Value(g) {
						continue
					}
					mk, isMk := strip(x.Val).(*ssa.MakeMap)
					if !isMk {
						okAll = false
						continue
					}
					for _, ref := range *mk.Referrers() {
						switch u := ref.(type) {
						case *ssa.MapUpdate:
							note(u.Value, u.Block())
						case *ssa.Store, *ssa.DebugRef, *ssa.ChangeType:
						default:
							okAll = false
						}
					}
				case ssa.CallInstruction:
					if _, isB := x.Common().Value.(*ssa.Builtin); isB {
						continue
					}
					for _, a := range x.Common().Args {
						if gg, ok := globalLoad(a); ok && gg == g {
							okAll = false
						}
					}
				}
			}
		}
	}
	if min < 0 || !okAll {
		return 0, false
	}
	return min, true
}

type boundSite struct {
	in   ssa.Instruction
	x    ssa.Value
	need int64
	what string
}

func constBoundSites(fn *ssa.Function) []boundSite {
	var out []boundSite
	seqT := func(t types.Type) bool {
		switch u := t.Underlying().(type) {
		case *types.Slice:
			return true
		case *types.Basic:
			return u.Info()&types.IsString != 0
		}
		return false
	}
	for _, b := range fn.Blocks {
		for _, in := range b.Instrs {
			switch x := in.(type) {
			case *ssa.IndexAddr:
				if !seqT(x.X.Type()) {
					continue
				}
				if k, ok := constInt(x.Index); ok {
					out = append(out, boundSite{in, x.X, k + 1, fmt.Sprintf("[%d]", k)})
				}
			case *ssa.Index:
				if !isStringT(x.X.Type()) {
					continue
				}
				if k, ok := constInt(x.Index); ok {
					out = append(out, boundSite{in, x.X, k + 1, fmt.Sprintf("[%d]", k)})
				}
			case *ssa.Slice:
				if !seqT(x.X.Type()) {
					continue
				}
				need, what := int64(0), ""
				if x.Low != nil {
					if k, ok := constInt(x.Low); ok && k > need {
						need, what = k, fmt.Sprintf("[%d:]", k)
					}
				}
				if x.High != nil && isStringT(x.X.Type()) {
					if k, ok := constInt(x.High); ok && k > need {
						need, what = k, fmt.Sprintf("[:%d]", k)
					}
				}
				if need > 0 {
					out = append(out, boundSite{in, x.X, need, what})
				}
			}
		}
	}
	return out
}

// constBounds: R02.8 over the print tree.
func constBounds(c *Ctx, p *Prog, m *Model) {
	r := c.R
	boundsProg = p
	defer func() { boundsProg = nil }()
	tree := printTree(p, m)
	for _, fn := range failureRegion(p, m) {
		tree[fn] = true // the sink, the fan-out and their helpers are on every call's path too
	}
	var fns []*ssa.Function
	for fn := range tree {
		fns = append(fns, fn)
	}
	sort.Slice(fns, func(i, j int) bool { return shortName(fns[i]) < shortName(fns[j]) })
	for _, fn := range fns {
		// fixed-size tables indexed by a computed position whose range the code tests (or its type gives)
		for _, s := range arrayBoundSites(fn) {
			var idx ssa.Value
			switch i := s.in.(type) {
			case *ssa.IndexAddr:
				idx = i.Index
			case *ssa.Index:
				idx = i.Index
			}
			up, why, have := idxUpper(idx, s.in.Block())
			if !have {
				if os.Getenv("LOGGCHECK_DEBUG") != "" {
					fmt.Fprintf(os.Stderr, "ARRAY-NOBOUND %s %s %s\n", shortName(fn), m.valDesc(s.x), p.Pos(instrPos(s.in)))
				}
				key := fmt.Sprintf("bounds:%s[table %s]", shortName(fn), m.valDesc(s.x))
				r.Bad("R02.8", key, p.Pos(instrPos(s.in)), "the table has %d entries and nothing on the way bounds the position it is indexed at (no comparison with a constant, mask or narrow type): a larger position makes the logging call panic with an index out of range", s.need)
				continue
			}
			key := fmt.Sprintf("bounds:%s[table %s]", shortName(fn), m.valDesc(s.x))
			if up < s.need && !idxNonNeg(idx, s.in.Block(), 0) {
				r.Bad("R02.8", key, p.Pos(instrPos(s.in)), "the position is bounded above (%s) but nothing shows that it is not negative (a signed value, no test against 0): a negative position makes the call panic with an index out of range", why)
				continue
			}
			r.Check(up < s.need, "R02.8", key, p.Pos(instrPos(s.in)), fmt.Sprintf("the position is at most %d (%s), the table has %d entries", up, why, s.need),
				fmt.Sprintf("the table has %d entries but the position can be %d (%s): that value makes the logging call panic with an index out of range", s.need, up, why))
		}
		// a fixed-size scratch array re-sliced up to a computed position
		for _, b := range fn.Blocks {
			for _, in := range b.Instrs {
				sl, ok := in.(*ssa.Slice)
				if !ok || sl.High == nil {
					continue
				}
				pt, isP := sl.X.Type().Underlying().(*types.Pointer)
				if !isP {
					continue
				}
				at, isA := pt.Elem().Underlying().(*types.Array)
				if !isA {
					continue
				}
				if _, isC := constInt(sl.High); isC {
					continue
				}
				up, why, have := idxUpper(sl.High, b)
				key := fmt.Sprintf("bounds:%s[scratch %s]", shortName(fn), m.valDesc(sl.X))
				if !have {
					continue // decided elsewhere (the buffer clones, R20.1's interval analysis)
				}
				r.Check(up <= at.Len(), "R02.8", key, p.Pos(instrPos(sl)), fmt.Sprintf("re-sliced up to at most %d (%s) of %d", up, why, at.Len()),
					fmt.Sprintf("the scratch array has %d bytes but is re-sliced up to %d (%s): for an input of exactly that size the call panics with slice bounds out of range", at.Len(), up, why))
			}
		}
		sites := constBoundSites(fn)
		if len(sites) == 0 {
			continue
		}
		var bad, good []string
		for _, s := range sites {
			lo := lenLower(s.x, s.in.Block(), 0)
			d := fmt.Sprintf("%s%s needs len >= %d, known >= %d (%s)", m.valDesc(s.x), s.what, s.need, lo, p.Pos(instrPos(s.in)))
			if lo >= s.need {
				good = append(good, d)
			} else {
				bad = append(bad, d)
			}
		}
		key := "bounds:" + shortName(fn)
		if len(bad) > 0 {
			r.Bad("R02.8", key, p.FuncPos(fn), "a constant position is not covered by the length tests that dominate it, so some argument list or string makes the logging call panic: %s", strings.Join(bad, "; "))
		} else {
			r.Ok("R02.8", key, p.FuncPos(fn), "%d constant position(s), each within the length established on every path to it: %s", len(good), strings.Join(good, "; "))
		}
	}
}

// idxUpper: an upper bound of a non-constant array index from its type, its arithmetic and the comparisons with
// constants that dominate the use (on the value itself or on the narrower value it was converted from).
func idxUpper(idx ssa.Value, b *ssa.BasicBlock) (int64, string, bool) {
	cands := []ssa.Value{idx}
	for v := idx; ; {
		cv, ok := v.(*ssa.Convert)
		if !ok {
			break
		}
		v = cv.X
		cands = append(cands, v)
	}
	best, why, have := int64(0), "", false
	take := func(k int64, w string) {
		if !have || k < best {
			best, why, have = k, w, true
		}
	}
	for _, cnd := range cands {
		if bt, ok := cnd.Type().Underlying().(*types.Basic); ok {
			switch bt.Kind() {
			case types.Uint8:
				take(255, "byte range")
			case types.Uint16:
				take(65535, "uint16 range")
			}
		}
		if ph, ok := cnd.(*ssa.Phi); ok {
			// a loop variable that starts at a constant and only counts down
			c0, haveC, down := int64(0), false, true
			for _, e := range ph.Edges {
				if k, isC := constInt(e); isC {
					if !haveC || k > c0 {
						c0 = k
					}
					haveC = true
					continue
				}
				if bo, isB := e.(*ssa.BinOp); isB && bo.Op == token.SUB && bo.X == ssa.Value(ph) {
					if k, isC := constInt(bo.Y); isC && k >= 0 {
						continue
					}
				}
				down = false
			}
			if haveC && down {
				take(c0, fmt.Sprintf("counts down from %d", c0))
			}
		}
		if bo, ok := cnd.(*ssa.BinOp); ok {
			if k, isC := constInt(bo.Y); isC {
				switch bo.Op {
				case token.AND:
					take(k, fmt.Sprintf("& %d", k))
				case token.REM:
					if k > 0 {
						take(k-1, fmt.Sprintf("%% %d", k))
					}
				case token.ADD:
					if bo.X != idx || len(cands) == 1 {
						if up, w, ok := idxUpper(bo.X, b); ok {
							take(up+k, fmt.Sprintf("%s, + %d", w, k))
						}
					}
				case token.SHR:
					if bt, ok := bo.X.Type().Underlying().(*types.Basic); ok && k >= 0 && k < 63 {
						switch bt.Kind() {
						case types.Uint8:
							take(255>>uint(k), fmt.Sprintf("byte >> %d", k))
						case types.Uint16:
							take(65535>>uint(k), fmt.Sprintf("uint16 >> %d", k))
						}
					}
				}
			}
		}
	}
	return upperFromGuards(cands, guardsOf(b), best, why, have)
}

// upperFromGuards refines an upper bound of the candidate values by the comparisons with constants in gs.
func upperFromGuards(cands []ssa.Value, gs []guard, best int64, why string, have bool) (int64, string, bool) {
	var fs []condFact
	for _, g := range gs {
		cond, neg := normCond(g.If.Cond)
		fs = append(fs, condFact{cond, (g.Succ == 0) != neg})
	}
	return upperFromFacts(cands, fs, best, why, have)
}

// condFact: a (normalised) condition value known to be true / false.
type condFact struct {
	cond  ssa.Value
	taken bool
}

func upperFromFacts(cands []ssa.Value, fs []condFact, best int64, why string, have bool) (int64, string, bool) {
	take := func(k int64, w string) {
		if !have || k < best {
			best, why, have = k, w, true
		}
	}
	for _, f := range fs {
		bo, ok := f.cond.(*ssa.BinOp)
		if !ok {
			continue
		}
		taken := f.taken
		for _, cnd := range cands {
			op := bo.Op
			var k int64
			var isC bool
			switch {
			case bo.X == cnd:
				k, isC = constInt(bo.Y)
			case bo.Y == cnd:
				k, isC = constInt(bo.X)
				// k op' idx: mirror
				switch op {
				case token.LSS:
					op = token.GTR
				case token.LEQ:
					op = token.GEQ
				case token.GTR:
					op = token.LSS
				case token.GEQ:
					op = token.LEQ
				}
			default:
				continue
			}
			if !isC {
				continue
			}
			if !taken {
				switch op {
				case token.LSS:
					op = token.GEQ
				case token.LEQ:
					op = token.GTR
				case token.GTR:
					op = token.LEQ
				case token.GEQ:
					op = token.LSS
				case token.EQL:
					op = token.NEQ
				case token.NEQ:
					op = token.EQL
				}
			}
			switch op {
			case token.LSS:
				take(k-1, fmt.Sprintf("tested < %d", k))
			case token.LEQ:
				take(k, fmt.Sprintf("tested <= %d", k))
			case token.EQL:
				take(k, fmt.Sprintf("tested == %d", k))
			}
		}
	}
	return best, why, have
}

// arrayBoundSites: indexing a fixed-size array (or a pointer to one) at a computed position.
func arrayBoundSites(fn *ssa.Function) []boundSite {
	var out []boundSite
	arrLen := func(t types.Type) (int64, bool) {
		if pt, ok := t.Underlying().(*types.Pointer); ok {
			t = pt.Elem()
		}
		if a, ok := t.Underlying().(*types.Array); ok {
			return a.Len(), true
		}
		return 0, false
	}
	for _, b := range fn.Blocks {
		for _, in := range b.Instrs {
			var x, idx ssa.Value
			switch i := in.(type) {
			case *ssa.IndexAddr:
				x, idx = i.X, i.Index
			case *ssa.Index:
				x, idx = i.X, i.Index
			default:
				continue
			}
			n, ok := arrLen(x.Type())
			if !ok {
				continue
			}
			if _, isC := constInt(idx); isC {
				continue // the compiler rejects a constant out of range
			}
			out = append(out, boundSite{in, x, n, ""})
		}
	}
	return out
}

// factsOfEdge: what is known when control goes from pr to b: the guards dominating pr plus the alternatives of
// the edge's own condition (a short-circuit a || b is a boolean phi: one alternative per way of making it true).
func factsOfEdge(pr, b *ssa.BasicBlock) [][]condFact {
	var base []condFact
	for _, g := range guardsOf(pr) {
		cond, neg := normCond(g.If.Cond)
		base = append(base, condFact{cond, (g.Succ == 0) != neg})
	}
	iff := ifOf(pr)
	if iff == nil {
		return [][]condFact{base}
	}
	pol := true
	if len(pr.Succs) == 2 && pr.Succs[1] == b && pr.Succs[0] != b {
		pol = false
	}
	var expand func(cond ssa.Value, pol bool, depth int) [][]condFact
	expand = func(cond ssa.Value, pol bool, depth int) [][]condFact {
		c, neg := normCond(cond)
		if neg {
			pol = !pol
		}
		ph, isPhi := c.(*ssa.Phi)
		if !isPhi || depth > 3 {
			return [][]condFact{{condFact{c, pol}}}
		}
		var out [][]condFact
		for i, e := range ph.Edges {
			pi := ph.Block().Preds[i]
			var edge []condFact
			for _, g := range guardsOf(pi) {
				cd, ng := normCond(g.If.Cond)
				edge = append(edge, condFact{cd, (g.Succ == 0) != ng})
			}
			if pif := ifOf(pi); pif != nil {
				cd, ng := normCond(pif.Cond)
				t := pi.Succs[0] == ph.Block()
				if _, isP2 := cd.(*ssa.Phi); !isP2 {
					edge = append(edge, condFact{cd, t != ng})
				}
			}
			if k, isC := constBool(e); isC {
				if k == pol {
					out = append(out, edge)
				}
				continue
			}
			for _, alt := range expand(e, pol, depth+1) {
				out = append(out, append(append([]condFact(nil), edge...), alt...))
			}
		}
		return out
	}
	var res [][]condFact
	for _, alt := range expand(iff.Cond, pol, 0) {
		res = append(res, append(append([]condFact(nil), base...), alt...))
	}
	return res
}

// upperOnEntry: an upper bound of v that holds whenever block b is entered, taken over every incoming edge and every
// alternative of a short-circuit condition. ok is false when some way in gives no bound.
func upperOnEntry(v ssa.Value, b *ssa.BasicBlock) (int64, bool) {
	worst, have := int64(0), false
	for _, pr := range b.Preds {
		for _, fs := range factsOfEdge(pr, b) {
			up, _, ok := upperFromFacts([]ssa.Value{v}, fs, 0, "", false)
			if !ok {
				return 0, false
			}
			if !have || up > worst {
				worst, have = up, true
			}
		}
	}
	return worst, have
}

// idxNonNeg: the index cannot be negative: an unsigned (or converted-from-unsigned) value, a length, a masked or
// reduced value of a non-negative operand, a counted-loop variable starting at a non-negative constant, or a value
// tested >= 0 (> -1) on the way.
func idxNonNeg(idx ssa.Value, b *ssa.BasicBlock, depth int) bool {
	if depth > 6 {
		return false
	}
	if k, ok := constInt(idx); ok {
		return k >= 0
	}
	if bt, ok := idx.Type().Underlying().(*types.Basic); ok && bt.Info()&types.IsUnsigned != 0 {
		return true
	}
	for _, g := range guardsOf(b) {
		cond, neg := normCond(g.If.Cond)
		bo, ok := cond.(*ssa.BinOp)
		if !ok {
			continue
		}
		taken := (g.Succ == 0) != neg
		if bo.X == idx {
			if k, isC := constInt(bo.Y); isC {
				switch {
				case bo.Op == token.GEQ && taken && k >= 0, bo.Op == token.GTR && taken && k >= -1,
					bo.Op == token.LSS && !taken && k >= 0, bo.Op == token.LEQ && !taken && k >= -1,
					bo.Op == token.EQL && taken && k >= 0:
					return true
				}
			}
		}
	}
	switch x := idx.(type) {
	case *ssa.Convert:
		return idxNonNeg(x.X, b, depth+1)
	case *ssa.ChangeType:
		return idxNonNeg(x.X, b, depth+1)
	case *ssa.Call:
		if isBuiltinCall(x, "len") || isBuiltinCall(x, "cap") {
			return true
		}
	case *ssa.BinOp:
		switch x.Op {
		case token.AND:
			if k, ok := constInt(x.Y); ok && k >= 0 {
				return true
			}
			return idxNonNeg(x.X, b, depth+1) || idxNonNeg(x.Y, b, depth+1)
		case token.REM, token.QUO, token.SHR:
			return idxNonNeg(x.X, b, depth+1) && (x.Op == token.SHR || idxNonNeg(x.Y, b, depth+1))
		case token.ADD, token.MUL:
			// the range form: idx = phi + 1 with phi starting at -1 and continuing with idx itself
			if k, ok := constInt(x.Y); ok && k >= 1 && x.Op == token.ADD {
				if ph, isPhi := x.X.(*ssa.Phi); isPhi {
					okAll := true
					for _, e := range ph.Edges {
						if c0, isC := constInt(e); isC && c0 >= -k {
							continue
						}
						if e == ssa.Value(x) {
							continue
						}
						okAll = false
					}
					if okAll {
						return true
					}
				}
			}
			return idxNonNeg(x.X, b, depth+1) && idxNonNeg(x.Y, b, depth+1)
		case token.SUB:
			// a - k under a test a >= k
			if k, ok := constInt(x.Y); ok {
				for _, g := range guardsOf(b) {
					cond, neg := normCond(g.If.Cond)
					if bo, ok := cond.(*ssa.BinOp); ok && bo.X == x.X {
						taken := (g.Succ == 0) != neg
						if k2, isC := constInt(bo.Y); isC && ((bo.Op == token.GEQ && taken && k2 >= k) || (bo.Op == token.GTR && taken && k2 >= k-1) || (bo.Op == token.LSS && !taken && k2 >= k)) {
							return true
						}
					}
				}
			}
		}
	case *ssa.Phi:
		// a counted loop variable: every edge is a non-negative constant or the variable plus a non-negative constant
		for _, e := range x.Edges {
			if k, ok := constInt(e); ok {
				if k < 0 {
					return false
				}
				continue
			}
			if bo, ok := e.(*ssa.BinOp); ok && bo.Op == token.ADD && bo.X == ssa.Value(x) {
				if k, ok := constInt(bo.Y); ok && k >= 0 {
					continue
				}
			}
			if bo, ok := e.(*ssa.BinOp); ok && bo.Op == token.SUB && bo.X == ssa.Value(x) {
				// counting down: needs a test on the way, handled by the guards above
				return false
			}
			return false
		}
		return true
	}
	return false
}
