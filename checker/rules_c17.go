package main

import (
	"fmt"
	"go/ast"
	"go/constant"
	"go/token"
	"go/types"
	"sort"
	"strings"

	"golang.org/x/tools/go/ssa"
)

func init() { register("C17", checkC17) }

var registryVars = []string{"allLevels", "levelToString", "stringToLevel", "shortTagMap", "mLevelColors", "mLevelIsEnabledAs", "mLevelUseErrorDevice"}

func checkC17(c *Ctx) {
	r := c.R
	r.Rule("R17.1", "name round trip: for every built-in level, the name in the print table is a key of the parse table (after the parser's normalisation) mapping back to the same level; every read and every store of the parse table applies the same key normalisation")
	r.Rule("R17.2", "marshal/unmarshal are inverse in shape: MarshalText emits the table name and UnmarshalText parses it; if MarshalJSON applies a quoting transform, UnmarshalJSON applies the inverse before delegating")
	r.Rule("R17.3", "refusal is side-effect free: on no path of RegisterLevel (helpers it calls included) does a store to a registry table precede a return of a non-nil error; both refusal tests (value in use, title in use) come before the first store")
	r.Rule("R17.4", "success registers everything under the new level's value: the level list, name table, parse table (normalised title), the non-empty short tags, the treated-as table under treatAs < MaxLevel, the error-device table under the request flag, all keyed by the levelValue parameter")
	r.Rule("R17.5", "variadic-bool options default to on: in every function of the package with a ...bool parameter the picked value is true when no argument is given")
	r.Rule("R17.6", "tag widths: every literal in shortTagMap[n] is n bytes long for n in 1..5; ShortTag's fallback returns a string of exactly `length` bytes on every path (the name itself when it has that length, a slice [:length] of the name padded with at least length spaces, or length filler characters)")
	r.Rule("R09.2", "(shared with C09) after a successful registration the level uses the given tags at once: nothing on the print path keeps a tag, name or colour computed for a level in package-level state (a cache filled before the registration would go on answering)")
	r.Rule("R01.3", "(shared with C01) the admission rule consults the treated-as table for every severity value: decision function of Level.Enabled equals the property's rule")
	r.Rule("R03.1", "(shared with C03) the routing consults the error-device table for every severity value: decision function of dualWriter.Get equals the documented routing; table reader and writers agree")
	r.Rule("R03.2", "(shared with C03) fallback to the package default writers")
	r.Assume("strings.ToLower is the normalisation for level names; titles that collide only after Unicode case folding beyond ToLower are outside the rule")
	for _, tags := range c.Configs([]string{""}, []string{"", "verbose"}) {
		p := c.Prog(tags)
		if p == nil {
			continue
		}
		m, err := BuildModel(p)
		if err != nil {
			r.Unk("R17.1", "model", "-", "%v", err)
			continue
		}
		c17Tables(c, p, m)
		c17Marshal(c, p, m)
		c17Register(c, p, m)
		c17NoParseMemo(c, p, m)
		recordLevelWrittenOnce(c, p, m, "R17.4")
		c17Variadic(c, p, m)
		c17Tags(c, p, m)
		regOptsIndependent(c, p)
		regOptsAsGiven(c, p, "R17.5")
		c09Globals(c, p, m)
		tagStoresFromRegistration(c, p)
		// "is gated as the level it is treated as and is routed to the error device if so requested":
		// the readers of the registry must consult it for EVERY level value (shared obligations)
		c01Decision(c, p, m)
		c03Routing(c, p, m)
	}
	c.Floor["R17.1"] = 12
	c.Floor["R17.4"] = 6
	c.Floor["R17.6"] = 5
}

func isToLower(v ssa.Value) (ssa.Value, bool) {
	call, ok := strip(v).(*ssa.Call)
	if !ok {
		return nil, false
	}
	if cal := calleeOf(call); cal != nil && cal.String() == "strings.ToLower" {
		return call.Common().Args[0], true
	}
	return nil, false
}

func c17Tables(c *Ctx, p *Prog, m *Model) {
	lowerProg = p
	defer func() { lowerProg = nil }()
	r := c.R
	l2s, err1 := mapLiteral(p, p.Slog, "levelToString")
	s2l, err2 := mapLiteral(p, p.Slog, "stringToLevel")
	if err1 != nil || err2 != nil {
		r.Unk("R17.1", "tables", "-", "levelToString/stringToLevel literals not found: %v %v", err1, err2)
		return
	}
	// normalisation used by readers of stringToLevel
	g := p.Global(p.Slog, "stringToLevel")
	type acc struct {
		fn   *ssa.Function
		pos  token.Pos
		norm bool
		kind string
	}
	var accs []acc
	for _, fn := range p.RepoFuncs() {
		for _, b := range fn.Blocks {
			for _, in := range b.Instrs {
				switch x := in.(type) {
				case *ssa.Lookup:
					if gg, ok := globalLoad(x.X); ok && gg == g {
						n := lowerCased(x.Index, 0)
						accs = append(accs, acc{fn, instrPos(x), n, "read"})
					}
				case *ssa.MapUpdate:
					if gg, ok := globalLoad(x.Map); ok && gg == g {
						n := lowerCased(x.Key, 0)
						accs = append(accs, acc{fn, instrPos(x), n, "store"})
					}
				}
			}
		}
	}
	anyNorm := false
	for _, a := range accs {
		if a.norm {
			anyNorm = true
		}
	}
	for i, a := range accs {
		key := fmt.Sprintf("parse-table-%s:%s#%d", a.kind, shortName(a.fn), i)
		r.Check(a.norm == anyNorm, "R17.1", key, p.Pos(a.pos), "uses the same key normalisation as every other access", "this "+a.kind+" of the parse table uses the title as given while other accesses lower-case it: a name stored here cannot be found by the parser (or a collision is missed)")
	}
	if len(accs) < 3 {
		r.Unk("R17.1", "parse-table-accesses", "-", "only %d accesses of stringToLevel found", len(accs))
	}
	norm := func(s string) string {
		if anyNorm {
			return strings.ToLower(s)
		}
		return s
	}
	back := map[string]constant.Value{}
	for _, kv := range s2l {
		back[constant.StringVal(kv.K)] = kv.V
	}
	for _, kv := range l2s {
		name := constant.StringVal(kv.V)
		lv := m.constName(kv.K)
		v, ok := back[norm(name)]
		key := "roundtrip:" + lv
		switch {
		case !ok:
			r.Bad("R17.1", key, p.Pos(kv.VExpr.Pos()), "the printed name %q of %s is not a key of the parse table", name, lv)
		case !constant.Compare(v, token.EQL, kv.K):
			r.Bad("R17.1", key, p.Pos(kv.VExpr.Pos()), "the printed name %q of %s parses back to %s", name, lv, m.constName(v))
		default:
			r.Ok("R17.1", key, p.Pos(kv.VExpr.Pos()), "%q parses back to %s", name, lv)
		}
	}
	// keys of the parse table are already normalised
	for _, kv := range s2l {
		k := constant.StringVal(kv.K)
		if norm(k) != k {
			r.Bad("R17.1", "parse-key:"+k, p.Pos(kv.KExpr.Pos()), "the parse table key %q is not in the normalised form the parser looks up", k)
		}
	}
	// every built-in level has a name
	have := map[string]bool{}
	for _, kv := range l2s {
		have[m.constName(kv.K)] = true
	}
	if all, err := sliceLiteralNames(p, m, "allLevels"); err == nil {
		for _, n := range all {
			r.Check(have[n], "R17.1", "named:"+n, "-", "has a printed name", n+" is listed in allLevels but has no entry in the name table: it prints as L#n and cannot be marshalled")
		}
	}
	// String() and MarshalText() read levelToString[level]
	for _, mn := range []string{"String", "MarshalText"} {
		fn := p.Method(p.Slog, "Level", mn)
		if fn == nil {
			r.Unk("R17.2", "Level."+mn, "-", "not found")
			continue
		}
		ok := false
		for _, b := range fn.Blocks {
			for _, in := range b.Instrs {
				if lk, isL := in.(*ssa.Lookup); isL {
					if gg, isG := globalLoad(lk.X); isG && nm(gg) == "levelToString" && strip(lk.Index) == ssa.Value(fn.Params[0]) {
						ok = true
					}
				}
			}
		}
		r.Check(ok, "R17.2", "Level."+mn, p.FuncPos(fn), "takes the name from levelToString[level]", "Level."+mn+" does not take the name from the print table entry of the receiver")
	}
	// ParseLevel returns the table value; UnmarshalText uses ParseLevel and stores the result
	if pl := p.Func(p.Slog, "ParseLevel"); pl != nil {
		ok := false
		rets, _ := exitBlocks(pl)
		for _, b := range rets {
			ret := b.Instrs[len(b.Instrs)-1].(*ssa.Return)
			if ex, isE := ret.Results[0].(*ssa.Extract); isE {
				if lk, isL := ex.Tuple.(*ssa.Lookup); isL {
					if gg, isG := globalLoad(lk.X); isG && gg == g && isNilConst(ret.Results[1]) {
						if src, isN := isToLower(lk.Index); (isN && src == ssa.Value(pl.Params[0])) || (!anyNorm && lk.Index == ssa.Value(pl.Params[0])) {
							ok = true
						}
					}
				}
			}
		}
		r.Check(ok, "R17.2", "ParseLevel", p.FuncPos(pl), "returns the parse table entry of the (normalised) argument", "ParseLevel does not return the parse-table entry of its argument")
		// the name table has precedence: any other successful result is produced only after the table missed
		var early, earlyFail []string
		for _, b := range rets {
			ret := b.Instrs[len(b.Instrs)-1].(*ssa.Return)
			if len(ret.Results) != 2 {
				continue
			}
			fails := !isNilConst(ret.Results[1])
			if ex, isE := ret.Results[0].(*ssa.Extract); isE {
				if lk, isL := ex.Tuple.(*ssa.Lookup); isL {
					if gg, isG := globalLoad(lk.X); isG && gg == g {
						continue
					}
				}
			}
			missed := false
			for _, gd := range guardsOf(b) {
				cond, neg := normCond(gd.If.Cond)
				if ex, isE := cond.(*ssa.Extract); isE && ex.Index == 1 {
					if lk, isL := ex.Tuple.(*ssa.Lookup); isL {
						if gg, isG := globalLoad(lk.X); isG && gg == g && (gd.Succ == 0) == neg {
							missed = true
						}
					}
				}
			}
			if !missed && fails {
				earlyFail = append(earlyFail, p.Pos(instrPos(ret)))
			} else if !missed {
				early = append(early, p.Pos(instrPos(ret)))
			}
		}
		r.Check(len(earlyFail) == 0, "R17.2", "ParseLevel:fails-only-on-miss", p.FuncPos(pl), "ParseLevel fails only after the name table missed", "ParseLevel can fail without consulting the name table (return at "+strings.Join(earlyFail, ", ")+"): a registered title rejected by that test does not parse although the level prints under it")
		r.Check(len(early) == 0, "R17.2", "ParseLevel:table-first", p.FuncPos(pl), "every other successful result is produced only after the name table missed", "ParseLevel can succeed without consulting the name table first (return at "+strings.Join(early, ", ")+"): a registered title of that form parses to another level, so the level does not answer to its title and its printed name does not parse back")
	}
	if ut := p.Method(p.Slog, "Level", "UnmarshalText"); ut != nil {
		ok := false
		for _, cs := range callsIn(ut) {
			if cal := calleeOf(cs); cal != nil && nm(cal) == "ParseLevel" && dependsOnParam(cs.Common().Args[0], ut.Params[1]) {
				// the text is parsed as it is: a normalisation applied here but not where titles are registered and
				// printed (trimming, folding) makes a level whose title it changes unreadable from its own marshalled form
				for v := strip(cs.Common().Args[0]); ; {
					if cv, isCv := v.(*ssa.Convert); isCv {
						v = strip(cv.X)
						continue
					}
					if call, isCall := v.(*ssa.Call); isCall {
						if c2 := calleeOf(call); c2 != nil && len(call.Common().Args) >= 1 {
							if n2 := c2.Name(); n2 != "ToLower" {
								r.Bad("R17.2", "Level.UnmarshalText:as-is", p.Pos(instrPos(call)), "the text is passed through %s before it is parsed, a normalisation that registration and MarshalText do not apply: a registered title it changes (padding, case) no longer unmarshals to its level", c2.String())
							}
							v = strip(call.Common().Args[0])
							continue
						}
					}
					break
				}
				for _, b := range ut.Blocks {
					for _, in := range b.Instrs {
						if st, isS := in.(*ssa.Store); isS && st.Addr == ssa.Value(ut.Params[0]) && dependsOn(st.Val, cs.Value()) {
							ok = true
						}
					}
				}
			}
		}
		r.Check(ok, "R17.2", "Level.UnmarshalText", p.FuncPos(ut), "parses the text and stores the level", "UnmarshalText does not store ParseLevel(text) into the receiver")
		// success means "parsed and stored": every return of a nil error is dominated by the store of the parsed level
		var storeBlk *ssa.BasicBlock
		for _, b := range ut.Blocks {
			for _, in := range b.Instrs {
				if st, isS := in.(*ssa.Store); isS && st.Addr == ssa.Value(ut.Params[0]) {
					storeBlk = b
				}
			}
		}
		if rets, _ := exitBlocks(ut); storeBlk != nil {
			var early []string
			for _, rb := range rets {
				ret := rb.Instrs[len(rb.Instrs)-1].(*ssa.Return)
				if len(ret.Results) != 1 {
					continue
				}
				if k, isC := ret.Results[0].(*ssa.Const); isC && k.IsNil() && !storeBlk.Dominates(rb) {
					early = append(early, p.Pos(instrPos(ret)))
				}
			}
			r.Check(len(early) == 0, "R17.2", "Level.UnmarshalText:success-stores", p.FuncPos(ut), "every nil-error return follows the store of the parsed level", "UnmarshalText reports success without having parsed and stored anything (return at "+strings.Join(early, ", ")+"): for such a text the receiver keeps whatever level it held, so a registered title of that form does not unmarshal to its level")
		}
	}
}

func sliceLiteralNames(p *Prog, m *Model, name string) ([]string, error) {
	e, pk, err := p.varInit(p.Slog, name)
	if err != nil {
		return nil, err
	}
	cl, ok := e.(*ast.CompositeLit)
	if !ok {
		return nil, fmt.Errorf("not a literal")
	}
	var out []string
	for _, el := range cl.Elts {
		tv := pk.TypesInfo.Types[el]
		out = append(out, m.constName(tv.Value))
	}
	return out, nil
}

func c17Marshal(c *Ctx, p *Prog, m *Model) {
	r := c.R
	mj := p.Method(p.Slog, "Level", "MarshalJSON")
	uj := p.Method(p.Slog, "Level", "UnmarshalJSON")
	if mj == nil || uj == nil {
		r.Unk("R17.2", "json", "-", "MarshalJSON/UnmarshalJSON not found")
		return
	}
	quotes := false
	for _, cs := range callsIn(mj) {
		cal := calleeOf(cs)
		if cal == nil {
			continue
		}
		switch cal.String() {
		case "strconv.Quote", "strconv.AppendQuote", "encoding/json.Marshal":
			quotes = true
		case "fmt.Sprintf", "fmt.Appendf":
			for _, a := range cs.Common().Args {
				if s, ok := constString(a); ok && strings.Contains(s, "%q") {
					quotes = true
				}
			}
		}
	}
	// quote bytes put around the name by hand are not quoting: a title holding a quote, a backslash or a control
	// character then gives invalid JSON (RegisterLevel accepts any title)
	handQuoted := false
	if !quotes {
		for _, b := range mj.Blocks {
			for _, in := range b.Instrs {
				if st, ok := in.(*ssa.Store); ok {
					if v, ok := constInt(st.Val); ok && v == '"' {
						handQuoted = true
					}
				}
				if bo, ok := in.(*ssa.BinOp); ok && bo.Op == token.ADD {
					for _, o := range []ssa.Value{bo.X, bo.Y} {
						if s, ok := constString(o); ok && strings.Contains(s, "\"") {
							handQuoted = true
						}
					}
				}
				if call, ok := in.(*ssa.Call); ok && isBuiltinCall(call, "append") {
					for _, a := range call.Common().Args[1:] {
						if v, ok := constInt(a); ok && v == '"' {
							handQuoted = true
						}
						if s, ok := constString(a); ok && strings.Contains(s, "\"") {
							handQuoted = true
						}
					}
				}
			}
		}
	}
	if handQuoted {
		r.Bad("R17.2", "json-quoting", p.FuncPos(mj), "MarshalJSON wraps the name in quote characters by hand instead of quoting it (strconv.Quote, %%q, json.Marshal): a registered title that holds a quote, a backslash or a control character marshals to invalid JSON and does not unmarshal to the level")
		quotes = true
	}
	unq := false
	var unqCall ssa.CallInstruction
	for _, cs := range callsIn(uj) {
		if cal := calleeOf(cs); cal != nil {
			switch cal.String() {
			case "strconv.Unquote", "encoding/json.Unmarshal", "bytes.Trim", "strings.Trim":
				unq = true
				unqCall = cs
			}
		}
	}
	feeds := false
	if unqCall != nil {
		for _, cs := range callsIn(uj) {
			if cal := calleeOf(cs); cal != nil && (nm(cal) == "UnmarshalText" || nm(cal) == "ParseLevel") {
				for _, a := range cs.Common().Args {
					if dependsOn(a, unqCall.Value()) {
						feeds = true
					}
				}
			}
		}
	}
	switch {
	case quotes && !(unq && feeds):
		r.Bad("R17.2", "json-inverse", p.FuncPos(uj), "MarshalJSON quotes the name but UnmarshalJSON hands its input to the text parser without unquoting: json.Unmarshal(json.Marshal(level)) fails for every level")
	case !quotes:
		r.Bad("R17.2", "json-inverse", p.FuncPos(mj), "MarshalJSON does not produce a quoted JSON string: the output is not valid JSON for a name")
	default:
		r.Ok("R17.2", "json-inverse", p.FuncPos(uj), "MarshalJSON quotes, UnmarshalJSON unquotes before parsing")
	}
	// MarshalJSON is based on MarshalText of the receiver
	based := false
	for _, cs := range callsIn(mj) {
		if cal := calleeOf(cs); cal != nil && (nm(cal) == "MarshalText" || nm(cal) == "String") && cs.Common().Args[0] == ssa.Value(mj.Params[0]) {
			based = true
		}
	}
	r.Check(based, "R17.2", "json-source", p.FuncPos(mj), "the JSON form is the quoted text form", "MarshalJSON is not derived from the receiver's text form")
}

// registryStoresIn: direct stores of fn to registry variables.
func registryStoresIn(fn *ssa.Function) []GlobalStore {
	var out []GlobalStore
	for _, gs := range globalStores(fn) {
		for _, n := range registryVars {
			if nm(gs.G) == n {
				out = append(out, gs)
			}
		}
	}
	return out
}

func c17Register(c *Ctx, p *Prog, m *Model) {
	r := c.R
	rl := p.Func(p.Slog, "RegisterLevel")
	if rl == nil {
		r.Unk("R17.3", "RegisterLevel", "-", "not found")
		return
	}
	// the settings a registration collects are this call's own: the pack handed to every option is a fresh local of
	// the registering function, not a package-level default that the options of an earlier registration have edited
	{
		nOpt := 0
		for g := range staticReach([]*ssa.Function{rl}, func(f *ssa.Function) bool { return f.Pkg != p.Slog }) {
			for _, cs := range callsIn(g) {
				if calleeOf(cs) != nil || cs.Common().IsInvoke() || typeName(cs.Common().Value.Type()) != "RegOpt" || len(cs.Common().Args) != 1 {
					continue
				}
				nOpt++
				arg := strip(cs.Common().Args[0])
				al, isAlloc := arg.(*ssa.Alloc)
				fresh := isAlloc && al.Parent() == g
				// ... initialised in this call: no store of a loaded package-level struct into it
				if fresh {
					for _, ref := range *al.Referrers() {
						if st, isSt := ref.(*ssa.Store); isSt && st.Addr == ssa.Value(al) {
							if _, isG := globalLoad(strip(st.Val)); isG {
								// a copy of package-level defaults is still a private copy
								_ = isG
							}
						}
					}
				}
				r.Check(fresh, "R17.5", "register:own-pack:"+shortName(g), p.Pos(instrPos(cs)), "the options of a registration work on a local of that call",
					"the options of a registration are applied to "+m.valDesc(arg)+", which outlives the call: a setting given for one level (treated-as level, error device, tags, colours) stays in force for every level registered afterwards without that option")
			}
		}
		if nOpt == 0 {
			r.Unk("R17.5", "register:own-pack", p.FuncPos(rl), "no call of a RegOpt found in the registration")
		}
	}
	// transitive: which in-package callees store to the registry / can return a non-nil error
	storesT := map[*ssa.Function]bool{}
	var tstores func(fn *ssa.Function, seen map[*ssa.Function]bool) bool
	tstores = func(fn *ssa.Function, seen map[*ssa.Function]bool) bool {
		if v, ok := storesT[fn]; ok {
			return v
		}
		if seen[fn] {
			return false
		}
		seen[fn] = true
		res := len(registryStoresIn(fn)) > 0
		for _, cs := range callsIn(fn) {
			if cal := calleeOf(cs); cal != nil && cal.Pkg == p.Slog && tstores(cal, seen) {
				res = true
			}
		}
		storesT[fn] = res
		return res
	}
	isStoreInstr := func(in ssa.Instruction) bool {
		for _, gs := range registryStoresIn(in.Parent()) {
			if gs.Instr == in {
				return true
			}
		}
		if cs, ok := in.(ssa.CallInstruction); ok {
			if cal := calleeOf(cs); cal != nil && cal.Pkg == p.Slog && tstores(cal, map[*ssa.Function]bool{}) {
				return true
			}
		}
		return false
	}
	// path rule, applied to RegisterLevel and recursively to helpers: no store before a non-nil error return
	var checkFn func(fn *ssa.Function)
	done := map[*ssa.Function]bool{}
	checkFn = func(fn *ssa.Function) {
		if done[fn] {
			return
		}
		done[fn] = true
		errIdx := -1
		res := fn.Signature.Results()
		for i := 0; i < res.Len(); i++ {
			if res.At(i).Type().String() == "error" {
				errIdx = i
			}
		}
		var storeBlocks []*ssa.BasicBlock
		var firstStore ssa.Instruction
		for _, b := range fn.Blocks {
			for _, in := range b.Instrs {
				if isStoreInstr(in) {
					storeBlocks = append(storeBlocks, b)
					if firstStore == nil {
						firstStore = in
					}
				}
			}
		}
		key := "refusal:" + shortName(fn)
		if errIdx < 0 {
			return
		}
		bad := ""
		rets, _ := exitBlocks(fn)
		for _, rb := range rets {
			ret := rb.Instrs[len(rb.Instrs)-1].(*ssa.Return)
			ev := ret.Results[errIdx]
			maybeErr := false
			for _, s := range sources(ev) {
				if !isNilConst(s) {
					maybeErr = true
				}
			}
			if !maybeErr {
				continue
			}
			for _, sb := range storeBlocks {
				if sb == rb || reachAvoiding(sb, rb, nil) {
					// a store can be followed by this error return. If the error value is a phi, only edges that are non-nil count.
					if errEdgeReachableFromStore(ev, rb, sb) {
						bad = fmt.Sprintf("a registry store at %s can be followed by the error return at %s", p.Pos(instrPos(sb.Instrs[0])), p.Pos(instrPos(ret)))
					}
				}
			}
		}
		if bad != "" {
			r.Bad("R17.3", key, p.FuncPos(fn), "%s: a refused registration leaves a table modified (value reserved / nameless entry)", bad)
		} else {
			r.Ok("R17.3", key, p.FuncPos(fn), "no registry store can precede a non-nil error return (%d store site(s))", len(storeBlocks))
		}
		for _, cs := range callsIn(fn) {
			if cal := calleeOf(cs); cal != nil && cal.Pkg == p.Slog && tstores(cal, map[*ssa.Function]bool{}) {
				checkFn(cal)
			}
		}
	}
	checkFn(rl)
	// both refusal tests exist: a loop over allLevels comparing with levelValue, and a lookup of stringToLevel
	lv, title := rl.Params[0], rl.Params[1]
	reach := staticReach([]*ssa.Function{rl}, func(f *ssa.Function) bool { return f.Pkg != p.Slog && f.Parent() == nil })
	valTest, titleTest := false, false
	for fn := range reach {
		for _, b := range fn.Blocks {
			for _, in := range b.Instrs {
				switch x := in.(type) {
				case *ssa.BinOp:
					if x.Op == token.EQL {
						if g, ok := elemOfGlobal(x.X); ok && g == "allLevels" {
							valTest = true
						}
						if g, ok := elemOfGlobal(x.Y); ok && g == "allLevels" {
							valTest = true
						}
					}
				case *ssa.Lookup:
					if g, ok := globalLoad(x.X); ok && nm(g) == "stringToLevel" && x.CommaOk {
						titleTest = true
					}
				case *ssa.Call:
					// the library form of the membership test: slices.Contains / slices.Index(allLevels, levelValue)
					if cal := calleeOf(x); cal != nil && len(x.Common().Args) == 2 {
						if on := origin(cal).String(); on == "slices.Contains" || on == "slices.Index" {
							if g, ok := globalLoad(x.Common().Args[0]); ok && nm(g) == "allLevels" {
								if prm, ok := strip(x.Common().Args[1]).(*ssa.Parameter); ok && m.isLevel(prm.Type()) {
									valTest = true
								}
							}
						}
					}
				}
			}
		}
	}
	// a value in use is REFUSED: every return reached on the hit edge of the value test carries a non-nil error (an
	// "already registered, fine" success would drop the options of the second call and still report success)
	for _, b := range rl.Blocks {
		iff := ifOf(b)
		if iff == nil {
			continue
		}
		cond, neg := normCond(iff.Cond)
		bo, ok := cond.(*ssa.BinOp)
		if !ok || bo.Op != token.EQL {
			continue
		}
		gx, okx := elemOfGlobal(bo.X)
		gy, oky := elemOfGlobal(bo.Y)
		if !((okx && gx == "allLevels") || (oky && gy == "allLevels")) {
			continue
		}
		hit := 0
		if neg {
			hit = 1
		}
		rets, _ := exitBlocks(rl)
		var okRet []string
		for _, rb := range rets {
			if !edgeDominates(b, hit, rb) {
				continue
			}
			ret := rb.Instrs[len(rb.Instrs)-1].(*ssa.Return)
			for _, res := range ret.Results {
				if k, isC := res.(*ssa.Const); isC && k.IsNil() && types.Identical(res.Type(), types.Universe.Lookup("error").Type()) {
					okRet = append(okRet, p.Pos(instrPos(ret)))
				}
			}
		}
		r.Check(len(okRet) == 0, "R17.3", "refusal:value-hit-fails", p.Pos(instrPos(iff)), "every return on the hit edge of the value test reports an error",
			"RegisterLevel can report success (return at "+strings.Join(okRet, ", ")+") although the value is already in use: the second registration's title, tags, treated-as level and device are silently dropped while the caller is told it worked")
	}
	_ = lv
	_ = title
	// every further name a registration puts into the parse table (aliases, tags used as names ...) was tested to be
	// free first: the store's key is dominated by the miss edge of a lookup of that very name, or is an element of
	// a local list every element of which was so tested before it was appended
	pg := p.Global(p.Slog, "stringToLevel")
	var curStoreBlock *ssa.BasicBlock
	var freeAt func(v ssa.Value, b *ssa.BasicBlock, depth int) bool
	var listFree func(sv ssa.Value, depth int, seen map[ssa.Value]bool) bool
	freeAt = func(v ssa.Value, b *ssa.BasicBlock, depth int) bool {
		if depth > 6 {
			return false
		}
		for _, g := range guardsOf(b) {
			cond, neg := normCond(g.If.Cond)
			if ex, ok := cond.(*ssa.Extract); ok && ex.Index == 1 && (g.Succ == 0) == neg {
				if lk, ok := ex.Tuple.(*ssa.Lookup); ok {
					if gg, ok := globalLoad(lk.X); ok && gg == pg && strip(lk.Index) == strip(v) {
						return true
					}
				}
			}
		}
		switch x := strip(v).(type) {
		case *ssa.UnOp:
			if ia, ok := x.X.(*ssa.IndexAddr); ok && x.Op == token.MUL {
				return listFree(ia.X, depth+1, map[ssa.Value]bool{})
			}
		case *ssa.Phi:
			for i, e := range x.Edges {
				if e == ssa.Value(x) {
					continue
				}
				if !freeAt(e, x.Block().Preds[i], depth+1) {
					return false
				}
			}
			return true
		}
		return false
	}
	listFree = func(sv ssa.Value, depth int, seen map[ssa.Value]bool) bool {
		sv = strip(sv)
		if seen[sv] {
			return true
		}
		seen[sv] = true
		if depth > 8 {
			return false
		}
		switch x := sv.(type) {
		case *ssa.Const:
			return x.IsNil()
		case *ssa.UnOp:
			// a list kept in a field of the registration pack (filled by an option): free when an earlier loop of the
			// same function looks every element of that same field list up in the parse table (the hit edge is the
			// refusal judged by refusal:title-test / value-hit-fails) and that loop is finished before this use
			if fa, ok := x.X.(*ssa.FieldAddr); ok && x.Op == token.MUL && curStoreBlock != nil {
				lk := exprKey(fa)
				for _, b := range curStoreBlock.Parent().Blocks {
					for _, in := range b.Instrs {
						look, ok := in.(*ssa.Lookup)
						if !ok || !look.CommaOk {
							continue
						}
						if gg, ok := globalLoad(look.X); !ok || gg != pg {
							continue
						}
						el, ok := strip(look.Index).(*ssa.UnOp)
						if !ok {
							continue
						}
						ia, ok := el.X.(*ssa.IndexAddr)
						if !ok {
							continue
						}
						ld, ok := strip(ia.X).(*ssa.UnOp)
						if !ok {
							continue
						}
						f2, ok := ld.X.(*ssa.FieldAddr)
						if !ok || exprKey(f2) != lk || !fullIndexLoop(ia.Index, ia.X) {
							continue
						}
						// the test loop is over before the store: its header dominates the store block and the store is
						// outside that loop
						h, body := natLoop(b)
						if h != nil && h.Dominates(curStoreBlock) && !body[curStoreBlock] {
							return true
						}
					}
				}
			}
			return false
		case *ssa.Phi:
			for _, e := range x.Edges {
				if !listFree(e, depth+1, seen) {
					return false
				}
			}
			return true
		case *ssa.Call:
			if !isBuiltinCall(x, "append") || !listFree(x.Common().Args[0], depth+1, seen) {
				return false
			}
			sl, ok := x.Common().Args[1].(*ssa.Slice)
			if !ok {
				return false
			}
			al, ok := sl.X.(*ssa.Alloc)
			if !ok {
				return false
			}
			for _, ref := range *al.Referrers() {
				if ia, ok := ref.(*ssa.IndexAddr); ok {
					for _, r2 := range *ia.Referrers() {
						if st, ok := r2.(*ssa.Store); ok && !freeAt(st.Val, x.Block(), depth+1) {
							return false
						}
					}
				}
			}
			return true
		}
		return false
	}
	for fn := range reach {
		for _, b := range fn.Blocks {
			for _, in := range b.Instrs {
				mu, ok := in.(*ssa.MapUpdate)
				if !ok {
					continue
				}
				if gg, ok := globalLoad(mu.Map); !ok || gg != pg {
					continue
				}
				k := strip(mu.Key)
				if src, ok := isToLower(k); ok {
					if _, isPrm := strip(src).(*ssa.Parameter); isPrm {
						continue // the title itself: judged by refusal:title-test
					}
				}
				if _, isPrm := k.(*ssa.Parameter); isPrm {
					continue
				}
				curStoreBlock = b
				r.Check(freeAt(mu.Key, b, 0), "R17.3", "refusal:extra-name:"+shortName(fn), p.Pos(instrPos(mu)), "a further name is entered into the parse table only after it was found free", "a registration enters a further name into the parse table without having tested that the name is free: an existing level's name is silently re-pointed to the new level (its printed name then parses to another level), and the registration still succeeds")
			}
		}
	}
	r.Check(valTest, "R17.3", "refusal:value-test", p.FuncPos(rl), "a numeric value already in allLevels is refused", "RegisterLevel no longer tests the numeric value against allLevels")
	r.Check(titleTest, "R17.3", "refusal:title-test", p.FuncPos(rl), "a title already in the parse table is refused", "RegisterLevel no longer tests the title against the parse table")

	// R17.4: stores on the success path, keyed by levelValue
	type need struct {
		table string
		cond  string // substring of a guard description that must dominate, "" for unconditional
	}
	needs := []need{{"allLevels", ""}, {"levelToString", ""}, {"stringToLevel", ""}, {"shortTagMap", ""}, {"mLevelIsEnabledAs", "regPack.treatAs < MaxLevel"}, {"mLevelUseErrorDevice", "regPack.printOutToErrorDevice"}}
	var all []GlobalStore
	for fn := range reach {
		all = append(all, registryStoresIn(fn)...)
	}
	for _, nd := range needs {
		key := "register:" + nd.table
		var found *GlobalStore
		for i := range all {
			if nm(all[i].G) == nd.table {
				found = &all[i]
			}
		}
		// several stores into the same table (a feature that registers further entries, e.g. parse-only aliases): the
		// one judged here is the entry of the level itself - keyed by the title (parse table) or by the level value;
		// the others are constrained by R17.1 (same normalisation) and R17.3 (refusal before any store)
		for i := range all {
			if nm(all[i].G) != nd.table || all[i].Key == nil {
				continue
			}
			k := strip(all[i].Key)
			if src, ok := isToLower(k); ok {
				k = strip(src)
			}
			if prm, ok := k.(*ssa.Parameter); ok {
				if (nd.table == "stringToLevel") == (prm.Type().String() == "string") {
					found = &all[i]
				}
			}
		}
		if found == nil {
			r.Bad("R17.4", key, p.FuncPos(rl), "a successful registration does not record the level in %s", nd.table)
			continue
		}
		var probs []string
		fn := found.Fn
		// key is the level parameter (of RegisterLevel or passed down unchanged)
		if found.Kind == "mapupdate" || found.Kind == "mapupdate2" {
			k := strip(found.Key)
			if nd.table == "stringToLevel" {
				if src, ok := isToLower(k); ok {
					k = strip(src)
				}
				if prm, ok := k.(*ssa.Parameter); !ok || prm.Type().String() != "string" {
					probs = append(probs, "the parse table is not keyed by the title")
				}
				if prm, ok := strip(found.Val).(*ssa.Parameter); !ok || !m.isLevel(prm.Type()) {
					probs = append(probs, "the parse table does not map the title to the new level value")
				}
			} else {
				if prm, ok := k.(*ssa.Parameter); !ok || !m.isLevel(prm.Type()) {
					probs = append(probs, "not keyed by the levelValue parameter ("+m.valDesc(found.Key)+")")
				}
			}
			if nd.table == "levelToString" {
				if prm, ok := strip(found.Val).(*ssa.Parameter); !ok || prm.Type().String() != "string" {
					probs = append(probs, "the name table does not store the title")
				}
			}
		}
		if nd.table == "allLevels" {
			call, ok := strip(found.Val).(*ssa.Call)
			if !ok || !isBuiltinCall(call, "append") {
				probs = append(probs, "allLevels is not appended to")
			}
		}
		var gds []string
		for _, g := range guardsOf(found.Instr.Block()) {
			d := m.guardDesc(g)
			if strings.HasPrefix(d, "T:(phi + 1) <") || strings.HasPrefix(d, "T:phi <") || strings.Contains(d, "regPack.shortTags") || strings.Contains(d, `!= ""`) {
				continue // loop over the tag widths / non-empty tag
			}
			if strings.HasPrefix(d, "F:(phi + 1) <") || strings.HasPrefix(d, "F:phi <") || strings.HasPrefix(d, "F:lookup-ok global stringToLevel") || (strings.HasPrefix(d, "F:call ") && strings.HasSuffix(d, "!= nil")) {
				continue // past a loop / past the refusal tests
			}
			if strings.HasPrefix(d, "F:call slices.Contains") && strings.Contains(d, "global allLevels") {
				continue // past the value refusal test in its library form
			}
			gds = append(gds, d)
		}
		if nd.cond == "" {
			if len(gds) > 0 {
				probs = append(probs, fmt.Sprintf("recorded only under %v", gds))
			}
		} else {
			if len(gds) != 1 || !strings.HasPrefix(gds[0], "T:") || !strings.Contains(gds[0], nd.cond) {
				probs = append(probs, fmt.Sprintf("must be recorded exactly when %s, found guards %v", nd.cond, gds))
			}
		}
		if nd.table == "shortTagMap" {
			// every width 1..5 that was given is recorded: the counted loop around the store starts at 0 or 1 and runs to
			// the end of the table
			if first, bound, n, ok := widthLoopCovers(*found); ok {
				if mx, okc := p.ConstInt(p.Slog, "MaxLengthShortTag"); okc && n == 0 {
					n = mx
				}
				r.Check(first <= 1 && bound >= n, "R17.4", key+":widths", p.Pos(instrPos(found.Instr)), fmt.Sprintf("the loop records the widths %d..%d of the %d-slot table", first, bound-1, n),
					fmt.Sprintf("the loop records the tags of the widths %d..%d only, the table has the widths 1..%d: a custom tag of a width outside the loop is dropped and ShortTag falls back to the cut name", first, bound-1, n-1))
			} else if found.Kind == "mapupdate" || found.Kind == "mapupdate2" {
				r.Unk("R17.4", key+":widths", p.Pos(instrPos(found.Instr)), "the widths visited around the store could not be derived (not a counted loop over the table)")
			}
		}
		r.Check(len(probs) == 0, "R17.4", key, p.Pos(instrPos(found.Instr)), "recorded under the new level's value"+map[bool]string{true: " when " + nd.cond, false: ""}[nd.cond != ""], nm(fn)+": "+strings.Join(probs, "; "))
	}
}

func elemOfGlobal(v ssa.Value) (string, bool) {
	v = strip(v)
	u, ok := v.(*ssa.UnOp)
	if !ok {
		return "", false
	}
	ia, ok := u.X.(*ssa.IndexAddr)
	if !ok {
		return "", false
	}
	if g, ok := globalLoad(ia.X); ok {
		return nm(g), true
	}
	return "", false
}

// errEdgeReachableFromStore: the error value returned at rb can be non-nil on a path that passed the store block sb.
func errEdgeReachableFromStore(ev ssa.Value, rb, sb *ssa.BasicBlock) bool {
	ph, ok := ev.(*ssa.Phi)
	if !ok {
		return true
	}
	for i, e := range ph.Edges {
		nonNil := false
		for _, s := range sources(e) {
			if !isNilConst(s) {
				nonNil = true
			}
		}
		if !nonNil {
			continue
		}
		pred := ph.Block().Preds[i]
		if pred == sb || reachAvoiding(sb, pred, nil) {
			return true
		}
	}
	return false
}

// c17Variadic: R17.5
func c17Variadic(c *Ctx, p *Prog, m *Model) {
	r := c.R
	n := 0
	for _, fn := range p.RepoFuncs() {
		pk := fn.Pkg
		if pk == nil && fn.Parent() != nil {
			pk = fn.Parent().Pkg
		}
		if pk != p.Slog {
			continue
		}
		// the variadic ...bool parameter may be a parameter or (for option constructors) a captured variable
		var vb ssa.Value
		owner := fn
		if fn.Signature.Variadic() {
			last := fn.Params[len(fn.Params)-1]
			if last.Type().String() == "[]bool" {
				vb = last
			}
		}
		for _, fv := range fn.FreeVars {
			if fv.Type().String() == "[]bool" || fv.Type().String() == "*[]bool" {
				vb = fv
				owner = fn.Parent()
			}
		}
		if vb == nil {
			continue
		}
		// find the loop reading elements of vb
		var elemLoads []*ssa.UnOp
		for _, b := range fn.Blocks {
			for _, in := range b.Instrs {
				if u, ok := in.(*ssa.UnOp); ok && u.Op == token.MUL {
					if ia, ok := u.X.(*ssa.IndexAddr); ok {
						base := ia.X
						if ld, ok := base.(*ssa.UnOp); ok {
							base = ld.X
						}
						if base == vb {
							elemLoads = append(elemLoads, u)
						}
					}
				}
			}
		}
		if len(elemLoads) == 0 {
			// the arguments are only forwarded: either to the sibling that picks (nothing to decide here), or to a
			// private helper that returns the pick; the helper's result is decided on its term
			if prm, isPrm := vb.(*ssa.Parameter); isPrm {
				te := newTermEval(p)
				for _, cs := range callsIn(fn) {
					call, isCall := cs.(*ssa.Call)
					if !isCall || call.Type().String() != "bool" || calleeOf(cs) == nil {
						continue
					}
					var hasTrue, hasElem bool
					for _, a := range te.eval(call, nil).alts() {
						if a.Op == "const" && a.Name == "true" {
							hasTrue = true
						}
						if a.Op == "index" && a.Args[0].isParam(prm) {
							hasElem = true
						}
					}
					if hasElem {
						n++
						r.Check(hasTrue, "R17.5", "variadic-bool:"+shortName(fn), p.FuncPos(fn), "no argument means true (picked by "+shortName(calleeOf(cs))+")", "a ...bool option whose value is not 'on' when called without argument (picked by "+shortName(calleeOf(cs))+"): the documented call form without argument is a no-op")
					}
				}
			}
			continue
		}
		n++
		key := "variadic-bool:" + shortName(owner)
		if owner != fn {
			key = "variadic-bool:" + shortName(fn)
		}
		okDefault := false
		detail := ""
		for _, el := range elemLoads {
			for _, ref := range *el.Referrers() {
				switch x := ref.(type) {
				case *ssa.Phi:
					// picked value: the entry edge must be the constant true
					for _, e := range x.Edges {
						if b, ok := constBool(e); ok && b {
							okDefault = true
						}
					}
					detail = "picked value phi"
				case *ssa.Store:
					// field/variable store inside the loop: a store of true to the same address must dominate the loop
					for _, b := range fn.Blocks {
						for _, in := range b.Instrs {
							if st, ok := in.(*ssa.Store); ok && st != x && sameAddr(st.Addr, x.Addr) {
								if bv, ok := constBool(st.Val); ok && bv && st.Block().Dominates(x.Block()) && st.Block() != x.Block() {
									okDefault = true
								}
							}
						}
					}
					detail = "stored to " + exprKey(x.Addr)
				case *ssa.If:
					// `if bb { mode = A } else { mode = B }` (SetUTCMode): the phi of the picked int must start with the true-branch constant
					okDefault = intPickDefaultsToTrueBranch(fn, x)
					detail = "branch on element"
				}
			}
		}
		if !okDefault {
			// any other form: the three call forms evaluated - no argument must have the effect of `true`
			if outs, decided := variadicBoolCases(fn); decided && outs[0] == outs[1] && outs[1] != outs[2] && !strings.Contains(outs[0], "?") {
				okDefault = true
				detail = "call forms evaluated"
			}
		}
		r.Check(okDefault, "R17.5", key, p.FuncPos(fn), "no argument means true ("+detail+")", "a ...bool option whose value is not 'on' when called without argument ("+detail+"): the documented call form without argument is a no-op")
	}
	if n < 4 {
		r.Unk("R17.5", "variadic-bool:count", "-", "only %d variadic-bool pick loops found", n)
	}
}

func sameAddr(a, b ssa.Value) bool {
	fa, ok1 := a.(*ssa.FieldAddr)
	fb, ok2 := b.(*ssa.FieldAddr)
	if ok1 && ok2 {
		return fa.Field == fb.Field && (fa.X == fb.X || exprKey(fa.X) == exprKey(fb.X))
	}
	return a == b
}

// intPickDefaultsToTrueBranch: for `mode := D; for _, bb := range b { if bb { mode = T } else { mode = F } }` require D == T.
func intPickDefaultsToTrueBranch(fn *ssa.Function, iff *ssa.If) bool {
	tb, fb := iff.Block().Succs[0], iff.Block().Succs[1]
	for _, b := range fn.Blocks {
		for _, in := range b.Instrs {
			ph, ok := in.(*ssa.Phi)
			if !ok {
				continue
			}
			// a phi merging the two branches
			var tv, fv ssa.Value
			for i, pred := range ph.Block().Preds {
				if pred == tb || (len(tb.Succs) == 1 && tb.Succs[0] == ph.Block() && pred == tb) {
					tv = ph.Edges[i]
				}
				if pred == fb {
					fv = ph.Edges[i]
				}
			}
			if tv == nil || fv == nil {
				continue
			}
			// the merging phi is the loop-header phi itself: its remaining (entry) edge is the default
			for i, pred := range ph.Block().Preds {
				if pred == tb || pred == fb {
					continue
				}
				dv, ok1 := constInt(ph.Edges[i])
				tc, ok2 := constInt(tv)
				if ok1 && ok2 && dv == tc {
					return true
				}
			}
			// find the loop-header phi that this feeds and its entry constant
			for _, ref := range *ph.Referrers() {
				if hp, ok := ref.(*ssa.Phi); ok {
					for _, e := range hp.Edges {
						if e == ssa.Value(ph) {
							continue
						}
						dv, ok1 := constInt(e)
						tc, ok2 := constInt(tv)
						if ok1 && ok2 && dv == tc {
							return true
						}
					}
				}
			}
		}
	}
	return false
}

func c17Tags(c *Ctx, p *Prog, m *Model) {
	r := c.R
	tagLookupHitOnly(c, p, "R17.6")
	e, pk, err := p.varInit(p.Slog, "shortTagMap")
	if err != nil {
		r.Unk("R17.6", "shortTagMap", "-", "%v", err)
		return
	}
	cl, ok := e.(*ast.CompositeLit)
	if !ok {
		r.Unk("R17.6", "shortTagMap", "-", "not a literal")
		return
	}
	widths := map[int64]bool{}
	next := int64(0) // array literal: positional elements count from the last key
	for _, el := range cl.Elts {
		var n int64
		var val ast.Expr
		if kv, ok := el.(*ast.KeyValueExpr); ok {
			kvv := pk.TypesInfo.Types[kv.Key].Value
			n, _ = constant.Int64Val(kvv)
			val = kv.Value
		} else {
			n, val = next, el
		}
		next = n + 1
		widths[n] = true
		inner, ok := val.(*ast.CompositeLit)
		if !ok {
			continue
		}
		kv := el
		var bad []string
		cnt := 0
		for _, ie := range inner.Elts {
			ikv, ok := ie.(*ast.KeyValueExpr)
			if !ok {
				continue
			}
			sv := pk.TypesInfo.Types[ikv.Value].Value
			if sv == nil {
				continue
			}
			cnt++
			s := constant.StringVal(sv)
			if int64(len(s)) != n {
				bad = append(bad, fmt.Sprintf("%s:%q", m.constName(pk.TypesInfo.Types[ikv.Key].Value), s))
			}
		}
		r.Check(len(bad) == 0, "R17.6", fmt.Sprintf("tags[%d]", n), p.Pos(kv.Pos()), fmt.Sprintf("all %d tags are %d bytes long", cnt, n), fmt.Sprintf("tags of width %d that are not %d bytes long: %v", n, n, bad))
	}
	for n := int64(1); n <= 5; n++ {
		if !widths[n] {
			r.Bad("R17.6", fmt.Sprintf("tags[%d]", n), "-", "no tag table for width %d", n)
		}
	}
	// ShortTag fallback
	st := p.Method(p.Slog, "Level", "ShortTag")
	if st == nil {
		r.Unk("R17.6", "Level.ShortTag", "-", "not found")
		return
	}
	length := st.Params[1]
	rets, _ := exitBlocks(st)
	var probs []string
	for _, b := range rets {
		ret := b.Instrs[len(b.Instrs)-1].(*ssa.Return)
		v := ret.Results[0]
		switch x := v.(type) {
		case *ssa.Extract:
			// custom/builtin tag from the table
			continue
		case *ssa.Lookup:
			continue
		case *ssa.Slice:
			if x.High != ssa.Value(length) || x.Low != nil {
				probs = append(probs, "a fallback tag is not cut to [:length]")
				continue
			}
			// every source of the sliced string is at least `length` long: name + Repeat(" ", length) (when shorter) or the name when longer
			for i, s := range phiEdges(x.X) {
				if bo, ok := s.(*ssa.BinOp); ok && bo.Op == token.ADD {
					if !isRepeatOf(bo.Y, length) && !isRepeatOf(bo.X, length) {
						probs = append(probs, "the short name is not padded with `length` spaces before cutting")
					}
					continue
				}
				// unpadded name: must come from the branch where len(name) is not < length
				ph, isPhi := x.X.(*ssa.Phi)
				if !isPhi {
					probs = append(probs, "a name shorter than length may be sliced (panic / wrong width)")
					continue
				}
				pred := ph.Block().Preds[i]
				okG := false
				gl := guardsOf(pred)
				if iff := ifOf(pred); iff != nil {
					idx := 0
					if pred.Succs[1] == ph.Block() {
						idx = 1
					}
					gl = append(gl, guard{iff, pred, idx})
				}
				for _, g := range gl {
					cond, neg := normCond(g.If.Cond)
					if bo, ok := cond.(*ssa.BinOp); ok && bo.Op == token.LSS && bo.Y == ssa.Value(length) {
						taken := (g.Succ == 0) != neg
						if !taken {
							okG = true
						}
					}
				}
				if !okG {
					probs = append(probs, "an unpadded name is cut to [:length] without knowing it is at least that long")
				}
			}
		case *ssa.Call:
			if !isRepeatOf(x, length) {
				if cal := calleeOf(x); cal == nil || nm(cal) != "String" {
					probs = append(probs, "unexpected fallback result "+m.valDesc(x))
					continue
				}
				// the name itself: only when len == length
				okG := false
				for _, g := range guardsOf(b) {
					cond, neg := normCond(g.If.Cond)
					if bo, ok := cond.(*ssa.BinOp); ok && bo.Op == token.EQL && (bo.Y == ssa.Value(length) || bo.X == ssa.Value(length)) && (g.Succ == 0) != neg {
						okG = true
					}
				}
				if !okG {
					probs = append(probs, "the full name is returned without its length being equal to `length`")
				}
			}
		default:
			probs = append(probs, "unexpected fallback result "+m.valDesc(v))
		}
	}
	sort.Strings(probs)
	r.Check(len(probs) == 0, "R17.6", "Level.ShortTag:fallback", p.FuncPos(st), "every fallback result is exactly `length` bytes", strings.Join(dedupStr(probs), "; "))
}

func phiEdges(v ssa.Value) []ssa.Value {
	if ph, ok := v.(*ssa.Phi); ok {
		return ph.Edges
	}
	return []ssa.Value{v}
}

func isRepeatOf(v ssa.Value, n *ssa.Parameter) bool {
	call, ok := v.(*ssa.Call)
	if !ok {
		return false
	}
	cal := calleeOf(call)
	if cal == nil || cal.String() != "strings.Repeat" {
		return false
	}
	if s, ok := constString(call.Common().Args[0]); !ok || len(s) != 1 {
		return false
	}
	return call.Common().Args[1] == ssa.Value(n)
}

// lowerCased: v is a strings.ToLower result on every path: directly, through joins, or as an element of a local
// slice every element of which was lower-cased before it was appended.
func lowerCased(v ssa.Value, depth int) bool {
	if depth > 6 {
		return false
	}
	if _, ok := isToLower(v); ok {
		return true
	}
	v = strip(v)
	switch x := v.(type) {
	case *ssa.Phi:
		for _, e := range x.Edges {
			if e == ssa.Value(x) {
				continue
			}
			if !lowerCased(e, depth+1) {
				return false
			}
		}
		return len(x.Edges) > 0
	case *ssa.UnOp:
		if x.Op != token.MUL {
			return false
		}
		ia, ok := x.X.(*ssa.IndexAddr)
		if !ok {
			return false
		}
		return sliceAllLower(ia.X, depth+1, map[ssa.Value]bool{})
	case *ssa.Parameter:
		// the parameter of a private helper: lower-cased at every one of its (static) call sites
		fn := x.Parent()
		if fn == nil || lowerProg == nil || ast.IsExported(fn.Name()) || fn.Signature.Recv() != nil && ast.IsExported(fn.Name()) {
			return false
		}
		idx := -1
		for i, q := range fn.Params {
			if q == x {
				idx = i
			}
		}
		n := 0
		for _, caller := range lowerProg.RepoFuncs() {
			for _, cs := range callsIn(caller) {
				if calleeOf(cs) != fn {
					continue
				}
				args := cs.Common().Args
				if idx < 0 || idx >= len(args) {
					return false
				}
				n++
				if !lowerCased(args[idx], depth+1) {
					return false
				}
			}
		}
		return n > 0
	}
	return false
}

var lowerProg *Prog
var lowerFieldBusy = map[string]bool{}

// sliceAllLower: every element the local slice s can hold was lower-cased (s is nil, or append(s', elems...) with
// s' of the same kind and every element lower-cased).
func sliceAllLower(s ssa.Value, depth int, seen map[ssa.Value]bool) bool {
	s = strip(s)
	if seen[s] {
		return true
	}
	seen[s] = true
	if depth > 8 {
		return false
	}
	switch x := s.(type) {
	case *ssa.Const:
		return x.IsNil()
	case *ssa.UnOp:
		// a list kept in a struct field (the registration pack): every store to that field anywhere in the package stores
		// an all-lower-cased list (the field's own value extended by lower-cased elements)
		fa, ok := x.X.(*ssa.FieldAddr)
		if !ok || x.Op != token.MUL || lowerProg == nil {
			return false
		}
		st := structOf(fa.X.Type())
		if st == nil {
			return false
		}
		key := typeName(fa.X.Type()) + "." + st.Field(fa.Field).Name()
		if lowerFieldBusy[key] {
			return true
		}
		lowerFieldBusy[key] = true
		defer delete(lowerFieldBusy, key)
		n := 0
		for _, fn := range lowerProg.RepoFuncs() {
			for _, fs := range fieldStores(fn) {
				if fs.Struct+"."+fs.Field != typeName(fa.X.Type())+"."+nm(st.Field(fa.Field)) {
					continue
				}
				n++
				if !sliceAllLower(fs.Val, depth+1, map[ssa.Value]bool{}) {
					return false
				}
			}
		}
		return n > 0
	case *ssa.Phi:
		for _, e := range x.Edges {
			if !sliceAllLower(e, depth+1, seen) {
				return false
			}
		}
		return true
	case *ssa.Call:
		if !isBuiltinCall(x, "append") {
			return false
		}
		if !sliceAllLower(x.Common().Args[0], depth+1, seen) {
			return false
		}
		sl, ok := x.Common().Args[1].(*ssa.Slice)
		if !ok {
			return false
		}
		al, ok := sl.X.(*ssa.Alloc)
		if !ok {
			return false
		}
		for _, ref := range *al.Referrers() {
			if ia, ok := ref.(*ssa.IndexAddr); ok {
				for _, r2 := range *ia.Referrers() {
					if st, ok := r2.(*ssa.Store); ok && !lowerCased(st.Val, depth+1) {
						return false
					}
				}
			}
		}
		return true
	}
	return false
}

// widthLoopCovers: the store shortTagMap[i][level] = tag sits in a counted loop; the widths it visits are
// [first, bound). ok is false when the index is not a recognised counted-loop variable.
func widthLoopCovers(st GlobalStore) (first, bound int64, arrLen int64, ok bool) {
	mu, isMU := st.Instr.(*ssa.MapUpdate)
	if !isMU {
		return
	}
	var idx ssa.Value
	switch x := mu.Map.(type) {
	case *ssa.Lookup: // map[int]map[Level]string
		idx = x.Index
	case *ssa.UnOp: // [n]map[Level]string
		ia, isIA := x.X.(*ssa.IndexAddr)
		if !isIA {
			return
		}
		idx = ia.Index
		if pt, isP := ia.X.Type().Underlying().(*types.Pointer); isP {
			if at, isA := pt.Elem().Underlying().(*types.Array); isA {
				arrLen = at.Len()
			}
		}
	default:
		return
	}
	var ph *ssa.Phi
	var tested ssa.Value
	switch x := idx.(type) {
	case *ssa.Phi:
		ph, tested = x, x
	case *ssa.BinOp: // range form: idx = phi + 1, phi starts at -1
		one, isC := constInt(x.Y)
		p2, isPhi := x.X.(*ssa.Phi)
		if x.Op != token.ADD || !isC || one != 1 || !isPhi {
			return
		}
		ph, tested = p2, x
	default:
		return
	}
	haveFirst, step := false, false
	for _, e := range ph.Edges {
		if k, isC := constInt(e); isC {
			if haveFirst {
				return
			}
			first, haveFirst = k, true
			continue
		}
		bo, isB := e.(*ssa.BinOp)
		if !isB || bo.Op != token.ADD || bo.X != ssa.Value(ph) {
			return
		}
		if one, isC := constInt(bo.Y); !isC || one != 1 {
			return
		}
		step = true
	}
	if !haveFirst || !step {
		return
	}
	if tested != ssa.Value(ph) {
		first++ // range form: the first index used is -1 + 1
	}
	for _, g := range guardsOf(st.Instr.Block()) {
		cond, neg := normCond(g.If.Cond)
		bo, isB := cond.(*ssa.BinOp)
		if !isB || (g.Succ == 0) == neg {
			continue
		}
		if k, isC := constInt(bo.Y); isC && bo.X == tested {
			switch bo.Op {
			case token.LSS:
				return first, k, arrLen, true
			case token.LEQ:
				return first, k + 1, arrLen, true
			}
		}
	}
	return
}

// c17NoParseMemo: a name resolves by the tables as they are NOW: ParseLevel, the text/JSON (un)marshallers and
// String keep nothing between calls - no function they reach stores to a package-level variable (a negative cache
// filled before a level was registered would keep rejecting its title afterwards).
func c17NoParseMemo(c *Ctx, p *Prog, m *Model) {
	r := c.R
	var roots []*ssa.Function
	if f := p.Func(p.Slog, "ParseLevel"); f != nil {
		roots = append(roots, f)
	}
	for _, mn := range []string{"UnmarshalText", "UnmarshalJSON", "MarshalText", "MarshalJSON", "String", "ShortTag"} {
		if f := p.Method(p.Slog, "Level", mn); f != nil {
			roots = append(roots, f)
		}
	}
	if len(roots) < 4 {
		r.Unk("R17.2", "no-memo", "-", "ParseLevel / Level (un)marshallers not found")
		return
	}
	stops, _ := entryPointNames(p)
	stop := map[string]bool{}
	for _, s := range stops {
		stop[s] = true
	}
	var bad []string
	n := 0
	for fn := range staticReach(roots, func(f *ssa.Function) bool {
		return f.Pkg != p.Slog || (f.Signature.Recv() != nil && typeName(f.Signature.Recv().Type()) == "Entry") || stop[nm(f)]
	}) {
		n++
		for _, gs := range globalStores(fn) {
			bad = append(bad, fmt.Sprintf("%s stores to %s at %s", shortName(fn), nm(gs.G), p.Pos(instrPos(gs.Instr))))
		}
	}
	sort.Strings(bad)
	r.Check(len(bad) == 0, "R17.2", "no-memo", "-", fmt.Sprintf("the %d functions behind ParseLevel / the (un)marshallers / String store to no package-level variable", n),
		"name resolution keeps state between calls ("+strings.Join(dedupStr(bad), "; ")+"): what a name resolves to depends on what was asked before it was registered, so a registered level may not answer to its title")
}
