package main

import (
	"fmt"
	"go/constant"
	"go/token"
	"os"
	"sort"
	"strings"

	"golang.org/x/tools/go/ssa"
)

func init() { register("C16", checkC16) }

func checkC16(c *Ctx) {
	r := c.R
	r.Rule("R02.3", "(shared with C02) every record carries its timestamp: the blank-line shortcut (a bare newline, no fields at all) is taken for lvl == AlwaysLevel and an empty message only")
	r.Rule("R15.3", "(shared with C15) a log/slog record keeps its own instant: Handle hands the record to WriteThru (the package's loggers implement LogSlogAware) with the record's time")
	r.Rule("R11.3", "(shared with C11) the zone and layout in force are the emitting logger's own: setentry copies them from that logger on every path, never from its owner")
	r.Rule("R10.4", "(shared with C10) a With-form's child is its own logger: anonymous, or named by a term over every argument (WithUTCMode(true) and WithUTCMode(false) never return the same child)")
	r.Rule("R10.3", "(shared with C10) a layout or zone given as a New(...) option is applied whatever its position: every element of the argument list is offered to the option test")
	r.Rule("R10.2", "(shared with C10) the layout in force is the logger's own: each With-form applies its setting to the new child and leaves the receiver alone")
	r.Rule("R16.1", "zone decision: the decision function extracted from appendTimestamp formats z.UTC() exactly when utcTime == 2 or (utcTime == 0 and the LlocalTime flag is off), and z itself otherwise; SetUTCMode stores 2 for no argument/true and 1 for false")
	r.Rule("R16.2", "layout decision: the layout is the logger's own when non-empty, else defaultLayouts[flags & Ldatetimeflags], else TimeNano; the table's keys are combinations of the three date/time flags only, and every layout that prints a time of day also prints the zone (otherwise the text cannot be parsed back to the instant)")
	r.Rule("R16.3", "same instant in all formats: every branch formats the zone-adjusted value of the function's own argument with time.Time.AppendFormat and the decided layout; the record's timestamp printer passes the record's own instant, which set() takes from the call (time.Now() in logContext, the caller's value in WriteThru)")
	r.Rule("R16.5", "the instant is not altered on its way: WriteThru, print and PrintCtx.set hand on / store the time value they are given itself (no Truncate/Round/Add/In in between), and the timestamp printer prints the stored instant")
	r.Rule("R16.6", "the three-state UTC mode is only passed through: every call of SetUTCMode inside the package hands on the caller's own variadic argument (With... wrapper, option constructor), never a plain bool whose zero value means 'not given'")
	r.Rule("R16.4", "per-logger settings reach the encoder: setentry copies timeLayout and modeUTC unconditionally; SetTimeFormat stores the layout given; no pooled layout/zone field is read stale in any mode (engine E10)")
	r.Assume("time.Time.AppendFormat and time.Parse are inverse for a layout (standard library)")
	for _, tags := range c.Configs([]string{""}, []string{"", "verbose"}) {
		p := c.Prog(tags)
		if p == nil {
			continue
		}
		m, err := BuildModel(p)
		if err != nil {
			r.Unk("R16.1", "model", "-", "%v", err)
			continue
		}
		c16Timestamp(c, p, m)
		c16ModeCallers(c, p)
		c02Newline(c, p, m)
		fixedMembersAlways(c, p, m, "R16.3", feasibleModes)
		instantFlow(c, p, m)
		c09Pooled(c, p, m, "R16.4", feasibleModes)
		c10WithSet(c, p, m)
		optionsInOrder(c, p, "R10.3")
		c15Handler(c, p, m)
		c11Encoder(c, p, m)
		freshChildren(c, p, m, "R10.4", nil)
	}
	c.Floor["R16.1"] = 6
	c.Floor["R16.2"] = 6
}

func c16Timestamp(c *Ctx, p *Prog, m *Model) {
	r := c.R
	at := p.Method(p.Slog, "PrintCtx", "appendTimestamp")
	if at == nil || len(at.Params) != 2 {
		r.Unk("R16.1", "PrintCtx.appendTimestamp", "-", "not found")
		return
	}
	z := at.Params[1]
	localFlag, _ := p.ConstInt(p.Slog, "LlocalTime")
	dtMask, _ := p.ConstInt(p.Slog, "Ldatetimeflags")
	layoutsG := p.Global(p.Slog, "defaultLayouts")
	flagMaskOf := func(v ssa.Value) (int64, bool) {
		bo, ok := strip(v).(*ssa.BinOp)
		if !ok || bo.Op != token.AND {
			return 0, false
		}
		if g, ok := globalLoad(bo.X); ok && nm(g) == "flags" {
			return constIntOr(bo.Y)
		}
		if g, ok := globalLoad(bo.Y); ok && nm(g) == "flags" {
			return constIntOr(bo.X)
		}
		return 0, false
	}
	// private helpers of the timestamp printer (zone choice, layout choice, the shared tail) are walked as part of
	// it: their parameters stand for the arguments bound at the call
	subst := map[ssa.Value]ssa.Value{}
	res := func(v ssa.Value) ssa.Value {
		for i := 0; i < 8; i++ {
			w, ok := subst[v]
			if !ok {
				break
			}
			v = w
		}
		return v
	}
	ph16 := privateHelper(p)
	inline := func(cs ssa.CallInstruction) *ssa.Function {
		cal := calleeOf(cs)
		if cal == nil || !ph16(cal) || cal == at {
			return nil
		}
		if rt := cal.Signature.Recv(); rt == nil || typeName(rt.Type()) != "PrintCtx" {
			return nil
		}
		switch nm(cal) {
		case "pcAppendByte", "pcAppendString", "pcAppendStringValue", "pcAppendRune", "preCheck", "checkerr":
			return nil
		}
		return cal
	}
	atomize := func(cond ssa.Value) (string, bool) {
		switch x := cond.(type) {
		case *ssa.BinOp:
			if b, ok := isFieldLoadOf(x.X, "PrintCtx", "utcTime"); ok && res(b) == ssa.Value(receiver(at)) {
				if cv, ok := constInt(x.Y); ok && (x.Op == token.EQL || x.Op == token.NEQ) {
					n := fmt.Sprintf("utc==%d", cv)
					if x.Op == token.NEQ {
						return "!" + n, true
					}
					return n, true
				}
			}
			if mk, ok := flagMaskOf(x.X); ok && mk == localFlag {
				if zv, ok := constInt(x.Y); ok && zv == 0 {
					if x.Op == token.EQL {
						return "localoff", true
					}
					if x.Op == token.NEQ {
						return "!localoff", true
					}
				}
			}
			// a setting that did not exist when the rules were written (a field of the encoder unknown to the anchor record),
			// compared with its zero value: judged at its default, where it cannot change what the property describes
			if base, _, fv, isF := fieldLoad(strip(x.X)); isF && typeName(base.Type()) == "PrintCtx" && (x.Op == token.EQL || x.Op == token.NEQ) {
				ref := loadAnchorRef()
				if ref != nil && ref["field|slog|PrintCtx|"+nm(fv)] == nil {
					isZero := isNilConst(x.Y)
					if k, isC := x.Y.(*ssa.Const); isC && k.Value != nil {
						switch k.Value.Kind() {
						case constant.Int:
							isZero = constant.Sign(k.Value) == 0
						case constant.String:
							isZero = constant.StringVal(k.Value) == ""
						case constant.Bool:
							isZero = !constant.BoolVal(k.Value)
						}
					}
					if isZero {
						if x.Op == token.EQL {
							return "newzero", true
						}
						return "!newzero", true
					}
				}
			}
			if b, ok := isFieldLoadOf(x.X, "PrintCtx", "layout"); ok && res(b) == ssa.Value(receiver(at)) {
				if s, ok := constString(x.Y); ok && s == "" {
					if x.Op == token.NEQ {
						return "ownlayout", true
					}
					return "!ownlayout", true
				}
			}
		case *ssa.Call:
			if cal := calleeOf(x); cal != nil && (nm(cal) == "IsAnyBitsSet" || nm(cal) == "IsAllBitsSet") {
				if v, ok := constInt(x.Common().Args[0]); ok && v == localFlag {
					return "!localoff", true
				}
			}
			if cal := calleeOf(x); cal != nil && flagPredicate(p, cal, localFlag) {
				return "!localoff", true
			}
		case *ssa.Extract:
			if lk, ok := x.Tuple.(*ssa.Lookup); ok && x.Index == 1 {
				if g, ok := globalLoad(lk.X); ok && g == layoutsG {
					return "tablehit", true
				}
			}
		case *ssa.UnOp:
			if _, ok := isFieldLoadOf(x, "PrintCtx", "jsonMode"); ok {
				return "json", true
			}
			if _, ok := isFieldLoadOf(x, "PrintCtx", "noColor"); ok {
				return "nocolor", true
			}
		}
		return "", false
	}
	atoms := []string{"utc==2", "utc==0", "utc==1", "localoff", "ownlayout", "tablehit", "json", "nocolor"}
	asg := assignments(atoms, func(a map[string]bool) bool {
		n := 0
		for _, k := range []string{"utc==2", "utc==0", "utc==1"} {
			if a[k] {
				n++
			}
		}
		if n != 1 {
			return false
		}
		if a["json"] && !a["nocolor"] {
			return false
		}
		return true
	})
	seenZone, seenLayout := map[string]bool{}, map[string]bool{}
	for _, a := range asg {
		for k := range subst {
			delete(subst, k)
		}
		a["newzero"] = true
		t := walkDecisionInl(at.Blocks[0], a, negAware(a, atomize), nil, inline, subst, 0)
		cleanNeg(a)
		delete(a, "newzero")
		if t.Kind != "return" {
			r.Bad("R16.1", "zone["+assignStr(a)+"]", p.FuncPos(at), "the timestamp depends on a condition outside the property (%s)", t.Kind)
			continue
		}
		// the AppendFormat call on the path
		var af ssa.CallInstruction
		nAF := 0
		for _, cs := range t.Calls {
			if cal := calleeOf(cs); cal != nil && cal.String() == "(time.Time).AppendFormat" {
				af = cs
				nAF++
			}
		}
		zoneKey := fmt.Sprintf("zone[utc=%s localoff=%v]", utcStr(a), a["localoff"])
		layKey := fmt.Sprintf("layout[own=%v hit=%v]", a["ownlayout"], a["tablehit"])
		fmtKey := fmt.Sprintf("format[%s]", modeStr(a))
		if nAF != 1 {
			r.Bad("R16.3", fmtKey, p.FuncPos(at), "on this path the instant is formatted by %d calls of time.Time.AppendFormat (expected exactly one): the printed text is not the standard rendering of the layout and cannot be relied on to parse back", nAF)
			continue
		}
		tm := t.deep(af.Common().Args[0], subst)
		if os.Getenv("LOGGCHECK_DEBUG") != "" {
			fmt.Fprintf(os.Stderr, "DBG16 arg0=%v deep=%v rets=%d subst=%d\n", af.Common().Args[0], tm, len(t.Rets), len(subst))
			for k, v := range t.Rets {
				fmt.Fprintf(os.Stderr, "   ret %v -> %v\n", k, v)
			}
			for k, v := range subst {
				fmt.Fprintf(os.Stderr, "   subst %v (%s) -> %v\n", k, k.Parent().Name(), v)
			}
		}
		lay := t.deep(af.Common().Args[2], subst)
		gotZone := "?"
		if tm == ssa.Value(z) {
			gotZone = "z"
		} else if call, ok := tm.(*ssa.Call); ok {
			if cal := calleeOf(call); cal != nil && cal.String() == "(time.Time).UTC" && t.deep(call.Common().Args[0], subst) == ssa.Value(z) {
				gotZone = "z.UTC()"
			}
		}
		wantZone := "z"
		if a["utc==2"] || (a["utc==0"] && a["localoff"]) {
			wantZone = "z.UTC()"
		}
		if gotZone != wantZone {
			r.Bad("R16.1", zoneKey, p.Pos(instrPos(af)), "the value formatted is %s, the property requires %s", gotZone, wantZone)
		} else if !seenZone[zoneKey] {
			seenZone[zoneKey] = true
			r.Ok("R16.1", zoneKey, p.Pos(instrPos(af)), "formats %s", gotZone)
		}
		gotLay := "?" + m.valDesc(lay)
		if b, ok := isFieldLoadOf(lay, "PrintCtx", "layout"); ok && res(b) == ssa.Value(receiver(at)) {
			gotLay = "own"
		} else if ex, ok := lay.(*ssa.Extract); ok && ex.Index == 0 {
			if lk, ok := ex.Tuple.(*ssa.Lookup); ok {
				if g, ok := globalLoad(lk.X); ok && g == layoutsG {
					if mk, ok := flagMaskOf(lk.Index); ok && mk == dtMask {
						gotLay = "table[flags&Ldatetimeflags]"
					} else {
						gotLay = "table[other key]"
					}
				}
			}
		} else if s, ok := constString(lay); ok {
			if tn, _, ok2 := p.Const(p.Slog, "TimeNano"); ok2 && constant.StringVal(tn) == s {
				gotLay = "TimeNano"
			} else {
				gotLay = fmt.Sprintf("const %q", s)
			}
		}
		wantLay := "TimeNano"
		if a["ownlayout"] {
			wantLay = "own"
		} else if a["tablehit"] {
			wantLay = "table[flags&Ldatetimeflags]"
		}
		if gotLay != wantLay {
			r.Bad("R16.2", layKey, p.Pos(instrPos(af)), "the layout used is %s, the property requires %s", gotLay, wantLay)
		} else if !seenLayout[layKey] {
			seenLayout[layKey] = true
			r.Ok("R16.2", layKey, p.Pos(instrPos(af)), "uses %s", gotLay)
		}
		// the text AppendFormat rendered is the text that lands in the record: its result is stored as the encoder's
		// buffer, or handed (itself or a re-slice) to append/copy/a write method - not merely measured
		if afv, isV := af.(*ssa.Call); isV {
			landed, seenR := false, map[ssa.Value]bool{}
			var follow func(v ssa.Value, d int)
			follow = func(v ssa.Value, d int) {
				if landed || seenR[v] || d > 6 || v.Referrers() == nil {
					return
				}
				seenR[v] = true
				for _, ref := range *v.Referrers() {
					switch x := ref.(type) {
					case *ssa.Store:
						if x.Val == v {
							landed = true
						}
					case *ssa.Slice:
						follow(x, d+1)
					case *ssa.Phi:
						follow(x, d+1)
					case *ssa.Convert:
						follow(x, d+1)
					case *ssa.ChangeType:
						follow(x, d+1)
					case *ssa.Return:
						landed = true
					case ssa.CallInstruction:
						if bc, isB := x.Common().Value.(*ssa.Builtin); isB && bc.Name() == "len" || isB && bc.Name() == "cap" {
							continue
						}
						for _, a := range x.Common().Args {
							if a == v {
								landed = true
							}
						}
					}
				}
			}
			follow(afv, 0)
			landKey := fmt.Sprintf("format-lands[%s]:%s", modeStr(a), shortName(afv.Parent()))
			if !seenZone[landKey] {
				seenZone[landKey] = true
				r.Check(landed, "R16.3", landKey, p.Pos(instrPos(af)), "the slice AppendFormat returns is what is stored in / appended to the record", "the slice time.Time.AppendFormat returns is only measured, never stored or copied: the bytes put into the record come from somewhere else (a scratch array the rendering may have outgrown), so a long layout prints a truncated or stale timestamp that does not parse back")
			}
		}
		if !seenZone[fmtKey] {
			seenZone[fmtKey] = true
			r.Ok("R16.3", fmtKey, p.Pos(instrPos(af)), "one time.Time.AppendFormat of the zone-adjusted argument with the decided layout")
		}
	}
	// table keys and zone elements
	if tbl, err := mapLiteral(p, p.Slog, "defaultLayouts"); err != nil {
		r.Unk("R16.2", "table:defaultLayouts", "-", "%v", err)
	} else {
		var missing []string
		have := map[int64]bool{}
		for _, kv := range tbl {
			k, _ := constant.Int64Val(constant.ToInt(kv.K))
			have[k] = true
			lay := constant.StringVal(kv.V)
			key := fmt.Sprintf("table:defaultLayouts[%d]", k)
			switch {
			case k&^dtMask != 0:
				r.Bad("R16.2", key, p.Pos(kv.KExpr.Pos()), "key %d uses flags outside Ldate|Ltime|Lmicroseconds: it can never be selected", k)
			case strings.Contains(lay, "15") && !(strings.Contains(lay, "Z07") || strings.Contains(lay, "-07") || strings.Contains(lay, "MST")):
				r.Bad("R16.2", key, p.Pos(kv.VExpr.Pos()), "layout %q prints a time of day without its zone: parsing the text cannot give back the instant", lay)
			case len(layoutProblems(lay)) > 0:
				r.Bad("R16.2", key, p.Pos(kv.VExpr.Pos()), "layout %q does not determine the instant it prints: %s", lay, strings.Join(layoutProblems(lay), "; "))
			default:
				r.Ok("R16.2", key, p.Pos(kv.VExpr.Pos()), "layout %q (elements %v)", lay, layoutTokens(lay))
			}
		}
		for k := int64(0); k <= dtMask; k++ {
			if !have[k] {
				missing = append(missing, fmt.Sprint(k))
			}
		}
		sort.Strings(missing)
		r.Extra["flag_combinations_falling_through_to_TimeNano"] = missing
	}
	if tn, _, ok := p.Const(p.Slog, "TimeNano"); ok {
		lay := constant.StringVal(tn)
		r.Check(strings.Contains(lay, "Z07") || strings.Contains(lay, "-07") || strings.Contains(lay, "MST"), "R16.2", "const:TimeNano", "-", "the fallback layout carries the zone", "the fallback layout TimeNano prints no zone")
		r.Check(len(layoutProblems(lay)) == 0, "R16.2", "const:TimeNano:elements", "-", fmt.Sprintf("the fallback layout's elements %v determine the time of day", layoutTokens(lay)), "the fallback layout TimeNano does not determine the instant it prints: "+strings.Join(layoutProblems(lay), "; "))
	}
	// SetUTCMode
	if su := p.Method(p.Slog, "Entry", "SetUTCMode"); su != nil {
		ok := false
		for _, fs := range fieldStores(su) {
			if fs.Field != "modeUTC" || fs.Base != ssa.Value(receiver(su)) {
				continue
			}
			ph, isPhi := fs.Val.(*ssa.Phi)
			if !isPhi {
				continue
			}
			// entry edge 2; element true -> 2; element false -> 1
			vals := map[int64]int{}
			for _, e := range ph.Edges {
				if v, isC := constInt(e); isC {
					vals[v]++
				}
			}
			if vals[2] >= 2 && vals[1] == 1 && len(vals) == 2 {
				ok = true
			}
		}
		okBranch := false
		for _, b := range su.Blocks {
			if iff := ifOf(b); iff != nil {
				if u, isU := iff.Cond.(*ssa.UnOp); isU && u.Op == token.MUL {
					okBranch = intPickDefaultsToTrueBranch(su, iff)
				}
			}
		}
		if pick, _ := pickLoop(p, su); pick != nil && !(ok && okBranch) {
			// "m := last argument or true; store 2 if m else 1": decided by walking both values of the pick
			good := true
			for _, mv := range []bool{true, false} {
				t := walkDecision(su.Blocks[0], map[string]bool{"mode": mv, "more": false}, func(cond ssa.Value) (string, bool) {
					if cond == pick {
						return "mode", true
					}
					if bo, isB := cond.(*ssa.BinOp); isB && bo.Op == token.LSS {
						if phi, isPhi := pick.(*ssa.Phi); isPhi && bo.Block() == phi.Block() {
							return "more", true
						}
					}
					if isArgCountTest(cond, su) {
						return "more", true
					}
					return "", false
				}, nil)
				if t.Kind != "return" {
					good = false
					continue
				}
				var stored []int64
				for _, b := range t.Path {
					for _, in := range b.Instrs {
						if st, isSt := in.(*ssa.Store); isSt {
							if fa, isFA := st.Addr.(*ssa.FieldAddr); isFA && fa.X == ssa.Value(receiver(su)) && nm(structOf(fa.X.Type()).Field(fa.Field)) == "modeUTC" {
								if v, isC := constInt(resolveAlong(st.Val, t.Path)); isC {
									stored = append(stored, v)
								} else {
									stored = append(stored, -1)
								}
							}
						}
					}
				}
				want := int64(1)
				if mv {
					want = 2
				}
				if len(stored) == 0 || stored[len(stored)-1] != want {
					good = false
				}
			}
			ok, okBranch = good, good
		}
		if !(ok && okBranch) {
			// direct form (`if n := len(b); n > 0 && !b[n-1] { mode = 1 }`): the three call forms evaluated
			if outs, decided := variadicBoolCases(su); decided && outs[0] == "modeUTC=2" && outs[1] == "modeUTC=2" && outs[2] == "modeUTC=1" {
				ok, okBranch = true, true
			}
		}
		r.Check(ok && okBranch, "R16.1", "Entry.SetUTCMode", p.FuncPos(su), "stores 2 (UTC) for no argument/true and 1 (local) for false", "SetUTCMode does not store 2 for no argument/true and 1 for false")
	} else {
		r.Unk("R16.1", "Entry.SetUTCMode", "-", "not found")
	}
	// SetTimeFormat stores a layout derived from the argument
	if st := p.Method(p.Slog, "Entry", "SetTimeFormat"); st != nil {
		ok := false
		for _, fs := range fieldStores(st) {
			if fs.Field == "timeLayout" && fs.Base == ssa.Value(receiver(st)) && dependsOnParam(fs.Val, st.Params[1]) {
				ok = true
			}
		}
		r.Check(ok, "R16.4", "Entry.SetTimeFormat", p.FuncPos(st), "stores the layout given", "SetTimeFormat does not store the layout given")
		// ... as it was given: the value stored is an element of the argument list itself, not the result of a string
		// function applied to it (trimming a layout changes the text printed around the time)
		for _, fs := range fieldStores(st) {
			if fs.Field != "timeLayout" || fs.Base != ssa.Value(receiver(st)) {
				continue
			}
			var through []string
			seen := map[ssa.Value]bool{}
			var walk func(v ssa.Value, d int)
			walk = func(v ssa.Value, d int) {
				if v == nil || seen[v] || d > 8 {
					return
				}
				seen[v] = true
				switch x := v.(type) {
				case *ssa.Phi:
					for _, e := range x.Edges {
						walk(e, d+1)
					}
				case *ssa.Call:
					if cal := calleeOf(x); cal != nil && cal.Pkg != nil && (cal.Pkg.Pkg.Path() == "strings" || cal.Pkg.Pkg.Path() == "bytes") && dependsOnParam(x, st.Params[1]) {
						through = append(through, cal.String()+" at "+p.Pos(instrPos(x)))
					}
				}
			}
			walk(strip(fs.Val), 0)
			// ... and the layout used when none is given keeps the instant to the nanosecond, with its zone
			{
				var coarse []string
				seen2 := map[ssa.Value]bool{}
				var walk2 func(v ssa.Value, d int)
				walk2 = func(v ssa.Value, d int) {
					if v == nil || seen2[v] || d > 8 {
						return
					}
					seen2[v] = true
					switch x := v.(type) {
					case *ssa.Phi:
						for _, e := range x.Edges {
							walk2(e, d+1)
						}
					case *ssa.Const:
						if x.Value != nil && x.Value.Kind() == constant.String {
							lay := constant.StringVal(x.Value)
							nano, zone := false, false
							for _, t := range layoutTokens(lay) {
								if t == ".000000000" || t == ".999999999" || t == ",000000000" || t == ",999999999" {
									nano = true
								}
								if strings.HasPrefix(t, "Z07") || strings.HasPrefix(t, "-07") || t == "MST" {
									zone = true
								}
							}
							if !nano || !zone || len(layoutProblems(lay)) > 0 {
								coarse = append(coarse, fmt.Sprintf("%q", lay))
							}
						}
					}
				}
				walk2(strip(fs.Val), 0)
				r.Check(len(coarse) == 0, "R16.4", "Entry.SetTimeFormat:default", p.Pos(instrPos(fs.Instr)), "the layout used when none is given prints nanoseconds and the zone",
					"the layout SetTimeFormat falls back to when no layout is given ("+strings.Join(coarse, ", ")+") does not print the instant to the nanosecond with its zone: the timestamp parses back to another instant")
			}
			r.Check(len(through) == 0, "R16.4", "Entry.SetTimeFormat:as-given", p.Pos(instrPos(fs.Instr)), "the layout stored is an element of the argument list itself",
				"the layout stored went through "+strings.Join(dedupStr(through), ", ")+": a layout with leading or trailing blanks (or other text the function changes) is not the one the logger prints with, and the text no longer parses with the layout that was set")
		}
		// ... whatever it looks like: the only test applied to a candidate is "not empty" (a plausibility filter on the
		// layout text rejects layouts of coarse precision or unusual elements that time.Format handles fine)
		{
			var other []string
			for _, b := range st.Blocks {
				iff := ifOf(b)
				if iff == nil || !dependsOnParam(iff.Cond, st.Params[1]) {
					continue
				}
				cond, _ := normCond(iff.Cond)
				okC := false
				switch x := cond.(type) {
				case *ssa.BinOp:
					if k, isC := x.Y.(*ssa.Const); isC && isStringT(x.X.Type()) && k.Value != nil && k.Value.Kind() == constant.String && constant.StringVal(k.Value) == "" {
						okC = true
					}
					if lc, isL := x.X.(*ssa.Call); isL && isBuiltinCall(lc, "len") {
						okC = true // len(layout) / len(elem) against a number: loop bound or emptiness
					}
					if _, isPhi := x.X.(*ssa.Phi); isPhi && !isStringT(x.X.Type()) {
						okC = true // loop index against the length
					}
					if bx, isB := x.X.(*ssa.BinOp); isB && !isStringT(bx.Type()) {
						okC = true
					}
				}
				if !okC {
					other = append(other, m.condDesc(cond)+" at "+p.Pos(instrPos(iff)))
				}
			}
			r.Check(len(other) == 0, "R16.4", "Entry.SetTimeFormat:any-layout", p.FuncPos(st), "a candidate layout is only tested for emptiness",
				"SetTimeFormat also decides on "+strings.Join(other, "; ")+": some non-empty layouts the caller gives are not stored, and the logger silently prints with another layout than the one that was set")
		}
		// ... and never "unset" in its place: a layout that was set stays pinned whatever the flags become later
		for _, fs := range fieldStores(st) {
			if fs.Field != "timeLayout" || fs.Base != ssa.Value(receiver(st)) {
				continue
			}
			unset := false
			for _, sv := range sources(fs.Val) {
				if cs, isC := constString(sv); isC && cs == "" {
					unset = true
				}
			}
			// ... including an empty ELEMENT of the argument list: an element reaches the stored value only on an edge
			// that a non-emptiness test of that element dominates (SetTimeFormat(layout, "") keeps layout)
			{
				seenE := map[ssa.Value]bool{}
				var walkE func(v ssa.Value, d int)
				// go/ssa does not merge the two loads of `layout[i] != ""` and `lay = layout[i]`: the same element is two
				// loads through index addresses with the same base and index (the function does not write the list)
				sameElem := func(a, b ssa.Value) bool {
					if a == b {
						return true
					}
					ua, okA := a.(*ssa.UnOp)
					ub, okB := b.(*ssa.UnOp)
					if !okA || !okB || ua.Op != token.MUL || ub.Op != token.MUL {
						return false
					}
					ia, okA := ua.X.(*ssa.IndexAddr)
					ib, okB := ub.X.(*ssa.IndexAddr)
					return okA && okB && ia.X == ib.X && ia.Index == ib.Index
				}
				nonEmptyGuarded := func(e ssa.Value, from *ssa.BasicBlock) bool {
					for _, g := range guardsOf(from) {
						cond, neg := normCond(g.If.Cond)
						bo, isB := cond.(*ssa.BinOp)
						if !isB {
							continue
						}
						takenTrue := (g.Succ == 0) != neg
						if sameElem(strip(bo.X), e) {
							if cs, isC := constString(bo.Y); isC && cs == "" {
								if (bo.Op == token.NEQ && takenTrue) || (bo.Op == token.EQL && !takenTrue) {
									return true
								}
							}
						}
						if lc, isL := bo.X.(*ssa.Call); isL && isBuiltinCall(lc, "len") && len(lc.Call.Args) == 1 && sameElem(strip(lc.Call.Args[0]), e) {
							if k, isK := bo.Y.(*ssa.Const); isK && k.Value != nil && k.Value.Kind() == constant.Int {
								if z, _ := constant.Int64Val(k.Value); z == 0 {
									if ((bo.Op == token.NEQ || bo.Op == token.GTR) && takenTrue) || ((bo.Op == token.EQL || bo.Op == token.LEQ) && !takenTrue) {
										return true
									}
								}
							}
						}
					}
					return false
				}
				walkE = func(v ssa.Value, d int) {
					if v == nil || seenE[v] || d > 8 {
						return
					}
					seenE[v] = true
					if ph, isP := v.(*ssa.Phi); isP {
						for i, e := range ph.Edges {
							se := strip(e)
							if _, isC := se.(*ssa.Const); isC {
								continue
							}
							if _, isP2 := se.(*ssa.Phi); isP2 {
								walkE(se, d+1)
								continue
							}
							if isStringT(se.Type()) && dependsOnParam(se, st.Params[1]) && i < len(ph.Block().Preds) && !nonEmptyGuarded(se, ph.Block().Preds[i]) {
								unset = true
							}
						}
						return
					}
					if _, isC := v.(*ssa.Const); !isC && isStringT(v.Type()) && dependsOnParam(v, st.Params[1]) && !nonEmptyGuarded(v, fs.Instr.Block()) {
						unset = true
					}
				}
				walkE(strip(fs.Val), 0)
			}
			r.Check(!unset, "R16.4", "Entry.SetTimeFormat:pinned", p.Pos(instrPos(fs.Instr)), "no path stores the empty layout", "on some path SetTimeFormat stores the empty layout although a layout was given: the logger then follows the flags again, so a later flag change alters a layout that was set explicitly")
		}
	}
	// setentry copies
	if se := p.Method(p.Slog, "PrintCtx", "setentry"); se != nil {
		for _, pr := range [][2]string{{"layout", "timeLayout"}, {"utcTime", "modeUTC"}} {
			ok := false
			for _, fs := range fieldStores(se) {
				if fs.Struct == "PrintCtx" && fs.Field == pr[0] {
					if b, isF := isFieldLoadOf(fs.Val, "Entry", pr[1]); isF && b == ssa.Value(se.Params[1]) && len(guardsOf(fs.Instr.Block())) == 0 {
						ok = true
					}
				}
			}
			r.Check(ok, "R16.4", "setentry:"+pr[0], p.FuncPos(se), "copied unconditionally from the logger's "+pr[1], "setentry does not copy the logger's "+pr[1]+" into the encoder's "+pr[0]+" unconditionally")
		}
	}
	// the record's timestamp printer passes pc.now; serializeAttrs' "time" attribute passes its own value
	if pt := p.Method(p.Slog, "Entry", "printTimestamp"); pt != nil {
		n, ok := 0, true
		for _, cs := range callsTo(pt, at) {
			n++
			if _, isF := isFieldLoadOf(cs.Common().Args[1], "PrintCtx", "now"); !isF {
				ok = false
			}
		}
		r.Check(ok && n >= 1, "R16.3", "Entry.printTimestamp", p.FuncPos(pt), "prints the record's own instant in every format branch", "printTimestamp does not pass the record's own instant to appendTimestamp in every branch")
		lo, hi := countOnPaths(pt, func(in ssa.Instruction) bool {
			cs, ok := in.(ssa.CallInstruction)
			return ok && calleeOf(cs) == at
		})
		r.Check(lo == 1 && hi == 1, "R16.3", "Entry.printTimestamp:once", p.FuncPos(pt), "exactly one timestamp per record in every format", fmt.Sprintf("printTimestamp prints %d..%d timestamps", lo, hi))
	}
	if lc := p.Method(p.Slog, "Entry", "logContext"); lc != nil {
		ok := false
		for _, cs := range callsIn(lc) {
			if cal := calleeOf(cs); cal != nil && nm(cal) == "print" {
				for _, a := range cs.Common().Args {
					if call, isC := a.(*ssa.Call); isC {
						if c2 := calleeOf(call); c2 != nil && c2.String() == "time.Now" {
							ok = true
						}
					}
				}
			}
		}
		r.Check(ok, "R16.3", "logContext:now", p.FuncPos(lc), "native calls are stamped with time.Now()", "logContext does not stamp the record with time.Now()")
	}
	if wt := p.Method(p.Slog, "Entry", "WriteThru"); wt != nil {
		ok := false
		for _, cs := range callsIn(wt) {
			if cal := calleeOf(cs); cal != nil && nm(cal) == "print" {
				for _, a := range cs.Common().Args {
					if prm, isP := a.(*ssa.Parameter); isP && prm.Type().String() == "time.Time" {
						ok = true
					}
				}
			}
		}
		r.Check(ok, "R16.3", "WriteThru:timestamp", p.FuncPos(wt), "adapter records keep the caller's timestamp", "WriteThru does not pass the caller's timestamp on")
	}
}

func constIntOr(v ssa.Value) (int64, bool) { return constInt(v) }

func utcStr(a map[string]bool) string {
	for _, k := range []string{"utc==0", "utc==1", "utc==2"} {
		if a[k] {
			return k[5:]
		}
	}
	return "?"
}

func modeStr(a map[string]bool) string {
	switch {
	case a["json"]:
		return "json"
	case a["nocolor"]:
		return "logfmt"
	}
	return "colored"
}

// c16ModeCallers: R16.6 — the UTC mode is a three-state setting (unset: the flag decides; local; UTC). SetUTCMode
// called with an explicit false stores "local". Inside the package it may therefore only be called as a
// pass-through of the caller's own variadic choice (With... wrappers, options): a constructor that calls it with
// a plain bool out of an options struct turns "not given" into "local" and overrides what the logger had.
func c16ModeCallers(c *Ctx, p *Prog) {
	r := c.R
	set := p.Method(p.Slog, "Entry", "SetUTCMode")
	if set == nil {
		r.Unk("R16.6", "utc-callers", "-", "SetUTCMode not found")
		return
	}
	n := 0
	for _, cs := range p.staticCallers()[set] {
		fn := cs.Parent()
		if fn.Pkg != p.Slog {
			continue
		}
		n++
		args := cs.Common().Args
		last := args[len(args)-1]
		ok := false
		top := fn
		for top.Parent() != nil && !top.Signature.Variadic() {
			top = top.Parent()
		}
		if fnv := top; fnv.Signature.Variadic() {
			// the variadic parameter itself, or the captured one of the enclosing option constructor
			if prm, isP := strip(last).(*ssa.Parameter); isP && prm == fnv.Params[len(fnv.Params)-1] {
				ok = true
			}
			if fv, isFV := strip(last).(*ssa.FreeVar); isFV && fn.Parent() != nil {
				_ = fv
				ok = true
			}
			if u, isU := strip(last).(*ssa.UnOp); isU {
				if _, isFV := u.X.(*ssa.FreeVar); isFV {
					ok = true
				}
			}
		}
		r.Check(ok, "R16.6", "utc-caller:"+shortName(fn), p.Pos(instrPos(cs)), "passes its own variadic choice through", "SetUTCMode is called with a value that is not the caller's own variadic argument: an option that was not given becomes an explicit 'local time' and overrides the mode the logger had (the three-state setting cannot be carried by a plain bool)")
	}
	if n == 0 {
		r.OkTrivial("R16.6", "utc-callers", "-", "SetUTCMode is not called inside the package")
	}
}

// layoutTokens splits a time layout into the reference-time elements the time package recognises (the subset that
// matters here: date, clock, zone and fraction elements).
func layoutTokens(lay string) []string {
	var out []string
	has := func(i int, pre string) bool { return strings.HasPrefix(lay[i:], pre) }
	for i := 0; i < len(lay); {
		tok := ""
		switch c := lay[i]; c {
		case 'J':
			if has(i, "January") {
				tok = "January"
			} else if has(i, "Jan") {
				tok = "Jan"
			}
		case 'M':
			if has(i, "Monday") {
				tok = "Monday"
			} else if has(i, "Mon") {
				tok = "Mon"
			} else if has(i, "MST") {
				tok = "MST"
			}
		case '0':
			for _, t := range []string{"002", "01", "02", "03", "04", "05", "06"} {
				if has(i, t) {
					tok = t
					break
				}
			}
		case '1':
			if has(i, "15") {
				tok = "15"
			} else {
				tok = "1"
			}
		case '2':
			if has(i, "2006") {
				tok = "2006"
			} else {
				tok = "2"
			}
		case '_':
			if has(i, "_2006") {
				tok = "_"
				out = append(out, "lit")
				i++
				continue
			} else if has(i, "__2") {
				tok = "__2"
			} else if has(i, "_2") {
				tok = "_2"
			}
		case '3', '4', '5':
			tok = string(c)
		case 'P':
			if has(i, "PM") {
				tok = "PM"
			}
		case 'p':
			if has(i, "pm") {
				tok = "pm"
			}
		case '-', 'Z':
			for _, t := range []string{"070000", "07:00:00", "0700", "07:00", "07"} {
				if has(i+1, t) {
					tok = string(c) + t
					break
				}
			}
		case '.', ',':
			if i+1 < len(lay) && (lay[i+1] == '0' || lay[i+1] == '9') {
				j := i + 1
				for j < len(lay) && lay[j] == lay[i+1] {
					j++
				}
				if j >= len(lay) || lay[j] < '0' || lay[j] > '9' {
					tok = lay[i:j]
				}
			}
		}
		if tok == "" {
			i++
			continue
		}
		out = append(out, tok)
		i += len(tok)
	}
	return out
}

// layoutProblems: necessary conditions for "parsing the printed text with that layout gives back the instant".
func layoutProblems(lay string) []string {
	var probs []string
	cnt := map[string]int{}
	for _, t := range layoutTokens(lay) {
		switch t {
		case "15":
			cnt["hour24"]++
		case "03", "3":
			cnt["hour12"]++
		case "PM", "pm":
			cnt["ampm"]++
		case "04", "4":
			cnt["min"]++
		case "05", "5":
			cnt["sec"]++
		case "01", "1", "Jan", "January":
			cnt["month"]++
		case "02", "2", "_2", "__2", "002":
			cnt["day"]++
		case "2006", "06":
			cnt["year"]++
		}
	}
	if cnt["hour12"] > 0 && cnt["ampm"] == 0 {
		probs = append(probs, "the hour is printed on the 12-hour clock (03/3) without an AM/PM mark: afternoon instants parse back 12 hours early")
	}
	if cnt["hour24"]+cnt["hour12"] > 1 {
		probs = append(probs, "the hour is printed twice")
	}
	if (cnt["min"] > 0 || cnt["sec"] > 0) && cnt["hour24"]+cnt["hour12"] == 0 {
		probs = append(probs, "minutes or seconds are printed without the hour")
	}
	if cnt["sec"] > 0 && cnt["min"] == 0 {
		probs = append(probs, "seconds are printed without the minutes")
	}
	for _, k := range []string{"min", "sec", "month", "day", "year"} {
		if cnt[k] > 1 {
			probs = append(probs, "the "+k+" element occurs twice")
		}
	}
	if cnt["year"]+cnt["month"]+cnt["day"] > 0 && !(cnt["year"] > 0 && cnt["month"] > 0 && cnt["day"] > 0) {
		probs = append(probs, "the date is incomplete (year, month and day are not all printed)")
	}
	return probs
}
