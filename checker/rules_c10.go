package main

import (
	"fmt"
	"go/constant"
	"go/token"
	"go/types"
	"sort"
	"strings"

	"golang.org/x/tools/go/ssa"
)

func init() { register("C10", checkC10) }

// setterWriteSets: the fields a Set-style method may write (through its receiver), and nothing else.
var setterWriteSets = map[string][]string{
	"SetLevel":          {"level"},
	"SetJSONMode":       {"useJSON", "useColor"},
	"SetColorMode":      {"useJSON", "useColor"},
	"SetUTCMode":        {"modeUTC"},
	"SetTimeFormat":     {"timeLayout"},
	"SetAttrs":          {"attrs"},
	"SetAttrs1":         {"attrs"},
	"Set":               {"attrs"},
	"SetSkip":           {"extraFrames"},
	"withSkip":          {"extraFrames"},
	"SetContextKeys":    {"contextKeys"},
	"ResetContextKeys":  {"contextKeys"},
	"SetValueStringer":  {"valueStringer"},
	"SetWriter":         {"writer"},
	"AddWriter":         {"writer"},
	"RemoveWriter":      {"writer"},
	"SetErrorWriter":    {"writer"},
	"AddErrorWriter":    {"writer"},
	"RemoveErrorWriter": {"writer"},
	"ResetWriters":      {"writer"},
	"AddLevelWriter":    {"writer"},
	"RemoveLevelWriter": {"writer"},
	"ResetLevelWriter":  {"writer"},
	"ResetLevelWriters": {"writer"},
}

// withToSet: With-style method -> the mutator it must apply to the child.
var withToSet = map[string][]string{
	"WithJSONMode":      {"SetJSONMode"},
	"WithColorMode":     {"SetColorMode"},
	"WithUTCMode":       {"SetUTCMode"},
	"WithTimeFormat":    {"SetTimeFormat"},
	"WithLevel":         {"SetLevel"},
	"WithAttrs":         {"SetAttrs"},
	"WithAttrs1":        {"SetAttrs1"},
	"With":              {"Set"},
	"WithValueStringer": {"SetValueStringer"},
	"WithWriter":        {"SetWriter"},
	"WithErrorWriter":   {"SetErrorWriter"},
	"WithSkip":          {"withSkip", "SetSkip"},
	"WithContextKeys":   {"SetContextKeys"},
}

func checkC10(c *Ctx) {
	r := c.R
	r.Rule("R10.9", "anonymous children are distinct: newChildLogger uses the caller's name as the registry key only on the edge where the argument was asserted to be a string AND tested non-empty; every other child gets a fresh random name")
	r.Rule("R10.10", "an option configures the logger it is given: in the closure of every package-level Opt constructor the configuring call is a method on the closure's own parameter, never the package-level namesake (which configures the default logger)")
	r.Rule("R10.1", "isolation as a frame condition: every store to a field of Entry (plain store, map update, element store, field address handed to a callee) goes through the method's receiver, an Entry allocated in the same function, or the parameter of an option closure; every in-package call of a mutator method is made on the caller's own receiver, on the child just returned by newChildLogger, on a fresh logger or on an allow-listed operand; attrs/contextKeys are only assigned append(own field, ...) or a fresh slice, and writer only a fresh dualWriter")
	r.Rule("R10.2", "With vs Set: each WithX obtains a child from the receiver's newChildLogger, applies the namesake setter to that child with its own arguments and returns the child, storing nothing through the receiver; each SetX stores only to its own fields and returns the receiver on every path")
	r.Rule("R10.3", "inheritance at creation: newentry stores useJSON/useColor/level as (detached default | the parent's value) selected by parent != nil, the defaults being false/true/GetLevel(); owner is the parent parameter; nothing else is read from the parent")
	r.Rule("R10.4", "name index: newChildLogger returns the receiver's existing items[name] or stores newentry(receiver, ...) under that same key and returns it; an empty/absent name gets a generated one; WithSkip(n)'s child name depends on n; the package-level New passes a nil parent")
	r.Rule("R10.5", "navigation: Parent returns owner; Root follows owner to nil; Each visits the receiver at depth 0 and forEachLogger visits each child exactly once at depth+1")
	r.Rule("R11.1", "(shared with C11) a child 'carrying the new setting' carries the format the mode call denotes: the transition functions of SetJSONMode/SetColorMode equal the documented table")
	r.Rule("R03.1", "(shared with C03) routing decision and tables")
	r.Rule("R03.2", "(shared with C03) writer isolation at creation: a new writer set is initialised by Reset() with fresh lists of its own (no package-level list shared between loggers, whose spare capacity a later AddWriter of one logger would write into for all)")
	r.Rule("R10.8", "package-level namesakes: a package-level function that has a namesake among the default logger's methods and calls a method on the default logger calls that namesake (SetSkip sets, WithSkip derives)")
	r.Rule("R10.7", "argument lists belong to the caller: no function of the package stores into an element of its variadic or []any parameter (directly, through a re-slice or a join), so New(list...) called twice with one list creates two loggers")
	r.Rule("R10.6", "default level: init stores WarnLevel to the package default before the environment-dependent overrides, ResetLevel restores WarnLevel, GetLevel returns that variable and newentry's detached default is GetLevel()")
	r.Assume("option closures (Opt) are applied by newentry to the logger under construction only")
	for _, tags := range c.Configs([]string{""}, []string{"", "verbose", "hint"}) {
		p := c.Prog(tags)
		if p == nil {
			continue
		}
		m, err := BuildModel(p)
		if err != nil {
			r.Unk("R10.1", "model", "-", "%v", err)
			continue
		}
		c10Frames(c, p, m)
		c10WithSet(c, p, m)
		c10Creation(c, p, m)
		childNameDecision(c, p, "R10.9")
		optionConsumed(c, p, "R10.3")
		searchLoopExits(c, p, "R10.5", "Entry", "findSublogger")
		optionsOnOwnLogger(c, p, "R10.10")
		lookupHitIsPure(c, p, "R10.4")
		registryOnlyGrows(c, p, "R10.5")
		c10Navigation(c, p, m)
		freshChildren(c, p, m, "R10.4", nil)
		optionsInOrder(c, p, "R10.3")
		callerArgsUntouched(c, p, "R10.7")
		packageNamesakes(c, p, "R10.8")
		c11Transitions(c, p, m)
		c03Routing(c, p, m)
	}
	c.Floor["R10.1"] = 40
	c.Floor["R10.2"] = 30
	c.Floor["R10.3"] = 5
	c.Floor["R10.4"] = 4
	c.Floor["R10.7"] = 10
}

func isOptClosure(fn *ssa.Function) bool {
	if fn.Parent() != nil && len(fn.Params) == 1 && typeName(fn.Params[0].Type()) == "Entry" && fn.Signature.Recv() == nil {
		return true
	}
	// an option body written as a method of a small struct that bundles the option's arguments: func (o T) f(s *Entry)
	if rv := fn.Signature.Recv(); rv != nil && typeName(rv.Type()) != "Entry" && fn.Parent() == nil && len(fn.Params) == 2 &&
		typeName(fn.Params[1].Type()) == "Entry" && fn.Signature.Results().Len() == 0 && fn.Object() != nil && !fn.Object().Exported() {
		if _, isStruct := rv.Type().Underlying().(*types.Struct); isStruct {
			return true
		}
	}
	return false
}

// entryMutators: methods of Entry that (transitively, through calls on their receiver) store to receiver fields.
func entryMutators(p *Prog) map[*ssa.Function]bool {
	mut := map[*ssa.Function]bool{}
	var ms []*ssa.Function
	for _, fn := range p.RepoFuncs() {
		if fn.Signature.Recv() != nil && typeName(fn.Signature.Recv().Type()) == "Entry" && fn.Parent() == nil {
			ms = append(ms, fn)
		}
	}
	for _, fn := range ms {
		for _, fs := range fieldStores(fn) {
			if fs.Struct == "Entry" && fs.Base == ssa.Value(receiver(fn)) && fs.Field != "items" {
				mut[fn] = true
			}
		}
	}
	changed := true
	for changed {
		changed = false
		for _, fn := range ms {
			if mut[fn] {
				continue
			}
			for _, cs := range callsIn(fn) {
				if cal := calleeOf(cs); cal != nil && mut[cal] && len(cs.Common().Args) > 0 && cs.Common().Args[0] == ssa.Value(receiver(fn)) {
					mut[fn] = true
					changed = true
				}
			}
		}
	}
	return mut
}

// loggerProvenance resolves chains like x.SetColorMode(..).SetJSONMode(..): a setter returns its receiver.
func loggerProvenance(v ssa.Value, fn *ssa.Function) string {
	for i := 0; i < 6; i++ {
		call, ok := strip(v).(*ssa.Call)
		if !ok {
			break
		}
		name := invokeName(call)
		var recv ssa.Value
		if cal := calleeOf(call); cal != nil && cal.Signature.Recv() != nil {
			name = nm(cal)
			recv = call.Common().Args[0]
		} else if name != "" {
			recv = call.Common().Value
		}
		if _, isSetter := setterWriteSets[name]; isSetter && recv != nil {
			v = recv
			continue
		}
		break
	}
	return provenance(v, fn)
}

func c10Frames(c *Ctx, p *Prog, m *Model) {
	r := c.R
	mut := entryMutators(p)
	nStores := 0
	for _, fn := range p.RepoFuncs() {
		if fn.Pkg != p.Slog && fn.Parent() == nil {
			continue
		}
		for _, fs := range fieldStores(fn) {
			if fs.Struct != "Entry" {
				continue
			}
			nStores++
			prov := provenance(fs.Base, fn)
			key := fmt.Sprintf("store:%s:%s(%s)", shortName(fn), fs.Field, fs.Kind)
			okBase := prov == "receiver" || prov == "fresh" || (isOptClosure(fn) && strings.HasPrefix(prov, "param:"))
			if !okBase && prov == "call:Entry.newChildLogger" && fn.Signature.Recv() != nil && strings.HasPrefix(fn.Name(), "With") {
				// the child a With... method has just obtained from its own receiver (shape decided by R10.2)
				if call, isCall := strip(fs.Base).(*ssa.Call); isCall && len(call.Common().Args) > 0 && call.Common().Args[0] == ssa.Value(receiver(fn)) {
					okBase = true
				}
			}
			if !okBase {
				r.Bad("R10.1", key, p.Pos(instrPos(fs.Instr)), "field %s of ANOTHER logger is written (base: %s): an operation on one logger changes the %s of a different one", fs.Field, prov, fs.Field)
				continue
			}
			// value shape for the aliasable fields
			why := ""
			switch {
			case fs.Kind == "addr-escape":
				// &s.attrs handed to argsToAttrs: appends into the logger's own slice
				if cs, ok := fs.Instr.(ssa.CallInstruction); ok {
					if cal := calleeOf(cs); cal == nil || nm(cal) != "argsToAttrs" {
						why = "the address of a logger field is handed to " + callName(cs)
					}
				}
			case fs.Field == "writer" && fs.Kind == "store":
				okv := isNilConst(fs.Val)
				if call, ok := strip(fs.Val).(*ssa.Call); ok {
					if cal := calleeOf(call); cal != nil && nm(cal) == "newDualWriter" {
						okv = true
					}
				}
				if !okv {
					why = "the writer set assigned is not a fresh one (" + m.valDesc(fs.Val) + "): two loggers would share destinations"
				}
			case (fs.Field == "attrs" || fs.Field == "contextKeys") && fs.Kind == "store":
				if !freshOrOwnAppend(fs.Val, fs.Base, fs.Field) {
					why = "the slice assigned to " + fs.Field + " is neither append(own " + fs.Field + ", ...) nor a fresh slice (" + m.valDesc(fs.Val) + "): the logger would alias a caller's or another logger's backing array"
				}
			case fs.Field == "items" && fs.Kind == "store":
				if _, ok := strip(fs.Val).(*ssa.MakeMap); !ok && !isNilConst(fs.Val) {
					why = "the child index assigned is not a fresh map"
				}
			case fs.Field == "owner":
				if _, ok := fs.Val.(*ssa.Parameter); !ok {
					why = "owner is not set from the parent parameter"
				}
			}
			if why != "" {
				r.Bad("R10.1", key, p.Pos(instrPos(fs.Instr)), "%s", why)
			} else {
				r.Ok("R10.1", key, p.Pos(instrPos(fs.Instr)), "written through %s only", prov)
			}
		}
	}
	if nStores == 0 {
		r.Unk("R10.1", "store:none", "-", "no store to a field of Entry found: anchors lost")
	}
	// calls of mutators
	allow := map[string]string{
		"SetLevel->invoke SetLevel":           "package-level SetLevel configures the default logger (documented)",
		"SetSkip->invoke SetSkip":             "package-level SetSkip configures the default logger (documented)",
		"WithSkip->invoke WithSkip":           "package-level WithSkip derives a child of the default logger (documented)",
		"NewSlogHandler->invoke SetLevel":     "NewSlogHandler configures the logger it is given (documented)",
		"NewSlogHandler->invoke SetColorMode": "NewSlogHandler configures the logger it is given (documented)",
		"NewSlogHandler->invoke SetJSONMode":  "NewSlogHandler configures the logger it is given (documented)",
		"NewSlogHandler->SetJSONMode":         "NewSlogHandler configures the logger it is given (documented)",
		"NewSlogHandler->SetColorMode":        "NewSlogHandler configures the logger it is given (documented)",
	}
	// NewSlogHandler(logger, options) configures the logger it is given, at construction, from the options (documented):
	// any setter applied to its own logger parameter is that
	allowFn := func(fn *ssa.Function, recv ssa.Value) bool {
		if nm(fn) != "NewSlogHandler" || fn.Parent() != nil {
			return false
		}
		for _, sv := range sources(recv) {
			if prm, ok := sv.(*ssa.Parameter); !ok || prm != fn.Params[0] {
				if call, isCall := sv.(*ssa.Call); isCall && invokeName(call) != "" {
					continue // a setter's own result (setters return their receiver): chained configuration
				}
				return false
			}
		}
		return true
	}
	for _, fn := range p.RepoFuncs() {
		if fn.Pkg != p.Slog && fn.Parent() == nil {
			continue
		}
		for _, cs := range callsIn(fn) {
			var recv ssa.Value
			name := ""
			if cal := calleeOf(cs); cal != nil && mut[origin(cal)] {
				recv, name = cs.Common().Args[0], nm(cal)
			} else if in := invokeName(cs); in != "" {
				if _, isSetter := setterWriteSets[in]; isSetter || in == "WithSkip" {
					if n := namedOf(cs.Common().Value.Type()); n != nil && n.Obj().Pkg() == p.Slog.Pkg && (nm(n.Obj()) == "Logger" || nm(n.Obj()) == "BuilderI" || nm(n.Obj()) == "EntryI" || nm(n.Obj()) == "BasicLogger") {
						recv, name = cs.Common().Value, "invoke "+in
					}
				}
			}
			if recv == nil {
				continue
			}
			prov := loggerProvenance(recv, fn)
			key := fmt.Sprintf("mutcall:%s->%s", shortName(fn), name)
			ok := prov == "receiver" || prov == "fresh" || prov == "call:Entry.newChildLogger" || prov == "call:newentry" || prov == "call:newDetachedLogger" || prov == "call:New" ||
				(isOptClosure(fn) && strings.HasPrefix(prov, "param:"))
			if !ok {
				if why, al := allow[shortName(fn)+"->"+name]; al {
					r.OkTrivial("R10.1", key, p.Pos(instrPos(cs)), "allow-listed: %s", why)
					continue
				}
				if allowFn(fn, recv) {
					r.OkTrivial("R10.1", key, p.Pos(instrPos(cs)), "NewSlogHandler configures the logger it is given (documented)")
					continue
				}
				r.Bad("R10.1", key, p.Pos(instrPos(cs)), "a mutator is applied to another logger (%s): configuring one logger reconfigures a different one", prov)
			} else {
				r.Ok("R10.1", key, p.Pos(instrPos(cs)), "mutator applied to %s", prov)
			}
		}
	}
}

// freshOrOwnAppend: v is nil, a make/alloc result, or append(own field of base, ...) possibly through phi.
func freshOrOwnAppend(v, base ssa.Value, field string) bool {
	for _, s := range sources(v) {
		switch x := s.(type) {
		case *ssa.Const:
			if x.Value != nil {
				return false
			}
		case *ssa.MakeSlice:
		case *ssa.Slice:
			if _, ok := x.X.(*ssa.Alloc); !ok {
				return false
			}
		case *ssa.Call:
			if !isBuiltinCall(x, "append") {
				return false
			}
			first := x.Common().Args[0]
			if b, _, f, ok := fieldLoad(strip(first)); ok && nm(f) == field && b == base {
				continue
			}
			if !freshOrOwnAppend(first, base, field) {
				return false
			}
		default:
			return false
		}
	}
	return true
}

func c10WithSet(c *Ctx, p *Prog, m *Model) {
	r := c.R
	ncl := p.Method(p.Slog, "Entry", "newChildLogger")
	if ncl == nil {
		r.Unk("R10.2", "Entry.newChildLogger", "-", "not found")
		return
	}
	var names []string
	for n := range withToSet {
		names = append(names, n)
	}
	sort.Strings(names)
	for _, wn := range names {
		fn := p.Method(p.Slog, "Entry", wn)
		key := "with:Entry." + wn
		if fn == nil {
			r.Unk("R10.2", key, "-", "method not found")
			continue
		}
		recv := receiver(fn)
		var child ssa.Value
		for _, cs := range callsTo(fn, ncl) {
			if cs.Common().Args[0] == ssa.Value(recv) {
				child = cs.Value()
			}
		}
		if child == nil {
			r.Bad("R10.2", key, p.FuncPos(fn), "%s does not obtain a child from the receiver's newChildLogger", wn)
			continue
		}
		var probs []string
		// setter applied on the child with own params
		applied := false
		for _, cs := range callsIn(fn) {
			cal := calleeOf(cs)
			if cal == nil || cal.Signature.Recv() == nil {
				continue
			}
			want := false
			for _, sn := range withToSet[wn] {
				if nm(cal) == sn {
					want = true
				}
			}
			if !want {
				if cal != ncl && typeName(cal.Signature.Recv().Type()) == "Entry" {
					if _, isSetter := setterWriteSets[nm(cal)]; isSetter {
						probs = append(probs, "applies "+nm(cal)+" instead of the namesake setter")
					}
				}
				continue
			}
			if strip(cs.Common().Args[0]) != child {
				probs = append(probs, "the setter is applied to "+provenance(cs.Common().Args[0], fn)+", not to the new child")
				continue
			}
			// all non-receiver parameters are passed on
			for i, prm := range fn.Params[1:] {
				if i+1 >= len(cs.Common().Args) || cs.Common().Args[i+1] != ssa.Value(prm) {
					probs = append(probs, "parameter "+nm(prm)+" is not passed to the setter unchanged")
				}
			}
			applied = true
		}
		if !applied && len(probs) == 0 {
			// the setter folded into the With method: the child's fields of the setter's write set are stored the
			// method's own parameters
			for _, sn := range withToSet[wn] {
				ws := map[string]bool{}
				for _, f := range setterWriteSets[sn] {
					ws[f] = true
				}
				n := 0
				for _, fs := range fieldStores(fn) {
					if fs.Struct == "Entry" && strip(fs.Base) == child && ws[fs.Field] {
						isPrm := false
						for _, prm := range fn.Params[1:] {
							if fs.Val == ssa.Value(prm) {
								isPrm = true
							}
						}
						if isPrm {
							n++
						}
					}
				}
				if n > 0 && n == len(ws) {
					applied = true
				}
			}
		}
		if !applied && len(probs) == 0 {
			probs = append(probs, "the namesake setter is never applied to the child")
		}
		for _, fs := range fieldStores(fn) {
			if fs.Struct == "Entry" && provenance(fs.Base, fn) == "receiver" {
				probs = append(probs, "stores to the receiver's "+fs.Field)
			}
		}
		rets, _ := exitBlocks(fn)
		for _, b := range rets {
			ret := b.Instrs[len(b.Instrs)-1].(*ssa.Return)
			if len(ret.Results) != 1 {
				continue
			}
			rv := ret.Results[0]
			// returning the result of the setter call on the child is the child as well (setters return their receiver)
			if loggerProvenance(rv, fn) != "call:Entry.newChildLogger" {
				probs = append(probs, "does not return the child")
			}
		}
		r.Check(len(probs) == 0, "R10.2", key, p.FuncPos(fn), "child := receiver.newChildLogger(); child."+strings.Join(withToSet[wn], "/")+"(own args); return child", strings.Join(probs, "; "))
	}
	// setters
	var sn []string
	for n := range setterWriteSets {
		sn = append(sn, n)
	}
	sort.Strings(sn)
	for _, n := range sn {
		fn := p.Method(p.Slog, "Entry", n)
		key := "set:Entry." + n
		if fn == nil {
			if n == "withSkip" {
				continue
			}
			r.Unk("R10.2", key, "-", "method not found")
			continue
		}
		allowed := map[string]bool{}
		for _, f := range setterWriteSets[n] {
			allowed[f] = true
		}
		var probs []string
		wrote := map[string]bool{}
		for _, fs := range fieldStores(fn) {
			if fs.Struct != "Entry" {
				continue
			}
			wrote[fs.Field] = true
			if !allowed[fs.Field] && isSettingField(fs.Field) {
				// a field that belongs to ANOTHER setting; private bookkeeping fields of the receiver are not a setting
				probs = append(probs, "also writes "+fs.Field)
			}
		}
		// delegations to the writer set count as writes of writer; calls of other mutators on the receiver are foreign writes
		for _, cs := range callsIn(fn) {
			cal := calleeOf(cs)
			if cal == nil || cal.Signature.Recv() == nil || len(cs.Common().Args) == 0 {
				continue
			}
			if typeName(cal.Signature.Recv().Type()) == "Entry" && cs.Common().Args[0] == ssa.Value(receiver(fn)) {
				if ws, ok := setterWriteSets[nm(cal)]; ok {
					for _, f := range ws {
						if !allowed[f] {
							probs = append(probs, "also calls "+nm(cal)+" (writes "+f+")")
						}
					}
				}
			}
		}
		if n == "SetSkip" {
			// no result by design
		} else {
			rets, _ := exitBlocks(fn)
			for _, b := range rets {
				ret := b.Instrs[len(b.Instrs)-1].(*ssa.Return)
				if len(ret.Results) != 1 || ret.Results[0] != ssa.Value(receiver(fn)) {
					probs = append(probs, "does not return the receiver")
				}
			}
		}
		wroteOwn := false
		for f := range allowed {
			if wrote[f] {
				wroteOwn = true
			}
		}
		if !wroteOwn && !allowed["writer"] {
			probs = append(probs, "never writes "+strings.Join(setterWriteSets[n], "/"))
		}
		r.Check(len(probs) == 0, "R10.2", key, p.FuncPos(fn), "writes only "+strings.Join(setterWriteSets[n], ",")+" of the receiver and returns it", strings.Join(probs, "; "))
	}
}

func c10Creation(c *Ctx, p *Prog, m *Model) {
	r := c.R
	ne := p.Func(p.Slog, "newentry")
	if ne == nil || len(ne.Params) < 1 {
		r.Unk("R10.3", "newentry", "-", "not found")
		return
	}
	parent := ne.Params[0]
	getLevel := p.Func(p.Slog, "GetLevel")
	type want struct {
		def  func(ssa.Value) bool
		desc string
	}
	wants := map[string]want{
		"useJSON":  {func(v ssa.Value) bool { b, ok := constBool(v); return ok && !b }, "false"},
		"useColor": {func(v ssa.Value) bool { b, ok := constBool(v); return ok && b }, "true"},
		"level": {func(v ssa.Value) bool {
			call, ok := v.(*ssa.Call)
			return ok && calleeOf(call) == getLevel
		}, "GetLevel()"},
	}
	seen := map[string]bool{}
	for _, fs := range fieldStores(ne) {
		if fs.Struct != "Entry" || provenance(fs.Base, ne) != "fresh" {
			continue
		}
		w, ok := wants[fs.Field]
		if !ok {
			if fs.Field == "owner" {
				r.Check(fs.Val == ssa.Value(parent), "R10.3", "newentry:owner", p.Pos(instrPos(fs.Instr)), "owner = the parent parameter", "owner is not the parent parameter")
				seen["owner"] = true
			}
			continue
		}
		seen[fs.Field] = true
		key := "newentry:" + fs.Field
		ph, isPhi := fs.Val.(*ssa.Phi)
		if !isPhi || len(ph.Edges) != 2 {
			r.Bad("R10.3", key, p.Pos(instrPos(fs.Instr)), "%s is not (default | parent's value) selected by parent != nil", fs.Field)
			continue
		}
		var defOK, inhOK bool
		for i, e := range ph.Edges {
			pred := ph.Block().Preds[i]
			// the inheriting edge comes from the block dominated by parent != nil
			fromParent := false
			if base, _, f, ok := fieldLoad(strip(e)); ok && base == ssa.Value(parent) && nm(f) == fs.Field {
				fromParent = true
			}
			if call, ok := e.(*ssa.Call); ok {
				if cal := calleeOf(call); cal != nil && nm(cal) == "Level" && call.Common().Args[0] == ssa.Value(parent) && fs.Field == "level" {
					fromParent = true
				}
			}
			if fromParent {
				// guarded by parent != nil
				for _, g := range guardsOf(pred) {
					cond, neg := normCond(g.If.Cond)
					if bo, ok := cond.(*ssa.BinOp); ok && bo.X == ssa.Value(parent) && isNilConst(bo.Y) {
						taken := (g.Succ == 0) != neg
						if (bo.Op == token.NEQ && taken) || (bo.Op == token.EQL && !taken) {
							inhOK = true
						}
					}
				}
				if pred == e.(ssa.Instruction).Block() && !inhOK {
					inhOK = false
				}
			} else if w.def(e) {
				defOK = true
			}
		}
		r.Check(defOK && inhOK, "R10.3", key, p.Pos(instrPos(fs.Instr)), fs.Field+" = parent != nil ? parent's "+fs.Field+" : "+w.desc,
			fmt.Sprintf("%s is not (detached default %s | the parent's %s under parent != nil)", fs.Field, w.desc, fs.Field))
	}
	for _, f := range []string{"useJSON", "useColor", "level", "owner"} {
		if !seen[f] {
			r.Bad("R10.3", "newentry:"+f, p.FuncPos(ne), "newentry never initialises %s", f)
		}
	}
	// nothing else read from the parent
	var extra []string
	for _, b := range ne.Blocks {
		for _, in := range b.Instrs {
			if fa, ok := in.(*ssa.FieldAddr); ok && fa.X == ssa.Value(parent) {
				f := nm(structOf(fa.X.Type()).Field(fa.Field))
				if f != "useJSON" && f != "useColor" && f != "level" {
					// a setting that did not exist when the rules were written (not among the recorded fields of the
					// logger) and is a plain value handed down into the same field of the child is a new inherited
					// setting; sharing of a reference (slice, map, pointer, interface) or of one of the existing
					// settings is what the property excludes
					fv := structOf(fa.X.Type()).Field(fa.Field)
					ref := loadAnchorRef()
					known := ref == nil || ref["field|slog|Entry|"+nm(fv)] != nil
					if bt, isB := fv.Type().Underlying().(*types.Basic); isB && !known && bt.Kind() != types.UnsafePointer && sameFieldOnly(fa, fv.Name()) {
						continue
					}
					extra = append(extra, f)
				}
			}
		}
	}
	r.Check(len(extra) == 0, "R10.3", "newentry:nothing-else", p.FuncPos(ne), "only level and format are copied from the parent", "newentry also copies "+strings.Join(extra, ",")+" from the parent")

	// R10.4 name index
	ncl := p.Method(p.Slog, "Entry", "newChildLogger")
	if ncl == nil {
		r.Unk("R10.4", "Entry.newChildLogger", "-", "not found")
		return
	}
	recv := receiver(ncl)
	var upd *ssa.MapUpdate
	for _, b := range ncl.Blocks {
		for _, in := range b.Instrs {
			if mu, ok := in.(*ssa.MapUpdate); ok {
				if base, ok := isFieldLoadOf(mu.Map, "Entry", "items"); ok && base == ssa.Value(recv) {
					upd = mu
				}
			}
		}
	}
	if upd == nil {
		r.Bad("R10.4", "newChildLogger:create", p.FuncPos(ncl), "no store of a new child into the receiver's items")
	} else {
		call, ok := upd.Value.(*ssa.Call)
		good := ok && calleeOf(call) == ne && call.Common().Args[0] == ssa.Value(recv)
		r.Check(good, "R10.4", "newChildLogger:create", p.Pos(instrPos(upd)), "items[name] = newentry(receiver, args...)", "the new child is not created by newentry with the receiver as parent")
		// returns: lookups of the receiver's items under the same key
		rets, _ := exitBlocks(ncl)
		allOK := len(rets) > 0
		for _, b := range rets {
			ret := b.Instrs[len(b.Instrs)-1].(*ssa.Return)
			for _, s := range sources(ret.Results[0]) {
				var lk *ssa.Lookup
				if ex, ok := s.(*ssa.Extract); ok {
					lk, _ = ex.Tuple.(*ssa.Lookup)
				} else {
					lk, _ = s.(*ssa.Lookup)
				}
				if lk == nil {
					if c2, ok := s.(*ssa.Call); ok && calleeOf(c2) == ne && s == upd.Value {
						continue
					}
					allOK = false
					continue
				}
				base, ok := isFieldLoadOf(lk.X, "Entry", "items")
				if !ok || base != ssa.Value(recv) || lk.Index != upd.Key {
					allOK = false
				}
			}
		}
		r.Check(allOK, "R10.4", "newChildLogger:lookup", p.FuncPos(ncl), "returns the receiver's items[name] (existing or just created) under one and the same key", "newChildLogger returns something other than the receiver's own items[name]: a lookup may return a logger that is not a direct child, or create under a different key")
		// existing child returned only when the lookup succeeded
		// name: generated when absent or empty
		gen := 0
		// (on the key's term, so that a private helper generating the name counts)
		for _, a := range newTermEval(p).eval(upd.Key, nil).alts() {
			if a.contains(func(t *Term) bool { return t.Op == "call" && strings.Contains(t.Name, ".RandomString") }) {
				gen++
			}
		}
		r.Check(gen >= 1, "R10.4", "newChildLogger:anonymous", p.FuncPos(ncl), "an absent or empty name is replaced by a generated one", "no generated name for anonymous children")
	}
	if ws := p.Method(p.Slog, "Entry", "WithSkip"); ws != nil {
		dep := false
		for _, cs := range callsTo(ws, ncl) {
			for _, a := range cs.Common().Args[1:] {
				if dependsOnParam(a, ws.Params[1]) {
					dep = true
				}
			}
		}
		r.Check(dep, "R10.4", "WithSkip:name", p.FuncPos(ws), "the child's name depends on n (one child per n)", "WithSkip's child name does not depend on n: different skip counts share one child")
	}
	if nd := p.Func(p.Slog, "newDetachedLogger"); nd != nil {
		ok := false
		for _, cs := range callsTo(nd, ne) {
			if isNilConst(cs.Common().Args[0]) {
				ok = true
			}
		}
		r.Check(ok, "R10.4", "newDetachedLogger:parent", p.FuncPos(nd), "package-level New creates a logger without parent", "package-level New does not pass a nil parent")
	}
	// R10.6
	if getLevel != nil {
		rets, _ := exitBlocks(getLevel)
		ok := len(rets) == 1
		if ok {
			g, isG := globalLoad(rets[0].Instrs[len(rets[0].Instrs)-1].(*ssa.Return).Results[0])
			ok = isG && nm(g) == "lvlCurrent"
		}
		r.Check(ok, "R10.6", "GetLevel", p.FuncPos(getLevel), "returns the package default level", "GetLevel does not return the package default level variable")
	}
	warn := m.LevelByName["WarnLevel"]
	if rl := p.Func(p.Slog, "ResetLevel"); rl != nil {
		ok := false
		for _, cs := range callsIn(rl) {
			if cal := calleeOf(cs); cal != nil && nm(cal) == "SetLevel" {
				if v, isC := constInt(cs.Common().Args[0]); isC && v == warn {
					ok = true
				}
			}
		}
		r.Check(ok, "R10.6", "ResetLevel", p.FuncPos(rl), "restores WarnLevel", "ResetLevel does not restore WarnLevel")
	}
	// first store to lvlCurrent in init$1 is WarnLevel; start-up helpers that adjust it are called after that store
	nInit := 0
	for _, fn := range p.RepoFuncs() {
		if !p.startupOnly(fn) {
			continue
		}
		var first *GlobalStore
		for _, gs := range globalStores(fn) {
			gs := gs
			if nm(gs.G) == "lvlCurrent" && first == nil {
				first = &gs
			}
		}
		if first == nil {
			continue
		}
		isInit := strings.HasPrefix(fn.Name(), "init") || (fn.Parent() != nil && strings.HasPrefix(fn.Parent().Name(), "init"))
		if !isInit {
			// a helper of the start-up code: each of its call sites must come after a store of the default in the caller
			okAll := true
			for _, cs := range p.staticCallers()[fn] {
				after := false
				for _, gs := range globalStores(cs.Parent()) {
					if nm(gs.G) != "lvlCurrent" {
						continue
					}
					if v, isC := constInt(gs.Val); !isC || v != warn || len(guardsOf(gs.Instr.Block())) != 0 {
						continue
					}
					if gs.Instr.Block() == cs.Block() {
						for _, in := range cs.Block().Instrs {
							if in == gs.Instr {
								after = true
							}
							if in == ssa.Instruction(cs) {
								break
							}
						}
					} else if gs.Instr.Block().Dominates(cs.Block()) {
						after = true
					}
				}
				if !after {
					okAll = false
				}
			}
			r.Check(okAll, "R10.6", "init:lvlCurrent:"+shortName(fn), p.FuncPos(fn), "the start-up helper adjusts the default level only after the factory default was stored by its caller", "a start-up helper stores the default level but is not called after the unconditional WarnLevel store")
			continue
		}
		nInit++
		v, isC := constInt(first.Val)
		uncond := len(guardsOf(first.Instr.Block())) == 0
		r.Check(isC && v == warn && uncond, "R10.6", "init:lvlCurrent", p.Pos(instrPos(first.Instr)), "the factory default is WarnLevel, set unconditionally first", "the first initialisation of the default level is not an unconditional WarnLevel")
	}
	if nInit == 0 {
		r.Unk("R10.6", "init:lvlCurrent", "-", "no package initialiser stores the default level")
	}
}

func c10Navigation(c *Ctx, p *Prog, m *Model) {
	r := c.R
	if fn := p.Method(p.Slog, "Entry", "Parent"); fn != nil {
		rets, _ := exitBlocks(fn)
		ok := len(rets) == 1
		if ok {
			b, isF := isFieldLoadOf(rets[0].Instrs[len(rets[0].Instrs)-1].(*ssa.Return).Results[0], "Entry", "owner")
			ok = isF && b == ssa.Value(receiver(fn))
		}
		r.Check(ok, "R10.5", "Entry.Parent", p.FuncPos(fn), "returns the receiver's owner", "Parent does not return the receiver's owner")
	}
	if fn := p.Method(p.Slog, "Entry", "Root"); fn != nil {
		rets, _ := exitBlocks(fn)
		ok := len(rets) == 1
		why := "Root does not follow owner links from the receiver until owner is nil"
		if ok {
			ret := rets[0].Instrs[len(rets[0].Instrs)-1].(*ssa.Return)
			ph, isPhi := ret.Results[0].(*ssa.Phi)
			ok = isPhi
			if isPhi {
				fromRecv, fromOwner := false, false
				for _, e := range ph.Edges {
					if e == ssa.Value(receiver(fn)) {
						fromRecv = true
					} else if b, isF := isFieldLoadOf(e, "Entry", "owner"); isF && b == ssa.Value(ph) {
						fromOwner = true
					}
				}
				// the loop exits when owner == nil: the return block is reached on the false edge of phi.owner != nil
				exitOK := false
				for _, g := range guardsOf(rets[0]) {
					cond, neg := normCond(g.If.Cond)
					if bo, isB := cond.(*ssa.BinOp); isB && isNilConst(bo.Y) {
						if b, isF := isFieldLoadOf(bo.X, "Entry", "owner"); isF && b == ssa.Value(ph) {
							taken := (g.Succ == 0) != neg
							if (bo.Op == token.NEQ && !taken) || (bo.Op == token.EQL && taken) {
								exitOK = true
							}
						}
					}
				}
				ok = fromRecv && fromOwner && exitOK && len(ph.Edges) == 2
			}
		}
		r.Check(ok, "R10.5", "Entry.Root", p.FuncPos(fn), "follows owner from the receiver until nil", why)
	}
	fe := p.Method(p.Slog, "Entry", "forEachLogger")
	if fe != nil && len(fe.Params) == 3 {
		// the callback and the depth are recognised by type, whatever their order
		cb, lvl := fe.Params[1], fe.Params[2]
		icb, ilvl := 1, 2
		if _, isFn := fe.Params[1].Type().Underlying().(*types.Signature); !isFn {
			cb, lvl = fe.Params[2], fe.Params[1]
			icb, ilvl = 2, 1
		}
		var probs []string
		ncb, nrec := 0, 0
		for _, cs := range callsIn(fe) {
			cc := cs.Common()
			if cc.Value == ssa.Value(cb) {
				ncb++
				if inLoop(cs.Block()) || len(guardsOf(cs.Block())) > 0 {
					probs = append(probs, "the visit of the receiver is conditional or repeated")
				}
				if len(cc.Args) != 2 || cc.Args[0] != ssa.Value(receiver(fe)) || cc.Args[1] != ssa.Value(lvl) {
					probs = append(probs, "the callback does not get (receiver, depth)")
				}
			}
			if calleeOf(cs) == fe {
				nrec++
				if !inLoop(cs.Block()) {
					probs = append(probs, "the recursion is not inside the loop over the children")
				}
				// receiver = range element of receiver.items
				okElem := false
				if ex, ok := cc.Args[0].(*ssa.Extract); ok {
					if nx, ok := ex.Tuple.(*ssa.Next); ok {
						if rg, ok := nx.Iter.(*ssa.Range); ok {
							if b, isF := isFieldLoadOf(rg.X, "Entry", "items"); isF && b == ssa.Value(receiver(fe)) {
								okElem = true
							}
						}
					}
				}
				if !okElem {
					probs = append(probs, "the recursion is not on the elements of the receiver's items")
				}
				l, okL := linOf(cc.Args[ilvl])
				if !okL || l.c != 1 || l.atoms[lvl] != 1 || len(l.atoms) != 1 {
					probs = append(probs, "children are not visited at depth+1")
				}
				if cc.Args[icb] != ssa.Value(cb) {
					probs = append(probs, "the callback is not passed down")
				}
				// only the range condition guards it
				for _, g := range guardsOf(cs.Block()) {
					if d := m.guardDesc(g); d != "T:range-next" {
						probs = append(probs, "some children are skipped ("+d+")")
					}
				}
			}
		}
		if ncb != 1 {
			probs = append(probs, fmt.Sprintf("the callback is invoked at %d sites", ncb))
		}
		if nrec != 1 {
			probs = append(probs, fmt.Sprintf("%d recursive calls", nrec))
		}
		r.Check(len(probs) == 0, "R10.5", "Entry.forEachLogger", p.FuncPos(fe), "visits the receiver once at its depth and every child once at depth+1", strings.Join(probs, "; "))
		if each := p.Method(p.Slog, "Entry", "Each"); each != nil {
			ok := false
			for _, cs := range callsTo(each, fe) {
				cc := cs.Common()
				if v, isC := constInt(cc.Args[ilvl]); isC && v == 0 && cc.Args[0] == ssa.Value(receiver(each)) && cc.Args[icb] == ssa.Value(each.Params[1]) {
					ok = true
				}
			}
			r.Check(ok, "R10.5", "Entry.Each", p.FuncPos(each), "starts the walk at the receiver with depth 0", "Each does not start the walk at the receiver with depth 0")
		}
	} else {
		r.Unk("R10.5", "Entry.forEachLogger", "-", "not found")
	}
	// lookup by name is by equality only: no branch of Sublogger / findSublogger (and the private helpers they reach)
	// tests any other property of the name asked for (a separator inside it, its length, a prefix): names are free text
	// (the package itself generates names with '/', '[' and digits)
	if sl := p.Method(p.Slog, "Entry", "Sublogger"); sl != nil {
		var other []string
		for fn := range staticReach([]*ssa.Function{sl}, func(f *ssa.Function) bool { return f.Pkg != p.Slog }) {
			for _, prm := range fn.Params {
				if !isStringT(prm.Type()) {
					continue
				}
				for _, b := range fn.Blocks {
					iff := ifOf(b)
					if iff == nil {
						continue
					}
					// the condition is computed from the name itself (not from what a lookup of it returned)
					seenV := map[ssa.Value]bool{}
					var uses func(v ssa.Value, d int) bool
					uses = func(v ssa.Value, d int) bool {
						if v == nil || seenV[v] || d > 10 {
							return false
						}
						seenV[v] = true
						if v == ssa.Value(prm) {
							return true
						}
						if call, isCall := v.(*ssa.Call); isCall {
							if cal := calleeOf(call); cal != nil && cal.Pkg == p.Slog {
								return false
							}
						}
						in, isIn := v.(ssa.Instruction)
						if !isIn {
							return false
						}
						for _, op := range in.Operands(nil) {
							if *op != nil && uses(*op, d+1) {
								return true
							}
						}
						return false
					}
					if !uses(iff.Cond, 0) {
						continue
					}
					cond, _ := normCond(iff.Cond)
					okEq := false
					if bo, isB := cond.(*ssa.BinOp); isB && (bo.Op == token.EQL || bo.Op == token.NEQ) {
						for _, side := range [][2]ssa.Value{{bo.X, bo.Y}, {bo.Y, bo.X}} {
							if strip(side[0]) == ssa.Value(prm) {
								if _, isN := isFieldLoadOf(strip(side[1]), "Entry", "name"); isN {
									okEq = true
								}
							}
						}
					}
					if !okEq {
						other = append(other, shortName(fn)+" at "+p.Pos(instrPos(iff)))
					}
				}
			}
		}
		sort.Strings(other)
		r.Check(len(other) == 0, "R10.5", "Entry.Sublogger:by-equality", p.FuncPos(sl), "the name asked for is only ever compared with a logger's name",
			"the lookup branches on a property of the name other than equality with a logger's name ("+strings.Join(other, "; ")+"): loggers whose names have that property (the kept children of WithSkip are named with '/') are no longer found by their name")
	}
	// findSublogger: returns the receiver when the name matches, otherwise searches items, otherwise nil
	if fs := p.Method(p.Slog, "Entry", "findSublogger"); fs != nil {
		rets, _ := exitBlocks(fs)
		kinds := map[string]bool{}
		for _, b := range rets {
			ret := b.Instrs[len(b.Instrs)-1].(*ssa.Return)
			for _, s := range sources(ret.Results[0]) {
				switch x := s.(type) {
				case *ssa.Parameter:
					if x == receiver(fs) {
						kinds["self"] = true
						ok := false
						for _, g := range guardsOf(b) {
							if strings.Contains(m.guardDesc(g), "Entry.name == param name") && strings.HasPrefix(m.guardDesc(g), "T:") {
								ok = true
							}
						}
						if !ok {
							kinds["self-unguarded"] = true
						}
					}
				case *ssa.Call:
					if calleeOf(x) == fs {
						kinds["rec"] = true
					}
				case *ssa.Const:
					if x.Value == nil {
						kinds["nil"] = true
					}
				default:
					kinds["other"] = true
				}
			}
		}
		ok := kinds["self"] && kinds["rec"] && kinds["nil"] && !kinds["other"] && !kinds["self-unguarded"]
		r.Check(ok, "R10.5", "Entry.findSublogger", p.FuncPos(fs), "returns the receiver on a name match, else a match in the subtree, else nil", fmt.Sprintf("findSublogger's results are %v", sortedKeys(kinds)))
	}
}

// isSettingField: the field is one of the observable per-logger settings named in the setter table.
func isSettingField(f string) bool {
	for _, fs := range setterWriteSets {
		for _, x := range fs {
			if x == f {
				return true
			}
		}
	}
	return f == "owner" || f == "items" || f == "name" || f == "handlerOpt"
}

// sameFieldOnly: the value loaded through fa is used only as the initial value of the field of the same name
// (directly or through joins), never for anything else.
func sameFieldOnly(fa *ssa.FieldAddr, field string) bool {
	seen := map[ssa.Value]bool{}
	var ok func(v ssa.Value) bool
	ok = func(v ssa.Value) bool {
		if seen[v] {
			return true
		}
		seen[v] = true
		refs := v.Referrers()
		if refs == nil {
			return true
		}
		for _, ref := range *refs {
			switch x := ref.(type) {
			case *ssa.UnOp:
				if !ok(x) {
					return false
				}
			case *ssa.Phi:
				if !ok(x) {
					return false
				}
			case *ssa.Store:
				fa2, isFA := x.Addr.(*ssa.FieldAddr)
				if !isFA || x.Val != v || structOf(fa2.X.Type()) == nil || structOf(fa2.X.Type()).Field(fa2.Field).Name() != field {
					return false
				}
			case *ssa.DebugRef:
			default:
				return false
			}
		}
		return true
	}
	return ok(fa)
}

// childNameDecision: newChildLogger registers a child under the caller's own name only when that name is a non-empty
// string; every other child is anonymous (a fresh random name). Followed from the key of the registry lookup back
// through the joins: wherever the asserted string (which is "" when the assertion failed) can flow into the key, the
// way there has tested it non-empty.
func childNameDecision(c *Ctx, p *Prog, rule string) {
	r := c.R
	fn := p.Method(p.Slog, "Entry", "newChildLogger")
	if fn == nil {
		r.Unk(rule, "child-name", "-", "newChildLogger not found")
		return
	}
	nonEmpty := func(v ssa.Value, fs []condFact) bool {
		for _, f := range fs {
			bo, isB := f.cond.(*ssa.BinOp)
			if !isB {
				continue
			}
			if k, isC := bo.Y.(*ssa.Const); isC && bo.X == v && k.Value != nil && k.Value.Kind() == constant.String && constant.StringVal(k.Value) == "" {
				if (bo.Op == token.EQL && !f.taken) || (bo.Op == token.NEQ && f.taken) {
					return true
				}
			}
			if lc, isL := bo.X.(*ssa.Call); isL && isBuiltinCall(lc, "len") && lc.Common().Args[0] == v {
				if z, isC := constInt(bo.Y); isC && z == 0 && ((bo.Op == token.GTR && f.taken) || (bo.Op == token.NEQ && f.taken) || (bo.Op == token.EQL && !f.taken)) {
					return true
				}
			}
		}
		return false
	}
	var bad []string
	seen := map[ssa.Value]bool{}
	nAsserted := 0
	var check func(v ssa.Value, fs []condFact, depth int)
	check = func(v ssa.Value, fs []condFact, depth int) {
		if depth > 6 {
			return
		}
		switch x := v.(type) {
		case *ssa.Extract:
			if ta, ok := x.Tuple.(*ssa.TypeAssert); ok && ta.CommaOk && x.Index == 0 {
				nAsserted++
				if !nonEmpty(v, fs) {
					bad = append(bad, p.Pos(instrPos(ta)))
				}
			}
		case *ssa.Phi:
			if nonEmpty(v, fs) {
				return
			}
			if seen[v] {
				return
			}
			seen[v] = true
			for i, e := range x.Edges {
				for _, alt := range factsOfEdge(x.Block().Preds[i], x.Block()) {
					check(e, alt, depth+1)
				}
			}
		case *ssa.Call:
			// a private helper that picks the name: judged at each of its returns, with the tests that guard the return
			cal := calleeOf(x)
			if cal == nil || cal.Pkg != p.Slog || len(cal.Blocks) == 0 || seen[v] || nonEmpty(v, fs) {
				return
			}
			seen[v] = true
			for _, hb := range cal.Blocks {
				for _, in := range hb.Instrs {
					if ta, ok := in.(*ssa.TypeAssert); ok && isStringT(ta.AssertedType) {
						nAsserted++
					}
				}
			}
			rets, _ := exitBlocks(cal)
			for _, rb := range rets {
				ret := rb.Instrs[len(rb.Instrs)-1].(*ssa.Return)
				if len(ret.Results) == 0 {
					continue
				}
				var fs2 []condFact
				for _, g := range guardsOf(rb) {
					cond, neg := normCond(g.If.Cond)
					fs2 = append(fs2, condFact{cond, (g.Succ == 0) != neg})
				}
				check(ret.Results[0], fs2, depth+1)
			}
		}
	}
	for _, b := range fn.Blocks {
		for _, in := range b.Instrs {
			if ta, ok := in.(*ssa.TypeAssert); ok && isStringT(ta.AssertedType) {
				nAsserted++
			}
		}
	}
	n := 0
	for _, b := range fn.Blocks {
		for _, in := range b.Instrs {
			var key ssa.Value
			switch x := in.(type) {
			case *ssa.Lookup:
				if isStringT(x.Index.Type()) && typeName(x.X.Type()) == "" {
					key = x.Index
				}
			case *ssa.MapUpdate:
				if isStringT(x.Key.Type()) {
					key = x.Key
				}
			}
			if key == nil {
				continue
			}
			n++
			var fs []condFact
			for _, g := range guardsOf(b) {
				cond, neg := normCond(g.If.Cond)
				fs = append(fs, condFact{cond, (g.Succ == 0) != neg})
			}
			seen = map[ssa.Value]bool{}
			check(key, fs, 0)
		}
	}
	if n == 0 || nAsserted == 0 {
		r.Unk(rule, "child-name", p.FuncPos(fn), "no registry key derived from the argument list found (%d key uses, %d asserted names)", n, nAsserted)
		return
	}
	bad = dedupStr(bad)
	sort.Strings(bad)
	r.Check(len(bad) == 0, rule, "child-name:"+shortName(fn), p.FuncPos(fn), "the caller's name is the registry key only when it is a non-empty string",
		"the caller's name (asserted at "+strings.Join(bad, ", ")+") can become the registry key without having been tested non-empty: children created with an empty name share one registry slot, so the second New(\"\") returns the first child and its options are ignored")
}

// optionsOnOwnLogger: an Opt configures the logger it is applied to. In the closure of every package-level option
// constructor (a function returning Opt) the configuring call is a method call on the closure's own parameter; a
// call of a package-level function that has a namesake method on the logger (SetLevel, SetFlags ...) configures the
// default logger / the process instead.
func optionsOnOwnLogger(c *Ctx, p *Prog, rule string) {
	r := c.R
	entry := p.NamedType(p.Slog, "Entry")
	if entry == nil {
		r.Unk(rule, "opt-own", "-", "Entry not found")
		return
	}
	n := 0
	for _, fn := range p.RepoFuncs() {
		if fn.Pkg != p.Slog || fn.Signature.Recv() != nil || fn.Parent() != nil || fn.Signature.Results().Len() != 1 {
			continue
		}
		if typeName(fn.Signature.Results().At(0).Type()) != "Opt" {
			continue
		}
		for _, an := range fn.AnonFuncs {
			if len(an.Params) != 1 || typeName(an.Params[0].Type()) != "Entry" {
				continue
			}
			n++
			onOwn := 0
			var foreign []string
			for _, cs := range callsIn(an) {
				cal := calleeOf(cs)
				if cal == nil || cal.Pkg != p.Slog {
					continue
				}
				if cal.Signature.Recv() != nil {
					if len(cs.Common().Args) > 0 && strip(cs.Common().Args[0]) == ssa.Value(an.Params[0]) {
						onOwn++
					}
					continue
				}
				if p.Method(p.Slog, "Entry", cal.Name()) != nil {
					foreign = append(foreign, cal.Name()+" at "+p.Pos(instrPos(cs)))
				}
			}
			if len(fieldStores(an)) > 0 {
				onOwn++
			}
			key := "opt-own:" + shortName(fn)
			r.Check(len(foreign) == 0 && onOwn > 0, rule, key, p.FuncPos(fn), "the option configures the logger it is applied to",
				fmt.Sprintf("the option's closure calls the package-level %s instead of the method of the logger under construction: the new logger is left unconfigured and the default logger / process-wide setting is changed", strings.Join(foreign, ", ")))
		}
	}
	if n < 5 {
		r.Unk(rule, "opt-own", "-", "only %d option constructors found", n)
	}
}
