package main

import (
	"fmt"
	"go/token"
	"go/types"
	"sort"
	"strings"

	"golang.org/x/tools/go/ssa"
)

// Model is the emission model (engine E1): the sink, the functions that lead to it
// (the spine), the call sites along the spine, and the roots (public entry points).
type Model struct {
	P           *Prog
	SinkFns     map[*ssa.Function]bool                  // functions containing the Write on the selected destination
	SinkCall    map[*ssa.Function][]*ssa.Call           // the invoke Write instructions
	Spine       map[*ssa.Function]bool                  // functions from which a sink function is statically reachable (slog package only)
	Sites       map[*ssa.Function][]ssa.CallInstruction // spine call sites per spine function
	Callers     map[*ssa.Function][]ssa.CallInstruction // in-package static call sites of each function
	Gates       map[*ssa.Function]bool                  // Entry.Enabled / Entry.EnabledContext
	LevelT      *types.Named
	LevelByVal  map[int64]string
	LevelByName map[string]int64
}

func (m *Model) isLevel(t types.Type) bool {
	return m.LevelT != nil && types.Identical(t, m.LevelT)
}

// levelParamIndex returns the index (in Call.Args numbering, receiver included) of the first Level parameter of fn.
func (m *Model) levelParamIndex(fn *ssa.Function) int {
	for i, p := range fn.Params {
		if m.isLevel(p.Type()) {
			return i
		}
	}
	return -1
}

func isWriterImplMethod(fn *ssa.Function) bool {
	r := fn.Signature.Recv()
	if r == nil {
		return false
	}
	switch typeName(r.Type()) {
	case "LWs", "dualWriter", "logwr", "filewr", "discard":
		return true
	}
	return false
}

// BuildModel computes the emission model for p.
func BuildModel(p *Prog) (*Model, error) {
	// the interface-derived public entry points: library code that merely CALLS one of them
	// (AddFlags -> Verbose, NewFileWriter -> Fatal, ParseLevel -> Warn) is a client, not part of the spine
	stop := map[*ssa.Function]bool{}
	ms, fs := entryPointNames(p)
	for _, n := range ms {
		if fn := p.Method(p.Slog, "Entry", n); fn != nil {
			stop[fn] = true
		}
	}
	for _, n := range fs {
		if fn := p.Func(p.Slog, n); fn != nil {
			stop[fn] = true
		}
	}
	// the diagnostics hook of the `hint` build logs through the package-level verbs: a client as well
	hint := p.Func(p.Slog, "hintInternal")
	m := &Model{P: p, SinkFns: map[*ssa.Function]bool{}, SinkCall: map[*ssa.Function][]*ssa.Call{}, Spine: map[*ssa.Function]bool{},
		Sites: map[*ssa.Function][]ssa.CallInstruction{}, Callers: map[*ssa.Function][]ssa.CallInstruction{}, Gates: map[*ssa.Function]bool{}}
	m.LevelT = p.NamedType(p.Slog, "Level")
	m.LevelByName, m.LevelByVal = p.LevelConsts()
	lw := p.NamedType(p.Slog, "LogWriter")
	if lw == nil || m.LevelT == nil {
		return nil, fmt.Errorf("types LogWriter/Level not found")
	}
	var fns []*ssa.Function
	for _, fn := range p.RepoFuncs() {
		pk := fn.Pkg
		if pk == nil && fn.Parent() != nil {
			pk = fn.Parent().Pkg
		}
		if pk == nil && fn.Origin() != nil {
			pk = fn.Origin().Pkg
		}
		if pk == p.Slog {
			fns = append(fns, fn)
		}
	}
	for _, fn := range fns {
		for _, c := range callsIn(fn) {
			if cal := calleeOf(c); cal != nil {
				m.Callers[cal] = append(m.Callers[cal], c)
			}
			call, ok := c.(*ssa.Call)
			if !ok {
				continue
			}
			cc := call.Common()
			if cc.IsInvoke() && nm(cc.Method) == "Write" && !isWriterImplMethod(fn) {
				if n := namedOf(cc.Value.Type()); n != nil && n.Obj() == lw.Obj() {
					m.SinkFns[fn] = true
					m.SinkCall[fn] = append(m.SinkCall[fn], call)
				}
			}
		}
	}
	if len(m.SinkFns) == 0 {
		return nil, fmt.Errorf("no sink found: no function of package slog invokes Write on a LogWriter")
	}
	// spine: backward closure over static calls
	changed := true
	for fn := range m.SinkFns {
		m.Spine[fn] = true
	}
	for changed {
		changed = false
		for _, fn := range fns {
			if m.Spine[fn] {
				continue
			}
			for _, c := range callsIn(fn) {
				if cal := calleeOf(c); cal != nil && m.Spine[cal] && (!stop[cal] || m.SinkFns[fn]) && cal != hint {
					m.Spine[fn] = true
					changed = true
					break
				}
			}
		}
	}
	for fn := range m.Spine {
		for _, c := range callsIn(fn) {
			if cal := calleeOf(c); cal != nil && m.Spine[cal] {
				m.Sites[fn] = append(m.Sites[fn], c)
			}
		}
		sort.SliceStable(m.Sites[fn], func(i, j int) bool { return m.Sites[fn][i].Pos() < m.Sites[fn][j].Pos() })
	}
	for _, n := range []string{"Enabled", "EnabledContext"} {
		if g := p.Method(p.Slog, "Entry", n); g != nil {
			m.Gates[g] = true
		}
	}
	if len(m.Gates) != 2 {
		return nil, fmt.Errorf("gate methods Entry.Enabled/EnabledContext not found")
	}
	return m, nil
}

// exprKey gives a canonical expression for "the same object" comparisons.
func exprKey(v ssa.Value) string {
	switch x := v.(type) {
	case *ssa.Parameter:
		return "p:" + nm(x)
	case *ssa.FreeVar:
		return "fv:" + nm(x)
	case *ssa.Global:
		return "g:" + nm(x)
	case *ssa.Const:
		return "c:" + x.String()
	case *ssa.FieldAddr:
		st := structOf(x.X.Type())
		return exprKey(x.X) + ".&" + nm(st.Field(x.Field))
	case *ssa.Field:
		st := structOf(x.X.Type())
		return exprKey(x.X) + "." + nm(st.Field(x.Field))
	case *ssa.UnOp:
		if x.Op == token.MUL {
			return "*(" + exprKey(x.X) + ")"
		}
	case *ssa.Extract:
		return fmt.Sprintf("ex(%s#%d)", exprKey(x.Tuple), x.Index)
	case *ssa.TypeAssert:
		return "ta(" + exprKey(x.X) + "," + x.AssertedType.String() + ")"
	case *ssa.ChangeType:
		return exprKey(x.X)
	case *ssa.MakeInterface:
		return exprKey(x.X)
	case *ssa.ChangeInterface:
		return exprKey(x.X)
	}
	return fmt.Sprintf("%s@%p", nm(v), v)
}

// loggerKey canonicalises a logger receiver: an embedded *Entry of a *logimp counts as the logimp itself.
func loggerKey(v ssa.Value) string {
	k := exprKey(v)
	k = strings.ReplaceAll(k, ".&Entry", "")
	for strings.HasPrefix(k, "*(") && strings.HasSuffix(k, ")") && strings.Count(k, "(") == strings.Count(k, ")") {
		inner := k[2 : len(k)-1]
		if strings.HasPrefix(inner, "ex(") || strings.HasPrefix(inner, "p:") || strings.HasPrefix(inner, "ta(") {
			k = inner
		} else {
			break
		}
	}
	return k
}

func sameLevelValue(a, b ssa.Value) bool {
	if a == b {
		return true
	}
	ca, ok1 := constInt(a)
	cb, ok2 := constInt(b)
	return ok1 && ok2 && ca == cb
}

// GateInfo describes the gate found for a call site.
type GateInfo struct {
	Guard guard
	Call  *ssa.Call
	Level ssa.Value
	Recv  ssa.Value
}

// gateCallOf recognises cond as a (possibly promoted) call of Entry.Enabled/EnabledContext
// or of Level.Enabled on a logger threshold, and returns receiver logger and level operand.
func (m *Model) gateCallOf(cond ssa.Value) (call *ssa.Call, recv, lvl ssa.Value, ok bool) {
	call, ok = cond.(*ssa.Call)
	if !ok {
		return nil, nil, nil, false
	}
	cal := calleeOf(call)
	args := call.Common().Args
	if cal != nil && m.Gates[origin(cal)] && len(args) >= 2 {
		return call, args[0], args[len(args)-1], true
	}
	if cal != nil && cal.Synthetic != "" && cal.Object() != nil {
		// promoted method wrapper (e.g. (*logimp).EnabledContext)
		for g := range m.Gates {
			if g.Object() == cal.Object() && len(args) >= 2 {
				return call, args[0], args[len(args)-1], true
			}
		}
	}
	// through the Logger interface: l.Enabled(lvl) / l.EnabledContext(ctx, lvl)
	if cc := call.Common(); cc.IsInvoke() && (nm(cc.Method) == "Enabled" || nm(cc.Method) == "EnabledContext") &&
		cc.Method.Pkg() == m.P.Slog.Pkg && len(cc.Args) >= 1 && m.isLevel(cc.Args[len(cc.Args)-1].Type()) {
		return call, cc.Value, cc.Args[len(cc.Args)-1], true
	}
	// Level.Enabled(threshold, ctx, lvl) with threshold = s.level or s.Level()
	if cal != nil && cal == m.P.Method(m.P.Slog, "Level", "Enabled") && len(args) == 3 {
		if lg := m.thresholdOwner(args[0]); lg != nil {
			return call, lg, args[2], true
		}
	}
	return nil, nil, nil, false
}

// thresholdOwner returns the logger whose threshold v is (s.level load, or s.Level() call), else nil.
func (m *Model) thresholdOwner(v ssa.Value) ssa.Value {
	v = strip(v)
	if base, ok := isFieldLoadOf(v, "Entry", "level"); ok {
		return base
	}
	if c, ok := v.(*ssa.Call); ok {
		if cal := calleeOf(c); cal != nil && nm(cal) == "Level" && len(c.Common().Args) == 1 {
			return c.Common().Args[0]
		}
		if c.Common().IsInvoke() && nm(c.Common().Method) == "Level" {
			return c.Common().Value
		}
	}
	return nil
}

// localGate looks for a gate whose admitting edge dominates the call site and which tests
// the same logger and the same level value as the site passes on.
func (m *Model) localGate(site ssa.CallInstruction) (*GateInfo, string) {
	cal := calleeOf(site)
	args := site.Common().Args
	var siteRecv, siteLvl ssa.Value
	if cal != nil && cal.Signature.Recv() != nil && len(args) > 0 {
		siteRecv = args[0]
	}
	if cal != nil {
		if i := m.levelParamIndex(cal); i >= 0 && i < len(args) {
			siteLvl = args[i]
		}
	}
	why := "no admission test dominates the call"
	for _, g := range guardsOf(site.Block()) {
		cond, neg := normCond(g.If.Cond)
		call, recv, lvl, ok := m.gateCallOf(cond)
		if !ok {
			continue
		}
		want := 0
		if neg {
			want = 1
		}
		if g.Succ != want {
			why = "the call is on the REJECTING edge of the admission test"
			continue
		}
		if siteRecv != nil && loggerKey(recv) != loggerKey(siteRecv) {
			why = fmt.Sprintf("the admission test asks logger %s but logger %s emits", loggerKey(recv), loggerKey(siteRecv))
			continue
		}
		if siteLvl != nil && !sameLevelValue(lvl, siteLvl) {
			why = fmt.Sprintf("the admission test uses level %s but the record is emitted with level %s", m.levelStr(lvl), m.levelStr(siteLvl))
			continue
		}
		return &GateInfo{Guard: g, Call: call, Level: lvl, Recv: recv}, ""
	}
	return nil, why
}

func (m *Model) levelStr(v ssa.Value) string {
	if c, ok := constInt(v); ok {
		if n, ok := m.LevelByVal[c]; ok {
			return n
		}
		return fmt.Sprintf("Level(%d)", c)
	}
	return exprKey(strip(v))
}

// ungatedPath returns a call path from fn to a sink that crosses no admission test, or nil.
func (m *Model) ungatedPath(fn *ssa.Function, seen map[*ssa.Function]bool) []string {
	if m.SinkFns[fn] {
		return []string{shortName(fn)}
	}
	if seen[fn] {
		return nil
	}
	seen[fn] = true
	defer delete(seen, fn)
	for _, site := range m.Sites[fn] {
		if g, _ := m.localGate(site); g != nil {
			continue
		}
		if rest := m.ungatedPath(calleeOf(site), seen); rest != nil {
			return append([]string{shortName(fn)}, rest...)
		}
	}
	return nil
}

// Roots are the spine functions that can be entered from outside the package: exported
// functions and methods (of exported or unexported types reachable via interfaces), and
// functions without in-package callers.
func (m *Model) Roots() []*ssa.Function {
	var out []*ssa.Function
	for fn := range m.Spine {
		if fn.Parent() != nil {
			continue // closures are entered through their parents
		}
		exported := token.IsExported(nm(fn))
		if exported || len(m.Callers[fn]) == 0 {
			out = append(out, fn)
		}
	}
	sort.Slice(out, func(i, j int) bool { return shortName(out[i]) < shortName(out[j]) })
	return out
}

// guardDesc gives a normalised description of a guard edge, used for the allow-table of
// conditions an emission may depend on besides the admission test.
func (m *Model) guardDesc(g guard) string {
	cond, neg := normCond(g.If.Cond)
	taken := g.Succ == 0
	if neg {
		taken = !taken
	}
	pol := "T:"
	if !taken {
		pol = "F:"
	}
	return pol + m.condDesc(cond)
}

func (m *Model) condDesc(cond ssa.Value) string {
	switch x := cond.(type) {
	case *ssa.Call:
		if _, _, _, ok := m.gateCallOf(x); ok {
			return "GATE"
		}
		if cal := calleeOf(x); cal != nil {
			return "call " + shortName(cal) + "(" + m.argsDesc(x.Common().Args) + ")"
		}
		if n := invokeName(x); n != "" {
			return "invoke " + n
		}
		return "call ?"
	case *ssa.BinOp:
		return m.valDesc(x.X) + " " + x.Op.String() + " " + m.valDesc(x.Y)
	case *ssa.Extract:
		switch t := x.Tuple.(type) {
		case *ssa.TypeAssert:
			return "typeassert-ok " + m.valDesc(t.X) + ".(" + types.TypeString(t.AssertedType, func(p *types.Package) string { return "" }) + ")"
		case *ssa.Lookup:
			return "lookup-ok " + m.valDesc(t.X) + "[" + m.valDesc(t.Index) + "]"
		case *ssa.Next:
			return "range-next"
		}
		return "extract " + m.valDesc(x.Tuple)
	case *ssa.Phi:
		return "phi"
	}
	return m.valDesc(cond)
}

func (m *Model) argsDesc(args []ssa.Value) string {
	var s []string
	for _, a := range args {
		s = append(s, m.valDesc(a))
	}
	return strings.Join(s, ",")
}

func (m *Model) valDesc(v ssa.Value) string {
	v = strip(v)
	if c, ok := v.(*ssa.Const); ok {
		if c.Value == nil {
			return "nil"
		}
		if m.isLevel(c.Type()) {
			if i, ok := constInt(c); ok {
				if n, ok := m.LevelByVal[i]; ok {
					return n
				}
			}
		}
		return c.Value.ExactString()
	}
	if base, _, f, ok := fieldLoad(v); ok {
		return typeName(base.Type()) + "." + nm(f)
	}
	if g, ok := globalLoad(v); ok {
		return "global " + nm(g)
	}
	switch x := v.(type) {
	case *ssa.Parameter:
		return "param " + nm(x)
	case *ssa.Call:
		if isBuiltinCall(x, "len") {
			return "len(" + m.valDesc(x.Common().Args[0]) + ")"
		}
		if cal := calleeOf(x); cal != nil {
			return "call " + shortName(cal)
		}
		if n := invokeName(x); n != "" {
			return "invoke " + n
		}
	case *ssa.BinOp:
		return "(" + m.valDesc(x.X) + " " + x.Op.String() + " " + m.valDesc(x.Y) + ")"
	case *ssa.UnOp:
		return x.Op.String() + m.valDesc(x.X)
	case *ssa.Extract:
		return m.condDesc(x)
	case *ssa.Phi:
		return "phi"
	}
	return nm(v)
}
