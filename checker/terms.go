package main

import (
	"fmt"
	"go/token"
	"sort"
	"strings"

	"golang.org/x/tools/go/ssa"
)

// Engine E11: interprocedural value terms and effects. A rule about WHAT is stored or returned
// (a list with the new writer appended, the logger's own writer set, the parameter itself, ...)
// must not depend on whether the expression is written in place or in a private helper. evalTerm
// turns an SSA value into a small term: parameters of the function under analysis, field loads,
// globals, constants, the list builtins and composite literals are term constructors; a phi is a
// choice of its edges; a static call to a function of the repository is replaced by the choice of
// its returned values, evaluated with the callee's parameters bound to the terms of the arguments
// (bounded depth, no recursion). effectsOf lists the field stores, map updates and deletes of a
// function and of the repository functions it calls statically, with bases, keys and values as
// terms over the OUTER function's parameters. Terms describe values, not paths: conditions are
// decided separately (engine E3, with the same helper inlining).

type Term struct {
	Op   string // param field global const nil append slice index lookup len call alloc bin un choice assert closure freevar makemap makeslice unknown loop extract
	Name string
	Args []*Term
	V    ssa.Value
	C    *tctx // the context V was evaluated in
	Idx  int   // param index; extract index
}

func (t *Term) String() string {
	if t == nil {
		return "<nil>"
	}
	var as []string
	for _, a := range t.Args {
		as = append(as, a.String())
	}
	switch t.Op {
	case "param":
		return "$" + t.Name
	case "const":
		return t.Name
	case "nil":
		return "nil"
	case "global":
		return "@" + t.Name
	case "field":
		return as[0] + "." + t.Name
	case "choice":
		sort.Strings(as)
		return "{" + strings.Join(as, " | ") + "}"
	case "freevar":
		return "^" + t.Name
	}
	if t.Name != "" {
		return t.Op + ":" + t.Name + "(" + strings.Join(as, ", ") + ")"
	}
	return t.Op + "(" + strings.Join(as, ", ") + ")"
}

// tctx binds the parameters of an inlined callee to the argument terms of its call site.
type tctx struct {
	fn     *ssa.Function
	args   []*Term
	parent *tctx
	site   ssa.CallInstruction
	free   map[*ssa.FreeVar]*Term
}

func (c *tctx) depth() int {
	n := 0
	for x := c; x != nil; x = x.parent {
		n++
	}
	return n
}

func (c *tctx) onStack(fn *ssa.Function) bool {
	for x := c; x != nil; x = x.parent {
		if x.fn == fn {
			return true
		}
	}
	return false
}

type termEval struct {
	inRepo func(*ssa.Function) bool
	memo   map[termKey]*Term
	busy   map[termKey]bool
	// noInline(fn) true keeps a call to fn as an opaque call term (anchors a rule wants to see by name)
	noInline func(*ssa.Function) bool
	// blockOK (optional) restricts callsOf/effectsOf to the blocks that are feasible (e.g. in one output mode)
	blockOK func(*ssa.Function, *ssa.BasicBlock) bool
}

type termKey struct {
	v ssa.Value
	c *tctx
}

func newTermEval(p *Prog) *termEval {
	return &termEval{
		inRepo: func(fn *ssa.Function) bool {
			pk := fn.Pkg
			if pk == nil && fn.Origin() != nil {
				pk = fn.Origin().Pkg
			}
			if pk == nil && fn.Parent() != nil {
				pk = fn.Parent().Pkg
			}
			return pk != nil && (pk == p.Slog || pk == p.Times || pk == p.Strs)
		},
		memo: map[termKey]*Term{},
		busy: map[termKey]bool{},
	}
}

func choiceOf(ts []*Term) *Term {
	seen := map[string]bool{}
	var out []*Term
	var add func(t *Term)
	add = func(t *Term) {
		if t.Op == "choice" {
			for _, a := range t.Args {
				add(a)
			}
			return
		}
		s := t.String()
		if !seen[s] {
			seen[s] = true
			out = append(out, t)
		}
	}
	for _, t := range ts {
		add(t)
	}
	if len(out) == 1 {
		return out[0]
	}
	sort.Slice(out, func(i, j int) bool { return out[i].String() < out[j].String() })
	return &Term{Op: "choice", Args: out}
}

// alts lists the alternatives of a term (itself if it is not a choice).
func (t *Term) alts() []*Term {
	if t.Op == "choice" {
		return t.Args
	}
	return []*Term{t}
}

func (e *termEval) eval(v ssa.Value, c *tctx) *Term {
	k := termKey{v, c}
	if t, ok := e.memo[k]; ok {
		return t
	}
	if e.busy[k] {
		return &Term{Op: "loop", V: v}
	}
	e.busy[k] = true
	t := e.eval1(v, c)
	delete(e.busy, k)
	if t.V == nil {
		t.V = v
		t.C = c
	}
	e.memo[k] = t
	return t
}

func (e *termEval) eval1(v ssa.Value, c *tctx) *Term {
	switch x := v.(type) {
	case *ssa.Parameter:
		if c != nil {
			for i, p := range c.fn.Params {
				if p == x && i < len(c.args) {
					return c.args[i]
				}
			}
		}
		idx := -1
		if fn := x.Parent(); fn != nil {
			for i, p := range fn.Params {
				if p == x {
					idx = i
				}
			}
		}
		return &Term{Op: "param", Name: x.Name(), Idx: idx, V: x}
	case *ssa.FreeVar:
		if c != nil && c.free != nil {
			if t, ok := c.free[x]; ok {
				return t
			}
		}
		return &Term{Op: "freevar", Name: x.Name(), V: x}
	case *ssa.Const:
		if x.Value == nil {
			if isNilConst(x) {
				return &Term{Op: "nil", V: x}
			}
			return &Term{Op: "const", Name: "zero:" + typeStr(x.Type()), V: x}
		}
		return &Term{Op: "const", Name: x.Value.ExactString(), V: x}
	case *ssa.Global:
		return &Term{Op: "un", Name: "&", Args: []*Term{{Op: "global", Name: nm(x), V: x}}}
	case *ssa.Function:
		return &Term{Op: "closure", Name: shortName(x), V: x}
	case *ssa.MakeClosure:
		return &Term{Op: "closure", Name: shortName(x.Fn.(*ssa.Function)), V: x}
	case *ssa.ChangeType:
		return e.eval(x.X, c)
	case *ssa.ChangeInterface:
		return e.eval(x.X, c)
	case *ssa.MakeInterface:
		return e.eval(x.X, c)
	case *ssa.Convert:
		return &Term{Op: "un", Name: "conv:" + typeStr(x.Type()), Args: []*Term{e.eval(x.X, c)}}
	case *ssa.Phi:
		var ts []*Term
		for _, ed := range x.Edges {
			t := e.eval(ed, c)
			if t.Op == "loop" && t.V == ssa.Value(x) {
				continue
			}
			ts = append(ts, t)
		}
		if len(ts) == 0 {
			return &Term{Op: "loop", V: x}
		}
		return choiceOf(ts)
	case *ssa.UnOp:
		if x.Op == token.MUL {
			switch a := x.X.(type) {
			case *ssa.FieldAddr:
				if st := structOf(a.X.Type()); st != nil {
					// a field of a local struct variable: what was stored into that field, or the field of the value the
					// whole variable was assigned (a by-value parameter spilled because one of its fields is written)
					if al, isAl := a.X.(*ssa.Alloc); isAl {
						var ts []*Term
						for _, ref := range *al.Referrers() {
							switch r := ref.(type) {
							case *ssa.FieldAddr:
								if r.Field != a.Field {
									continue
								}
								for _, r2 := range *r.Referrers() {
									if sv, ok := r2.(*ssa.Store); ok && sv.Addr == ssa.Value(r) {
										ts = append(ts, e.eval(sv.Val, c))
									}
								}
							case *ssa.Store:
								if r.Addr == ssa.Value(al) {
									ts = append(ts, &Term{Op: "field", Name: nm(st.Field(a.Field)), Args: []*Term{e.eval(r.Val, c)}})
								}
							}
						}
						if len(ts) > 0 {
							return choiceOf(ts)
						}
					}
					return &Term{Op: "field", Name: nm(st.Field(a.Field)), Args: []*Term{e.eval(a.X, c)}}
				}
			case *ssa.Global:
				return &Term{Op: "global", Name: nm(a), V: a}
			case *ssa.Alloc:
				// a local variable: the values stored into it
				var ts []*Term
				for _, ref := range *a.Referrers() {
					if st, ok := ref.(*ssa.Store); ok && st.Addr == ssa.Value(a) {
						ts = append(ts, e.eval(st.Val, c))
					}
				}
				if len(ts) > 0 {
					return choiceOf(ts)
				}
			case *ssa.IndexAddr:
				return &Term{Op: "index", Args: []*Term{e.eval(a.X, c), e.eval(a.Index, c)}}
			}
			return &Term{Op: "un", Name: "*", Args: []*Term{e.eval(x.X, c)}}
		}
		return &Term{Op: "un", Name: x.Op.String(), Args: []*Term{e.eval(x.X, c)}}
	case *ssa.Field:
		if st := structOf(x.X.Type()); st != nil {
			return &Term{Op: "field", Name: nm(st.Field(x.Field)), Args: []*Term{e.eval(x.X, c)}}
		}
	case *ssa.FieldAddr:
		if st := structOf(x.X.Type()); st != nil {
			return &Term{Op: "un", Name: "&", Args: []*Term{{Op: "field", Name: nm(st.Field(x.Field)), Args: []*Term{e.eval(x.X, c)}}}}
		}
	case *ssa.Index:
		return &Term{Op: "index", Args: []*Term{e.eval(x.X, c), e.eval(x.Index, c)}}
	case *ssa.IndexAddr:
		return &Term{Op: "un", Name: "&", Args: []*Term{{Op: "index", Args: []*Term{e.eval(x.X, c), e.eval(x.Index, c)}}}}
	case *ssa.Lookup:
		return &Term{Op: "lookup", Args: []*Term{e.eval(x.X, c), e.eval(x.Index, c)}}
	case *ssa.Slice:
		args := []*Term{e.eval(x.X, c)}
		for _, b := range []ssa.Value{x.Low, x.High} {
			if b == nil {
				args = append(args, &Term{Op: "const", Name: "_"})
			} else {
				args = append(args, e.eval(b, c))
			}
		}
		// a slice of a fresh array is a slice literal
		if al, ok := x.X.(*ssa.Alloc); ok {
			if lit := e.sliceLit(al, c); lit != nil {
				return lit
			}
		}
		return &Term{Op: "slice", Args: args}
	case *ssa.Alloc:
		t := &Term{Op: "alloc", Name: typeName(x.Type())}
		for _, ref := range *x.Referrers() {
			if fa, ok := ref.(*ssa.FieldAddr); ok {
				for _, r2 := range *fa.Referrers() {
					if st, ok := r2.(*ssa.Store); ok && st.Addr == ssa.Value(fa) {
						t.Args = append(t.Args, e.eval(st.Val, c))
					}
				}
			}
		}
		return t
	case *ssa.MakeMap:
		return &Term{Op: "makemap", Name: typeStr(x.Type())}
	case *ssa.MakeSlice:
		return &Term{Op: "makeslice", Name: typeStr(x.Type()), Args: []*Term{e.eval(x.Len, c), e.eval(x.Cap, c)}}
	case *ssa.BinOp:
		return &Term{Op: "bin", Name: x.Op.String(), Args: []*Term{e.eval(x.X, c), e.eval(x.Y, c)}}
	case *ssa.TypeAssert:
		return &Term{Op: "assert", Name: typeStr(x.AssertedType), Args: []*Term{e.eval(x.X, c)}}
	case *ssa.Extract:
		return e.extract(x.Tuple, x.Index, c)
	case *ssa.Call:
		return e.call(x, -1, c)
	}
	return &Term{Op: "unknown", Name: fmt.Sprintf("%T", v), V: v}
}

// sliceLit recognises `[]T{a, b}` (stores into a fresh array, then sliced).
func (e *termEval) sliceLit(al *ssa.Alloc, c *tctx) *Term {
	t := &Term{Op: "lit", Name: typeStr(al.Type())}
	n := 0
	for _, ref := range *al.Referrers() {
		switch r := ref.(type) {
		case *ssa.IndexAddr:
			for _, r2 := range *r.Referrers() {
				if st, ok := r2.(*ssa.Store); ok && st.Addr == ssa.Value(r) {
					t.Args = append(t.Args, e.eval(st.Val, c))
					n++
				}
			}
		case *ssa.Slice:
		default:
			return nil
		}
	}
	return t
}

func (e *termEval) extract(tuple ssa.Value, idx int, c *tctx) *Term {
	switch x := tuple.(type) {
	case *ssa.Call:
		return e.call(x, idx, c)
	case *ssa.TypeAssert:
		if idx == 0 {
			return &Term{Op: "assert", Name: typeStr(x.AssertedType), Args: []*Term{e.eval(x.X, c)}}
		}
		return &Term{Op: "assertok", Name: typeStr(x.AssertedType), Args: []*Term{e.eval(x.X, c)}}
	case *ssa.Lookup:
		if idx == 0 {
			return &Term{Op: "lookup", Args: []*Term{e.eval(x.X, c), e.eval(x.Index, c)}}
		}
		return &Term{Op: "lookupok", Args: []*Term{e.eval(x.X, c), e.eval(x.Index, c)}}
	case *ssa.Next:
		return &Term{Op: "next", Idx: idx, Args: []*Term{e.eval(x.Iter, c)}}
	}
	return &Term{Op: "extract", Idx: idx, Args: []*Term{e.eval(tuple, c)}}
}

func (e *termEval) call(x *ssa.Call, idx int, c *tctx) *Term {
	cc := x.Common()
	var args []*Term
	for _, a := range cc.Args {
		args = append(args, e.eval(a, c))
	}
	if b, ok := cc.Value.(*ssa.Builtin); ok {
		return &Term{Op: b.Name(), Args: args}
	}
	cal := cc.StaticCallee()
	if cal == nil {
		if cc.IsInvoke() {
			return &Term{Op: "invoke", Name: cc.Method.Name(), Idx: idx, Args: append([]*Term{e.eval(cc.Value, c)}, args...)}
		}
		return &Term{Op: "dyncall", Idx: idx, Args: append([]*Term{e.eval(cc.Value, c)}, args...)}
	}
	inl := len(cal.Blocks) > 0 && e.inRepo(cal) && (c == nil || c.depth() < 5) && !c.onStack(cal) && (e.noInline == nil || !e.noInline(cal))
	if !inl {
		return &Term{Op: "call", Name: shortName(cal), Idx: idx, Args: args}
	}
	nc := &tctx{fn: cal, args: args, parent: c, site: x}
	if mc, ok := cc.Value.(*ssa.MakeClosure); ok {
		nc.free = map[*ssa.FreeVar]*Term{}
		for i, fv := range cal.FreeVars {
			if i < len(mc.Bindings) {
				nc.free[fv] = e.eval(mc.Bindings[i], c)
			}
		}
	}
	var outs []*Term
	for _, b := range cal.Blocks {
		if len(b.Instrs) == 0 {
			continue
		}
		ret, ok := b.Instrs[len(b.Instrs)-1].(*ssa.Return)
		if !ok {
			continue
		}
		k := idx
		if k < 0 {
			k = 0
		}
		if k < len(ret.Results) {
			outs = append(outs, e.eval(ret.Results[k], nc))
		}
	}
	if len(outs) == 0 {
		return &Term{Op: "call", Name: shortName(cal), Idx: idx, Args: args}
	}
	return choiceOf(outs)
}

// ---- term predicates -------------------------------------------------------

// contains reports whether pred holds for t or any sub-term.
func (t *Term) contains(pred func(*Term) bool) bool {
	if t == nil {
		return false
	}
	if pred(t) {
		return true
	}
	for _, a := range t.Args {
		if a.contains(pred) {
			return true
		}
	}
	return false
}

func (t *Term) isParam(p *ssa.Parameter) bool {
	return t != nil && t.Op == "param" && t.V == ssa.Value(p)
}

// isFieldOf: t is base.field with base the given parameter.
func (t *Term) isFieldOf(p *ssa.Parameter, field string) bool {
	return t != nil && t.Op == "field" && t.Name == field && len(t.Args) == 1 && t.Args[0].isParam(p)
}

func (t *Term) mentionsParam(p *ssa.Parameter) bool {
	return t.contains(func(x *Term) bool { return x.isParam(p) })
}

func (t *Term) mentionsField(p *ssa.Parameter, field string) bool {
	return t.contains(func(x *Term) bool { return x.isFieldOf(p, field) })
}

// ---- effects ----------------------------------------------------------------

type Effect struct {
	Kind   string // store mapupdate delete
	Struct string // owner type of the field written (store) or of the field holding the map
	Field  string
	Base   *Term // the struct the field belongs to
	Key    *Term // map key (mapupdate, delete)
	Val    *Term
	Instr  ssa.Instruction
	Fn     *ssa.Function // function containing the instruction
	Ctx    *tctx
	Chain  []ssa.CallInstruction // call sites from the outer function down to Fn
}

// effectsOf lists the field/map effects of fn and of the repository functions it calls statically
// (calls for which follow returns false are not entered).
func (e *termEval) effectsOf(fn *ssa.Function, follow func(*ssa.Function) bool) []Effect {
	var out []Effect
	var walk func(f *ssa.Function, c *tctx, chain []ssa.CallInstruction)
	walk = func(f *ssa.Function, c *tctx, chain []ssa.CallInstruction) {
		for _, b := range f.Blocks {
			if e.blockOK != nil && !e.blockOK(f, b) {
				continue
			}
			for _, in := range b.Instrs {
				switch x := in.(type) {
				case *ssa.Store:
					if fa, ok := x.Addr.(*ssa.FieldAddr); ok {
						if st := structOf(fa.X.Type()); st != nil {
							out = append(out, Effect{Kind: "store", Struct: typeName(fa.X.Type()), Field: nm(st.Field(fa.Field)), Base: e.eval(fa.X, c), Val: e.eval(x.Val, c), Instr: in, Fn: f, Ctx: c, Chain: chain})
						}
					}
				case *ssa.MapUpdate:
					ef := Effect{Kind: "mapupdate", Key: e.eval(x.Key, c), Val: e.eval(x.Value, c), Instr: in, Fn: f, Ctx: c, Chain: chain}
					mt := e.eval(x.Map, c)
					ef.Base = mt
					for _, a := range mt.alts() {
						if a.Op == "field" {
							ef.Field = a.Name
							ef.Base = a.Args[0]
							if a.Args[0].V != nil {
								ef.Struct = typeName(a.Args[0].V.Type())
							}
						}
					}
					out = append(out, ef)
				case ssa.CallInstruction:
					if isBuiltinCall(x, "delete") {
						ef := Effect{Kind: "delete", Key: e.eval(x.Common().Args[1], c), Instr: in, Fn: f, Ctx: c, Chain: chain}
						mt := e.eval(x.Common().Args[0], c)
						ef.Base = mt
						for _, a := range mt.alts() {
							if a.Op == "field" {
								ef.Field = a.Name
								ef.Base = a.Args[0]
								if a.Args[0].V != nil {
									ef.Struct = typeName(a.Args[0].V.Type())
								}
							}
						}
						out = append(out, ef)
						continue
					}
					cal := calleeOf(x)
					if cal == nil || len(cal.Blocks) == 0 || !e.inRepo(cal) || (c != nil && (c.depth() >= 5 || c.onStack(cal))) || cal == fn {
						continue
					}
					if follow != nil && !follow(cal) {
						continue
					}
					var args []*Term
					for _, a := range x.Common().Args {
						args = append(args, e.eval(a, c))
					}
					nc := &tctx{fn: cal, args: args, parent: c, site: x}
					walk(cal, nc, append(append([]ssa.CallInstruction(nil), chain...), x))
				}
			}
		}
	}
	walk(fn, nil, nil)
	return out
}

// guardsWithChain: the guards of the effect's own block plus those of every call site on its chain.
func (ef *Effect) guardsWithChain() []guard {
	gs := append([]guard(nil), guardsOf(ef.Instr.Block())...)
	for _, cs := range ef.Chain {
		gs = append(gs, guardsOf(cs.Block())...)
	}
	return gs
}

// ---- calls with helper expansion -------------------------------------------------

// CallSite is a call instruction of fn or of a helper entered from it, with the context needed to
// evaluate its arguments as terms over fn's parameters.
type CallSite struct {
	Instr ssa.CallInstruction
	Fn    *ssa.Function
	Ctx   *tctx
	Chain []ssa.CallInstruction
}

// callsOf lists the calls of fn and of the repository functions it calls statically for which follow()
// holds (bounded depth, no recursion), in block order. The second result is the set of functions entered.
func (e *termEval) callsOf(fn *ssa.Function, follow func(*ssa.Function) bool) ([]CallSite, map[*ssa.Function]bool) {
	var out []CallSite
	region := map[*ssa.Function]bool{fn: true}
	var walk func(f *ssa.Function, c *tctx, chain []ssa.CallInstruction)
	walk = func(f *ssa.Function, c *tctx, chain []ssa.CallInstruction) {
		for _, b := range f.Blocks {
			if e.blockOK != nil && !e.blockOK(f, b) {
				continue
			}
			for _, in := range b.Instrs {
				cs, ok := in.(ssa.CallInstruction)
				if !ok {
					continue
				}
				out = append(out, CallSite{cs, f, c, chain})
				cal := calleeOf(cs)
				if cal == nil || len(cal.Blocks) == 0 || !e.inRepo(cal) || cal == fn || (c != nil && (c.depth() >= 4 || c.onStack(cal))) {
					continue
				}
				if follow != nil && !follow(cal) {
					continue
				}
				var args []*Term
				for _, a := range cs.Common().Args {
					args = append(args, e.eval(a, c))
				}
				region[cal] = true
				walk(cal, &tctx{fn: cal, args: args, parent: c, site: cs}, append(append([]ssa.CallInstruction(nil), chain...), cs))
			}
		}
	}
	walk(fn, nil, nil)
	return out, region
}

// outerInstrs: the instruction of the site at each nesting level (chain..., instr).
func (s CallSite) levels() []ssa.Instruction {
	var out []ssa.Instruction
	for _, c := range s.Chain {
		out = append(out, c)
	}
	return append(out, s.Instr)
}

// orderedBefore: a happens before b on every path (compared in the innermost function both belong to).
func orderedBefore(a, b CallSite) bool {
	la, lb := a.levels(), b.levels()
	for k := 0; k < len(la) && k < len(lb); k++ {
		if la[k] == lb[k] {
			continue
		}
		if la[k].Parent() != lb[k].Parent() {
			return false
		}
		return after(la[k], lb[k]) && !after(lb[k], la[k])
	}
	return false
}

func (s CallSite) guards() []guard {
	gs := append([]guard(nil), guardsOf(s.Instr.Block())...)
	for _, cs := range s.Chain {
		gs = append(gs, guardsOf(cs.Block())...)
	}
	return gs
}

// privateHelper: an unexported, non-method-of-interface function of package slog (the unit a refactoring may cut code into).
func privateHelper(p *Prog) func(*ssa.Function) bool {
	return func(f *ssa.Function) bool {
		return f.Pkg == p.Slog && f.Object() != nil && !f.Object().Exported()
	}
}
