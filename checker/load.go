package main

import (
	"fmt"
	"go/constant"
	"go/token"
	"go/types"
	"os"
	"sort"
	"strings"

	"golang.org/x/tools/go/callgraph"
	"golang.org/x/tools/go/callgraph/cha"
	"golang.org/x/tools/go/callgraph/vta"
	"golang.org/x/tools/go/packages"
	"golang.org/x/tools/go/ssa"
	"golang.org/x/tools/go/ssa/ssautil"
)

const (
	slogPath  = "github.com/hedzr/logg/slog"
	timesPath = "github.com/hedzr/logg/slog/internal/times"
	strsPath  = "github.com/hedzr/logg/slog/internal/strings"
)

// Prog is one loaded, type-checked and SSA-built configuration of /repo.
type Prog struct {
	Tags     string
	Fset     *token.FileSet
	Pkgs     []*packages.Package
	SSA      *ssa.Program
	Slog     *ssa.Package
	Times    *ssa.Package
	Strs     *ssa.Package
	byPath   map[string]*ssa.Package
	canon    map[string]types.Object // canonical anchor key -> renamed object of this tree
	fnValues map[*ssa.Function]bool
	callers  map[*ssa.Function][]ssa.CallInstruction
	skipSite func(ssa.CallInstruction) bool

	cgCHA *callgraph.Graph
	cgVTA *callgraph.Graph

	NFuncs int // source functions of the three repo packages
}

var repoDir = "/repo"

// Load loads github.com/hedzr/logg/slog/... from the working tree with the
// given build tags. overlay may replace file contents (used by the self-test).
func Load(tags string, overlay map[string][]byte) (*Prog, error) {
	env := append(os.Environ(), "GOWORK=off", "GOFLAGS=-mod=mod", "GOPROXY=off", "GOSUMDB=off", "GOTOOLCHAIN=local")
	cfg := &packages.Config{
		Mode:    packages.LoadAllSyntax,
		Dir:     repoDir,
		Env:     env,
		Overlay: overlay,
		Tests:   false,
	}
	if tags != "" {
		cfg.BuildFlags = []string{"-tags=" + tags}
	}
	pkgs, err := packages.Load(cfg, "./slog/...")
	if err != nil {
		return nil, fmt.Errorf("packages.Load: %w", err)
	}
	if len(pkgs) == 0 {
		return nil, fmt.Errorf("no packages loaded from %s", repoDir)
	}
	var errs []string
	packages.Visit(pkgs, nil, func(p *packages.Package) {
		if strings.HasPrefix(p.PkgPath, "github.com/hedzr/logg") {
			for _, e := range p.Errors {
				errs = append(errs, e.Error())
			}
		}
	})
	if len(errs) > 0 {
		return nil, fmt.Errorf("type errors (tags %q): %s", tags, strings.Join(errs, "; "))
	}
	prog, _ := ssautil.AllPackages(pkgs, ssa.InstantiateGenerics)
	prog.Build()
	p := &Prog{Tags: tags, Fset: pkgs[0].Fset, Pkgs: pkgs, SSA: prog, byPath: map[string]*ssa.Package{}}
	for _, sp := range prog.AllPackages() {
		p.byPath[sp.Pkg.Path()] = sp
	}
	p.Slog, p.Times, p.Strs = p.byPath[slogPath], p.byPath[timesPath], p.byPath[strsPath]
	if p.Slog == nil || p.Times == nil || p.Strs == nil {
		return nil, fmt.Errorf("repo packages missing after load (slog=%v times=%v strings=%v)", p.Slog != nil, p.Times != nil, p.Strs != nil)
	}
	for fn := range ssautil.AllFunctions(prog) {
		if fn.Pkg != nil && (fn.Pkg == p.Slog || fn.Pkg == p.Times || fn.Pkg == p.Strs) && fn.Synthetic == "" {
			p.NFuncs++
		}
	}
	resolveAliases(p)
	resolveRoles(p)
	return p, nil
}

func (p *Prog) Pkg(path string) *ssa.Package { return p.byPath[path] }

// CHA returns the class-hierarchy call graph (over-approximate).
func (p *Prog) CHA() *callgraph.Graph {
	if p.cgCHA == nil {
		p.cgCHA = cha.CallGraph(p.SSA)
	}
	return p.cgCHA
}

// VTA returns the variable-type-analysis call graph seeded with CHA.
func (p *Prog) VTA() *callgraph.Graph {
	if p.cgVTA == nil {
		p.cgVTA = vta.CallGraph(ssautil.AllFunctions(p.SSA), p.CHA())
	}
	return p.cgVTA
}

// Func returns the package-level function name of pkg (nil if absent).
func (p *Prog) Func(pkg *ssa.Package, name string) *ssa.Function {
	if pkg == nil {
		return nil
	}
	if fn := pkg.Func(name); fn != nil {
		return fn
	}
	if o, ok := p.canon["func|"+pkgShort(pkg.Pkg)+"||"+name].(*types.Func); ok {
		return p.SSA.FuncValue(o)
	}
	// an unexported package-level function turned into a method (a parameter became the receiver): unique by name
	if !token.IsExported(name) {
		var found *ssa.Function
		n := 0
		for _, mem := range pkg.Members {
			if t, ok := mem.(*ssa.Type); ok {
				if named, ok := t.Type().(*types.Named); ok {
					for i := 0; i < named.NumMethods(); i++ {
						if named.Method(i).Name() == name {
							if fn := p.SSA.FuncValue(named.Method(i)); fn != nil {
								found = fn
								n++
							}
						}
					}
				}
			}
		}
		if n == 1 {
			return found
		}
	}
	return nil
}

// Method returns method `name` of named type `typ` in pkg (pointer or value receiver).
func (p *Prog) Method(pkg *ssa.Package, typ, name string) *ssa.Function {
	if pkg == nil {
		return nil
	}
	obj := pkg.Pkg.Scope().Lookup(typ)
	if obj == nil {
		obj = p.canon["type|"+pkgShort(pkg.Pkg)+"||"+typ]
	}
	if obj == nil {
		return nil
	}
	tn, ok := obj.(*types.TypeName)
	if !ok {
		return nil
	}
	if o, ok := p.canon["method|"+pkgShort(pkg.Pkg)+"|"+typ+"|"+name].(*types.Func); ok {
		if fn := p.SSA.FuncValue(o); fn != nil {
			return fn
		}
	}
	if fn := p.methodDirect(pkg, tn, name); fn != nil {
		return fn
	}
	// an unexported method turned into a package-level function of the same name (receiver became a parameter)
	if !token.IsExported(name) {
		if fn := pkg.Func(name); fn != nil {
			return fn
		}
		// ... or moved to another receiver type of the package (unique by name)
		var found *ssa.Function
		n := 0
		for _, mem := range pkg.Members {
			if t, ok := mem.(*ssa.Type); ok {
				if named, ok := t.Type().(*types.Named); ok {
					for i := 0; i < named.NumMethods(); i++ {
						if named.Method(i).Name() == name {
							if fn := p.SSA.FuncValue(named.Method(i)); fn != nil {
								found = fn
								n++
							}
						}
					}
				}
			}
		}
		if n == 1 {
			return found
		}
	}
	return nil
}

func (p *Prog) methodDirect(pkg *ssa.Package, tn *types.TypeName, name string) *ssa.Function {
	for _, t := range []types.Type{tn.Type(), types.NewPointer(tn.Type())} {
		ms := p.SSA.MethodSets.MethodSet(t)
		if sel := ms.Lookup(pkg.Pkg, name); sel != nil {
			if fn := p.SSA.MethodValue(sel); fn != nil && fn.Synthetic == "" {
				return fn
			}
			// promoted through embedding or wrapper: resolve the underlying declared method
			if f, ok := sel.Obj().(*types.Func); ok {
				if fn := p.SSA.FuncValue(f); fn != nil {
					return fn
				}
			}
		}
	}
	return nil
}

// F resolves "name" (package function of slog) or "Type.name" (method).
func (p *Prog) F(spec string) *ssa.Function {
	pkg := p.Slog
	if i := strings.Index(spec, ":"); i >= 0 {
		switch spec[:i] {
		case "times":
			pkg = p.Times
		case "strings":
			pkg = p.Strs
		default:
			pkg = p.byPath[spec[:i]]
		}
		spec = spec[i+1:]
	}
	if i := strings.Index(spec, "."); i >= 0 {
		return p.Method(pkg, spec[:i], spec[i+1:])
	}
	return p.Func(pkg, spec)
}

// Const returns the value of a package-level named constant of slog.
func (p *Prog) Const(pkg *ssa.Package, name string) (constant.Value, types.Type, bool) {
	if pkg == nil {
		return nil, nil, false
	}
	c, ok := pkg.Pkg.Scope().Lookup(name).(*types.Const)
	if !ok {
		c, ok = p.canon["const|"+pkgShort(pkg.Pkg)+"||"+name].(*types.Const)
	}
	if !ok {
		return nil, nil, false
	}
	return c.Val(), c.Type(), true
}

// ConstInt returns an integer constant by name.
func (p *Prog) ConstInt(pkg *ssa.Package, name string) (int64, bool) {
	v, _, ok := p.Const(pkg, name)
	if !ok {
		return 0, false
	}
	i, exact := constant.Int64Val(constant.ToInt(v))
	return i, exact
}

// Global returns a package-level variable.
func (p *Prog) Global(pkg *ssa.Package, name string) *ssa.Global {
	if pkg == nil {
		return nil
	}
	g, _ := pkg.Members[name].(*ssa.Global)
	if g == nil {
		if o := p.canon["global|"+pkgShort(pkg.Pkg)+"||"+name]; o != nil {
			g, _ = pkg.Members[o.Name()].(*ssa.Global) // (the tree's own name, not the canonical one)
		}
	}
	return g
}

// NamedType returns the *types.Named declared as name in pkg.
func (p *Prog) NamedType(pkg *ssa.Package, name string) *types.Named {
	if pkg == nil {
		return nil
	}
	obj, _ := pkg.Pkg.Scope().Lookup(name).(*types.TypeName)
	if obj == nil {
		obj, _ = p.canon["type|"+pkgShort(pkg.Pkg)+"||"+name].(*types.TypeName)
	}
	if obj == nil {
		return nil
	}
	n, _ := obj.Type().(*types.Named)
	return n
}

// LevelNames maps each named constant of type slog.Level to its value and back.
func (p *Prog) LevelConsts() (byName map[string]int64, byVal map[int64]string) {
	byName, byVal = map[string]int64{}, map[int64]string{}
	lt := p.NamedType(p.Slog, "Level")
	sc := p.Slog.Pkg.Scope()
	for _, n := range sc.Names() {
		if c, ok := sc.Lookup(n).(*types.Const); ok && lt != nil && types.Identical(c.Type(), lt) {
			if v, ok := constant.Int64Val(constant.ToInt(c.Val())); ok {
				byName[n] = v
				if _, dup := byVal[v]; !dup {
					byVal[v] = n
				}
			}
		}
	}
	return
}

// RepoFuncs returns all source functions (incl. anonymous and generic instances) of the repo packages, sorted.
func (p *Prog) RepoFuncs() []*ssa.Function {
	var out []*ssa.Function
	for fn := range ssautil.AllFunctions(p.SSA) {
		pk := fn.Pkg
		if pk == nil && fn.Origin() != nil {
			pk = fn.Origin().Pkg
		}
		if pk == nil && fn.Parent() != nil {
			pk = fn.Parent().Pkg
		}
		if pk == nil {
			continue
		}
		if (pk == p.Slog || pk == p.Times || pk == p.Strs) && fn.Blocks != nil {
			if fn.Synthetic != "" && !strings.Contains(fn.Synthetic, "instance") {
				continue
			}
			out = append(out, fn)
		}
	}
	sort.Slice(out, func(i, j int) bool { return out[i].String() < out[j].String() })
	return out
}

func (p *Prog) Pos(pos token.Pos) string {
	if !pos.IsValid() {
		return "-"
	}
	ps := p.Fset.Position(pos)
	f := ps.Filename
	if strings.HasPrefix(f, repoDir+"/") {
		f = f[len(repoDir)+1:]
	}
	return fmt.Sprintf("%s:%d", f, ps.Line)
}

// FuncPos gives a position for a function.
func (p *Prog) FuncPos(fn *ssa.Function) string {
	if fn == nil {
		return "-"
	}
	return p.Pos(fn.Pos())
}

// startupOnly: fn runs only while the package is initialised: a package init function, or an unexported function all
// of whose static callers are start-up code and whose value is never taken (so splitting init into helpers does
// not turn warm-up code into "logging path" code).
func (p *Prog) startupOnly(fn *ssa.Function) bool {
	return p.startupOnly1(fn, map[*ssa.Function]bool{})
}

func (p *Prog) startupOnly1(fn *ssa.Function, busy map[*ssa.Function]bool) bool {
	if fn == nil {
		return false
	}
	if strings.HasPrefix(fn.Name(), "init") && fn.Signature.Recv() == nil && (fn.Name() == "init" || strings.HasPrefix(fn.Name(), "init#") || strings.HasPrefix(fn.Name(), "init$")) {
		return true
	}
	if fn.Parent() != nil {
		return p.startupOnly1(fn.Parent(), busy)
	}
	if busy[fn] || fn.Object() == nil || fn.Object().Exported() || fn.Signature.Recv() != nil {
		return false
	}
	busy[fn] = true
	defer delete(busy, fn)
	sites := p.staticCallers()[fn]
	if len(sites) == 0 {
		return false
	}
	for _, cs := range sites {
		if !p.startupOnly1(cs.Parent(), busy) {
			return false
		}
	}
	// the function value must not escape
	return !p.usedAsValue()[fn]
}

// usedAsValue: named functions that occur as an operand other than the callee of a static call.
func (p *Prog) usedAsValue() map[*ssa.Function]bool {
	if p.fnValues != nil {
		return p.fnValues
	}
	p.fnValues = map[*ssa.Function]bool{}
	var ops []*ssa.Value
	for _, g := range p.RepoFuncs() {
		for _, b := range g.Blocks {
			for _, in := range b.Instrs {
				ops = in.Operands(ops[:0])
				for i, op := range ops {
					f, ok := (*op).(*ssa.Function)
					if !ok {
						continue
					}
					if cs, isCall := in.(ssa.CallInstruction); isCall && i == 0 && cs.Common().Value == ssa.Value(f) && !cs.Common().IsInvoke() {
						continue
					}
					p.fnValues[f] = true
				}
			}
		}
	}
	return p.fnValues
}
