package main

import (
	"fmt"
	"go/token"
	"go/types"
	"sort"
	"strings"

	"golang.org/x/tools/go/ssa"
)

func init() { register("C13", checkC13) }

func checkC13(c *Ctx) {
	r := c.R
	r.Rule("R12.1", "(shared with C12) the call returns normally unless the severity is Panic/Fatal: the termination decision table (a failed Write adds no terminating path)")
	r.Rule("R02.3", "(shared with C02) the sink is told the record's own severity (its recursion guard and the destination selection rely on it): the level argument of every sink call is the level stored for the record")
	r.Rule("R13.6", "failures leave no sticky state in a lock: every mutex the package acquires is released on every path to a return (the error return included), and the failure diagnostic is not logged while a mutex the sink needs is held")
	r.Rule("R13.1", "fan-out continues: the loop of LWs.Write over the members has the natural exit only (no return, break, goto or panic in its body); the error edge rejoins the loop; each member gets the whole payload")
	r.Rule("R13.2", "bounded reaction: every call from the sink (or a helper it calls) back into the logging entry points is dominated by err != nil and by lvl != C, and the only severity such a call can issue is that same C (so the nested record cannot trigger another diagnostic): recursion depth at most 2, at most one diagnostic per failing record, none for a warning")
	r.Rule("R13.3", "the logging call returns normally on a failed Write: no explicit panic and no single-result assertion on the error value in the sink, the fan-out and the helpers they call")
	r.Rule("R13.5", "bounded reaction inside the destinations' wrappers: the package's own writer wrappers forward Write once, without a loop or retry")
	r.Rule("R13.4", "no sticky state: on the failure handling path (sink, fan-out, their in-package helpers) nothing but locals is stored: no field, global, or element of the writer lists is written, so a failing destination is never removed, marked or remembered")
	r.Rule("R02.1", "(shared with C02) at most one diagnostic per record presupposes one emission per record: no path of a spine function makes two emission calls")
	r.Rule("R08.3", "(shared with C08) failures leave no sticky state in the pools: the attribute slice is put back exactly once on every path, the formatting context after the Write")
	r.Rule("R02.6", "(shared with C02) pooled formatting buffer discipline")
	r.Rule("R01.1", "(shared with C01) the diagnostic is admitted by the logger's level like any record: it re-enters through a gated entry point")
	r.Rule("R01.2", "(shared with C01) no extra guard below the gate")
	r.Rule("R01.6", "(shared with C01) gate forms")
	r.Assume("a destination reports failure through the error result of Write and keeps no state the package depends on")
	for _, tags := range c.Configs([]string{""}, []string{"", "verbose"}) {
		p := c.Prog(tags)
		if p == nil {
			continue
		}
		m, err := BuildModel(p)
		if err != nil {
			r.Unk("R13.1", "model", "-", "cannot build the emission model: %v", err)
			continue
		}
		c13Fanout(c, p, m)
		c13Reaction(c, p, m)
		noSideChannel(c, p, m, "R13.2")
		c12Decision(c, p, m)
		lockDiscipline(c, p, "R13.6")
		c02Newline(c, p, m)
		writerSetNilSafe(c, p, m, "R13.3")
		c02Counts(c, p, m)
		c08Pools(c, p, m)
		c01Gates(c, p, m, tags)
		wrapperForwarding(c, p, "R13.5")
		noLockAcrossDiagnostic(c, p, m)
	}
	c.Floor["R13.1"] = 2
	c.Floor["R13.2"] = 1
	c.Floor["R13.4"] = 2
}

func loopBlocks(fn *ssa.Function) map[*ssa.BasicBlock]bool {
	out := map[*ssa.BasicBlock]bool{}
	for _, b := range fn.Blocks {
		if inLoop(b) {
			out[b] = true
		}
	}
	return out
}

func c13Fanout(c *Ctx, p *Prog, m *Model) {
	r := c.R
	fanoutNoSelfCall(c, p, m, "R13.1")
	asTargetUsedOnSuccess(c, p, "R13.3")
	lw := p.Method(p.Slog, "LWs", "Write")
	if lw == nil {
		r.Unk("R13.1", "fanout:LWs.Write", "-", "LWs.Write not found")
		return
	}
	loop := loopBlocks(lw)
	var inv *ssa.Call
	for _, cs := range callsIn(lw) {
		if call, ok := cs.(*ssa.Call); ok && call.Common().IsInvoke() && nm(call.Common().Method) == "Write" {
			inv = call
		}
	}
	if inv == nil || !loop[inv.Block()] {
		r.Bad("R13.1", "fanout:LWs.Write", p.FuncPos(lw), "no member Write inside a loop over the members")
		return
	}
	// exits from the loop: edges from a loop block to a non-loop block
	var exits []string
	headerExit := 0
	for b := range loop {
		last := b.Instrs[len(b.Instrs)-1]
		switch last.(type) {
		case *ssa.Return:
			exits = append(exits, "return inside the loop at "+p.Pos(instrPos(last)))
		case *ssa.Panic:
			exits = append(exits, "panic inside the loop at "+p.Pos(instrPos(last)))
		}
		for _, s := range b.Succs {
			if !loop[s] {
				// natural exit: the block computing the range condition (dominates the member Write)
				if b.Dominates(inv.Block()) {
					headerExit++
				} else {
					exits = append(exits, "early exit from the loop body at "+p.Pos(instrPos(last)))
				}
			}
		}
	}
	sort.Strings(exits)
	if len(exits) > 0 || headerExit != 1 {
		r.Bad("R13.1", "fanout:LWs.Write", p.Pos(instrPos(inv)), "the fan-out loop can be left before all members were written (%s; natural exits %d): members after a failing one lose the record", strings.Join(exits, "; "), headerExit)
	} else {
		r.Ok("R13.1", "fanout:LWs.Write", p.Pos(instrPos(inv)), "single natural loop exit; the error edge rejoins the loop")
	}
	// the loop bound must be the full length of the receiver
	r.Check(inv.Common().Args[0] == ssa.Value(lw.Params[1]), "R13.1", "fanout:payload", p.Pos(instrPos(inv)), "each member receives the parameter p", "members do not receive the whole payload p")
	// every member is visited: the range is over the receiver itself, starting at 0, step 1
	okRange := false
	if u, ok := inv.Common().Value.(*ssa.UnOp); ok {
		if ia, ok := u.X.(*ssa.IndexAddr); ok && ia.X == ssa.Value(lw.Params[0]) {
			okRange = fullIndexLoop(ia.Index, ia.X)
		}
	}
	r.Check(okRange, "R13.1", "fanout:range", p.Pos(instrPos(inv)), "the loop ranges over every member of the receiver from the first", "the loop over the members is not a plain range over the receiver (members may be skipped)")
}

// failureRegion: sink functions, the fan-out, and the in-package helpers they call statically (excluding re-entry into the entry points).
func failureRegion(p *Prog, m *Model) []*ssa.Function {
	var roots []*ssa.Function
	for fn := range m.SinkFns {
		roots = append(roots, fn)
	}
	for _, tn := range []string{"LWs", "dualWriter", "logwr", "filewr"} {
		if fn := p.Method(p.Slog, tn, "Write"); fn != nil && fn.Pkg == p.Slog && fn.Synthetic == "" {
			roots = append(roots, fn)
		}
	}
	stops, _ := entryPointNames(p)
	stop := map[*ssa.Function]bool{}
	for _, n := range stops {
		if fn := p.Method(p.Slog, "Entry", n); fn != nil {
			stop[fn] = true
		}
	}
	_, fs := entryPointNames(p)
	for _, n := range fs {
		if fn := p.Func(p.Slog, n); fn != nil {
			stop[fn] = true
		}
	}
	reach := staticReach(roots, func(fn *ssa.Function) bool {
		if stop[fn] {
			return true
		}
		// re-entry into the logging spine proper (anything that carries a severity) ends the failure region
		if m.Spine[fn] && !m.SinkFns[fn] && m.levelParamIndex(fn) >= 0 {
			return true
		}
		if fn.Pkg != p.Slog && !(fn.Parent() != nil) {
			return true
		}
		// selection of the destination is configuration reading, not failure handling
		if nm(fn) == "findWriter" {
			return true
		}
		return false
	})
	var out []*ssa.Function
	for fn := range reach {
		out = append(out, fn)
	}
	sort.Slice(out, func(i, j int) bool { return shortName(out[i]) < shortName(out[j]) })
	return out
}

func c13Reaction(c *Ctx, p *Prog, m *Model) {
	r := c.R
	region := failureRegion(p, m)
	inRegion := map[*ssa.Function]bool{}
	for _, fn := range region {
		inRegion[fn] = true
	}
	r.Extra["failure_region"] = func() []string {
		var s []string
		for _, fn := range region {
			s = append(s, shortName(fn))
		}
		return s
	}()
	// R13.2: re-entry sites
	nSites := 0
	for _, fn := range region {
		for _, cs := range callsIn(fn) {
			cal := calleeOf(cs)
			if cal == nil || !m.Spine[cal] || inRegion[cal] {
				continue
			}
			// a call back into the logging spine from the failure region
			nSites++
			key := "reentry:" + shortName(fn) + "->" + shortName(cal)
			// which severities can it issue?
			lvls := map[string]bool{}
			collectLevels(p, m, cs, lvls, 0)
			// guards
			var errGuard bool
			var exclude []string
			var levelParamOK bool
			for _, g := range guardsOf(cs.Block()) {
				cond, neg := normCond(g.If.Cond)
				bo, ok := cond.(*ssa.BinOp)
				if !ok {
					continue
				}
				taken := (g.Succ == 0) != neg
				if isNilConst(bo.Y) && ((bo.Op == token.NEQ && taken) || (bo.Op == token.EQL && !taken)) {
					if isErrorOfWrite(bo.X) {
						errGuard = true
					}
				}
				if m.isLevel(bo.X.Type()) {
					if cv, ok := constInt(bo.Y); ok && ((bo.Op == token.NEQ && taken) || (bo.Op == token.EQL && !taken)) {
						exclude = append(exclude, m.LevelByVal[cv])
						if prm, ok := strip(bo.X).(*ssa.Parameter); ok && m.isLevel(prm.Type()) {
							levelParamOK = true
						}
					}
				}
			}
			var ls []string
			for l := range lvls {
				ls = append(ls, l)
			}
			sort.Strings(ls)
			// the diagnostic goes to THIS logger (its warning destinations, its level): the re-entry is a method call on the
			// sink's own receiver, not a package-level function (the default logger) or another logger
			sameLogger := false
			if cal.Signature.Recv() != nil && len(cs.Common().Args) > 0 && receiver(fn) != nil {
				for _, sv := range sources(cs.Common().Args[0]) {
					if sv == ssa.Value(receiver(fn)) {
						sameLogger = true
					}
				}
			}
			if !sameLogger && fn != cal.Parent() {
				r.Bad("R13.2", key+":logger", p.Pos(instrPos(cs)), "the diagnostic is not issued on the logger whose destination failed (%s is not called on the sink's receiver): it goes to the default logger's destinations and is admitted by the default logger's level", shortName(cal))
			}
			switch {
			case fn == cal.Parent():
				continue
			case !m.SinkFns[fn] && len(exclude) == 0:
				// helper called from the sink: the guard lives at the helper's call site in the sink; checked when visiting the sink
				if guardedCallers(p, m, fn, lvls) {
					r.Ok("R13.2", key, p.Pos(instrPos(cs)), "helper re-entry; every call site of the helper is guarded by lvl != %v and issues only %v", ls, ls)
				} else {
					r.Bad("R13.2", key, p.Pos(instrPos(cs)), "a failure-handling helper logs at %v but its call sites are not guarded against exactly these severities: the diagnostic for a failing record can itself trigger a diagnostic (cascade)", ls)
				}
			case !errGuard && m.SinkFns[fn]:
				r.Bad("R13.2", key, p.Pos(instrPos(cs)), "the sink logs again without an err != nil test on the Write result")
			case len(exclude) != 1 || !levelParamOK:
				r.Bad("R13.2", key, p.Pos(instrPos(cs)), "the nested logging call is not guarded by exactly one 'record severity != C' test (found %v): nothing bounds the recursion", exclude)
			case len(ls) != 1 || ls[0] != exclude[0]:
				r.Bad("R13.2", key, p.Pos(instrPos(cs)), "the diagnostic can be issued at %v but only %v records are exempt from producing a diagnostic: a failing diagnostic produces another one (cascade)", ls, exclude)
			default:
				r.Ok("R13.2", key, p.Pos(instrPos(cs)), "guarded by err != nil and lvl != %s; the only severity it can issue is %s, so the nested call cannot recurse further", exclude[0], ls[0])
			}
		}
	}
	if nSites == 0 {
		r.OkTrivial("R13.2", "reentry:none", "-", "the failure path never logs: no diagnostic at all (allowed: 'at most one')")
	}
	// R13.3 / R13.4 on the region
	for _, fn := range region {
		name := shortName(fn)
		var probs3, probs4 []string
		for _, b := range fn.Blocks {
			for _, in := range b.Instrs {
				switch x := in.(type) {
				case *ssa.Panic:
					probs3 = append(probs3, "explicit panic at "+p.Pos(instrPos(x)))
				case *ssa.TypeAssert:
					if !x.CommaOk {
						probs3 = append(probs3, "single-result type assertion at "+p.Pos(instrPos(x)))
					}
				case *ssa.Store:
					if ia, ok := x.Addr.(*ssa.IndexAddr); ok {
						if _, isAlloc := ia.X.(*ssa.Alloc); !isAlloc {
							probs4 = append(probs4, fmt.Sprintf("element store into %s at %s", m.valDesc(ia.X), p.Pos(instrPos(x))))
						}
					}
				case ssa.CallInstruction:
					if isBuiltinCall(x, "delete") || isBuiltinCall(x, "clear") {
						probs4 = append(probs4, "delete/clear at "+p.Pos(instrPos(x)))
					}
				}
			}
		}
		for _, fs := range fieldStores(fn) {
			if fs.Kind == "addr-escape" {
				continue
			}
			probs4 = append(probs4, fmt.Sprintf("store to %s.%s at %s", fs.Struct, fs.Field, p.Pos(instrPos(fs.Instr))))
		}
		for _, gs := range globalStores(fn) {
			probs4 = append(probs4, fmt.Sprintf("store to package variable %s at %s", nm(gs.G), p.Pos(instrPos(gs.Instr))))
		}
		for _, why := range unprovenPositions(p, m, fn) {
			probs3 = append(probs3, why)
		}
		for _, why := range uncomparableCompares(p, fn) {
			probs3 = append(probs3, why)
		}
		r.Check(len(probs3) == 0, "R13.3", "fn:"+name, p.FuncPos(fn), "no explicit failure construct on the failure path", strings.Join(probs3, "; "))
		r.Check(len(probs4) == 0, "R13.4", "fn:"+name, p.FuncPos(fn), "stores nothing but locals", "failure handling leaves state behind: "+strings.Join(probs4, "; "))
	}
}

func isErrorOfWrite(v ssa.Value) bool {
	for _, s := range sources(v) {
		if ex, ok := s.(*ssa.Extract); ok {
			if call, ok := ex.Tuple.(*ssa.Call); ok {
				if invokeName(call) == "Write" {
					return true
				}
				if cal := calleeOf(call); cal != nil && nm(cal) == "Write" {
					return true
				}
			}
		}
		if prm, ok := s.(*ssa.Parameter); ok && prm.Type().String() == "error" {
			return true
		}
	}
	return false
}

// collectLevels gathers the level constants a call can issue: the callee's verb constant if it is an entry point,
// the constant Level arguments otherwise, following private helpers.
func collectLevels(p *Prog, m *Model, cs ssa.CallInstruction, out map[string]bool, depth int) {
	cal := calleeOf(cs)
	if cal == nil || depth > 4 {
		out["?"] = true
		return
	}
	hasLevelArg := false
	for i, prm := range cal.Params {
		if m.isLevel(prm.Type()) && !(cal.Signature.Recv() != nil && i == 0) && i < len(cs.Common().Args) {
			hasLevelArg = true
			for _, s := range sources(cs.Common().Args[i]) {
				if cv, ok := constInt(s); ok {
					out[m.LevelByVal[cv]] = true
				} else {
					out["?"+m.valDesc(s)] = true
				}
			}
		}
	}
	if hasLevelArg {
		return
	}
	// an entry point named after a verb, or a helper: look inside for the level constants it passes on
	n := 0
	for _, inner := range m.Sites[cal] {
		n++
		collectLevels(p, m, inner, out, depth+1)
	}
	if n == 0 {
		out["?"] = true
	}
}

// guardedCallers: every in-package call site of helper fn is guarded by 'lvl != C' for each C the helper can issue, and by nothing weaker.
func guardedCallers(p *Prog, m *Model, fn *ssa.Function, lvls map[string]bool) bool {
	sites := m.Callers[fn]
	if len(sites) == 0 {
		return false
	}
	for _, cs := range sites {
		ex := map[string]bool{}
		for _, g := range guardsOf(cs.Block()) {
			cond, neg := normCond(g.If.Cond)
			bo, ok := cond.(*ssa.BinOp)
			if !ok || !m.isLevel(bo.X.Type()) {
				continue
			}
			taken := (g.Succ == 0) != neg
			if cv, ok := constInt(bo.Y); ok && ((bo.Op == token.NEQ && taken) || (bo.Op == token.EQL && !taken)) {
				ex[m.LevelByVal[cv]] = true
			}
		}
		for l := range lvls {
			if !ex[l] {
				return false
			}
		}
	}
	return true
}

// unprovenPositions: index and re-slice positions in fn that are not constants (those are R02.8's), not the index
// of a loop over the same sequence, and not bounded by a dominating comparison with the length of that sequence.
// On the failure path the typical position is the byte count a destination returned, which the fan-out sums over
// its members: nothing bounds it by the length of the record.
func unprovenPositions(p *Prog, m *Model, fn *ssa.Function) []string {
	var out []string
	boundedBy := func(pos ssa.Value, seq ssa.Value, b *ssa.BasicBlock, strict bool) bool {
		if _, ok := constInt(pos); ok {
			return true
		}
		if fullIndexLoop(pos, seq) {
			return true
		}
		// len(seq)-k, len(seq) itself (for a re-slice)
		isLen := func(v ssa.Value) bool { y, ok := lenCallOf(v); return ok && y == strip(seq) }
		if !strict && isLen(pos) {
			return true
		}
		if bo, ok := pos.(*ssa.BinOp); ok && bo.Op == token.SUB && isLen(bo.X) {
			if k, ok := constInt(bo.Y); ok && k >= 0 && lenLower(seq, b, 0) >= k {
				return true
			}
		}
		for _, g := range guardsOf(b) {
			cond, neg := normCond(g.If.Cond)
			bo, ok := cond.(*ssa.BinOp)
			if !ok {
				continue
			}
			taken := (g.Succ == 0) != neg
			op := bo.Op
			x, y := bo.X, bo.Y
			if strip(y) == strip(pos) && isLen(x) { // len op pos  ->  pos op' len
				x, y = y, x
				switch op {
				case token.LSS:
					op = token.GTR
				case token.LEQ:
					op = token.GEQ
				case token.GTR:
					op = token.LSS
				case token.GEQ:
					op = token.LEQ
				}
			}
			if strip(x) != strip(pos) || !isLen(y) {
				continue
			}
			if !taken {
				switch op {
				case token.LSS:
					op = token.GEQ
				case token.LEQ:
					op = token.GTR
				case token.GTR:
					op = token.LEQ
				case token.GEQ:
					op = token.LSS
				default:
					continue
				}
			}
			if op == token.LSS || (op == token.LEQ && !strict) {
				return true
			}
		}
		return false
	}
	seqT := func(t types.Type) bool {
		switch u := t.Underlying().(type) {
		case *types.Slice:
			return true
		case *types.Basic:
			return u.Info()&types.IsString != 0
		}
		return false
	}
	for _, b := range fn.Blocks {
		for _, in := range b.Instrs {
			switch x := in.(type) {
			case *ssa.IndexAddr:
				if seqT(x.X.Type()) && !boundedBy(x.Index, x.X, b, true) {
					out = append(out, fmt.Sprintf("%s[%s] at %s: the position is not bounded by the length", m.valDesc(x.X), m.valDesc(x.Index), p.Pos(instrPos(x))))
				}
				// a fixed-size table indexed at a computed position (e.g. by the position of a member in a list of any length)
				if pt, isP := x.X.Type().Underlying().(*types.Pointer); isP {
					if at, isA := pt.Elem().Underlying().(*types.Array); isA {
						if _, isC := constInt(x.Index); !isC {
							up, _, have := idxUpper(x.Index, b)
							if !have || up >= at.Len() {
								out = append(out, fmt.Sprintf("%s[%s] at %s: the table has %d entries and the position is not bounded below that (a list with more members makes the call panic instead of returning)", m.valDesc(x.X), m.valDesc(x.Index), p.Pos(instrPos(x)), at.Len()))
							}
						}
					}
				}
			case *ssa.Slice:
				if !seqT(x.X.Type()) {
					continue
				}
				for _, pos := range []ssa.Value{x.Low, x.High} {
					if pos != nil && !boundedBy(pos, x.X, b, false) {
						out = append(out, fmt.Sprintf("re-slice of %s at position %s at %s: nothing bounds the position by the length (a byte count returned by a destination, summed over the members of a list, can exceed it), so the logging call panics instead of returning", m.valDesc(x.X), m.valDesc(pos), p.Pos(instrPos(x))))
					}
				}
			}
		}
	}
	return out
}

// uncomparableCompares: == / != between two interface values (neither the nil constant) whose interface type has an
// implementation in the repository with an uncomparable underlying type (a slice such as the writer list): the
// comparison panics at run time when both hold that type.
func uncomparableCompares(p *Prog, fn *ssa.Function) []string {
	var out []string
	for _, b := range fn.Blocks {
		for _, in := range b.Instrs {
			bo, ok := in.(*ssa.BinOp)
			if !ok || (bo.Op != token.EQL && bo.Op != token.NEQ) || isNilConst(bo.X) || isNilConst(bo.Y) {
				continue
			}
			ix, okx := bo.X.Type().Underlying().(*types.Interface)
			iy, oky := bo.Y.Type().Underlying().(*types.Interface)
			if !okx || !oky {
				continue
			}
			for _, it := range []*types.Interface{ix, iy} {
				if it.NumMethods() == 0 {
					continue
				}
				for _, mem := range p.Slog.Members {
					tn, ok := mem.(*ssa.Type)
					if !ok {
						continue
					}
					t := tn.Type()
					if types.Comparable(t) || !(types.Implements(t, it) || types.Implements(types.NewPointer(t), it)) {
						continue
					}
					if types.Implements(t, it) {
						out = append(out, fmt.Sprintf("%s %s %s at %s compares two interface values that can both hold the uncomparable type %s: the comparison panics at run time", p.valShort(bo.X), bo.Op, p.valShort(bo.Y), p.Pos(instrPos(bo)), tn.Name()))
					}
				}
			}
		}
	}
	return dedupStr(out)
}

func (p *Prog) valShort(v ssa.Value) string {
	if v == nil {
		return "?"
	}
	return v.Name()
}

// noSideChannel: what the package says about a failed Write goes through the logger (a gated entry point of the same
// logger, R13.2) and nowhere else: no function of the failure region writes to a process-level device (os.Stderr /
// os.Stdout, fmt.Print*/Fprint*, the print builtins). Such a note is a diagnostic nobody's level admitted, on a device
// that was never selected for that logger, and it is not counted by the "at most one" rule.
func noSideChannel(c *Ctx, p *Prog, m *Model, rule string) {
	r := c.R
	var bad []string
	n := 0
	for _, fn := range failureRegion(p, m) {
		n++
		for _, b := range fn.Blocks {
			for _, in := range b.Instrs {
				if cs, ok := in.(ssa.CallInstruction); ok {
					if bi, isB := cs.Common().Value.(*ssa.Builtin); isB && (bi.Name() == "print" || bi.Name() == "println") {
						bad = append(bad, shortName(fn)+" calls "+bi.Name()+" at "+p.Pos(instrPos(cs)))
					}
					if cal := calleeOf(cs); cal != nil && cal.Pkg != nil {
						pp, nmx := cal.Pkg.Pkg.Path(), cal.Name()
						if pp == "fmt" && (strings.HasPrefix(nmx, "Print") || strings.HasPrefix(nmx, "Fprint")) {
							bad = append(bad, shortName(fn)+" calls fmt."+nmx+" at "+p.Pos(instrPos(cs)))
						}
						if pp == "log" && (strings.HasPrefix(nmx, "Print") || strings.HasPrefix(nmx, "Fatal") || strings.HasPrefix(nmx, "Panic") || nmx == "Output") {
							bad = append(bad, shortName(fn)+" calls log."+nmx+" at "+p.Pos(instrPos(cs)))
						}
					}
				}
				for _, op := range in.Operands(nil) {
					if g, ok := (*op).(*ssa.Global); ok && g.Pkg != nil && g.Pkg.Pkg.Path() == "os" && (g.Name() == "Stderr" || g.Name() == "Stdout") {
						bad = append(bad, shortName(fn)+" uses os."+g.Name()+" at "+p.Pos(instrPos(in)))
					}
				}
			}
		}
	}
	bad = dedupStr(bad)
	sort.Strings(bad)
	r.Check(len(bad) == 0 && n > 0, rule, "no-side-channel", "-", fmt.Sprintf("none of the %d functions of the failure region writes to a process-level device", n),
		"the failure handling writes around the logger ("+strings.Join(bad, "; ")+"): a note on a device never selected for that logger, admitted by nobody's level and outside the one-diagnostic bound")
}
