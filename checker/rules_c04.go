package main

import (
	"fmt"
	"go/ast"
	"go/constant"
	"go/token"
	"go/types"
	"sort"
	"strings"

	"golang.org/x/tools/go/ssa"
)

func init() {
	register("C04", checkC04)
	register("C05", checkC05)
	register("C06", checkC06)
}

// classes a raw (verbatim) emission may carry, per mode
var rawAllowed = map[string]map[string]string{
	"json": {
		"const": "literal text of the encoder", "num": "strconv output", "time": "time.AppendFormat output", "quoted": "strconv.Quote output",
		"marshaller": "output of a user-supplied MarshalJSON, JSON text by that interface's contract (outside the property's domain)",
	},
	"logfmt": {
		"const": "literal text of the encoder", "num": "strconv output", "time": "time.AppendFormat output", "quoted": "strconv.Quote output",
		"marshaller": "output of a user-supplied marshaller (outside the domain)", "text-marshaller": "output of a user-supplied MarshalText (outside the domain)", "key": "attribute keys are restricted to legal logfmt keys by the property",
	},
	"colored": {
		"const": "literal text of the encoder", "num": "strconv output", "time": "time.AppendFormat output", "quoted": "strconv.Quote output",
		"marshaller": "output of a user-supplied marshaller (outside the domain)", "text-marshaller": "output of a user-supplied MarshalText (outside the domain)", "key": "attribute keys", "message": "the message itself (claimed for messages without escape bytes)",
		"frame": "hardened source path / function name of the runtime frame", "logger-name": "the logger's name", "level-name": "the level tag",
	},
}

// emissionCommon runs the raw-sink classification for one mode and reports under `rule`.
func emissionCommon(c *Ctx, p *Prog, m *Model, mode Mode, rule string) *ModeReach {
	r := c.R
	mr := NewModeReach(p, m, mode, sessionEntries(p), true)
	ra := &rawAnalysis{mr: mr}
	ra.run()
	allowed := rawAllowed[mode.String()]
	seen := map[string]bool{}
	n := 0
	for _, s := range ra.Sites {
		if m.SinkFns[s.Fn] || (calleeOfInstr(s.Instr) != nil && m.SinkFns[calleeOfInstr(s.Instr)]) {
			continue // the hand-over of the finished payload to the destination
		}
		if cs, ok := s.Instr.(ssa.CallInstruction); ok && invokeName(cs) == "Write" {
			if nt := namedOf(cs.Common().Value.Type()); nt != nil && nm(nt.Obj()) == "LogWriter" {
				continue
			}
		}
		n++
		var bad []string
		for _, cl := range classList(s.Classes) {
			if _, ok := allowed[cl]; !ok {
				bad = append(bad, cl)
			}
		}
		base := origin(s.Fn)
		key := fmt.Sprintf("raw[%s]:%s:%s", mode, shortName(base), strings.Join(classList(s.Classes), "+"))
		if seen[key] {
			continue
		}
		seen[key] = true
		if len(bad) > 0 {
			r.Bad(rule, key, p.Pos(instrPos(s.Instr)), "in %s mode %s copies %s into the record verbatim (through %s): such bytes can break the framing, forge a pair/member or carry terminal escapes", mode, shortName(s.Fn), strings.Join(bad, ", "), s.Via)
		} else {
			r.Ok(rule, key, p.Pos(instrPos(s.Instr)), "verbatim bytes are only %s", strings.Join(classList(s.Classes), ", "))
		}
	}
	if n < 5 {
		r.Unk(rule, fmt.Sprintf("raw[%s]:sites", mode), "-", "only %d verbatim emission sites found in %s mode: the emission model lost its anchors", n, mode)
	}
	r.Extra["functions_reachable_"+mode.String()] = len(mr.Funcs())
	return mr
}

func calleeOfInstr(in ssa.Instruction) *ssa.Function {
	if cs, ok := in.(ssa.CallInstruction); ok {
		return calleeOf(cs)
	}
	return nil
}

// newlineRule: constants containing '\n' emitted in the mode (production) may only come from End/EndArray under their newline parameter.
func newlineRule(c *Ctx, p *Prog, mr *ModeReach, rule string, allowFn map[string]string) {
	r := c.R
	n := 0
	for _, ce := range mr.constEmissions() {
		if !strings.Contains(ce.Text, "\n") {
			continue
		}
		n++
		name := shortName(ce.Fn)
		key := fmt.Sprintf("newline[%s]:%s", mr.Mode, name)
		if why, ok := allowFn[name]; ok {
			// must be under the function's bool parameter
			okG := true
			if strings.HasSuffix(name, ".End") || strings.HasSuffix(name, ".EndArray") {
				okG = false
				for _, g := range guardsOf(ce.Instr.Block()) {
					if g.If.Cond == ssa.Value(ce.Fn.Params[1]) && g.Succ == 0 {
						okG = true
					}
				}
			}
			r.Check(okG, rule, key, p.Pos(instrPos(ce.Instr)), why, "the terminating newline is not restricted to the newline parameter")
			continue
		}
		r.Bad(rule, key, p.Pos(instrPos(ce.Instr)), "in %s mode (production) %s can write a line break inside the record: the record no longer occupies exactly one line", mr.Mode, name)
	}
	if n == 0 {
		r.Unk(rule, fmt.Sprintf("newline[%s]:none", mr.Mode), "-", "no newline emission found at all (End must write one)")
	}
}

// fieldOrder: the call order of the printers in printImpl for the mode.
func fieldOrder(c *Ctx, p *Prog, m *Model, mode Mode, rule string, want []string, optional map[string]bool) {
	r := c.R
	pi := p.Method(p.Slog, "Entry", "printImpl")
	if pi == nil {
		r.Unk(rule, "order:printImpl", "-", "printImpl not found")
		return
	}
	interesting := map[string]bool{}
	for _, w := range want {
		interesting[w] = true
	}
	for _, o := range []string{"printMsg", "printFirstLineOfMsg", "printRestLinesOfMsg", "printPC", "serializeAttrs", "printTimestamp", "printLoggerName", "printSeverity", "Begin", "End", "Bytes", "printOut"} {
		interesting[o] = true
	}
	nPaths := 0
	bad := ""
	anchor := func(fn *ssa.Function) bool { return interesting[nm(fn)] }
	seqs, okPaths := callSeqsMode(p, pi, mode, anchor, map[*ssa.Function]bool{}, 0)
	for _, seq := range seqs {
		nPaths++
		if len(seq) <= 2 {
			continue // the blank-line shortcut
		}
		// compare with want, optional entries may be absent
		i := 0
		good := true
		for _, w := range want {
			if i < len(seq) && seq[i] == w {
				i++
				continue
			}
			if optional[w] {
				continue
			}
			good = false
			break
		}
		if !good || i != len(seq) {
			bad = fmt.Sprintf("the fields are produced in the order %v, expected %v", seq, want)
		}
	}
	key := fmt.Sprintf("order[%s]", mode)
	switch {
	case !okPaths:
		r.Unk(rule, key, p.FuncPos(pi), "too many paths through printImpl")
	case bad != "":
		r.Bad(rule, key, p.FuncPos(pi), "%s", bad)
	default:
		r.Ok(rule, key, p.FuncPos(pi), "on all %d feasible paths the record is built in the order %v", nPaths, want)
	}
}

// callSeqsMode returns the distinct sequences of anchor calls over the mode-feasible acyclic paths of fn; a
// call to a private repository function that is not an anchor itself is replaced by that function's own
// sequences (so the order rule does not depend on how the record builder is cut into helpers).
func callSeqsMode(p *Prog, fn *ssa.Function, mode Mode, anchor func(*ssa.Function) bool, stack map[*ssa.Function]bool, depth int) ([][]string, bool) {
	seen := map[string]bool{}
	var out [][]string
	okAll := true
	stack[fn] = true
	defer delete(stack, fn)
	ok := enumPathsMode(fn, mode, 4096, func(path []*ssa.BasicBlock) {
		cur := [][]string{nil}
		for _, cs := range pathCalls(path) {
			cal := calleeOf(cs)
			if cal == nil {
				continue
			}
			if _, isDefer := cs.(*ssa.Defer); isDefer {
				continue
			}
			if anchor(cal) {
				for i := range cur {
					cur[i] = append(append([]string(nil), cur[i]...), nm(cal))
				}
				continue
			}
			if cal.Pkg != p.Slog || len(cal.Blocks) == 0 || stack[cal] || depth >= 4 || cal.Object() == nil || cal.Object().Exported() {
				continue
			}
			sub, ok2 := callSeqsMode(p, cal, mode, anchor, stack, depth+1)
			if !ok2 {
				okAll = false
			}
			nonEmpty := false
			for _, sq := range sub {
				if len(sq) > 0 {
					nonEmpty = true
				}
			}
			if !nonEmpty {
				continue
			}
			var next [][]string
			for _, c0 := range cur {
				for _, sq := range sub {
					next = append(next, append(append([]string(nil), c0...), sq...))
				}
			}
			if len(next) > 256 {
				okAll = false
				next = next[:256]
			}
			cur = next
		}
		for _, c0 := range cur {
			k := strings.Join(c0, ",")
			if !seen[k] {
				seen[k] = true
				out = append(out, c0)
			}
		}
	})
	return out, ok && okAll
}

// enumPathsMode enumerates acyclic paths following only mode-feasible successors.
func enumPathsMode(fn *ssa.Function, mode Mode, limit int, visit func([]*ssa.BasicBlock)) bool {
	n := 0
	ok := true
	var cur []*ssa.BasicBlock
	on := map[*ssa.BasicBlock]int{}
	var dfs func(b *ssa.BasicBlock)
	dfs = func(b *ssa.BasicBlock) {
		if !ok || on[b] >= 2 {
			return
		}
		on[b]++
		cur = append(cur, b)
		succs := feasibleSuccs(b, mode)
		if len(succs) == 0 {
			n++
			if n > limit {
				ok = false
			} else {
				cp := append([]*ssa.BasicBlock(nil), cur...)
				visit(cp)
			}
		}
		for _, s := range succs {
			dfs(s)
		}
		cur = cur[:len(cur)-1]
		on[b]--
	}
	dfs(fn.Blocks[0])
	return ok
}

func checkC04(c *Ctx) {
	r := c.R
	r.Rule("R07.1", "(shared with C07) one member per attribute with its own value: in argsToAttrs the pending-key test is the first decision of a round and a pending key takes the next element as its value whatever it is")
	r.Rule("R04.12", "all attributes are members of the object: the loop of serializeAttrs over the (sorted) member list has its natural exit only; a break or return from the body drops every member after that point")
	r.Rule("R04.1", "escape alphabet: in JSON mode string values and keys go through the JSON escaper only (the Go-syntax quoting routines are unreachable in JSON mode); every backslash-led constant that escaper can emit is a JSON escape; its safe-character table marks exactly the control characters, the quote and the backslash as unsafe; the hex digit table is the constant \"0123456789abcdef\" and is never stored to")
	r.Rule("R04.2", "no raw user bytes: in JSON mode (mode bits pruned, testing/debug dump excluded) every site that copies a non-constant string into the record verbatim carries only strconv/time output or a user marshaller's output; message, keys, values, error text, fallback formatting, logger name and frame strings reach the record only through the escaper")
	r.Rule("R04.3", "value tokens: the only literal value constants written in JSON mode are JSON literals (null/true/false); floating-point text (which can be NaN/Inf) is always written between quotes in JSON mode, on every call chain from the value switch down to strconv.AppendFloat")
	r.Rule("R04.4", "object bracketing: the member-list emitter is always called between an opening and a closing brace emitted by the same function in JSON mode (top level and nested groups), and a member separator is not written right after an opening brace")
	r.Rule("R04.9", "member grammar: in the member-list emitter every mode-feasible path from a member separator to the next element (or out of the function) writes a key, and every path from a key writes a value (the value switch, the timestamp printer or a value stringer), so no element is dropped after its separator")
	r.Rule("R05.10", "(shared with C05) the message is handed on as given from the verbs to the encoder's message field")
	r.Rule("R01.1", "(shared with C01) decodes to what was logged, the level included: every verb emits at the severity it gates on (R01.1/R01.2/R01.5: gate and emission agree)")
	r.Rule("R11.1", "(shared with C11) a logger put into JSON mode prints JSON: the mode setters' effect tables")
	r.Rule("R07.3", "(shared with C07) among equal keys the last one given wins: stable sort, consistent comparator")
	r.Rule("R09.2", "(shared with C09) nothing rendered for one record (keys, numbers, text) is kept in package-level state for another")
	r.Rule("R02.8", "(shared with C02) hand-written formatters stay inside their scratch tables: fixed-size tables indexed at a computed position have a derivable bound")
	r.Rule("R16.2", "(shared with C16) the time member identifies the instant: layout decision and layout table (no 12-hour clock without AM/PM, zone printed)")
	r.Rule("R19.1", "(shared with C19) the record is the bytes the encoder appended: the write side of the formatting buffer (Write*, Grow, Truncate, Reset, Bytes and their helpers) is isomorphic to bytes.Buffer")
	r.Rule("R15.3", "(shared with C15) attributes arriving through the log/slog handler keep key and value: each kind arm hands on the key and the value read with the accessor of its own kind, groups nested, LogValuers resolved")
	r.Rule("R15.4", "(shared with C15) every attribute with its own value: handlers derived for log/slog own a fresh copy of the bound field list (siblings do not overwrite each other's attributes)")
	r.Rule("R02.3", "(shared with C02) every record is one JSON object: the only payload that is not the finished buffer is the blank line of Print/Println, taken exactly for lvl == AlwaysLevel with a blank message")
	r.Rule("R04.10", "array grammar: in every list writer that separates elements by ',' each function of the package called in the loop that can write to the record writes on every mode-feasible path, so no element is empty")
	r.Rule("R04.11", "built-in kinds first: in the value switch every site that reaches an invoke of MarshalJSON / MarshalText is dominated by the miss edge of the time.Time arm (user marshallers are consulted only for values no built-in arm matched)")
	r.Rule("R02.6", "(shared with C02) the pooled formatting context is returned to the pool by the normal path only, after the Write, and not used afterwards: a context put back by a deferred call after a panic inside a value's own method carries the half-built state (group prefix, colours) into the records that follow")
	r.Rule("R05.11", "(shared with C05) pair grammar of the fixed members in JSON mode: pairs and separators alternate on every feasible path, braces included")
	r.Rule("R04.5", "framing: the only constant containing a line break that JSON mode can emit is the one End(true) writes")
	r.Rule("R04.8", "value fidelity (necessary for 'decodes to what was logged'): in JSON mode every floating-point value is rendered by strconv with precision -1 and the bit size of its own static type, every integer in base 10, and every time VALUE with a constant layout that has nanosecond digits and a zone; the parameters are resolved to constants over all call chains")
	r.Rule("R08.1", "(shared with C08) what a record says was logged by this call: nothing on the print path writes memory that outlives the call other than the pooled objects of this call")
	r.Rule("R08.2", "(shared with C08) attribute lists that are sorted/compacted in place or appended to belong to this call, never to a logger, handler, group or caller")
	r.Rule("R04.6", "fixed members: time, logger, level, msg, attributes, caller are produced in this order under the named key constants")
	r.Rule("R04.7", "no pooled encoder field is read stale in JSON mode (engine E10): material formatted for a previous record cannot surface inside the object")
	r.Assume("user-supplied marshallers and value stringers emit valid JSON (outside the property's domain)")
	r.Assume("decoding to the same VALUES (numeric exactness, time/duration text) is not decided: value-level round trip")
	jsonMode := Mode{true, true}
	for _, tags := range c.Configs([]string{""}, []string{"", "verbose"}) {
		p := c.Prog(tags)
		if p == nil {
			continue
		}
		m, err := BuildModel(p)
		if err != nil {
			r.Unk("R04.2", "model", "-", "%v", err)
			continue
		}
		mr := emissionCommon(c, p, m, jsonMode, "R04.2")
		c04Escaper(c, p, m, mr)
		c04ShortEscapes(c, p)
		c04Tokens(c, p, m, mr)
		valueFidelity(c, p, m, mr, "R04.8")
		elementsSamePrinter(c, p, m, "R04.8")
		loopIndexVaries(c, p, m, "R04.8")
		attrsTraversal(c, p, "R04.12")
		argsPairing(c, p, "R07.1")
		separatorIndependentOfMember(c, p, "R04.9")
		escaperNoLoss(c, p, "R04.8")
		messageIdentity(c, p, "R05.10")
		messageEmittedAsIs(c, p, m, mr, "R05.10")
		c02Pool(c, p, m)
		c08Stores(c, p, m)
		c04Brackets(c, p, m, mr)
		c04Members(c, p, m, mr)
		c04Elements(c, p, m, mr)
		c04BuiltinFirst(c, p, m)
		c04KeysAsGiven(c, p, m, mr)
		c16Timestamp(c, p, m)
		countersBalanced(c, p, m, "R04.7")
		dedupeEquality(c, p, m, "R05.9")
		c09Globals(c, p, m)
		constBounds(c, p, m)
		timeTextQuoted(c, p, m, jsonMode, "R04.2")
		bufferAppendOnly(c, p, m, "R04.10")
		c11Transitions(c, p, m)
		c07Sort(c, p, m)
		c01Gates(c, p, m, tags)
		c19WriteSide(c, p)
		c15Handler(c, p, m)
		c02Newline(c, p, m)
		fixedMemberGrammar(c, p, m, jsonMode, "R05.11")
		newlineRule(c, p, mr, "R04.5", map[string]string{"PrintCtx.End": "the record terminator of End(true)", "PrintCtx.EndArray": "EndArray(newline) for user marshallers", "Entry.printImpl": "blank-line shortcut"})
		// the same with the testing/debug-only branches included: in JSON mode the post-record error dump is skipped, so
		// "one line" holds under go test and a debugger too
		newlineRule(c, p, NewModeReach(p, m, jsonMode, sessionEntries(p), false), "R04.5", map[string]string{"PrintCtx.End": "the record terminator of End(true)", "PrintCtx.EndArray": "EndArray(newline) for user marshallers", "Entry.printImpl": "blank-line shortcut"})
		fieldOrder(c, p, m, jsonMode, "R04.6", []string{"Begin", "printTimestamp", "printLoggerName", "printSeverity", "printMsg", "serializeAttrs", "printPC", "printRestLinesOfMsg", "End", "Bytes", "printOut"}, map[string]bool{"printPC": true, "printRestLinesOfMsg": true})
		c04Keys(c, p, m)
		c09Pooled(c, p, m, "R04.7", []Mode{jsonMode})
	}
	c.Floor["R04.2"] = 2
	c.Floor["R04.1"] = 4
	c.Floor["R04.9"] = 1
	c.Floor["R05.10"] = 30
}

func c04Escaper(c *Ctx, p *Prog, m *Model, mr *ModeReach) {
	r := c.R
	// Go-syntax quoting unreachable in JSON mode
	for _, n := range []string{"appendQuotedWith", "appendEscapedRune", "appendQuotedRuneWith"} {
		if fn := p.Func(p.Slog, n); fn != nil {
			r.Check(!mr.Has(fn), "R04.1", "json-unreachable:"+n, p.FuncPos(fn), "the Go-syntax quoting routine is not reachable in JSON mode", "in JSON mode strings can be quoted by "+n+", whose escapes (\\a \\v \\x7f \\U0001f600) are not JSON: such a record cannot be decoded")
		}
	}
	// ... nor strconv's own Go-syntax quoting
	for _, fn := range mr.Funcs() {
		fb := mr.Blocks[fn]
		for _, cs := range callsIn(fn) {
			if !fb[cs.Block()] {
				continue
			}
			if cal := calleeOf(cs); cal != nil {
				switch cal.String() {
				case "strconv.Quote", "strconv.AppendQuote", "strconv.QuoteToASCII", "strconv.AppendQuoteToASCII", "strconv.QuoteToGraphic", "strconv.AppendQuoteToGraphic", "strconv.QuoteRune", "strconv.AppendQuoteRune":
					r.Bad("R04.1", "json-goquote:"+shortName(fn), p.Pos(instrPos(cs)), "in JSON mode %s quotes a string with %s, whose escapes (\\a \\v \\x7f \\U0001f600) are not JSON: such a record cannot be decoded", shortName(fn), cal.String())
				}
			}
		}
	}
	esc := p.Method(p.Slog, "PrintCtx", "appendEscapedJSONString")
	if esc == nil || !mr.Has(esc) {
		r.Bad("R04.1", "json-escaper", "-", "the JSON escaper appendEscapedJSONString is not used in JSON mode")
		return
	}
	// who quotes strings in JSON mode: appendQuotedString and the key writers must call the escaper between two quote bytes
	for _, spec := range []string{"PrintCtx.appendQuotedString", "PrintCtx.pcAppendStringKey", "PrintCtx.pcAppendStringKeyPrefixed"} {
		fn := p.F(spec)
		if fn == nil {
			r.Unk("R04.1", "quotes:"+spec, "-", "not found")
			continue
		}
		bad := ""
		n := 0
		enumPathsMode(fn, mr.Mode, 64, func(path []*ssa.BasicBlock) {
			n++
			var ev []string
			for _, cs := range pathCalls(path) {
				cal := calleeOf(cs)
				if cal == nil {
					continue
				}
				switch nm(cal) {
				case "WriteByte", "pcAppendByte":
					if v, ok := constInt(cs.Common().Args[len(cs.Common().Args)-1]); ok {
						ev = append(ev, fmt.Sprintf("%q", rune(v)))
					}
				case "appendEscapedJSONString":
					ev = append(ev, "ESC")
				case "WriteString", "pcAppendString", "pcAppendStringValue":
					ev = append(ev, "RAW")
				case "appendQuotedWith":
					ev = append(ev, "GOQUOTE")
				}
			}
			s := strings.Join(ev, " ")
			if !(strings.HasPrefix(s, `'"' ESC`) && strings.HasSuffix(s, `ESC '"'`)) || strings.Contains(s, "RAW") || strings.Contains(s, "GOQUOTE") {
				bad = "emits " + s
			}
			// between the quotes only ESC and '.'
			for _, e := range ev[1 : len(ev)-1] {
				if e != "ESC" && e != `'.'` {
					bad = "emits " + s
				}
			}
		})
		r.Check(bad == "" && n > 0, "R04.1", "quotes:"+spec, p.FuncPos(fn), "in JSON mode: quote, JSON-escaped text, quote", spec+" in JSON mode "+bad+": the text between the quotes is not entirely JSON-escaped")
	}
	// alphabet of the escaper
	okStr := map[string]bool{"u00": true, "\\ufffd": true, `\u202`: true}
	okByte := map[rune]bool{'\\': true, 'n': true, 'r': true, 't': true, 'b': true, 'f': true, '/': true, '"': true}
	var badC []string
	check := func(fn *ssa.Function) {
		for _, b := range fn.Blocks {
			for _, in := range b.Instrs {
				cs, ok := in.(ssa.CallInstruction)
				if !ok {
					continue
				}
				for _, a := range cs.Common().Args {
					if s, ok := constString(a); ok && !okStr[s] {
						badC = append(badC, fmt.Sprintf("%q", s))
					}
					if v, ok := constInt(a); ok && a.Type().String() == "byte" && !okByte[rune(v)] {
						badC = append(badC, fmt.Sprintf("%q", rune(v)))
					}
				}
			}
		}
	}
	check(esc)
	for _, an := range esc.AnonFuncs {
		check(an)
	}
	sort.Strings(badC)
	r.Check(len(badC) == 0, "R04.1", "alphabet:appendEscapedJSONString", p.FuncPos(esc), "only JSON escapes (\\\\ \\\" \\n \\r \\t \\u00XX \\ufffd \\u202X) can be produced", fmt.Sprintf("the JSON escaper can emit %v, which is not a JSON escape sequence", badC))
	// every non-safe byte is escaped: the run copied verbatim is delimited by the safe set; structural: the loop consults safeSet
	uses := false
	for _, b := range esc.Blocks {
		for _, in := range b.Instrs {
			if ia, ok := in.(*ssa.IndexAddr); ok {
				if g, ok := ia.X.(*ssa.Global); ok && nm(g) == "safeSet" {
					uses = true
				}
			}
		}
	}
	r.Check(uses, "R04.1", "escaper:uses-safeSet", p.FuncPos(esc), "ASCII bytes are copied verbatim only when the safe-character table allows it", "the JSON escaper no longer consults the safe-character table")
	// safeSet table
	if e, pk, err := p.varInit(p.Slog, "safeSet"); err == nil {
		if cl, ok := e.(*ast.CompositeLit); ok {
			safe := map[int64]bool{}
			for _, el := range cl.Elts {
				if kv, ok := el.(*ast.KeyValueExpr); ok {
					k := pk.TypesInfo.Types[kv.Key].Value
					v := pk.TypesInfo.Types[kv.Value].Value
					if k != nil && v != nil {
						ki, _ := constant.Int64Val(constant.ToInt(k))
						safe[ki] = constant.BoolVal(v)
					}
				}
			}
			var wrong []string
			for b := int64(0); b < 128; b++ {
				want := b >= 0x20 && b != '"' && b != '\\'
				if safe[b] != want {
					wrong = append(wrong, fmt.Sprintf("%#x", b))
				}
			}
			r.Check(len(wrong) == 0, "R04.1", "table:safeSet", p.Pos(cl.Pos()), "unsafe = controls, quote, backslash", fmt.Sprintf("the safe-character table is wrong for %v: these bytes are copied unescaped (or escaped needlessly)", wrong))
		}
	} else {
		r.Unk("R04.1", "table:safeSet", "-", "%v", err)
	}
	// hex table
	if e, pk, err := p.varInit(p.Slog, "hex"); err == nil {
		v := pk.TypesInfo.Types[e].Value
		okv := v != nil && constant.StringVal(v) == "0123456789abcdef"
		stores := 0
		for _, fn := range p.RepoFuncs() {
			for _, gs := range globalStores(fn) {
				if nm(gs.G) == "hex" && !p.startupOnly(fn) {
					stores++
				}
			}
		}
		r.Check(okv && stores == 0, "R04.1", "table:hex", p.Pos(e.Pos()), "the digit table is 0123456789abcdef and never stored to", "the hex digit table is not the constant 0123456789abcdef")
	}
}

func c04Tokens(c *Ctx, p *Prog, m *Model, mr *ModeReach) {
	r := c.R
	// literal constants written as values
	lit := map[string]bool{"null": true, "true": true, "false": true}
	for _, ce := range mr.constEmissions() {
		cs, ok := ce.Instr.(ssa.CallInstruction)
		if !ok {
			continue
		}
		cal := calleeOf(cs)
		if cal == nil || nm(cal) != "pcAppendStringValue" && nm(cal) != "pcAppendString" {
			continue
		}
		top := ce.Fn
		for top.Parent() != nil {
			top = top.Parent()
		}
		if nm(top) == "appendEscapedJSONString" {
			continue // pieces of escape sequences inside a quoted string: their alphabet is decided by R04.1
		}
		key := fmt.Sprintf("literal:%s:%q", shortName(ce.Fn), ce.Text)
		r.Check(lit[ce.Text], "R04.3", key, p.Pos(instrPos(ce.Instr)), "a JSON literal", fmt.Sprintf("in JSON mode %s writes the bare text %q as a value, which is not a JSON token", shortName(ce.Fn), ce.Text))
	}
	// floats quoted: functions that can reach strconv.AppendFloat without quotes in JSON mode
	need := map[*ssa.Function]bool{}
	quoted := func(fn *ssa.Function, cs ssa.CallInstruction) bool {
		b := cs.Block()
		idx := -1
		for i, in := range b.Instrs {
			if in == ssa.Instruction(cs) {
				idx = i
			}
		}
		isQ := func(in ssa.Instruction) (bool, bool) { // (isEmission, isQuote)
			c2, ok := in.(ssa.CallInstruction)
			if !ok {
				return false, false
			}
			cal := calleeOf(c2)
			if cal == nil {
				return false, false
			}
			switch nm(cal) {
			case "checkerr", "preCheck":
				return false, false
			case "WriteByte", "pcAppendByte":
				v, ok := constInt(c2.Common().Args[len(c2.Common().Args)-1])
				return true, ok && v == '"'
			}
			// a private helper that, in this mode, writes exactly one quote and nothing else
			if fbq := mr.Blocks[cal]; fbq != nil && cal.Pkg == p.Slog {
				quotes, others := 0, 0
				for _, bb := range cal.Blocks {
					if !fbq[bb] {
						continue
					}
					for _, in2 := range bb.Instrs {
						c3, ok := in2.(ssa.CallInstruction)
						if !ok {
							continue
						}
						cal3 := calleeOf(c3)
						if cal3 == nil {
							others++
							continue
						}
						switch nm(cal3) {
						case "checkerr", "preCheck":
						case "WriteByte", "pcAppendByte":
							if v, ok := constInt(c3.Common().Args[len(c3.Common().Args)-1]); ok && v == '"' {
								quotes++
							} else {
								others++
							}
						default:
							others++
						}
					}
				}
				if quotes == 1 && others == 0 {
					return true, true
				}
			}
			return true, false
		}
		// a finite float is a JSON number: the text may go unquoted where, in this mode, the block is entered only when
		// a test of math.IsNaN and math.IsInf on the value failed
		if finiteOnly(cs.Block(), mr.Mode) {
			return true
		}
		before, afterQ := false, false
		for i := idx - 1; i >= 0; i-- {
			if em, q := isQ(b.Instrs[i]); em {
				before = q
				break
			}
		}
		for i := idx + 1; i < len(b.Instrs); i++ {
			if em, q := isQ(b.Instrs[i]); em {
				afterQ = q
				break
			}
		}
		return before && afterQ
	}
	changed := true
	for changed {
		changed = false
		for _, fn := range mr.Funcs() {
			if need[fn] {
				continue
			}
			fb := mr.Blocks[fn]
			for _, b := range fn.Blocks {
				if !fb[b] {
					continue
				}
				for _, in := range b.Instrs {
					cs, ok := in.(ssa.CallInstruction)
					if !ok {
						continue
					}
					cal := calleeOf(cs)
					if cal == nil {
						continue
					}
					if cal.String() == "strconv.AppendFloat" || cal.String() == "strconv.FormatFloat" || need[cal] {
						if !quoted(fn, cs) {
							need[fn] = true
							changed = true
						}
					}
				}
			}
		}
	}
	av := p.Method(p.Slog, "PrintCtx", "appendValue")
	var chain []string
	for fn := range need {
		chain = append(chain, shortName(fn))
	}
	sort.Strings(chain)
	r.Extra["float_text_producers_unquoted_below"] = chain
	r.Check(av != nil && !need[av], "R04.3", "floats-quoted", p.FuncPos(av), "every chain from the value switch to strconv.AppendFloat passes a pair of quotes in JSON mode", fmt.Sprintf("in JSON mode floating-point text can reach the record without quotes (unquoted chain: %v): NaN and ±Inf then make the record invalid JSON", chain))
}

func c04Brackets(c *Ctx, p *Prog, m *Model, mr *ModeReach) {
	r := c.R
	sa := p.Func(p.Slog, "serializeAttrs")
	if sa == nil {
		r.Unk("R04.4", "serializeAttrs", "-", "not found")
		return
	}
	for _, site := range m.Callers[sa] {
		caller := site.Parent()
		if !mr.Has(caller) || !mr.Blocks[caller][site.Block()] {
			continue
		}
		key := "brackets:" + shortName(caller)
		bad := ""
		n := 0
		enumPathsMode(caller, mr.Mode, 1024, func(path []*ssa.BasicBlock) {
			calls := pathCalls(path)
			depth := 0
			opened := false
			for _, cs := range calls {
				cal := calleeOf(cs)
				if cal == nil {
					continue
				}
				switch {
				case nm(cal) == "Begin":
					depth++
					opened = true
				case nm(cal) == "End":
					depth--
				case cs == site:
					n++
					if depth < 1 || !opened {
						bad = "the member list is emitted without an enclosing Begin()"
					}
				}
			}
			if depth != 0 && containsCall(calls, site) {
				// deferred End counts
				hasDefer := false
				for _, cs := range calls {
					if _, ok := cs.(*ssa.Defer); ok {
						if cal := calleeOf(cs); cal != nil && nm(cal) == "End" {
							hasDefer = true
						}
					}
				}
				if !hasDefer || depth != 1 {
					bad = "Begin()/End() are not balanced around the member list"
				}
			}
		})
		r.Check(bad == "" && n > 0, "R04.4", key, p.Pos(instrPos(site)), "members are written between Begin() and End() on every JSON path", shortName(caller)+": "+bad+": a group is not a JSON object")
	}
	// Begin/End emit braces in JSON mode
	for _, pr := range [][2]string{{"Begin", "{"}, {"End", "}"}} {
		fn := p.Method(p.Slog, "PrintCtx", pr[0])
		ok := false
		if fn != nil {
			for _, ce := range mr.constEmissions() {
				if ce.Fn == fn && ce.Text == pr[1] {
					ok = true
				}
			}
		}
		r.Check(ok, "R04.4", "brace:"+pr[0], p.FuncPos(fn), "writes "+pr[1]+" in JSON mode", "PrintCtx."+pr[0]+" does not write "+pr[1]+" in JSON mode")
	}
	// separator not after an opening brace
	comma := p.Method(p.Slog, "PrintCtx", "pcAppendComma")
	found, guarded := false, false
	for _, site := range modeRegionCalls(p, mr, sa) {
		cs := site.Instr
		if calleeOf(cs) != comma {
			continue
		}
		found = true
		// some predecessor decides, by comparing the last byte written with '{', whether the separator is written
		for _, pr := range cs.Block().Preds {
			if iff := ifOf(pr); iff != nil && mr.Blocks[site.Fn][pr] {
				cond, _ := normCond(iff.Cond)
				if bo, ok := cond.(*ssa.BinOp); ok {
					if v, ok := constInt(bo.Y); ok && v == '{' && pr.Succs[0] != pr.Succs[1] {
						if dependsOnFieldLoad(bo.X, "PrintCtx", "buf") {
							guarded = true
						}
					}
				}
			}
		}
	}
	r.Check(found && guarded, "R04.4", "separator:after-brace", p.FuncPos(sa), "the member separator is suppressed right after an opening brace", "the member separator is written unconditionally: the first member of a nested object is preceded by a comma ({,\"a\":1})")
}

// c04Members: R04.9 — a member separator commits the emitter to a member. In the member-list emitter, on every
// mode-feasible path from the separator to the next turn of the loop (or out of the function) a key is written,
// and from the key a value: an element skipped after its separator leaves ",," or a trailing comma in the object.
func c04Members(c *Ctx, p *Prog, m *Model, mr *ModeReach) {
	r := c.R
	sa := p.Func(p.Slog, "serializeAttrs")
	if sa == nil || !mr.Has(sa) {
		r.Unk("R04.9", "members:serializeAttrs", "-", "member-list emitter not found in mode %s", mr.Mode)
		return
	}
	comma := p.Method(p.Slog, "PrintCtx", "pcAppendComma")
	keyFn := p.Method(p.Slog, "PrintCtx", "pcAppendStringKey")
	ph := privateHelper(p)
	memo := map[*ssa.Function]map[*ssa.Function]bool{}
	var reaches func(fn, target *ssa.Function, depth int) bool
	reaches = func(fn, target *ssa.Function, depth int) bool {
		if fn == target {
			return true
		}
		if depth > 3 || fn == nil || !ph(fn) {
			return false
		}
		if memo[fn] == nil {
			memo[fn] = map[*ssa.Function]bool{}
		}
		if v, ok := memo[fn][target]; ok {
			return v
		}
		memo[fn][target] = false
		for _, cs := range callsIn(fn) {
			if reaches(calleeOf(cs), target, depth+1) {
				memo[fn][target] = true
				return true
			}
		}
		return false
	}
	var isValue func(cs ssa.CallInstruction) bool
	isKey := func(cs ssa.CallInstruction) bool {
		cal := calleeOf(cs)
		return cal != nil && !isValue(cs) && reaches(cal, keyFn, 0)
	}
	isValue = func(cs ssa.CallInstruction) bool {
		if n := invokeName(cs); n == "WriteValue" || n == "SerializeValueTo" {
			return true
		}
		cal := calleeOf(cs)
		if cal == nil {
			return false
		}
		for _, n := range []string{"appendValue", "appendTimestamp"} {
			if t := p.Method(p.Slog, "PrintCtx", n); t != nil && reaches(cal, t, 0) {
				return true
			}
		}
		return false
	}
	// escapes: from the instruction after 'from', can control come back to from's block or leave the function
	// without executing a call satisfying stop?
	escapes := func(from ssa.CallInstruction, stop func(ssa.CallInstruction) bool) string {
		blk := from.Block()
		scan := func(b *ssa.BasicBlock, start int) bool { // true if a stop call is found
			for _, in := range b.Instrs[start:] {
				if cs, ok := in.(ssa.CallInstruction); ok && cs != from && stop(cs) {
					return true
				}
			}
			return false
		}
		idx := 0
		for i, in := range blk.Instrs {
			if in == ssa.Instruction(from) {
				idx = i + 1
			}
		}
		if scan(blk, idx) {
			return ""
		}
		var why string
		steps := 0
		onPath := map[*ssa.BasicBlock]bool{}
		path := []*ssa.BasicBlock{blk}
		succsOf := func(b *ssa.BasicBlock) []*ssa.BasicBlock {
			if iff := ifOf(b); iff != nil {
				// a short-circuit value (a phi of booleans) is decided by the path that led here
				cond, neg := normCond(iff.Cond)
				if _, isPhi := cond.(*ssa.Phi); isPhi {
					c2, neg2 := normCond(resolveAlong(cond, path))
					if neg2 {
						neg = !neg
					}
					if cb, ok := constBool(c2); ok {
						if cb != neg {
							return b.Succs[:1]
						}
						return b.Succs[1:2]
					}
					if v, ok := modeCond(c2, mr.Mode); ok {
						if v != neg {
							return b.Succs[:1]
						}
						return b.Succs[1:2]
					}
				}
			}
			return feasibleSuccs(b, mr.Mode)
		}
		var dfs func(b *ssa.BasicBlock)
		dfs = func(b *ssa.BasicBlock) {
			if why != "" {
				return
			}
			steps++
			if steps > 200000 {
				why = "the paths could not be enumerated"
				return
			}
			succs := succsOf(b)
			if len(succs) == 0 {
				if _, isPanic := b.Instrs[len(b.Instrs)-1].(*ssa.Panic); !isPanic {
					why = "the function is left"
				}
				return
			}
			for _, s := range succs {
				if s == blk {
					why = "the loop goes on to the next element"
					return
				}
				if onPath[s] {
					continue
				}
				if scan(s, 0) {
					continue
				}
				onPath[s] = true
				path = append(path, s)
				dfs(s)
				path = path[:len(path)-1]
				delete(onPath, s)
			}
		}
		dfs(blk)
		return why
	}
	n := 0
	var probs []string
	for _, cs := range callsIn(sa) {
		if !mr.Blocks[sa][cs.Block()] {
			continue
		}
		switch {
		case calleeOf(cs) != nil && !isValue(cs) && !isKey(cs) && reaches(calleeOf(cs), comma, 0) && inLoop(cs.Block()):
			n++
			if why := escapes(cs, isKey); why != "" {
				probs = append(probs, fmt.Sprintf("after the member separator at %s %s without a key having been written", p.Pos(instrPos(cs)), why))
			}
		case isKey(cs) && inLoop(cs.Block()):
			n++
			if why := escapes(cs, isValue); why != "" {
				probs = append(probs, fmt.Sprintf("after the key at %s %s without a value having been written", p.Pos(instrPos(cs)), why))
			}
		}
	}
	key := fmt.Sprintf("members[%s]:serializeAttrs", mr.Mode)
	switch {
	case n < 2:
		r.Unk("R04.9", key, p.FuncPos(sa), "separator/key sites not recognised in the member loop (%d)", n)
	case len(probs) > 0:
		r.Bad("R04.9", key, p.FuncPos(sa), "the member list is not separator-key-value on every path: %s", strings.Join(probs, "; "))
	default:
		r.Ok("R04.9", key, p.FuncPos(sa), "on every feasible path a separator is followed by a key and a key by a value before the next element (%d sites)", n)
	}
}

func containsCall(calls []ssa.CallInstruction, c ssa.CallInstruction) bool {
	for _, x := range calls {
		if x == c {
			return true
		}
	}
	return false
}

// c04Keys: the fixed members use the named key constants.
func c04Keys(c *Ctx, p *Prog, m *Model) {
	r := c.R
	want := map[string]string{"printTimestamp": "timestampFieldName", "printSeverity": "levelFieldName", "printMsg": "messageFieldName", "printPC": "callerFieldName"}
	for fnName, cn := range want {
		fn := p.Method(p.Slog, "Entry", fnName)
		cv, _, ok := p.Const(p.Slog, cn)
		if fn == nil || !ok {
			r.Unk("R04.6", "key:"+fnName, "-", "printer or key constant missing")
			continue
		}
		wantS := constant.StringVal(cv)
		found := false
		// (the printer and the private helpers it is cut into)
		for g := range staticReach([]*ssa.Function{fn}, func(f *ssa.Function) bool {
			return f.Pkg != p.Slog || (f != fn && (f.Object() == nil || f.Object().Exported() || want[nm(f)] != ""))
		}) {
			for _, cs := range callsIn(g) {
				for _, a := range cs.Common().Args {
					if s, ok := constString(a); ok && s == wantS {
						found = true
					}
				}
			}
		}
		r.Check(found, "R04.6", "key:"+fnName, p.FuncPos(fn), "writes its field under "+cn+" ("+wantS+")", fnName+" does not write its field under the key "+wantS)
	}
}

// modeRegionCalls: the calls of fn and of the private helpers it is cut into (two levels), restricted to the
// blocks feasible in mr's mode.
func modeRegionCalls(p *Prog, mr *ModeReach, fn *ssa.Function) []CallSite {
	te := newTermEval(p)
	te.blockOK = func(f *ssa.Function, b *ssa.BasicBlock) bool { return mr.Blocks[f] != nil && mr.Blocks[f][b] }
	ph := privateHelper(p)
	prims := map[string]bool{"pcAppendByte": true, "pcAppendString": true, "pcAppendStringValue": true, "pcAppendStringKey": true, "pcAppendComma": true, "pcAppendColon": true, "pcAppendRune": true}
	sites, _ := te.callsOf(fn, func(f *ssa.Function) bool { return ph(f) && !prims[nm(f)] })
	var out []CallSite
	for _, s := range sites {
		if len(s.Chain) <= 2 {
			out = append(out, s)
		}
	}
	return out
}

// finiteOnly: some branch edge dominating b is the false side of a boolean whose leaves (through the joins of
// short-circuit evaluation) contain calls of both math.IsNaN and math.IsInf, every other leaf being a constant or
// a mode bit that is true in this mode (so that, in this mode, the boolean is false only when both tests failed).
func finiteOnly(b *ssa.BasicBlock, mode Mode) bool {
	// the cascaded form: every mode-feasible way into the block has passed a finiteness test (a private "is finite"
	// helper answering true, or IsNaN and IsInf both answering false)
	{
		var feas []*ssa.BasicBlock
		for _, pr := range b.Preds {
			if modeEdgeFeasible(pr, b, mode) {
				feas = append(feas, pr)
			}
		}
		all := len(feas) > 0
		for _, pr := range feas {
			for _, alt := range factsOfEdge(pr, b) {
				nanF, infF, fin := false, false, false
				for _, f := range alt {
					call, ok := f.cond.(*ssa.Call)
					if !ok {
						continue
					}
					cal := calleeOf(call)
					switch {
					case cal != nil && isFinitenessHelper(cal) && f.taken:
						fin = true
					case cal != nil && cal.String() == "math.IsNaN" && !f.taken:
						nanF = true
					case cal != nil && cal.String() == "math.IsInf" && !f.taken:
						infF = true
					}
				}
				if !(fin || (nanF && infF)) {
					all = false
				}
			}
		}
		if all {
			return true
		}
	}
	for _, g := range guardsOf(b) {
		cond, neg := normCond(g.If.Cond)
		if (g.Succ == 1) == neg { // we need the edge on which cond is false
			continue
		}
		nan, inf, bad := false, false, false
		seen := map[ssa.Value]bool{}
		var walk func(v ssa.Value, depth int)
		walk = func(v ssa.Value, depth int) {
			if seen[v] || depth > 5 {
				return
			}
			seen[v] = true
			switch x := v.(type) {
			case *ssa.Phi:
				for i, e := range x.Edges {
					if _, isC := e.(*ssa.Const); isC {
						// a short-circuit constant: the operand that decided it is the condition of the predecessor
						if pi := ifOf(x.Block().Preds[i]); pi != nil {
							c2, _ := normCond(pi.Cond)
							walk(c2, depth+1)
						}
						continue
					}
					walk(e, depth+1)
				}
			case *ssa.Const:
			case *ssa.Call:
				switch cal := calleeOf(x); {
				case cal != nil && cal.String() == "math.IsNaN":
					nan = true
				case cal != nil && cal.String() == "math.IsInf":
					inf = true
				case cal != nil && isFinitenessHelper(cal):
					nan, inf = true, true
				default:
					bad = true
				}
			default:
				if mv, ok := modeCond(v, mode); ok && mv {
					return
				}
				// a boolean setting of the encoder that did not exist when the rules were written (an opt-in for bare
				// numbers): whatever its value, the unquoted branch still needs the finiteness tests
				if u, isU := v.(*ssa.UnOp); isU && u.Op == token.NOT {
					walk(u.X, depth+1)
					return
				}
				if base, _, fv, isF := fieldLoad(strip(v)); isF && typeName(base.Type()) == "PrintCtx" {
					if ref := loadAnchorRef(); ref != nil && ref["field|slog|PrintCtx|"+nm(fv)] == nil {
						if bt, isB := fv.Type().Underlying().(*types.Basic); isB && bt.Kind() == types.Bool {
							return
						}
					}
				}
				bad = true
			}
		}
		walk(cond, 0)
		if nan && inf && !bad {
			return true
		}
	}
	return false
}

// c04Elements: R04.10 — array grammar. A slice writer that puts a ',' between elements commits itself to an element
// after every separator (and after '['): every function of the package it calls in the loop that CAN write to the
// record must write on EVERY mode-feasible path (an element writer that returns silently for nil leaves ",," or
// "[," behind).
// emitAnalysis: may/must-emission over the functions of the package for one mode (see R04.10).
func emitAnalysis(p *Prog, mode Mode) (func(fn *ssa.Function) bool, func(fn *ssa.Function) bool) {
	mr := &struct{ Mode Mode }{mode}
	// a store to the encoder's buffer field, or a call of the io.Writer-style methods of the encoder
	isBuf := func(v ssa.Value) bool {
		for _, sv := range sources(v) {
			if sl, ok := sv.(*ssa.Slice); ok {
				sv = strip(sl.X)
			}
			if _, ok := isFieldLoadOf(sv, "PrintCtx", "buf"); ok {
				return true
			}
		}
		return false
	}
	bufStore := func(in ssa.Instruction) bool {
		switch x := in.(type) {
		case *ssa.Store:
			if fa, ok := x.Addr.(*ssa.FieldAddr); ok && typeName(fa.X.Type()) == "PrintCtx" && nm(structOf(fa.X.Type()).Field(fa.Field)) == "buf" {
				return true
			}
			if ia, ok := x.Addr.(*ssa.IndexAddr); ok && isBuf(ia.X) {
				return true // s.buf[m] = c
			}
		case *ssa.Call:
			if isBuiltinCall(x, "copy") && isBuf(x.Common().Args[0]) {
				return true // copy(s.buf[m:], p)
			}
		}
		return false
	}
	always := map[*ssa.Function]int{} // 0 unknown, 1 busy, 2 yes, 3 no
	may := map[*ssa.Function]int{}
	var mayEmit func(fn *ssa.Function) bool
	mayEmit = func(fn *ssa.Function) bool {
		if fn == nil || len(fn.Blocks) == 0 || fn.Pkg != p.Slog {
			return false
		}
		switch may[fn] {
		case 1:
			return false
		case 2:
			return true
		case 3:
			return false
		}
		may[fn] = 1
		res := false
		for _, b := range fn.Blocks {
			for _, in := range b.Instrs {
				if bufStore(in) {
					res = true
				}
				if cs, ok := in.(ssa.CallInstruction); ok && !res {
					if mayEmit(calleeOf(cs)) {
						res = true
					}
				}
			}
		}
		if res {
			may[fn] = 2
		} else {
			may[fn] = 3
		}
		return res
	}
	var alwaysEmits func(fn *ssa.Function) bool
	alwaysEmits = func(fn *ssa.Function) bool {
		if fn == nil || len(fn.Blocks) == 0 || fn.Pkg != p.Slog {
			return false
		}
		switch always[fn] {
		case 1:
			return false // recursion: not counted as an emission
		case 2:
			return true
		case 3:
			return false
		}
		always[fn] = 1
		emitsIn := func(b *ssa.BasicBlock) bool {
			for _, in := range b.Instrs {
				if bufStore(in) {
					return true
				}
				if cs, ok := in.(ssa.CallInstruction); ok {
					if alwaysEmits(calleeOf(cs)) {
						return true
					}
				}
			}
			return false
		}
		// is a return reachable from the entry through mode-feasible edges avoiding every emitting block?
		seen := map[*ssa.BasicBlock]bool{}
		silent := false
		var dfs func(b *ssa.BasicBlock)
		dfs = func(b *ssa.BasicBlock) {
			if silent || seen[b] {
				return
			}
			seen[b] = true
			if emitsIn(b) {
				return
			}
			if _, ok := b.Instrs[len(b.Instrs)-1].(*ssa.Return); ok {
				silent = true
				return
			}
			for _, sx := range feasibleSuccs(b, mr.Mode) {
				dfs(sx)
			}
		}
		dfs(fn.Blocks[0])
		if silent {
			always[fn] = 3
		} else {
			always[fn] = 2
		}
		return !silent
	}
	emitAtSite = func(cs ssa.CallInstruction) bool {
		fn := calleeOf(cs)
		if alwaysEmits(fn) {
			return true
		}
		if fn == nil || len(fn.Blocks) == 0 || fn.Pkg != p.Slog {
			return false
		}
		// what the call site knows about its arguments: a nil constant, or a value tested non-nil on the way
		known := map[*ssa.Parameter]int{} // 1 = not nil, 2 = nil
		for i, a := range cs.Common().Args {
			if i >= len(fn.Params) {
				break
			}
			if isNilConst(strip(a)) {
				known[fn.Params[i]] = 2
				continue
			}
			for _, g := range guardsOf(cs.Block()) {
				cond, neg := normCond(g.If.Cond)
				bo, ok := cond.(*ssa.BinOp)
				if !ok || !isNilConst(bo.Y) || strip(bo.X) != strip(a) {
					continue
				}
				taken := (g.Succ == 0) != neg
				if (bo.Op == token.EQL && !taken) || (bo.Op == token.NEQ && taken) {
					known[fn.Params[i]] = 1
				}
			}
		}
		if len(known) == 0 {
			return false
		}
		emitsIn := func(b *ssa.BasicBlock) bool {
			for _, in := range b.Instrs {
				if bufStore(in) {
					return true
				}
				if c2, ok := in.(ssa.CallInstruction); ok && alwaysEmits(calleeOf(c2)) {
					return true
				}
			}
			return false
		}
		seen := map[*ssa.BasicBlock]bool{}
		silent := false
		var dfs func(b *ssa.BasicBlock)
		dfs = func(b *ssa.BasicBlock) {
			if silent || seen[b] {
				return
			}
			seen[b] = true
			if emitsIn(b) {
				return
			}
			if _, ok := b.Instrs[len(b.Instrs)-1].(*ssa.Return); ok {
				silent = true
				return
			}
			succs := feasibleSuccs(b, mr.Mode)
			if iff := ifOf(b); iff != nil && len(succs) == 2 {
				cond, neg := normCond(iff.Cond)
				if bo, ok := cond.(*ssa.BinOp); ok && isNilConst(bo.Y) && (bo.Op == token.EQL || bo.Op == token.NEQ) {
					if prm, ok := strip(bo.X).(*ssa.Parameter); ok && known[prm] != 0 {
						isNil := known[prm] == 2
						val := (bo.Op == token.EQL) == isNil
						if val != neg {
							succs = b.Succs[:1]
						} else {
							succs = b.Succs[1:2]
						}
					}
				}
			}
			for _, sx := range succs {
				dfs(sx)
			}
		}
		dfs(fn.Blocks[0])
		return !silent
	}
	return mayEmit, alwaysEmits
}

// emitAtSite: set by the last emitAnalysis: must-emit of a callee given what its call site knows about the arguments.
var emitAtSite func(cs ssa.CallInstruction) bool

func c04Elements(c *Ctx, p *Prog, m *Model, mr *ModeReach) {
	r := c.R
	mayEmit, alwaysEmits := emitAnalysis(p, mr.Mode)
	n := 0
	for _, ce := range mr.constEmissions() {
		if ce.Text != "," || !inLoop(ce.Instr.Block()) || nm(ce.Fn) == "serializeAttrs" || nm(ce.Fn) == "pcAppendComma" {
			continue
		}
		fn := ce.Fn
		n++
		var probs []string
		for _, cs := range callsIn(fn) {
			if !mr.Blocks[fn][cs.Block()] || !inLoop(cs.Block()) {
				continue
			}
			cal := calleeOf(cs)
			if cal == nil || cal.Pkg != p.Slog || !mayEmit(cal) {
				continue
			}
			if !alwaysEmits(cal) && !emitAtSite(cs) {
				probs = append(probs, fmt.Sprintf("%s (called at %s) can return without having written anything", shortName(cal), p.Pos(instrPos(cs))))
			}
		}
		r.Check(len(probs) == 0, "R04.10", fmt.Sprintf("elements[%s]:%s", mr.Mode, shortName(origin(fn))), p.FuncPos(fn), "every element writer called between the separators writes on every path",
			"a list writer separates its elements by ',' but an element can be empty: "+strings.Join(dedupStr(probs), "; ")+": the array comes out as [x,,y] or [,x], which is not JSON")
	}
	if n == 0 {
		r.Unk("R04.10", fmt.Sprintf("elements[%s]", mr.Mode), "-", "no list writer with a ',' separator found in %s mode", mr.Mode)
	}
}

// c04BuiltinFirst: R04.11 — values of the built-in kinds are rendered by the encoder's own arms. A user marshaller
// interface (MarshalJSON / MarshalText) is consulted only for values that matched none of them: time.Time
// implements both, and its MarshalJSON fails for years outside 0..9999, so asking it first prints nothing after
// the key for such a time. Every site in the value switch that reaches an invoke of MarshalJSON / MarshalText is
// dominated by the miss edge of the time.Time arm.
func c04BuiltinFirst(c *Ctx, p *Prog, m *Model) {
	r := c.R
	av := p.Method(p.Slog, "PrintCtx", "appendValue")
	if av == nil {
		r.Unk("R04.11", "builtin-first", "-", "appendValue not found")
		return
	}
	var timeOK []*ssa.Extract // the ok of val.(time.Time)
	for _, b := range av.Blocks {
		for _, in := range b.Instrs {
			if ta, ok := in.(*ssa.TypeAssert); ok && ta.CommaOk && ta.AssertedType.String() == "time.Time" {
				for _, ref := range *ta.Referrers() {
					if ex, ok := ref.(*ssa.Extract); ok && ex.Index == 1 {
						timeOK = append(timeOK, ex)
					}
				}
			}
		}
	}
	if len(timeOK) == 0 {
		r.Unk("R04.11", "builtin-first", p.FuncPos(av), "no arm for time.Time found in the value switch")
		return
	}
	ph := privateHelper(p)
	memo := map[*ssa.Function]bool{}
	var asks func(fn *ssa.Function, depth int) bool
	asks = func(fn *ssa.Function, depth int) bool {
		if fn == nil || depth > 3 || len(fn.Blocks) == 0 {
			return false
		}
		if v, ok := memo[fn]; ok {
			return v
		}
		memo[fn] = false
		for _, cs := range callsIn(fn) {
			if n := invokeName(cs); n == "MarshalJSON" || n == "MarshalText" {
				memo[fn] = true
				return true
			}
			if cal := calleeOf(cs); cal != nil && cal != av && ph(cal) && asks(cal, depth+1) {
				memo[fn] = true
				return true
			}
		}
		return false
	}
	afterMiss := func(b *ssa.BasicBlock) bool {
		for _, g := range guardsOf(b) {
			cond, neg := normCond(g.If.Cond)
			for _, ex := range timeOK {
				if cond == ssa.Value(ex) && (g.Succ == 0) == neg {
					return true
				}
			}
		}
		return false
	}
	var probs []string
	n := 0
	for _, cs := range callsIn(av) {
		hit := false
		if nme := invokeName(cs); nme == "MarshalJSON" || nme == "MarshalText" {
			hit = true
		} else if cal := calleeOf(cs); cal != nil && cal != av && ph(cal) && asks(cal, 0) {
			hit = true
		}
		if !hit {
			continue
		}
		n++
		if !afterMiss(cs.Block()) {
			probs = append(probs, fmt.Sprintf("a marshaller interface is consulted at %s before the value was found not to be a time.Time", p.Pos(instrPos(cs))))
		}
	}
	r.Check(len(probs) == 0, "R04.11", "builtin-first", p.FuncPos(av), fmt.Sprintf("user marshallers are consulted only after the built-in arms missed (%d site(s))", n), strings.Join(probs, "; ")+": time.Time implements json.Marshaler and its MarshalJSON fails outside years 0..9999, so such a time is written as nothing after its key")
}

// c04KeysAsGiven: in JSON mode a member is printed under its own key: nesting is expressed by the enclosing object,
// so no JSON-feasible block of the print tree forms a dotted key (DotPrefix is reached only on text-mode paths).
func c04KeysAsGiven(c *Ctx, p *Prog, m *Model, mr *ModeReach) {
	r := c.R
	var hits []string
	nCalls := 0
	for fn, blocks := range mr.Blocks {
		for _, cs := range callsIn(fn) {
			cal := calleeOf(cs)
			if cal == nil || nm(cal) != "DotPrefix" {
				continue
			}
			nCalls++
			if blocks[cs.Block()] {
				hits = append(hits, shortName(fn)+" at "+p.Pos(instrPos(cs)))
			}
		}
	}
	sort.Strings(hits)
	r.Check(len(hits) == 0, "R04.6", "keys-as-given[json]", "-", fmt.Sprintf("none of the %d dotted-key sites is feasible in JSON mode", nCalls),
		"in JSON mode a member key is formed with DotPrefix ("+strings.Join(hits, "; ")+"): members of a group come out as \"g.a\" inside the object \"g\", so they do not decode under the key they were logged with")
}

// isFinitenessHelper: a private predicate that calls math.IsNaN and math.IsInf on its parameter and nothing else
// ("is this float a finite number").
func isFinitenessHelper(fn *ssa.Function) bool {
	if fn == nil || len(fn.Blocks) == 0 || len(fn.Params) != 1 || fn.Signature.Results().Len() != 1 {
		return false
	}
	nan, inf := false, false
	for _, cs := range callsIn(fn) {
		cal := calleeOf(cs)
		switch {
		case cal != nil && cal.String() == "math.IsNaN":
			nan = true
		case cal != nil && cal.String() == "math.IsInf":
			inf = true
		default:
			return false
		}
	}
	return nan && inf
}

// c04ShortEscapes (R04.1): the byte written after the backslash for a byte K is JSON's own escape letter for K
// (\b \f \n \r \t; the quote and the backslash stand for themselves): in the JSON escaper every arm entered by a
// comparison of the byte with a constant writes, where it writes a constant letter at all, the letter of that constant.
func c04ShortEscapes(c *Ctx, p *Prog) {
	r := c.R
	esc := p.Method(p.Slog, "PrintCtx", "appendEscapedJSONString")
	if esc == nil {
		return // reported by c04Escaper
	}
	table := map[int64]int64{8: 'b', 12: 'f', 10: 'n', 13: 'r', 9: 't', '"': '"', '\\': '\\', '/': '/'}
	n := 0
	var bad []string
	for _, b := range esc.Blocks {
		iff := ifOf(b)
		if iff == nil {
			continue
		}
		cond, neg := normCond(iff.Cond)
		bo, ok := cond.(*ssa.BinOp)
		if !ok || (bo.Op != token.EQL && bo.Op != token.NEQ) {
			continue
		}
		k, isK := constInt(bo.Y)
		if !isK {
			continue
		}
		if bt, isB := bo.X.Type().Underlying().(*types.Basic); !isB || bt.Kind() != types.Uint8 {
			continue
		}
		succ := 0
		if (bo.Op == token.NEQ) != neg {
			succ = 1
		}
		arm := b.Succs[succ]
		for _, in := range arm.Instrs {
			cs, isC := in.(*ssa.Call)
			if !isC || len(cs.Common().Args) == 0 {
				continue
			}
			args := cs.Common().Args
			l, isL := constInt(args[len(args)-1])
			if !isL || !((l >= 'a' && l <= 'z') || l == '"' || l == '\\' || l == '/') {
				continue
			}
			n++
			if want, in := table[k]; !in || want != l {
				bad = append(bad, fmt.Sprintf("byte 0x%02x is written as \\%c at %s", k, rune(l), p.Pos(instrPos(cs))))
			}
		}
	}
	sort.Strings(bad)
	if n == 0 {
		r.OkTrivial("R04.1", "json-escaper:short-escapes", p.FuncPos(esc), "the escaper writes no constant short-escape letter on a comparison arm (table or computed form: the letters are judged by the alphabet rule)")
		return
	}
	r.Check(len(bad) == 0, "R04.1", "json-escaper:short-escapes", p.FuncPos(esc), fmt.Sprintf("the %d short escapes are JSON's own letters for their bytes", n),
		"a short escape does not stand for the byte it replaces ("+strings.Join(bad, "; ")+"): the record stays valid JSON but the string decodes to other bytes")
}
