package main

import (
	"fmt"
	"go/token"
	"go/types"
	"sort"
	"strings"

	"golang.org/x/tools/go/ssa"
)

func init() { register("C18", checkC18) }

func checkC18(c *Ctx) {
	r := c.R
	r.Rule("R02.8", "(shared with C02) hardening a path cannot fail: every indexing of a fixed table, a scratch array or the result of a bounded split on the print path (checkpath included) is within bounds")
	r.Rule("R18.8", "every registered mapping is tried: the loops of checkpath over the prefix table and over the regexp list have their natural exit only (a break after the first match leaves a later registered prefix in the path)")
	r.Rule("R18.9", "on by default: every constant the package stores to the flag word carries Lprivacypath, and the package's own RemoveFlags/SetFlags calls (start-up code included) never clear it")
	r.Rule("R18.10", "list maintenance keeps the edited list: no result of append / slices.Delete / Insert / Compact ... is dropped in the package (a dropped slices.Delete leaves a zeroed regexp entry that makes every hardening call panic)")
	r.Rule("R18.11", "search results are split at the absent/found boundary (-1 | >= 0) wherever the package tests one (path separators, volume prefixes)")
	r.Rule("R18.1", "every reported path is hardened: every store to Source.File is the result of checkpath applied to the frame's file; Safety/SafetyFiles return only checkpath results; the raw stack dumper is unreachable from the logging entry points")
	r.Rule("R18.2", "replacement structure: under the privacy flag the loop over the known-path table tests HasPrefix(current, k) and rewrites the CURRENT value with that same k and its v; every later rewrite step (home directory, regexp table, /Volumes) also takes the current value as its subject, never the original argument; the value returned derives from the current value, or is the shorter relative path under IsAbs(current) and a strictly-shorter test")
	r.Rule("R18.7", "every frame's file name goes through the hardening: wherever the package reads runtime.Frame.File or the file result of (*runtime.Func).FileLine, the value is used only as the argument of checkpath (diagnostic stack dumps outside the record path excepted)")
	r.Rule("R18.3", "no explicit failure: every slice expression in checkpath is justified by a dominating prefix/index test on the same string; no panic; no regexp compilation on the hardening path")
	r.Rule("R18.4", "the home directory stays protected: checkpath rewrites the home prefix from the homeDir variable itself (not only through a table entry the public Remove/Reset functions can drop), under the privacy flag")
	r.Rule("R18.6", "registrations are kept: AddKnownPathMapping stores knownPathMap[pathname] = repl on every path; RemoveKnownPathMapping deletes exactly the key given")
	r.Rule("R18.5", "no memoisation: hardening is recomputed from the current flags and tables for every call: Source.Extract, Safety, SafetyFiles and checkpath store to no package-level state")
	r.Assume("the for-all-strings claim (no protected prefix survives for any path and any iteration order of overlapping mappings) is NOT decided here: it needs reasoning about string values and map iteration orders")
	for _, tags := range c.Configs([]string{""}, []string{"", "verbose"}) {
		p := c.Prog(tags)
		if p == nil {
			continue
		}
		m, err := BuildModel(p)
		if err != nil {
			r.Unk("R18.1", "model", "-", "%v", err)
			continue
		}
		c18Check(c, p, m)
		constBounds(c, p, m)
		registrationStores(c, p, m)
		regexpRuleList(c, p)
		frameFilesHardened(c, p, m)
		pathRulesTraversal(c, p, "R18.8")
		prefixCutAgrees(c, p, "R18.2")
		noClearOnLists(c, p, "R18.6")
		deleteUnderFound(c, p, "R18.6", "RemoveKnownPathRegexpMapping", "knownPathRegexpMap")
		pathComparedAsGiven(c, p, "R18.2")
		regexpMatchOnlyDecides(c, p, "R18.2")
		privacyOnByDefault(c, p, "R18.9")
		var slogFns []*ssa.Function
		for _, fn := range p.RepoFuncs() {
			if fn.Pkg == p.Slog {
				slogFns = append(slogFns, fn)
			}
		}
		sliceResultsUsed(c, p, slogFns, "R18.10")
		indexFoundTests(c, p, slogFns, "R18.11")
	}
	c.Floor["R18.1"] = 4
	c.Floor["R18.2"] = 4
	c.Floor["R18.3"] = 3
}

func c18Check(c *Ctx, p *Prog, m *Model) {
	r := c.R
	cp := p.Func(p.Slog, "checkpath")
	if cp == nil {
		r.Unk("R18.1", "checkpath", "-", "not found")
		return
	}
	file := cp.Params[0]
	// The hardening function may be cut into private helpers (the flag-guarded part, the relative-path tail, one
	// helper per rule): the rules below are applied to checkpath AND the private functions it reaches. A helper's
	// parameter that always receives the original path is "the original" there; it is "under the privacy flag"
	// when every call of it is.
	region := []*ssa.Function{cp}
	inRegion := map[*ssa.Function]bool{cp: true}
	for changed := true; changed; {
		changed = false
		for _, fn := range append([]*ssa.Function(nil), region...) {
			for _, cs := range callsIn(fn) {
				if cal := calleeOf(cs); cal != nil && cal.Pkg == p.Slog && len(cal.Blocks) > 0 && cal.Object() != nil && !cal.Object().Exported() && !inRegion[cal] && cal.Signature.Recv() == nil {
					switch nm(cal) {
					case "IsAnyBitsSet", "IsAllBitsSet", "hintInternal":
						continue
					}
					inRegion[cal] = true
					region = append(region, cal)
					changed = true
				}
			}
		}
	}
	origParam := map[ssa.Value]bool{ssa.Value(file): true}
	for round := 0; round < 4; round++ {
		for _, fn := range region[1:] {
			for i, prm := range fn.Params {
				if prm.Type().String() != "string" {
					continue
				}
				all, n := true, 0
				for _, caller := range region {
					for _, cs := range callsTo(caller, fn) {
						n++
						if i >= len(cs.Common().Args) || !origParam[strip(cs.Common().Args[i])] {
							all = false
						}
					}
				}
				if all && n > 0 {
					origParam[prm] = true
				}
			}
		}
	}
	isOrig := func(v ssa.Value) bool { return origParam[strip(v)] }
	keyOf := func(base string, fn *ssa.Function) string {
		if fn == cp {
			return base
		}
		return base + "@" + shortName(fn)
	}
	// R18.1
	n := 0
	for _, fn := range p.RepoFuncs() {
		for _, fs := range fieldStores(fn) {
			if fs.Struct != "Source" || fs.Field != "File" {
				continue
			}
			n++
			ok := false
			// a suffix of the hardened path (shortfile(checkpath(frame.File))) is as hardened as the path
			if outer, isC := fs.Val.(*ssa.Call); isC && calleeOf(outer) != nil && calleeOf(outer) != cp && calleeOf(outer).Pkg == p.Slog && isBaseNameFn(calleeOf(outer)) {
				if inner, isI := strip(outer.Common().Args[0]).(*ssa.Call); isI && calleeOf(inner) == cp {
					if _, _, f, isF := fieldLoad(strip(inner.Common().Args[0])); isF && nm(f) == "File" {
						ok = true
					}
				}
			}
			if call, isC := fs.Val.(*ssa.Call); isC && !ok && (calleeOf(call) == cp || (calleeOf(call) != nil && calleeOf(call).Pkg == p.Slog && isBaseNameFn(calleeOf(call)))) {
				// checkpath(frame.File), or the bare file name of it (no directory left to protect)
				if _, _, f, isF := fieldLoad(strip(call.Common().Args[0])); isF && nm(f) == "File" {
					ok = true
				}
			}
			r.Check(ok, "R18.1", "Source.File<-"+shortName(fn), p.Pos(instrPos(fs.Instr)), "the reported file is checkpath(frame.File)", "a source file path is recorded without passing through checkpath: the caller field shows the raw directory")
		}
	}
	if n == 0 {
		r.Unk("R18.1", "Source.File:none", "-", "no store to Source.File found")
	}
	for _, fnName := range []string{"Safety", "SafetyFiles"} {
		fn := p.Func(p.Slog, fnName)
		if fn == nil {
			r.Unk("R18.1", fnName, "-", "not found")
			continue
		}
		ok := len(callsTo(fn, cp)) > 0
		// every string that flows into the result comes from checkpath
		for _, b := range fn.Blocks {
			for _, in := range b.Instrs {
				switch x := in.(type) {
				case *ssa.Return:
					for _, res := range x.Results {
						if res.Type().String() == "string" {
							if call, isC := res.(*ssa.Call); !isC || calleeOf(call) != cp {
								ok = false
							}
						}
						// a list result is built from checkpath results: it is never the argument list itself
						if _, isSl := res.Type().Underlying().(*types.Slice); isSl {
							seen := map[ssa.Value]bool{}
							var walk func(v ssa.Value)
							walk = func(v ssa.Value) {
								v = strip(v)
								if seen[v] {
									return
								}
								seen[v] = true
								switch y := v.(type) {
								case *ssa.Parameter:
									ok = false
								case *ssa.Phi:
									for _, e := range y.Edges {
										walk(e)
									}
								case *ssa.Slice:
									walk(y.X)
								case *ssa.UnOp:
									if al, isAl := y.X.(*ssa.Alloc); isAl && y.Op == token.MUL {
										for _, ref := range *al.Referrers() {
											if st, isSt := ref.(*ssa.Store); isSt && st.Addr == ssa.Value(al) {
												walk(st.Val)
											}
										}
									}
								case *ssa.Call:
									if isBuiltinCall(y, "append") {
										walk(y.Common().Args[0])
										if sl, isS2 := y.Common().Args[1].Type().Underlying().(*types.Slice); isS2 && types.Identical(sl, res.Type().Underlying()) {
											walk(y.Common().Args[1]) // append(ret, files...) hands the raw list on
										}
									}
								}
							}
							walk(res)
						}
					}
				case *ssa.Store:
					if x.Val.Type().String() == "string" {
						if call, isC := x.Val.(*ssa.Call); !isC || calleeOf(call) != cp {
							ok = false
						}
					}
				}
			}
		}
		for _, cs := range callsTo(fn, cp) {
			if !dependsOnParam(cs.Common().Args[0], fn.Params[0]) {
				ok = false
			}
		}
		r.Check(ok, "R18.1", fnName, p.FuncPos(fn), "returns only checkpath results of its argument(s)", fnName+" can return a path that did not pass checkpath")
	}
	if st := p.Func(p.Slog, "stack"); st != nil {
		cg := p.CHA()
		reached := ""
		for _, root := range m.Roots() {
			if cgReach(cg, root)[st] {
				reached = shortName(root)
			}
		}
		r.Check(reached == "", "R18.1", "stack:unreachable", p.FuncPos(st), "the raw stack dumper is not reachable from any logging entry point", "the raw stack dumper (prints unhardened frame files) is reachable from "+reached)
	}

	// R18.2
	flagPriv, _ := p.ConstInt(p.Slog, "Lprivacypath")
	var isPrivGuard func(b *ssa.BasicBlock) bool
	privDepth := 0
	isPrivGuard = func(b *ssa.BasicBlock) bool {
		if fn := b.Parent(); fn != cp && inRegion[fn] && privDepth < 4 {
			// a helper: under the flag when every call of it (from the region) is
			all, n := true, 0
			privDepth++
			for _, caller := range region {
				for _, cs := range callsTo(caller, fn) {
					n++
					if !isPrivGuard(cs.Block()) {
						all = false
					}
				}
			}
			privDepth--
			if all && n > 0 {
				return true
			}
		}
		for _, g := range guardsOf(b) {
			cond, neg := normCond(g.If.Cond)
			if call, ok := cond.(*ssa.Call); ok {
				if cal := calleeOf(call); cal != nil && (nm(cal) == "IsAnyBitsSet" || nm(cal) == "IsAllBitsSet") {
					if v, ok := constInt(call.Common().Args[0]); ok && v == flagPriv && (g.Succ == 0) != neg {
						return true
					}
				}
				// a parameterless predicate of the package that is exactly this flag test (flags&L != 0, or the call above)
				if cal := calleeOf(call); cal != nil && (g.Succ == 0) != neg && flagPredicate(p, cal, flagPriv) {
					return true
				}
			}
		}
		return false
	}
	// the table loop
	var tableRewrite *ssa.Call
	var regionCalls []ssa.CallInstruction
	for _, fn := range region {
		regionCalls = append(regionCalls, callsIn(fn)...)
	}
	for _, cs := range regionCalls {
		call, ok := cs.(*ssa.Call)
		if !ok {
			continue
		}
		cal := calleeOf(call)
		if cal == nil {
			continue
		}
		name := cal.String()
		isRewrite := name == "strings.ReplaceAll" || name == "strings.Replace" || name == "(*regexp.Regexp).ReplaceAllString" || name == "strings.TrimPrefix"
		if !isRewrite {
			continue
		}
		args := call.Common().Args
		subj := args[0]
		if name == "(*regexp.Regexp).ReplaceAllString" {
			subj = args[1]
		}
		key := "rewrite:" + strings.TrimPrefix(name, "strings.") + "@" + shortBlockRole(call, m)
		var probs []string
		if isOrig(subj) && !(call.Parent() != cp && len(origParam) > 1 && firstRewriteOfParam(call, subj)) {
			probs = append(probs, "the rewrite is applied to the ORIGINAL path argument, discarding what earlier steps (table, home directory) already replaced")
		} else if _, isPhi := strip(subj).(*ssa.Phi); !isPhi {
			if prm, isPrm := strip(subj).(*ssa.Parameter); !(isPrm && call.Parent() != cp && prm.Type().String() == "string") {
				probs = append(probs, "the subject of the rewrite is not the running (current) value: "+m.valDesc(subj))
			}
		}
		if !isPrivGuard(call.Block()) {
			probs = append(probs, "not under the privacy-path flag")
		}
		if name == "strings.ReplaceAll" || name == "strings.Replace" {
			// k and v from the same range step, and guarded by HasPrefix(current, k)
			k, v := args[1], args[2]
			ek, ok1 := k.(*ssa.Extract)
			ev, ok2 := v.(*ssa.Extract)
			if ok1 && ok2 && ek.Tuple == ev.Tuple {
				if nx, ok := ek.Tuple.(*ssa.Next); ok {
					if rg, ok := nx.Iter.(*ssa.Range); ok {
						if g, ok := globalLoad(rg.X); ok && nm(g) == "knownPathMap" {
							tableRewrite = call
						}
					}
				}
				hp := false
				for _, g := range guardsOf(call.Block()) {
					cond, neg := normCond(g.If.Cond)
					if c2, ok := cond.(*ssa.Call); ok && (g.Succ == 0) != neg {
						if cal2 := calleeOf(c2); cal2 != nil && cal2.String() == "strings.HasPrefix" && c2.Common().Args[1] == k && strip(c2.Common().Args[0]) == strip(subj) {
							hp = true
						}
					}
				}
				if !hp {
					probs = append(probs, "the replacement is not guarded by HasPrefix(current, k) with the same k")
				}
				// whether an entry applies depends on the path and its key only, never on the replacement text
				for _, g := range guardsOf(call.Block()) {
					cond, _ := normCond(g.If.Cond)
					conds := []ssa.Value{cond}
					if ph, isPhi := cond.(*ssa.Phi); isPhi {
						conds = append(conds, ph.Edges...)
						for _, pr := range ph.Block().Preds {
							if pi := ifOf(pr); pi != nil {
								conds = append(conds, pi.Cond)
							}
						}
					}
					for _, cd := range conds {
						if dependsDirect(cd, ev) {
							probs = append(probs, "a table entry is skipped depending on its replacement text: a registered prefix mapped to such a replacement is reported verbatim")
						}
					}
				}
				if ek.Index != 1 || ev.Index != 2 {
					probs = append(probs, "key and replacement are swapped")
				}
			} else {
				probs = append(probs, "the prefix and its replacement do not come from the same table entry")
			}
		}
		// result flows back into the running value (a phi) or the return
		back := false
		for _, ref := range *call.Referrers() {
			switch ref.(type) {
			case *ssa.Phi, *ssa.Return:
				back = true
			}
		}
		if !back {
			probs = append(probs, "the rewritten value is not carried forward")
		}
		r.Check(len(probs) == 0, "R18.2", key, p.Pos(instrPos(call)), "rewrites the current value and carries it forward", strings.Join(probs, "; "))
	}
	r.Check(tableRewrite != nil, "R18.2", "table-loop", p.FuncPos(cp), "the known-path table is applied entry by entry", "checkpath no longer applies the known-path table")
	// returns
	type retAt struct {
		fn *ssa.Function
		b  *ssa.BasicBlock
		i  int
	}
	var allRets []retAt
	for _, fn := range region {
		if fn.Signature.Results().Len() != 1 || fn.Signature.Results().At(0).Type().String() != "string" {
			continue
		}
		rs, _ := exitBlocks(fn)
		for i, b := range rs {
			allRets = append(allRets, retAt{fn, b, i})
		}
	}
	for _, ra := range allRets {
		b := ra.b
		ret := b.Instrs[len(b.Instrs)-1].(*ssa.Return)
		v := ret.Results[0]
		key := keyOf(fmt.Sprintf("return#%d", ra.i), ra.fn)
		if call, isCall := v.(*ssa.Call); isCall && inRegion[calleeOf(call)] {
			r.Ok("R18.2", key+":helper", p.Pos(instrPos(ret)), "returns what the helper %s returns (judged there)", shortName(calleeOf(call)))
			continue
		}
		if prm, isPrm := v.(*ssa.Parameter); isPrm && ra.fn != cp && !isOrig(prm) {
			r.Ok("R18.2", key+":current", p.Pos(instrPos(ret)), "returns the running (hardened) value it was given")
			continue
		}
		if ex, ok := v.(*ssa.Extract); ok {
			if call, ok := ex.Tuple.(*ssa.Call); ok {
				if cal := calleeOf(call); cal != nil && cal.String() == "path/filepath.Rel" {
					// relative to the working directory of NOW (os.Getwd in this call), not one remembered earlier
					cwdNow := false
					for _, sv := range sources(call.Common().Args[0]) {
						if e0, isEx := sv.(*ssa.Extract); isEx {
							if c0, isC := e0.Tuple.(*ssa.Call); isC {
								if cal0 := calleeOf(c0); cal0 != nil && cal0.String() == "os.Getwd" {
									cwdNow = true
								}
							}
						}
					}
					r.Check(cwdNow, "R18.2", key+":relative-base", p.Pos(instrPos(ret)), "the relative path is taken against os.Getwd() of this call", "the relative path is computed against a directory remembered earlier, not the current working directory: after a chdir it names a different file")
					// guarded by IsAbs(current) and len(rel) < len(current)
					// facts known at the return from the dominating branch edges (in whatever form the tests are
					// written: nested ifs, early returns, negations): IsAbs(current) and len(rel) < len(current)
					var abs, shorter bool
					var cur ssa.Value
					isLenOf := func(v ssa.Value, of func(ssa.Value) bool) bool {
						c2, ok := v.(*ssa.Call)
						return ok && isBuiltinCall(c2, "len") && of(strip(c2.Common().Args[0]))
					}
					isRel := func(x ssa.Value) bool {
						return x == ssa.Value(ex) || func() bool { e2, ok := x.(*ssa.Extract); return ok && e2.Tuple == ex.Tuple && e2.Index == 0 }()
					}
					for _, g := range guardsOf(b) {
						cond, neg := normCond(g.If.Cond)
						truth := (g.Succ == 0) != neg
						if c2, ok := cond.(*ssa.Call); ok && truth {
							if cal2 := calleeOf(c2); cal2 != nil && cal2.String() == "path/filepath.IsAbs" && !isOrig(c2.Common().Args[0]) {
								abs = true
								cur = strip(c2.Common().Args[0])
							}
						}
					}
					isCur := func(x ssa.Value) bool { return cur != nil && x == cur }
					for _, g := range guardsOf(b) {
						cond, neg := normCond(g.If.Cond)
						truth := (g.Succ == 0) != neg
						bo, ok := cond.(*ssa.BinOp)
						if !ok {
							continue
						}
						relL, relR := isLenOf(bo.X, isRel), isLenOf(bo.Y, isRel)
						curL, curR := isLenOf(bo.X, isCur), isLenOf(bo.Y, isCur)
						switch {
						case relL && curR && ((bo.Op == token.LSS && truth) || (bo.Op == token.GEQ && !truth)):
							shorter = true
						case curL && relR && ((bo.Op == token.GTR && truth) || (bo.Op == token.LEQ && !truth)):
							shorter = true
						}
					}
					r.Check(abs && shorter, "R18.2", key+":relative", p.Pos(instrPos(ret)), "the relative path is returned only when the hardened path is still absolute and the relative one is strictly shorter", "the relative-path shortcut is not restricted to 'hardened path still absolute and relative path strictly shorter'")
					continue
				}
			}
		}
		if _, isPhi := v.(*ssa.Phi); isPhi {
			r.Ok("R18.2", key+":current", p.Pos(instrPos(ret)), "returns the running (hardened) value")
			continue
		}
		if isOrig(v) {
			r.Bad("R18.2", key, p.Pos(instrPos(ret)), "the original argument is returned: the replacements are discarded")
			continue
		}
		if ra.fn != cp {
			// a helper returning an expression built from the running value it was given (and not from the original)
			fromCur, fromOrig := false, false
			for _, prm := range ra.fn.Params {
				if prm.Type().String() != "string" {
					continue
				}
				if dependsDirect(v, prm) {
					if isOrig(prm) {
						fromOrig = true
					} else {
						fromCur = true
					}
				}
			}
			if fromCur && !fromOrig {
				r.Ok("R18.2", key+":current", p.Pos(instrPos(ret)), "returns a value built from the running value it was given")
				continue
			}
		}
		r.Bad("R18.2", key, p.Pos(instrPos(ret)), "unrecognised result %s", m.valDesc(v))
	}

	// R18.3 slices
	ns := 0
	var regionBlocks []*ssa.BasicBlock
	for _, fn := range region {
		regionBlocks = append(regionBlocks, fn.Blocks...)
	}
	for _, b := range regionBlocks {
		for _, in := range b.Instrs {
			// the library forms of "test the prefix, then cut it": they cannot fail for any input
			if call, isCall := in.(*ssa.Call); isCall {
				if cal := calleeOf(call); cal != nil && cal.Pkg != nil && cal.Pkg.Pkg.Path() == "strings" {
					switch cal.Name() {
					case "CutPrefix", "CutSuffix", "Cut", "TrimPrefix", "TrimSuffix":
						ns++
						r.Ok("R18.3", fmt.Sprintf("cut:%s:%s#%d", shortName(b.Parent()), cal.Name(), ns), p.Pos(instrPos(call)), "the prefix is tested and removed by strings.%s, which cannot fail", cal.Name())
					}
				}
			}
			sl, ok := in.(*ssa.Slice)
			if !ok || sl.X.Type().String() != "string" {
				continue
			}
			ns++
			key := fmt.Sprintf("slice#%d", ns)
			just := ""
			for _, g := range guardsOf(b) {
				cond, neg := normCond(g.If.Cond)
				taken := (g.Succ == 0) != neg
				if c2, ok := cond.(*ssa.Call); ok && taken {
					if cal2 := calleeOf(c2); cal2 != nil && cal2.String() == "strings.HasPrefix" && strip(c2.Common().Args[0]) == strip(sl.X) {
						pre := c2.Common().Args[1]
						if s, ok := constString(pre); ok {
							if lo, ok := constInt(sl.Low); ok && int(lo) <= len(s) {
								just = fmt.Sprintf("HasPrefix(x, %q) covers [%d:]", s, lo)
							}
							if l, ok := linOf(sl.Low); ok && int(l.c) <= len(s) && len(l.atoms) == 1 {
								// c + idx with idx >= 0 checked below
								for at := range l.atoms {
									if idxNonNeg(at, b, 0) {
										just = fmt.Sprintf("HasPrefix(x, %q) and index >= 0", s)
									}
								}
							}
						} else if call, ok := sl.Low.(*ssa.Call); ok && isBuiltinCall(call, "len") && exprKey(strip(call.Common().Args[0])) == exprKey(strip(pre)) {
							just = "HasPrefix(x, p) covers [len(p):]"
						}
					}
				}
			}
			// x[strings.Index*(x, ..):] under a test that the index was found
			if call, ok := sl.Low.(*ssa.Call); ok && just == "" && sl.High == nil {
				if cal2 := calleeOf(call); cal2 != nil && cal2.Pkg != nil && cal2.Pkg.Pkg.Path() == "strings" && (strings.HasPrefix(cal2.Name(), "Index") || strings.HasPrefix(cal2.Name(), "LastIndex")) {
					if call.Common().Args[0] == sl.X && idxNonNeg(call, b, 0) {
						just = "an index found in the same string"
					}
				}
			}
			r.Check(just != "", "R18.3", key, p.Pos(instrPos(sl)), "justified: "+just, "a slice of the path is not justified by a dominating prefix/index test on the same string: it can panic for short inputs")
		}
	}
	np := 0
	for _, b := range regionBlocks {
		if _, ok := b.Instrs[len(b.Instrs)-1].(*ssa.Panic); ok {
			np++
		}
	}
	comp := false
	for fn := range staticReach([]*ssa.Function{cp}, func(f *ssa.Function) bool { return f.Pkg != p.Slog }) {
		for _, cs := range callsIn(fn) {
			if cal := calleeOf(cs); cal != nil && (cal.String() == "regexp.MustCompile" || cal.String() == "regexp.Compile") {
				comp = true
			}
		}
	}
	r.Check(np == 0 && !comp, "R18.3", "no-panic", p.FuncPos(cp), "no panic and no regexp compilation on the hardening path", "checkpath can panic explicitly or compiles a regexp per call")

	// R18.4
	home := false
	for _, b := range regionBlocks {
		for _, in := range b.Instrs {
			call, ok := in.(*ssa.Call)
			if !ok {
				continue
			}
			if cal := calleeOf(call); cal != nil && (cal.String() == "strings.HasPrefix" || cal.String() == "strings.CutPrefix") {
				if g, ok := globalLoad(call.Common().Args[1]); ok && nm(g) == "homeDir" && isPrivGuard(b) {
					// the true edge rewrites to "~"+rest
					home = true
					// ... whatever the other privacy flag says
					flagRe, _ := p.ConstInt(p.Slog, "Lprivacypathregexp")
					for _, gd := range guardsOf(b) {
						cond, _ := normCond(gd.If.Cond)
						if c2, isCall := cond.(*ssa.Call); isCall {
							if cal2 := calleeOf(c2); cal2 != nil && (nm(cal2) == "IsAnyBitsSet" || nm(cal2) == "IsAllBitsSet") {
								if v, isC := constInt(c2.Common().Args[0]); isC && v == flagRe {
									r.Bad("R18.4", "home:independent", p.Pos(instrPos(call)), "the home-directory rewrite is conditional on the regexp privacy flag: with that flag in its other state (the production default has both on) paths under the home directory keep their prefix once the table entry is gone")
								}
							}
						}
					}
				}
			}
		}
	}
	if !home {
		// alternative: no exported function can delete entries of the table
		var deleters []string
		for _, fn := range p.RepoFuncs() {
			for _, gs := range globalStores(fn) {
				if nm(gs.G) == "knownPathMap" && (gs.Kind == "delete" || gs.Kind == "clear" || (gs.Kind == "store" && !p.startupOnly(fn))) {
					deleters = append(deleters, shortName(fn))
				}
			}
		}
		sort.Strings(deleters)
		r.Check(len(deleters) == 0, "R18.4", "home", p.FuncPos(cp), "the home mapping cannot be removed", fmt.Sprintf("the home directory is protected only by a table entry that %v can delete: afterwards paths under the home directory are reported verbatim although the privacy flag is on", deleters))
	} else {
		r.Ok("R18.4", "home", p.FuncPos(cp), "checkpath rewrites the home prefix from homeDir itself under the privacy flag")
	}
	// init seeds homeDir from os.UserHomeDir
	seeded := false
	for _, fn := range p.RepoFuncs() {
		if !p.startupOnly(fn) {
			continue
		}
		for _, gs := range globalStores(fn) {
			if nm(gs.G) == "homeDir" {
				for _, s := range sources(gs.Val) {
					if ex, ok := s.(*ssa.Extract); ok {
						if call, ok := ex.Tuple.(*ssa.Call); ok {
							if cal := calleeOf(call); cal != nil && cal.String() == "os.UserHomeDir" {
								seeded = true
							}
						}
					}
				}
			}
		}
	}
	r.Check(seeded, "R18.4", "homeDir:init", "-", "homeDir is the user's home directory", "homeDir is not initialised from os.UserHomeDir")
	for _, fn := range p.RepoFuncs() {
		if p.startupOnly(fn) {
			continue
		}
		for _, gs := range globalStores(fn) {
			if nm(gs.G) == "homeDir" {
				r.Bad("R18.4", "homeDir:store:"+shortName(fn), p.Pos(instrPos(gs.Instr)), "homeDir is modified at run time by %s", shortName(fn))
			}
		}
	}

	// R18.5
	var roots []*ssa.Function
	for _, spec := range []string{"Source.Extract", "Safety", "SafetyFiles", "checkpath", "checkedfuncname"} {
		if fn := p.F(spec); fn != nil {
			roots = append(roots, fn)
		}
	}
	for fn := range staticReach(roots, func(f *ssa.Function) bool { return f.Pkg != p.Slog && f.Parent() == nil }) {
		var probs []string
		for _, gs := range globalStores(fn) {
			probs = append(probs, "stores to "+nm(gs.G))
		}
		for _, cs := range callsIn(fn) {
			if len(cs.Common().Args) == 0 {
				continue
			}
			if g, ok := cs.Common().Args[0].(*ssa.Global); ok && g.Pkg == p.Slog {
				if cal := calleeOf(cs); cal != nil && cal.Signature.Recv() != nil {
					probs = append(probs, "calls "+cal.String()+" on package-level "+nm(g))
				}
			}
		}
		r.Check(len(probs) == 0, "R18.5", "stateless:"+shortName(fn), p.FuncPos(fn), "keeps no state between calls", "the hardened path can be remembered across calls ("+strings.Join(probs, "; ")+"): a later change of flags or mappings is not honoured for call sites seen before")
	}
}

// shortBlockRole names a rewrite site by what it is guarded with (stable across line changes).
func shortBlockRole(call *ssa.Call, m *Model) string {
	var ds []string
	for _, g := range guardsOf(call.Block()) {
		d := m.guardDesc(g)
		switch {
		case strings.Contains(d, "range-next"):
			ds = append(ds, "table")
		case strings.Contains(d, "homeDir"):
			ds = append(ds, "home")
		case strings.Contains(d, "MatchString"):
			ds = append(ds, "regexp")
		case strings.Contains(d, "/Volumes/"):
			ds = append(ds, "volumes")
		}
	}
	if len(ds) == 0 {
		return "top"
	}
	return strings.Join(dedupStr(ds), "+")
}

// dependsDirect: v is computed from target without passing through a phi (i.e. within one loop iteration).
func dependsDirect(v, target ssa.Value) bool {
	seen := map[ssa.Value]bool{}
	var walk func(v ssa.Value) bool
	walk = func(v ssa.Value) bool {
		if v == nil || seen[v] {
			return false
		}
		seen[v] = true
		if v == target {
			return true
		}
		if _, isPhi := v.(*ssa.Phi); isPhi {
			return false
		}
		in, ok := v.(ssa.Instruction)
		if !ok {
			return false
		}
		for _, op := range in.Operands(nil) {
			if *op != nil && walk(*op) {
				return true
			}
		}
		return false
	}
	return walk(v)
}

// firstRewriteOfParam: in a helper, a rewrite whose subject is the helper's own path parameter is the first step
// of that helper (the parameter IS the current value there when nothing before it in the helper rewrote it).
func firstRewriteOfParam(call *ssa.Call, subj ssa.Value) bool {
	_, isPrm := strip(subj).(*ssa.Parameter)
	return isPrm
}

// flagPredicate: fn() bool returns, on its single path, "the flag bit L of the package flags word is set":
// IsAnyBitsSet(L) / IsAllBitsSet(L), or flags&L != 0 (also == L for a single bit).
func flagPredicate(p *Prog, fn *ssa.Function, L int64) bool {
	if fn == nil || fn.Pkg != p.Slog || len(fn.Params) != 0 || len(fn.Blocks) != 1 {
		return false
	}
	ret, ok := fn.Blocks[0].Instrs[len(fn.Blocks[0].Instrs)-1].(*ssa.Return)
	if !ok || len(ret.Results) != 1 {
		return false
	}
	switch x := ret.Results[0].(type) {
	case *ssa.Call:
		if cal := calleeOf(x); cal != nil && (nm(cal) == "IsAnyBitsSet" || nm(cal) == "IsAllBitsSet") && len(x.Common().Args) == 1 {
			v, ok := constInt(x.Common().Args[0])
			return ok && v == L
		}
	case *ssa.BinOp:
		and, ok := x.X.(*ssa.BinOp)
		if !ok || and.Op != token.AND {
			return false
		}
		g, isG := globalLoad(and.X)
		m, isC := constInt(and.Y)
		if !isG || !isC || nm(g) != "flags" || m != L {
			return false
		}
		k, isK := constInt(x.Y)
		return isK && ((x.Op == token.NEQ && k == 0) || (x.Op == token.EQL && k == L))
	}
	return false
}
