package main

import (
	"fmt"
	"go/token"
	"sort"
	"strings"

	"golang.org/x/tools/go/ssa"
)

// Engine E5: mode-specialised emission analysis of the encoder. The print tree is
// explored from the session entry with branches on the two mode bits pruned; every
// instruction that hands bytes to the record buffer verbatim ("raw sink") is an emission
// site, and its payload is classified by a backward def-use slice that is carried across
// call sites (a function that forwards its own parameter to a raw sink becomes a raw sink
// for that parameter).

// ModeReach holds the blocks of each function that are feasible in a mode.
type ModeReach struct {
	Mode   Mode
	Blocks map[*ssa.Function]map[*ssa.BasicBlock]bool
	P      *Prog
	M      *Model
	// Production: blocks guarded by the testing/debug-only dump are excluded
	Production bool
}

func feasibleBlocks(fn *ssa.Function, mode Mode, prune func(*ssa.BasicBlock) []*ssa.BasicBlock) map[*ssa.BasicBlock]bool {
	out := map[*ssa.BasicBlock]bool{}
	if len(fn.Blocks) == 0 {
		return out
	}
	var stack []*ssa.BasicBlock
	stack = append(stack, fn.Blocks[0])
	out[fn.Blocks[0]] = true
	for len(stack) > 0 {
		b := stack[len(stack)-1]
		stack = stack[:len(stack)-1]
		succs := feasibleSuccs(b, mode)
		if prune != nil {
			succs = prune(b)
		}
		for _, s := range succs {
			if !out[s] {
				out[s] = true
				stack = append(stack, s)
			}
		}
	}
	return out
}

// debugDumpGuard recognises the condition `err != nil && (inTesting || isDebug || isDebugging)` pieces: loads of those globals.
func isDebugOnlyCond(cond ssa.Value) bool {
	c, _ := normCond(cond)
	if g, ok := globalLoad(c); ok {
		switch nm(g) {
		case "inTesting", "isDebug", "isDebugging":
			return true
		}
	}
	return false
}

// productionSuccs prunes mode branches and, in addition, takes the testing/debug flags as false.
func productionSuccs(mode Mode) func(b *ssa.BasicBlock) []*ssa.BasicBlock {
	return func(b *ssa.BasicBlock) []*ssa.BasicBlock {
		if i := ifOf(b); i != nil {
			c, neg := normCond(i.Cond)
			if isDebugOnlyCond(c) {
				// flag false
				if neg {
					return b.Succs[:1]
				}
				return b.Succs[1:2]
			}
		}
		return feasibleSuccs(b, mode)
	}
}

// NewModeReach explores from the roots (session entries) through static calls, closures and the package's own dynamic targets.
func NewModeReach(p *Prog, m *Model, mode Mode, roots []*ssa.Function, production bool) *ModeReach {
	mr := &ModeReach{Mode: mode, Blocks: map[*ssa.Function]map[*ssa.BasicBlock]bool{}, P: p, M: m, Production: production}
	var prune func(*ssa.BasicBlock) []*ssa.BasicBlock
	if production {
		prune = productionSuccs(mode)
	}
	var visit func(fn *ssa.Function)
	inRepo := func(fn *ssa.Function) bool {
		pk := fn.Pkg
		if pk == nil && fn.Origin() != nil {
			pk = fn.Origin().Pkg
		}
		if pk == nil && fn.Parent() != nil {
			return true
		}
		return pk == p.Slog || pk == p.Times || pk == p.Strs
	}
	visit = func(fn *ssa.Function) {
		if fn == nil || mr.Blocks[fn] != nil || len(fn.Blocks) == 0 || !inRepo(fn) {
			return
		}
		fb := feasibleBlocks(fn, mode, prune)
		mr.Blocks[fn] = fb
		for _, b := range fn.Blocks {
			if !fb[b] {
				continue
			}
			for _, in := range b.Instrs {
				switch x := in.(type) {
				case ssa.CallInstruction:
					if cal := calleeOf(x); cal != nil {
						visit(cal)
					} else if n := invokeName(x); n == "SerializeValueTo" {
						for _, tn := range []string{"kvp", "gkvp", "Attrs"} {
							visit(p.Method(p.Slog, tn, n))
						}
					}
					for _, a := range x.Common().Args {
						if mc, ok := a.(*ssa.MakeClosure); ok {
							visit(mc.Fn.(*ssa.Function))
						}
					}
				case *ssa.MakeClosure:
					visit(x.Fn.(*ssa.Function))
				}
			}
		}
	}
	for _, r := range roots {
		visit(r)
	}
	return mr
}

func (mr *ModeReach) Funcs() []*ssa.Function {
	var out []*ssa.Function
	for fn := range mr.Blocks {
		out = append(out, fn)
	}
	sort.Slice(out, func(i, j int) bool { return out[i].String() < out[j].String() })
	return out
}

func (mr *ModeReach) Has(fn *ssa.Function) bool { return mr.Blocks[fn] != nil }

// ---- raw sinks -------------------------------------------------------------------

// rawSinkPrims: functions that copy a string/bytes operand into the record verbatim (operand index in Call.Args).
func rawSinkPrim(cal *ssa.Function) (int, bool) {
	if cal == nil || cal.Signature.Recv() == nil || typeName(cal.Signature.Recv().Type()) != "PrintCtx" {
		return 0, false
	}
	switch nm(cal) {
	case "WriteString", "Write":
		return 1, true
	}
	return 0, false
}

// escaper primitives: their string operand is escaped, not copied.
var escaperFuncs = map[string]bool{"appendEscapedJSONString": true, "appendQuotedWith": true, "appendQuotedRuneWith": true, "appendEscapedRune": true}

type rawSite struct {
	Fn      *ssa.Function
	Instr   ssa.Instruction
	Classes map[string]bool
	Via     string // chain of forwarding functions
}

type rawAnalysis struct {
	mr      *ModeReach
	fwd     map[*ssa.Function]map[int]bool // function -> parameter indices forwarded verbatim to the buffer
	Sites   []rawSite
	visited map[string]bool
}

// classify a string/bytes value inside fn: returns classes; "param:<i>" marks dependence on fn's own parameter.
func (ra *rawAnalysis) classify(v ssa.Value, fn *ssa.Function, out map[string]bool, depth int) {
	p := ra.mr.P
	if depth > 14 {
		out["unknown"] = true
		return
	}
	v = stripNoIface(v)
	switch x := v.(type) {
	case *ssa.Const:
		out["const"] = true
	case *ssa.Phi:
		for _, e := range x.Edges {
			ra.classify(e, fn, out, depth+1)
		}
	case *ssa.Parameter:
		for i, q := range fn.Params {
			if q == x {
				out[fmt.Sprintf("param:%d", i)] = true
			}
		}
	case *ssa.FreeVar:
		// captured variable: resolve at the MakeClosure in the parent
		if par := fn.Parent(); par != nil {
			for _, b := range par.Blocks {
				for _, in := range b.Instrs {
					if mc, ok := in.(*ssa.MakeClosure); ok && mc.Fn == ssa.Value(fn) {
						for i, fv := range fn.FreeVars {
							if fv == x && i < len(mc.Bindings) {
								sub := map[string]bool{}
								ra.classify(mc.Bindings[i], par, sub, depth+1)
								for k := range sub {
									if strings.HasPrefix(k, "param:") {
										out["parent-"+k] = true
									} else {
										out[k] = true
									}
								}
							}
						}
					}
				}
			}
			return
		}
		out["unknown"] = true
	case *ssa.Slice:
		ra.classify(x.X, fn, out, depth+1)
	case *ssa.MakeInterface:
		ra.classify(x.X, fn, out, depth+1)
	case *ssa.BinOp:
		if x.Op == token.ADD {
			ra.classify(x.X, fn, out, depth+1)
			ra.classify(x.Y, fn, out, depth+1)
			return
		}
		out["unknown"] = true
	case *ssa.Extract:
		switch t := x.Tuple.(type) {
		case *ssa.TypeAssert:
			ra.classify(t.X, fn, out, depth+1)
		case *ssa.Call:
			ra.classifyCall(t, fn, out, depth+1, x.Index)
		case *ssa.Lookup:
			out["table"] = true
		case *ssa.Next:
			out["table"] = true
		default:
			out["unknown"] = true
		}
	case *ssa.TypeAssert:
		ra.classify(x.X, fn, out, depth+1)
	case *ssa.Lookup:
		out["table"] = true
	case *ssa.Index:
		// one byte out of a constant alphabet of letters and digits (the hex digit table, whose constancy R04.1 decides)
		if isHexDigit(x) || alnumConst(x.X) {
			out["const"] = true
			return
		}
		out["unknown"] = true
	case *ssa.UnOp:
		if x.Op != token.MUL {
			out["unknown"] = true
			return
		}
		if base, _, f, ok := fieldLoad(x); ok {
			tn := typeName(base.Type())
			switch tn + "." + nm(f) {
			case "PrintCtx.msg", "PrintCtx.restLines", "PrintCtx.firstLine":
				out["message"] = true
			case "PrintCtx.prefix":
				out["key"] = true
			case "PrintCtx.layout":
				out["layout"] = true
			case "kvp.key", "gkvp.key":
				out["key"] = true
			case "kvp.val":
				out["value"] = true
			case "Entry.name":
				out["logger-name"] = true
			case "Source.File", "Source.Function":
				out["frame"] = true
			default:
				out["field:"+tn+"."+nm(f)] = true
			}
			return
		}
		if g, ok := globalLoad(x); ok {
			out["global:"+nm(g)] = true
			return
		}
		if al, ok := x.X.(*ssa.Alloc); ok {
			for _, ref := range *al.Referrers() {
				if st, ok := ref.(*ssa.Store); ok && st.Addr == ssa.Value(al) {
					ra.classify(st.Val, fn, out, depth+1)
				}
			}
			return
		}
		if ia, ok := x.X.(*ssa.IndexAddr); ok {
			ra.classify(ia.X, fn, out, depth+1)
			return
		}
		if fv, ok := x.X.(*ssa.FreeVar); ok {
			ra.classify(fv, fn, out, depth+1)
			return
		}
		out["unknown"] = true
	case *ssa.Call:
		ra.classifyCall(x, fn, out, depth+1, 0)
	case *ssa.Alloc:
		// array literal: classify what is stored in it
		for _, ref := range *x.Referrers() {
			if ia, ok := ref.(*ssa.IndexAddr); ok {
				for _, r2 := range *ia.Referrers() {
					if st, ok := r2.(*ssa.Store); ok {
						ra.classify(st.Val, fn, out, depth+1)
					}
				}
			}
		}
	default:
		_ = p
		out["unknown"] = true
	}
}

func (ra *rawAnalysis) classifyCall(call *ssa.Call, fn *ssa.Function, out map[string]bool, depth int, resIdx int) {
	cc := call.Common()
	if cc.IsInvoke() {
		switch nm(cc.Method) {
		case "Key":
			out["key"] = true
		case "Value":
			out["value"] = true
		case "Error":
			out["error-text"] = true
		case "String", "ToString":
			if n := namedOf(cc.Value.Type()); n != nil && nm(n.Obj()) == "Stringer" {
				out["value"] = true
			} else {
				out["value"] = true
			}
		case "MarshalJSON":
			out["marshaller"] = true
		case "MarshalText":
			out["text-marshaller"] = true
		default:
			out["unknown"] = true
		}
		return
	}
	if isBuiltinCall(call, "append") {
		for _, a := range cc.Args {
			ra.classify(a, fn, out, depth+1)
		}
		return
	}
	cal := calleeOf(call)
	if cal == nil {
		// call of a function value (callback): its result is whatever the callback builds; treated by the SGR analysis, text-wise it derives from its arguments
		for _, a := range cc.Args {
			if a.Type().String() == "string" {
				ra.classify(a, fn, out, depth+1)
			}
		}
		return
	}
	name := origin(cal).String()
	short := shortName(cal)
	switch {
	case strings.HasPrefix(name, "strconv.Format"), strings.HasPrefix(name, "strconv.Itoa"), strings.HasPrefix(name, "strconv.Append"), name == "(time.Duration).String":
		out["num"] = true
	case name == "(time.Time).Format", name == "(time.Time).AppendFormat", name == "(time.Time).String":
		out["time"] = true
	case name == "strconv.Quote", name == "strconv.AppendQuote":
		out["quoted"] = true
	case name == "fmt.Sprintf", name == "fmt.Sprint", name == "fmt.Sprintln", name == "fmt.Errorf":
		out["fallback-format"] = true
	case name == "strings.Repeat":
		out["const"] = true
	case name == "strings.TrimRight", name == "strings.Trim", name == "strings.TrimSpace", name == "strings.ToLower", name == "strings.ReplaceAll", name == "strings.Join", name == "strings.Split",
		name == "path/filepath.Base", name == "path/filepath.Dir", name == "path/filepath.Clean", name == "path.Base", name == "path.Dir", name == "path.Clean", name == "strings.TrimPrefix", name == "strings.TrimSuffix", name == "strings.TrimLeft":
		// (pure functions of their first argument: the result is made of bytes of that argument and separators)
		for _, a := range cc.Args[:1] {
			ra.classify(a, fn, out, depth+1)
		}
	case short == "Level.String":
		out["level-name"] = true
	case short == "Level.ShortTag":
		out["level-name"] = true
	case short == "strings.DotPrefix" || short == "strings.AddPrefix" || short == "strings.AddPrefixFaster":
		for _, a := range cc.Args {
			ra.classify(a, fn, out, depth+1)
		}
	case short == "checkedfuncname" || short == "checkpath":
		out["frame"] = true
	case cal.Signature.Recv() != nil && (typeName(cal.Signature.Recv().Type()) == "WithStackInfo" || strings.HasSuffix(nm(cal), "Error")) && nm(cal) == "Error":
		out["error-text"] = true
	case strings.HasPrefix(short, "colorizeToolS."):
		// colour helpers: text-wise they return/forward their text argument
		for i, prm := range cal.Params {
			if prm.Type().String() == "string" && (nm(prm) == "text" || nm(prm) == "str" || nm(prm) == "line") && i < len(cc.Args) {
				ra.classify(cc.Args[i], fn, out, depth+1)
			}
		}
		// padFunc's lines go through the callback, whose text is the line itself
	case cal.Pkg == ra.mr.P.Slog || cal.Pkg == ra.mr.P.Times || cal.Pkg == ra.mr.P.Strs:
		// result of an in-package function: classify what it returns, mapping its parameters to our arguments
		rets, _ := exitBlocks(cal)
		for _, b := range rets {
			ret := b.Instrs[len(b.Instrs)-1].(*ssa.Return)
			if resIdx < len(ret.Results) {
				sub := map[string]bool{}
				ra.classify(ret.Results[resIdx], cal, sub, depth+1)
				for k := range sub {
					if strings.HasPrefix(k, "param:") {
						var i int
						fmt.Sscanf(k, "param:%d", &i)
						if i < len(cc.Args) {
							ra.classify(cc.Args[i], fn, out, depth+1)
						}
					} else {
						out[k] = true
					}
				}
			}
		}
	case strings.Contains(name, "Translate"):
		for _, a := range cc.Args {
			if a.Type().String() == "string" {
				ra.classify(a, fn, out, depth+1)
			}
		}
	default:
		out["call:"+name] = true
	}
}

// run finds all raw emission sites reachable in the mode.
func (ra *rawAnalysis) run() {
	mr := ra.mr
	ra.fwd = map[*ssa.Function]map[int]bool{}
	// seed: primitives
	type item struct {
		fn  *ssa.Function
		idx int
	}
	var work []item
	addFwd := func(fn *ssa.Function, idx int) {
		if ra.fwd[fn] == nil {
			ra.fwd[fn] = map[int]bool{}
		}
		if !ra.fwd[fn][idx] {
			ra.fwd[fn][idx] = true
			work = append(work, item{fn, idx})
		}
	}
	for _, fn := range mr.Funcs() {
		if idx, ok := rawSinkPrim(fn); ok {
			addFwd(fn, idx)
		}
	}
	// also direct `s.buf = append(s.buf, X...)` stores: handled as sites below
	seenSite := map[ssa.Instruction]bool{}
	consider := func(fn *ssa.Function, in ssa.Instruction, payload ssa.Value, via string) {
		if escaperFuncs[nm(fn)] || (fn.Parent() != nil && escaperFuncs[nm(fn.Parent())]) {
			return // inside an escaper: its raw copies are the safe runs it selected
		}
		cls := map[string]bool{}
		ra.classify(payload, fn, cls, 0)
		// parameter dependence makes fn a forwarder
		isFwd := false
		for k := range cls {
			var i int
			if n, _ := fmt.Sscanf(k, "param:%d", &i); n == 1 {
				addFwd(fn, i)
				isFwd = true
				delete(cls, k)
			}
			if n, _ := fmt.Sscanf(k, "parent-param:%d", &i); n == 1 && fn.Parent() != nil {
				addFwd(fn.Parent(), i)
				isFwd = true
				delete(cls, k)
			}
		}
		if len(cls) == 0 && isFwd {
			return
		}
		if seenSite[in] {
			for i := range ra.Sites {
				if ra.Sites[i].Instr == in {
					for k := range cls {
						ra.Sites[i].Classes[k] = true
					}
				}
			}
			return
		}
		seenSite[in] = true
		ra.Sites = append(ra.Sites, rawSite{Fn: fn, Instr: in, Classes: cls, Via: via})
	}
	scan := func() {
		for _, fn := range mr.Funcs() {
			fb := mr.Blocks[fn]
			for _, b := range fn.Blocks {
				if !fb[b] {
					continue
				}
				for _, in := range b.Instrs {
					switch x := in.(type) {
					case ssa.CallInstruction:
						cal := calleeOf(x)
						if cal == nil {
							// out.Write(...) on an io.Writer wrapping the context
							if n := invokeName(x); writerIfaceMethods[n] && len(x.Common().Args) > 0 {
								consider(fn, in, x.Common().Args[0], "io.Writer."+n)
							}
							continue
						}
						if idxs, ok := ra.fwd[origin(cal)]; ok || ra.fwd[cal] != nil {
							if !ok {
								idxs = ra.fwd[cal]
							}
							for idx := range idxs {
								if idx < len(x.Common().Args) {
									consider(fn, in, x.Common().Args[idx], shortName(cal))
								}
							}
						}
					case *ssa.Store:
						if f, ok := pcField(x.Addr); ok && f == "buf" {
							if call, ok := x.Val.(*ssa.Call); ok && isBuiltinCall(call, "append") && len(call.Common().Args) == 2 {
								consider(fn, in, call.Common().Args[1], "append(buf)")
							}
						}
					}
				}
			}
		}
	}
	for round := 0; round < 12; round++ {
		before := len(work)
		n0 := 0
		for _, m := range ra.fwd {
			n0 += len(m)
		}
		scan()
		n1 := 0
		for _, m := range ra.fwd {
			n1 += len(m)
		}
		_ = before
		if n1 == n0 {
			break
		}
	}
	sort.Slice(ra.Sites, func(i, j int) bool { return ra.Sites[i].Instr.Pos() < ra.Sites[j].Instr.Pos() })
}

func classList(m map[string]bool) []string {
	var out []string
	for k := range m {
		out = append(out, k)
	}
	sort.Strings(out)
	return out
}

// constEmissions lists constant byte/string payloads emitted in the mode: (fn, instr, text).
type constEmit struct {
	Fn    *ssa.Function
	Instr ssa.Instruction
	Text  string
}

// constTexts: the constant texts v can hold in this mode: a constant, or a phi all of whose mode-feasible
// edges are constants (`sep := ','; if json { sep = ... }; write(sep)` is the same emission as two writes).
func (mr *ModeReach) constTexts(v ssa.Value, asRune bool) ([]string, bool) {
	one := func(x ssa.Value) (string, bool) {
		if asRune {
			if n, ok := constInt(x); ok {
				return string(rune(n)), true
			}
			return "", false
		}
		return constString(x)
	}
	if t, ok := one(v); ok {
		return []string{t}, true
	}
	ph, ok := v.(*ssa.Phi)
	if !ok {
		return nil, false
	}
	fb := mr.Blocks[ph.Parent()]
	var out []string
	for i, e := range ph.Edges {
		pred := ph.Block().Preds[i]
		if fb != nil && !fb[pred] {
			continue
		}
		feasible := false
		for _, sc := range feasibleSuccs(pred, mr.Mode) {
			if sc == ph.Block() {
				feasible = true
			}
		}
		if !feasible {
			continue
		}
		t, ok := one(e)
		if !ok {
			return nil, false
		}
		out = append(out, t)
	}
	return out, len(out) > 0
}

func (mr *ModeReach) constEmissions() []constEmit {
	var out []constEmit
	for _, fn := range mr.Funcs() {
		fb := mr.Blocks[fn]
		for _, b := range fn.Blocks {
			if !fb[b] {
				continue
			}
			for _, in := range b.Instrs {
				cs, ok := in.(ssa.CallInstruction)
				if !ok {
					continue
				}
				cal := calleeOf(cs)
				name := invokeName(cs)
				if cal != nil {
					name = nm(cal)
				}
				switch name {
				case "WriteByte", "pcAppendByte", "AppendByte", "WriteRune", "pcAppendRune", "AppendRune", "AddRune":
					args := cs.Common().Args
					if ts, ok := mr.constTexts(args[len(args)-1], true); ok {
						for _, t := range ts {
							out = append(out, constEmit{fn, in, t})
						}
					}
				case "WriteString", "pcAppendString", "pcAppendStringValue", "Write", "pcAppendStringKey":
					args := cs.Common().Args
					if ts, ok := mr.constTexts(args[len(args)-1], false); ok {
						for _, t := range ts {
							out = append(out, constEmit{fn, in, t})
						}
					}
				}
			}
			for _, in := range b.Instrs {
				if st, ok := in.(*ssa.Store); ok {
					if f, ok := pcField(st.Addr); ok && f == "buf" {
						if call, ok := st.Val.(*ssa.Call); ok && isBuiltinCall(call, "append") {
							for _, a := range call.Common().Args[1:] {
								if s, ok := constString(a); ok {
									out = append(out, constEmit{fn, in, s})
								} else if v, ok := constInt(a); ok {
									out = append(out, constEmit{fn, in, string(rune(v))})
								} else if sl, ok := a.(*ssa.Slice); ok {
									if al, ok := sl.X.(*ssa.Alloc); ok {
										for _, ref := range *al.Referrers() {
											if ia, ok := ref.(*ssa.IndexAddr); ok {
												for _, r2 := range *ia.Referrers() {
													if s2, ok := r2.(*ssa.Store); ok {
														if v, ok := constInt(s2.Val); ok {
															out = append(out, constEmit{fn, in, string(rune(v))})
														}
													}
												}
											}
										}
									}
								}
							}
						}
					}
				}
			}
		}
	}
	return out
}

// alnumConst: v is a constant string of ASCII letters and digits only.
func alnumConst(v ssa.Value) bool {
	str, ok := constString(v)
	if !ok || str == "" {
		return false
	}
	for i := 0; i < len(str); i++ {
		c := str[i]
		if !(c >= '0' && c <= '9' || c >= 'a' && c <= 'z' || c >= 'A' && c <= 'Z') {
			return false
		}
	}
	return true
}
