package main

import (
	"fmt"
	"go/constant"
	"go/token"
	"go/types"
	"sort"
	"strings"

	"golang.org/x/tools/go/ssa"
)

// ---------- calls ---------------------------------------------------------

func calleeOf(c ssa.CallInstruction) *ssa.Function {
	if c == nil {
		return nil
	}
	return c.Common().StaticCallee()
}

// origin returns the generic origin of an instantiated function, or fn itself.
func origin(fn *ssa.Function) *ssa.Function {
	if fn == nil {
		return nil
	}
	if o := fn.Origin(); o != nil {
		return o
	}
	return fn
}

func sameFunc(a, b *ssa.Function) bool {
	return a != nil && b != nil && origin(a) == origin(b)
}

// callsIn lists the call instructions (call, go, defer) of fn in block order.
func callsIn(fn *ssa.Function) []ssa.CallInstruction {
	var out []ssa.CallInstruction
	if fn == nil {
		return nil
	}
	for _, b := range fn.Blocks {
		for _, in := range b.Instrs {
			if c, ok := in.(ssa.CallInstruction); ok {
				out = append(out, c)
			}
		}
	}
	return out
}

// callsTo lists the call sites in fn whose static callee is target.
func callsTo(fn, target *ssa.Function) []ssa.CallInstruction {
	var out []ssa.CallInstruction
	for _, c := range callsIn(fn) {
		if sameFunc(calleeOf(c), target) {
			out = append(out, c)
		}
	}
	return out
}

// invokeName returns the interface method name for a dynamic (invoke) call, "" otherwise.
func invokeName(c ssa.CallInstruction) string {
	cc := c.Common()
	if cc.IsInvoke() {
		return nm(cc.Method)
	}
	return ""
}

// isBuiltinCall reports a call to builtin `name` (append, len, copy, delete, clear...).
func isBuiltinCall(c ssa.CallInstruction, name string) bool {
	b, ok := c.Common().Value.(*ssa.Builtin)
	return ok && nm(b) == name
}

// qualified name of a function: pkgpath.Name or pkgpath.(T).Name
func fq(fn *ssa.Function) string {
	if fn == nil {
		return "<nil>"
	}
	return fn.String()
}

// shortName gives a stable short identifier for repo functions: Entry.logContext, logctx, ...
// (with the canonical names of renamed functions and types, see anchors.go)
func shortName(fn *ssa.Function) string {
	if fn == nil {
		return "<nil>"
	}
	s := fn.String()
	s = strings.ReplaceAll(s, "github.com/hedzr/logg/slog/internal/times.", "times.")
	s = strings.ReplaceAll(s, "github.com/hedzr/logg/slog/internal/strings.", "strings.")
	s = strings.ReplaceAll(s, "github.com/hedzr/logg/slog.", "")
	s = strings.ReplaceAll(s, "(*", "")
	s = strings.ReplaceAll(s, "(", "")
	s = strings.ReplaceAll(s, ")", "")
	top := fn
	for top.Parent() != nil {
		top = top.Parent()
	}
	if o := origin(top).Object(); o != nil {
		if a, ok := aliasOf[o]; ok {
			s = replaceWord(s, o.Name(), a)
		}
	}
	if r := top.Signature.Recv(); r != nil {
		if n := namedOf(r.Type()); n != nil {
			if a, ok := aliasOf[n.Obj()]; ok {
				s = replaceWord(s, n.Obj().Name(), a)
			}
		}
	}
	return s
}

func replaceWord(s, old, new string) string {
	isW := func(c byte) bool {
		return c == '_' || c >= '0' && c <= '9' || c >= 'a' && c <= 'z' || c >= 'A' && c <= 'Z'
	}
	for i := 0; i+len(old) <= len(s); i++ {
		if s[i:i+len(old)] == old && (i == 0 || !isW(s[i-1])) && (i+len(old) == len(s) || !isW(s[i+len(old)])) {
			return s[:i] + new + s[i+len(old):]
		}
	}
	return s
}

// staticReach returns all functions reachable from roots through static calls
// (including closures created in reached functions). stop(fn) true prunes.
func staticReach(roots []*ssa.Function, stop func(*ssa.Function) bool) map[*ssa.Function]bool {
	seen := map[*ssa.Function]bool{}
	var visit func(fn *ssa.Function)
	visit = func(fn *ssa.Function) {
		if fn == nil || seen[fn] {
			return
		}
		if stop != nil && stop(fn) {
			return
		}
		seen[fn] = true
		for _, b := range fn.Blocks {
			for _, in := range b.Instrs {
				switch x := in.(type) {
				case ssa.CallInstruction:
					if cal := calleeOf(x); cal != nil {
						visit(cal)
					}
					// closures passed as arguments
					for _, a := range x.Common().Args {
						if mc, ok := a.(*ssa.MakeClosure); ok {
							visit(mc.Fn.(*ssa.Function))
						}
					}
				case *ssa.MakeClosure:
					visit(x.Fn.(*ssa.Function))
				}
			}
		}
	}
	for _, r := range roots {
		visit(r)
	}
	return seen
}

// ---------- values --------------------------------------------------------

// strip removes value-preserving wrappers (ChangeType, Convert between same underlying, MakeInterface, ChangeInterface).
func strip(v ssa.Value) ssa.Value {
	for {
		switch x := v.(type) {
		case *ssa.ChangeType:
			v = x.X
		case *ssa.MakeInterface:
			v = x.X
		case *ssa.ChangeInterface:
			v = x.X
		case *ssa.Convert:
			v = x.X
		default:
			return v
		}
	}
}

func constVal(v ssa.Value) (constant.Value, bool) {
	c, ok := strip(v).(*ssa.Const)
	if !ok || c.Value == nil {
		return nil, false
	}
	return c.Value, true
}

func constInt(v ssa.Value) (int64, bool) {
	cv, ok := constVal(v)
	if !ok {
		return 0, false
	}
	if cv.Kind() != constant.Int {
		return 0, false
	}
	return constant.Int64Val(cv)
}

func constString(v ssa.Value) (string, bool) {
	cv, ok := constVal(v)
	if !ok || cv.Kind() != constant.String {
		return "", false
	}
	return constant.StringVal(cv), true
}

func constBool(v ssa.Value) (bool, bool) {
	cv, ok := constVal(v)
	if !ok || cv.Kind() != constant.Bool {
		return false, false
	}
	return constant.BoolVal(cv), true
}

func isNilConst(v ssa.Value) bool {
	c, ok := strip(v).(*ssa.Const)
	return ok && c.Value == nil
}

// fieldLoad recognises `*(&x.f)` or `x.f` (value struct) and returns the base and the field.
func fieldLoad(v ssa.Value) (base ssa.Value, st *types.Struct, field *types.Var, ok bool) {
	switch x := v.(type) {
	case *ssa.UnOp:
		if x.Op != token.MUL {
			return nil, nil, nil, false
		}
		fa, ok2 := x.X.(*ssa.FieldAddr)
		if !ok2 {
			return nil, nil, nil, false
		}
		st = structOf(fa.X.Type())
		if st == nil {
			return nil, nil, nil, false
		}
		return fa.X, st, st.Field(fa.Field), true
	case *ssa.Field:
		st = structOf(x.X.Type())
		if st == nil {
			return nil, nil, nil, false
		}
		return x.X, st, st.Field(x.Field), true
	}
	return nil, nil, nil, false
}

func structOf(t types.Type) *types.Struct {
	if p, ok := t.Underlying().(*types.Pointer); ok {
		t = p.Elem()
	}
	st, _ := t.Underlying().(*types.Struct)
	return st
}

// namedOf returns the named type behind t (through one pointer).
func namedOf(t types.Type) *types.Named {
	if p, ok := t.(*types.Pointer); ok {
		t = p.Elem()
	}
	if a, ok := t.(*types.Alias); ok {
		t = types.Unalias(a)
	}
	n, _ := t.(*types.Named)
	return n
}

func typeName(t types.Type) string {
	if n := namedOf(t); n != nil {
		return nm(n.Obj())
	}
	return t.String()
}

// isFieldLoadOf reports whether v is a load of field `name` of struct type `typ` (any base) and returns the base.
func isFieldLoadOf(v ssa.Value, typ, name string) (ssa.Value, bool) {
	base, _, f, ok := fieldLoad(strip(v))
	if !ok || nm(f) != name {
		return nil, false
	}
	if typeName(base.Type()) != typ {
		return nil, false
	}
	return base, true
}

// globalLoad recognises `*g` for a package-level variable g.
func globalLoad(v ssa.Value) (*ssa.Global, bool) {
	u, ok := strip(v).(*ssa.UnOp)
	if !ok || u.Op != token.MUL {
		return nil, false
	}
	g, ok := u.X.(*ssa.Global)
	return g, ok
}

// sources walks phi/strip back and returns the set of non-phi origins of v.
func sources(v ssa.Value) []ssa.Value {
	seen := map[ssa.Value]bool{}
	var out []ssa.Value
	var walk func(v ssa.Value)
	walk = func(v ssa.Value) {
		v = strip(v)
		if seen[v] {
			return
		}
		seen[v] = true
		if ph, ok := v.(*ssa.Phi); ok {
			for _, e := range ph.Edges {
				walk(e)
			}
			return
		}
		out = append(out, v)
	}
	walk(v)
	return out
}

// dependsOn reports whether v is (transitively, within the function) computed from target.
func dependsOn(v, target ssa.Value) bool {
	seen := map[ssa.Value]bool{}
	var walk func(v ssa.Value) bool
	walk = func(v ssa.Value) bool {
		if v == nil || seen[v] {
			return false
		}
		seen[v] = true
		if v == target {
			return true
		}
		in, ok := v.(ssa.Instruction)
		if !ok {
			return false
		}
		for _, op := range in.Operands(nil) {
			if *op != nil && walk(*op) {
				return true
			}
		}
		return false
	}
	return walk(v)
}

// ---------- control flow ----------------------------------------------------

// edgeDominates reports whether every path from entry to target goes through the
// edge from -> from.Succs[idx].
func edgeDominates(from *ssa.BasicBlock, idx int, target *ssa.BasicBlock) bool {
	if idx >= len(from.Succs) {
		return false
	}
	s := from.Succs[idx]
	if len(from.Succs) == 2 && from.Succs[0] == from.Succs[1] {
		return false
	}
	if !s.Dominates(target) {
		return false
	}
	// s must be entered only via this edge (other preds must be dominated by s, i.e. back edges)
	for _, p := range s.Preds {
		if p == from {
			continue
		}
		if !s.Dominates(p) {
			return false
		}
	}
	return true
}

// reachAvoiding reports whether `to` is reachable from `from` (from itself included as start) without
// entering any block for which avoid returns true (from is never tested).
func reachAvoiding(from, to *ssa.BasicBlock, avoid func(*ssa.BasicBlock) bool) bool {
	seen := map[*ssa.BasicBlock]bool{}
	var dfs func(b *ssa.BasicBlock) bool
	dfs = func(b *ssa.BasicBlock) bool {
		if b == to {
			return true
		}
		if seen[b] {
			return false
		}
		seen[b] = true
		for _, s := range b.Succs {
			if s != to && avoid != nil && avoid(s) {
				continue
			}
			if dfs(s) {
				return true
			}
		}
		return false
	}
	return dfs(from)
}

// exitBlocks are blocks ending in Return or Panic.
func exitBlocks(fn *ssa.Function) (rets, panics []*ssa.BasicBlock) {
	for _, b := range fn.Blocks {
		if len(b.Instrs) == 0 {
			continue
		}
		switch b.Instrs[len(b.Instrs)-1].(type) {
		case *ssa.Return:
			rets = append(rets, b)
		case *ssa.Panic:
			panics = append(panics, b)
		}
	}
	return
}

// inLoop reports whether block b lies on a cycle of fn's CFG.
func inLoop(b *ssa.BasicBlock) bool {
	seen := map[*ssa.BasicBlock]bool{}
	var dfs func(x *ssa.BasicBlock) bool
	dfs = func(x *ssa.BasicBlock) bool {
		for _, s := range x.Succs {
			if s == b {
				return true
			}
			if !seen[s] {
				seen[s] = true
				if dfs(s) {
					return true
				}
			}
		}
		return false
	}
	return dfs(b)
}

// countOnPaths computes the min and max number of instructions satisfying `hit` over all
// entry→return paths of fn (panicking paths ignored). max = -1 means unbounded (hit inside a loop).
func countOnPaths(fn *ssa.Function, hit func(ssa.Instruction) bool) (min, max int) {
	type mm struct{ lo, hi int }
	n := len(fn.Blocks)
	w := make([]int, n)
	loopHit := false
	for _, b := range fn.Blocks {
		for _, in := range b.Instrs {
			if hit(in) {
				w[b.Index]++
			}
		}
		if w[b.Index] > 0 && inLoop(b) {
			loopHit = true
		}
	}
	// longest/shortest path on the DAG obtained by ignoring back edges (dominator-based)
	memo := map[*ssa.BasicBlock]*mm{}
	onstack := map[*ssa.BasicBlock]bool{}
	var rec func(b *ssa.BasicBlock) *mm
	rec = func(b *ssa.BasicBlock) *mm {
		if m, ok := memo[b]; ok {
			return m
		}
		onstack[b] = true
		var res *mm
		last := b.Instrs[len(b.Instrs)-1]
		if _, ok := last.(*ssa.Return); ok {
			res = &mm{0, 0}
		} else if _, ok := last.(*ssa.Panic); ok {
			res = nil
		} else {
			for _, s := range b.Succs {
				if onstack[s] {
					continue // back edge
				}
				r := rec(s)
				if r == nil {
					continue
				}
				if res == nil {
					res = &mm{r.lo, r.hi}
				} else {
					if r.lo < res.lo {
						res.lo = r.lo
					}
					if r.hi > res.hi {
						res.hi = r.hi
					}
				}
			}
		}
		onstack[b] = false
		if res != nil {
			res = &mm{res.lo + w[b.Index], res.hi + w[b.Index]}
		}
		memo[b] = res
		return res
	}
	if n == 0 {
		return 0, 0
	}
	r := rec(fn.Blocks[0])
	if r == nil {
		return 0, 0
	}
	if loopHit {
		return r.lo, -1
	}
	return r.lo, r.hi
}

// ---------- conditions ------------------------------------------------------

// ifOf returns the If instruction terminating b, if any.
func ifOf(b *ssa.BasicBlock) *ssa.If {
	if len(b.Instrs) == 0 {
		return nil
	}
	i, _ := b.Instrs[len(b.Instrs)-1].(*ssa.If)
	return i
}

// normCond strips negations: returns the underlying condition and whether it is negated.
func normCond(v ssa.Value) (ssa.Value, bool) {
	neg := false
	for {
		if u, ok := v.(*ssa.UnOp); ok && u.Op == token.NOT {
			neg = !neg
			v = u.X
			continue
		}
		return v, neg
	}
}

// guardsOf returns, for block b, the list of (If block, successor index) edges that dominate b.
type guard struct {
	If   *ssa.If
	Blk  *ssa.BasicBlock
	Succ int // 0 = condition true, 1 = false
}

func guardsOf(b *ssa.BasicBlock) []guard {
	var out []guard
	fn := b.Parent()
	for _, x := range fn.Blocks {
		i := ifOf(x)
		if i == nil {
			continue
		}
		for k := 0; k < 2; k++ {
			if edgeDominates(x, k, b) {
				out = append(out, guard{i, x, k})
			}
		}
	}
	return out
}

// ---------- stores ------------------------------------------------------------

// FieldStore is a store to a struct field (directly, or a map update / element store on a field's value).
type FieldStore struct {
	Fn     *ssa.Function
	Instr  ssa.Instruction
	Struct string // named struct type
	Field  string
	Base   ssa.Value // the struct pointer the field is addressed through
	Val    ssa.Value // stored value (nil for map delete / indirect)
	Kind   string    // "store", "mapupdate", "elem", "addr-escape", "delete", "clear"
}

// fieldAddrOf finds the FieldAddr at the root of an address expression (through IndexAddr on a loaded slice is NOT followed).
func fieldAddrOf(v ssa.Value) *ssa.FieldAddr {
	fa, _ := v.(*ssa.FieldAddr)
	return fa
}

// fieldStores enumerates stores to fields of named struct types in fn.
func fieldStores(fn *ssa.Function) []FieldStore {
	var out []FieldStore
	add := func(in ssa.Instruction, fa *ssa.FieldAddr, val ssa.Value, kind string) {
		st := structOf(fa.X.Type())
		if st == nil {
			return
		}
		out = append(out, FieldStore{Fn: fn, Instr: in, Struct: typeName(fa.X.Type()), Field: nm(st.Field(fa.Field)), Base: fa.X, Val: val, Kind: kind})
	}
	for _, b := range fn.Blocks {
		for _, in := range b.Instrs {
			switch x := in.(type) {
			case *ssa.Store:
				if fa := fieldAddrOf(x.Addr); fa != nil {
					add(in, fa, x.Val, "store")
				} else if ia, ok := x.Addr.(*ssa.IndexAddr); ok {
					// element store into a slice/array loaded from a field
					if base, _, f, ok := fieldLoad(ia.X); ok {
						out = append(out, FieldStore{Fn: fn, Instr: in, Struct: typeName(base.Type()), Field: nm(f), Base: base, Val: x.Val, Kind: "elem"})
					}
				}
			case *ssa.MapUpdate:
				if base, _, f, ok := fieldLoad(x.Map); ok {
					out = append(out, FieldStore{Fn: fn, Instr: in, Struct: typeName(base.Type()), Field: nm(f), Base: base, Val: x.Value, Kind: "mapupdate"})
				}
			case ssa.CallInstruction:
				cc := x.Common()
				if isBuiltinCall(x, "delete") || isBuiltinCall(x, "clear") {
					if len(cc.Args) > 0 {
						if base, _, f, ok := fieldLoad(cc.Args[0]); ok {
							out = append(out, FieldStore{Fn: fn, Instr: in, Struct: typeName(base.Type()), Field: nm(f), Base: base, Kind: nm(cc.Value)})
						}
					}
					continue
				}
				// address of a field passed to a callee (may be stored through)
				for _, a := range cc.Args {
					if fa := fieldAddrOf(a); fa != nil {
						add(in, fa, nil, "addr-escape")
					}
				}
			}
		}
	}
	return out
}

// GlobalStore is a store to a package-level variable (direct, map update, element store, delete/clear).
type GlobalStore struct {
	Fn    *ssa.Function
	Instr ssa.Instruction
	G     *ssa.Global
	Val   ssa.Value
	Key   ssa.Value
	Kind  string
}

func globalStores(fn *ssa.Function) []GlobalStore {
	var out []GlobalStore
	for _, b := range fn.Blocks {
		for _, in := range b.Instrs {
			switch x := in.(type) {
			case *ssa.Store:
				if g, ok := x.Addr.(*ssa.Global); ok {
					out = append(out, GlobalStore{fn, in, g, x.Val, nil, "store"})
				} else if ia, ok := x.Addr.(*ssa.IndexAddr); ok {
					if g, ok := globalLoad(ia.X); ok {
						out = append(out, GlobalStore{fn, in, g, x.Val, ia.Index, "elem"})
					} else if g, ok := ia.X.(*ssa.Global); ok { // array global
						out = append(out, GlobalStore{fn, in, g, x.Val, ia.Index, "elem"})
					}
				}
			case *ssa.MapUpdate:
				if g, ok := globalLoad(x.Map); ok {
					out = append(out, GlobalStore{fn, in, g, x.Value, x.Key, "mapupdate"})
				} else if lk, ok := x.Map.(*ssa.Lookup); ok { // m[i][k] = v
					if g, ok := globalLoad(lk.X); ok {
						out = append(out, GlobalStore{fn, in, g, x.Value, x.Key, "mapupdate2"})
					}
				} else if u, ok := x.Map.(*ssa.UnOp); ok && u.Op == token.MUL { // a[i][k] = v with a an array of maps
					if ia, ok := u.X.(*ssa.IndexAddr); ok {
						if g, ok := ia.X.(*ssa.Global); ok {
							out = append(out, GlobalStore{fn, in, g, x.Value, x.Key, "mapupdate2"})
						}
					}
				}
			case ssa.CallInstruction:
				if isBuiltinCall(x, "delete") || isBuiltinCall(x, "clear") {
					cc := x.Common()
					if len(cc.Args) > 0 {
						if g, ok := globalLoad(cc.Args[0]); ok {
							var k ssa.Value
							if len(cc.Args) > 1 {
								k = cc.Args[1]
							}
							out = append(out, GlobalStore{fn, in, g, nil, k, nm(cc.Value)})
						}
					}
				}
			}
		}
	}
	return out
}

// receiver returns fn's receiver parameter (nil for plain functions).
func receiver(fn *ssa.Function) *ssa.Parameter {
	if fn.Signature.Recv() != nil && len(fn.Params) > 0 {
		return fn.Params[0]
	}
	return nil
}

// provenance classifies a pointer value.
func provenance(v ssa.Value, fn *ssa.Function) string {
	srcs := sources(v)
	kinds := map[string]bool{}
	for _, s := range srcs {
		switch x := s.(type) {
		case *ssa.Parameter:
			if x == receiver(fn) {
				kinds["receiver"] = true
			} else {
				kinds["param:"+nm(x)] = true
			}
		case *ssa.Alloc:
			kinds["fresh"] = true
		case *ssa.FreeVar:
			kinds["freevar:"+nm(x)] = true
		case *ssa.Call:
			if c := calleeOf(x); c != nil {
				kinds["call:"+shortName(c)] = true
			} else if n := invokeName(x); n != "" {
				kinds["invoke:"+n] = true
			} else {
				kinds["call:?"] = true
			}
		case *ssa.UnOp:
			if b, _, f, ok := fieldLoad(x); ok {
				kinds["field:"+typeName(b.Type())+"."+nm(f)] = true
			} else if g, ok := globalLoad(x); ok {
				kinds["global:"+nm(g)] = true
			} else if x.Op == token.MUL {
				if fv, ok := x.X.(*ssa.FreeVar); ok {
					kinds["freevar:"+nm(fv)] = true
				} else if al, ok := x.X.(*ssa.Alloc); ok {
					// local variable cell: look at what is stored into it
					found := false
					for _, r := range *al.Referrers() {
						if st, ok := r.(*ssa.Store); ok && st.Addr == al {
							kinds[provenance(st.Val, fn)] = true
							found = true
						}
					}
					if !found {
						kinds["zero"] = true
					}
				} else {
					kinds["load:?"] = true
				}
			} else {
				kinds["unop"] = true
			}
		case *ssa.Lookup:
			if b, _, f, ok := fieldLoad(x.X); ok {
				kinds["mapelem:"+typeName(b.Type())+"."+nm(f)] = true
			} else {
				kinds["mapelem:?"] = true
			}
		case *ssa.Extract:
			if lk, ok := x.Tuple.(*ssa.Lookup); ok {
				if b, _, f, ok := fieldLoad(lk.X); ok {
					kinds["mapelem:"+typeName(b.Type())+"."+nm(f)] = true
					break
				}
			}
			if ta, ok := x.Tuple.(*ssa.TypeAssert); ok {
				kinds[provenance(ta.X, fn)] = true
				break
			}
			if nx, ok := x.Tuple.(*ssa.Next); ok {
				_ = nx
				kinds["range-elem"] = true
				break
			}
			kinds["extract"] = true
		case *ssa.TypeAssert:
			kinds[provenance(x.X, fn)] = true
		case *ssa.Const:
			kinds["const"] = true
		case *ssa.Global:
			kinds["global:"+nm(x)] = true
		default:
			kinds[fmt.Sprintf("%T", s)] = true
		}
	}
	var ks []string
	for k := range kinds {
		ks = append(ks, k)
	}
	sort.Strings(ks)
	return strings.Join(ks, "+")
}

// instrPos finds a usable position for an instruction.
func instrPos(in ssa.Instruction) token.Pos {
	if in == nil {
		return token.NoPos
	}
	if p := in.Pos(); p.IsValid() {
		return p
	}
	if v, ok := in.(ssa.Value); ok {
		for _, r := range *v.Referrers() {
			if p := r.Pos(); p.IsValid() {
				return p
			}
		}
	}
	// fall back to any positioned instruction of the block
	for _, x := range in.Block().Instrs {
		if p := x.Pos(); p.IsValid() {
			return p
		}
	}
	return in.Parent().Pos()
}

func sortedKeys[M ~map[string]V, V any](m M) []string {
	var ks []string
	for k := range m {
		ks = append(ks, k)
	}
	sort.Strings(ks)
	return ks
}

// fullIndexLoop reports whether idx is the induction variable of a loop that visits every index of
// seq from 0 in steps of 1 up to len(seq)-1: the `for i := range seq` form (phi(-1, i)+1, tested
// against len(seq)) or the classic `for i := 0; i < len(seq); i++` form (phi(0, i+1)).
func fullIndexLoop(idx ssa.Value, seq ssa.Value) bool {
	isLenOfSeq := func(v ssa.Value) bool {
		c, ok := v.(*ssa.Call)
		return ok && isBuiltinCall(c, "len") && strip(c.Common().Args[0]) == strip(seq)
	}
	boundedByLen := func(v ssa.Value) bool {
		for _, ref := range *v.Referrers() {
			bo, ok := ref.(*ssa.BinOp)
			if !ok {
				continue
			}
			if !((bo.Op == token.LSS && bo.X == v && isLenOfSeq(bo.Y)) || (bo.Op == token.GTR && bo.Y == v && isLenOfSeq(bo.X))) {
				continue
			}
			for _, r2 := range *bo.Referrers() {
				if _, isIf := r2.(*ssa.If); isIf {
					return true
				}
			}
		}
		return false
	}
	isPlusOne := func(v ssa.Value, of ssa.Value) bool {
		bo, ok := v.(*ssa.BinOp)
		if !ok || bo.Op != token.ADD || bo.X != of {
			return false
		}
		one, ok := constInt(bo.Y)
		return ok && one == 1
	}
	// range form
	if bo, ok := idx.(*ssa.BinOp); ok && bo.Op == token.ADD {
		if one, ok := constInt(bo.Y); ok && one == 1 {
			if ph, ok := bo.X.(*ssa.Phi); ok && len(ph.Edges) >= 2 {
				start, back, other := 0, 0, 0
				for _, e := range ph.Edges {
					if v, ok := constInt(e); ok && v == -1 {
						start++
					} else if e == idx {
						back++
					} else {
						other++
					}
				}
				return start == 1 && back >= 1 && other == 0 && boundedByLen(idx)
			}
		}
	}
	// classic form
	if ph, ok := idx.(*ssa.Phi); ok && len(ph.Edges) >= 2 {
		start, back, other := 0, 0, 0
		for _, e := range ph.Edges {
			if v, ok := constInt(e); ok && v == 0 {
				start++
			} else if isPlusOne(e, ph) {
				back++
			} else {
				other++
			}
		}
		return start == 1 && back >= 1 && other == 0 && boundedByLen(ph)
	}
	return false
}
