// loggcheck decides structural necessary conditions of the properties in
// /verif/properties.jsonl on the current source of /repo by static analysis
// (type-checked AST, SSA, call graph). Nothing under /repo is executed.
package main

import (
	"encoding/json"
	"flag"
	"fmt"
	"golang.org/x/tools/go/ssa"
	"os"
	"path/filepath"
	"runtime/debug"
	"sort"
	"strconv"
	"strings"
)

// Ctx is what a property checker gets.
type Ctx struct {
	R     *Report
	Tier  string
	progs map[string]*Prog
	Floor map[string]int // rule -> minimum instance count
}

// Prog loads (once) the configuration with the given build tags.
func (c *Ctx) Prog(tags string) *Prog {
	if p, ok := c.progs[tags]; ok {
		c.noteConfig(p, tags)
		return p
	}
	p, err := Load(tags, overlayForLoad)
	if err != nil {
		fmt.Fprintf(os.Stderr, "cannot analyse /repo (tags %q): %v\n", tags, err)
		// a tree that cannot be analysed is not a pass: report as undecided obligation
		c.R.cfg = cfgName(tags)
		c.R.Unk("LOAD", "load:"+cfgName(tags), "-", "the source does not load/type-check: %v", err)
		return nil
	}
	c.progs[tags] = p
	c.noteConfig(p, tags)
	return p
}

func (c *Ctx) noteConfig(p *Prog, tags string) {
	c.R.cfg = cfgName(tags)
	found := false
	for _, x := range c.R.Configs {
		if x == cfgName(tags) {
			found = true
		}
	}
	if !found {
		c.R.Configs = append(c.R.Configs, cfgName(tags))
	}
	if p.NFuncs > c.R.Funcs {
		c.R.Funcs = p.NFuncs
	}
}

func cfgName(tags string) string {
	if tags == "" {
		return "default"
	}
	return tags
}

// Configs returns the build configurations for the tier: quick gets `quick`, thorough gets all.
func (c *Ctx) Configs(quick []string, thorough []string) []string {
	if c.Tier == "thorough" {
		return thorough
	}
	return quick
}

var overlayForLoad map[string][]byte

type checker func(c *Ctx)

var registry = map[string]checker{}

func register(id string, f checker) { registry[id] = f }

var verifDir = "/verif"

func main() {
	prop := flag.String("property", "", "property id (C01..C20) or all")
	tier := flag.String("tier", "", "quick|thorough")
	replay := flag.String("replay", "", "replay file: re-evaluate the property and print the named obligation")
	verif := flag.String("verif", "", "verification directory (default: parent of the binary's dir or /verif)")
	repo := flag.String("repo", "", "repository (default /repo)")
	dump := flag.String("dump", "", "debug: dump SSA of function spec")
	tags := flag.String("tags", "", "debug: build tags for -dump")
	emit := flag.Bool("emit", false, "debug: print the raw emission sites per mode")
	termsOf := flag.String("terms", "", "debug: print effects, returns and call argument terms of function spec")
	variant := flag.String("variant", "", "internal: evaluate one stored variant directory (seeded/<id> or benign/<id>) for -property and print its result")
	snapshot := flag.String("snapshot", "", "maintenance: record the declared objects of the tree as anchors.json (argument: commit id)")
	flag.Parse()
	if *repo != "" {
		repoDir = *repo
	}
	if *tier == "" {
		*tier = os.Getenv("VERIF_TIER")
	}
	if *tier != "thorough" {
		*tier = "quick"
	}
	seed, _ := strconv.ParseInt(os.Getenv("VERIF_SEED"), 10, 64)
	vdir := *verif
	if vdir == "" {
		vdir = "/verif"
		if exe, err := os.Executable(); err == nil {
			d := filepath.Dir(filepath.Dir(exe))
			if _, err := os.Stat(filepath.Join(d, "properties.jsonl")); err == nil {
				vdir = d
			}
		}
	}
	verifDir = vdir
	if *snapshot != "" {
		if err := writeAnchorSnapshot(*snapshot); err != nil {
			fmt.Fprintln(os.Stderr, err)
			os.Exit(2)
		}
		return
	}
	if *termsOf != "" {
		p, err := Load(*tags, nil)
		if err != nil {
			fmt.Fprintln(os.Stderr, err)
			os.Exit(2)
		}
		for _, spec := range strings.Split(*termsOf, ",") {
			fn := p.F(spec)
			if fn == nil {
				fmt.Println("not found:", spec)
				continue
			}
			te := newTermEval(p)
			fmt.Println("==", shortName(fn))
			for _, ef := range te.effectsOf(fn, nil) {
				fmt.Printf("  effect %-9s %s.%s base=%s key=%s val=%s  @%s in %s\n", ef.Kind, ef.Struct, ef.Field, ef.Base, ef.Key, ef.Val, p.Pos(instrPos(ef.Instr)), shortName(ef.Fn))
			}
			for _, b := range fn.Blocks {
				for _, in := range b.Instrs {
					switch x := in.(type) {
					case *ssa.Return:
						for i, rv := range x.Results {
							fmt.Printf("  return#%d %s\n", i, te.eval(rv, nil))
						}
					case *ssa.Store:
						fmt.Printf("  store *%s = %s  @%s\n", te.eval(x.Addr, nil), te.eval(x.Val, nil), p.Pos(instrPos(x)))
					case ssa.CallInstruction:
						var as []string
						for _, a := range x.Common().Args {
							as = append(as, te.eval(a, nil).String())
						}
						name := invokeName(x)
						if cal := calleeOf(x); cal != nil {
							name = shortName(cal)
						}
						fmt.Printf("  call %s(%s)  @%s\n", name, strings.Join(as, "; "), p.Pos(instrPos(x)))
					}
				}
			}
		}
		return
	}
	if *emit {
		p, err := Load(*tags, nil)
		if err != nil {
			fmt.Fprintln(os.Stderr, err)
			os.Exit(2)
		}
		m, _ := BuildModel(p)
		for _, mode := range feasibleModes {
			mr := NewModeReach(p, m, mode, sessionEntries(p), true)
			ra := &rawAnalysis{mr: mr}
			ra.run()
			fmt.Printf("== mode %s: %d functions, %d raw sites\n", mode, len(mr.Funcs()), len(ra.Sites))
			for _, s := range ra.Sites {
				fmt.Printf("  %-28s %-30s via %-22s %v\n", p.Pos(instrPos(s.Instr)), shortName(s.Fn), s.Via, classList(s.Classes))
			}
		}
		return
	}
	if *dump != "" {
		p, err := Load(*tags, nil)
		if err != nil {
			fmt.Fprintln(os.Stderr, err)
			os.Exit(2)
		}
		for _, spec := range strings.Split(*dump, ",") {
			fn := p.F(spec)
			if fn == nil {
				fmt.Println("not found:", spec)
				continue
			}
			fn.WriteTo(os.Stdout)
			for _, an := range fn.AnonFuncs {
				an.WriteTo(os.Stdout)
			}
		}
		return
	}
	if os.Getenv("LOGGCHECK_ALIASES") != "" {
		if _, err := Load("", nil); err == nil {
			for n := range aliasNotes {
				fmt.Println("ALIAS", n)
			}
		}
		return
	}
	var filter map[string]string
	if *replay != "" {
		filter = readReplay(*replay)
		if filter == nil {
			fmt.Fprintln(os.Stderr, "cannot read replay file", *replay)
			os.Exit(2)
		}
		if *prop == "" {
			*prop = filter["property"]
		}
	}
	if *prop == "" {
		fmt.Fprintln(os.Stderr, "usage: loggcheck -property Cxx [-tier quick|thorough]")
		os.Exit(2)
	}
	if *variant != "" {
		f, ok := registry[*prop]
		if !ok {
			fmt.Fprintf(os.Stderr, "no checker registered for %s\n", *prop)
			os.Exit(2)
		}
		res := runVariantsSerial(vdir, *prop, []string{*variant}, f)
		b, _ := json.Marshal(res[0])
		fmt.Printf("VARIANT-RESULT %s\n", b)
		os.Exit(0)
	}
	known, err := loadKnown(filepath.Join(vdir, "known-findings.json"))
	if err != nil {
		fmt.Fprintln(os.Stderr, "known-findings.json:", err)
		os.Exit(2)
	}
	var ids []string
	if *prop == "all" {
		for id := range registry {
			ids = append(ids, id)
		}
		sort.Strings(ids)
	} else {
		ids = strings.Split(*prop, ",")
	}
	progs := map[string]*Prog{}
	status := 0
	for _, id := range ids {
		f, ok := registry[id]
		if !ok {
			fmt.Fprintf(os.Stderr, "no checker registered for %s\n", id)
			os.Exit(2)
		}
		c := &Ctx{R: NewReport(id, *tier, seed), Tier: *tier, progs: progs, Floor: map[string]int{}}
		func() {
			defer func() {
				if r := recover(); r != nil {
					// a checker that crashes has not decided anything: fail, never pass
					c.R.cfg = ""
					c.R.Unk("PANIC", "checker-panic", "-", "the checker panicked: %v", r)
					if os.Getenv("LOGGCHECK_DEBUG") != "" {
						fmt.Fprintf(os.Stderr, "%s\n", debug.Stack())
					}
				}
			}()
			f(c)
		}()
		if filter != nil {
			for _, o := range c.R.Obls {
				if o.Rule == filter["rule"] && o.Construct == filter["construct"] {
					fmt.Printf("REPLAY %s %s at %s: %s — %s\n", o.Rule, o.Construct, o.Pos, o.Verdict, o.Detail)
				}
			}
		}
		if *tier == "thorough" && filter == nil && os.Getenv("LOGGCHECK_NOSELFTEST") == "" { // (debug aid: all build configurations without the variant self-test)
			st := runSelfTest(vdir, id, *tier, f)
			applied, killed := 0, 0
			var survivors []string
			for _, x := range st {
				if x.Applied {
					applied++
					if x.Killed {
						killed++
					} else {
						survivors = append(survivors, x.Seed)
					}
				}
			}
			c.R.Extra["selftest"] = st
			c.R.Extra["mutants"] = applied
			c.R.Extra["mutants_killed"] = killed
			if len(survivors) > 0 {
				fmt.Printf("SELFTEST property=%s: seeded change(s) %v apply to the current tree but are not reported (checker gap, not a statement about /repo)\n", id, survivors)
			}
			// and the other way round: behaviour-preserving refactorings must stay silent
			bt := runBenignTest(vdir, id, *tier, f)
			nb, alarms := 0, []string{}
			for _, x := range bt {
				if x.Applied {
					nb++
					if x.Killed {
						alarms = append(alarms, x.Seed+fmt.Sprint(x.Rules))
					}
				}
			}
			c.R.Extra["benign_variants"] = nb
			c.R.Extra["benign_variants_reported"] = alarms
			if len(alarms) > 0 {
				fmt.Printf("SELFTEST property=%s: behaviour-preserving refactoring(s) %v are reported (false alarm of the checker, not a statement about /repo)\n", id, alarms)
			}
		}
		if st := c.R.Finish(vdir, known, c.Floor); st > status {
			status = st
		}
	}
	os.Exit(status)
}
