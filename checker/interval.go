package main

import (
	"fmt"
	"go/token"
	"go/types"
	"math/big"

	"golang.org/x/tools/go/ssa"
)

// Engine E9: interval / write-budget analysis for loop-free integer code that fills a fixed
// buffer from the right (the duration formatter). Abstract values are integer intervals;
// branch conditions against constants refine them per edge; helper calls are analysed
// context-sensitively by recursion; the two digit writers (copies of time.fmtInt/fmtFrac,
// validated by E8) are summarised by the number of bytes they can write.

type ival struct{ lo, hi *big.Int }

var (
	two64 = new(big.Int).Lsh(big.NewInt(1), 64)
	maxU  = new(big.Int).Sub(two64, big.NewInt(1))
	minI  = new(big.Int).Neg(new(big.Int).Lsh(big.NewInt(1), 63))
	maxI  = new(big.Int).Sub(new(big.Int).Lsh(big.NewInt(1), 63), big.NewInt(1))
)

func iv(lo, hi int64) ival     { return ival{big.NewInt(lo), big.NewInt(hi)} }
func ivb(lo, hi *big.Int) ival { return ival{new(big.Int).Set(lo), new(big.Int).Set(hi)} }
func (a ival) String() string  { return fmt.Sprintf("[%s,%s]", a.lo, a.hi) }
func (a ival) join(b ival) ival {
	lo, hi := a.lo, a.hi
	if b.lo.Cmp(lo) < 0 {
		lo = b.lo
	}
	if b.hi.Cmp(hi) > 0 {
		hi = b.hi
	}
	return ivb(lo, hi)
}
func (a ival) eq(b ival) bool { return a.lo.Cmp(b.lo) == 0 && a.hi.Cmp(b.hi) == 0 }
func (a ival) empty() bool    { return a.lo.Cmp(a.hi) > 0 }

func typeRange(t types.Type) ival {
	if b, ok := t.Underlying().(*types.Basic); ok {
		switch b.Kind() {
		case types.Uint64, types.Uint, types.Uintptr:
			return ivb(big.NewInt(0), maxU)
		case types.Int64, types.Int:
			return ivb(minI, maxI)
		case types.Uint8:
			return iv(0, 255)
		case types.Bool:
			return iv(0, 1)
		}
	}
	return ivb(minI, maxU)
}

func isUnsigned(t types.Type) bool {
	b, ok := t.Underlying().(*types.Basic)
	return ok && b.Info()&types.IsUnsigned != 0
}

func digits(n *big.Int) int64 {
	if n.Sign() <= 0 {
		return 1
	}
	return int64(len(n.String()))
}

type env map[ssa.Value]ival

func (e env) clone() env {
	o := make(env, len(e))
	for k, v := range e {
		o[k] = v
	}
	return o
}

type ivObligation struct {
	Fn   *ssa.Function
	Pos  token.Pos
	Kind string
	OK   bool
	Msg  string
}

type ivAnalyzer struct {
	p      *Prog
	obls   []ivObligation
	depth  int
	summar map[string]bool // names of summarised digit writers
	failed string
}

// sliceLen evaluates the length interval of a slice-typed value.
func (a *ivAnalyzer) sliceLen(v ssa.Value, e env) (ival, bool) {
	if x, ok := e[v]; ok {
		return x, true
	}
	switch x := v.(type) {
	case *ssa.Slice:
		var base ival
		if pt, ok := x.X.Type().Underlying().(*types.Pointer); ok {
			if arr, ok := pt.Elem().Underlying().(*types.Array); ok {
				base = iv(arr.Len(), arr.Len())
			} else {
				return ival{}, false
			}
		} else {
			b, ok := a.sliceLen(x.X, e)
			if !ok {
				return ival{}, false
			}
			base = b
		}
		lo := iv(0, 0)
		hi := base
		if x.Low != nil {
			l, ok := a.eval(x.Low, e)
			if !ok {
				return ival{}, false
			}
			lo = l
		}
		if x.High != nil {
			h, ok := a.eval(x.High, e)
			if !ok {
				return ival{}, false
			}
			hi = h
		}
		return ivb(new(big.Int).Sub(hi.lo, lo.hi), new(big.Int).Sub(hi.hi, lo.lo)), true
	}
	return ival{}, false
}

func (a *ivAnalyzer) eval(v ssa.Value, e env) (ival, bool) {
	if x, ok := e[v]; ok {
		return x, true
	}
	switch x := v.(type) {
	case *ssa.Const:
		if x.Value == nil {
			return ival{}, false
		}
		if i, ok := constInt(x); ok {
			if isUnsigned(x.Type()) && i < 0 {
				return ival{}, false
			}
			return iv(i, i), true
		}
		if u, ok := constUint(x); ok {
			return ivb(u, u), true
		}
		if b, ok := constBool(x); ok {
			if b {
				return iv(1, 1), true
			}
			return iv(0, 0), true
		}
		return ival{}, false
	case *ssa.Convert:
		in, ok := a.eval(x.X, e)
		if !ok {
			return ival{}, false
		}
		from, to := isUnsigned(x.X.Type()), isUnsigned(x.Type())
		if !from && to {
			switch {
			case in.lo.Sign() >= 0:
				return in, true
			case in.hi.Sign() < 0:
				return ivb(new(big.Int).Add(two64, in.lo), new(big.Int).Add(two64, in.hi)), true
			default:
				return ivb(big.NewInt(0), maxU), true
			}
		}
		tr := typeRange(x.Type())
		if in.lo.Cmp(tr.lo) >= 0 && in.hi.Cmp(tr.hi) <= 0 {
			return in, true
		}
		return tr, true
	case *ssa.ChangeType:
		return a.eval(x.X, e)
	case *ssa.UnOp:
		if x.Op == token.SUB {
			in, ok := a.eval(x.X, e)
			if !ok {
				return ival{}, false
			}
			if isUnsigned(x.Type()) {
				switch {
				case in.hi.Sign() == 0:
					return iv(0, 0), true
				case in.lo.Sign() > 0:
					return ivb(new(big.Int).Sub(two64, in.hi), new(big.Int).Sub(two64, in.lo)), true
				default:
					return ivb(big.NewInt(0), maxU), true
				}
			}
			return ivb(new(big.Int).Neg(in.hi), new(big.Int).Neg(in.lo)), true
		}
		return ival{}, false
	case *ssa.BinOp:
		l, ok1 := a.eval(x.X, e)
		r, ok2 := a.eval(x.Y, e)
		if !ok1 || !ok2 {
			return ival{}, false
		}
		var out ival
		switch x.Op {
		case token.ADD:
			out = ivb(new(big.Int).Add(l.lo, r.lo), new(big.Int).Add(l.hi, r.hi))
		case token.SUB:
			out = ivb(new(big.Int).Sub(l.lo, r.hi), new(big.Int).Sub(l.hi, r.lo))
		case token.MUL:
			if l.lo.Sign() < 0 || r.lo.Sign() < 0 {
				return typeRange(x.Type()), true
			}
			out = ivb(new(big.Int).Mul(l.lo, r.lo), new(big.Int).Mul(l.hi, r.hi))
		case token.QUO:
			if r.lo.Sign() <= 0 || l.lo.Sign() < 0 {
				return typeRange(x.Type()), true
			}
			out = ivb(new(big.Int).Quo(l.lo, r.hi), new(big.Int).Quo(l.hi, r.lo))
		case token.REM:
			if r.lo.Sign() <= 0 || l.lo.Sign() < 0 {
				return typeRange(x.Type()), true
			}
			top := new(big.Int).Sub(r.hi, big.NewInt(1))
			if l.hi.Cmp(top) < 0 {
				top = l.hi
			}
			out = ivb(big.NewInt(0), top)
		case token.EQL, token.NEQ, token.LSS, token.LEQ, token.GTR, token.GEQ:
			return iv(0, 1), true
		default:
			return ival{}, false
		}
		tr := typeRange(x.Type())
		if out.lo.Cmp(tr.lo) < 0 || out.hi.Cmp(tr.hi) > 0 {
			if isUnsigned(x.Type()) {
				return tr, true // may wrap
			}
			return tr, true
		}
		return out, true
	case *ssa.Call:
		if isBuiltinCall(x, "len") {
			arg := x.Common().Args[0]
			if s, ok := constString(arg); ok {
				return iv(int64(len(s)), int64(len(s))), true
			}
			if pt, ok := arg.Type().Underlying().(*types.Pointer); ok {
				if arr, ok := pt.Elem().Underlying().(*types.Array); ok {
					return iv(arr.Len(), arr.Len()), true
				}
			}
			return a.sliceLen(arg, e)
		}
	}
	return ival{}, false
}

func constUint(c *ssa.Const) (*big.Int, bool) {
	if c.Value == nil {
		return nil, false
	}
	s := c.Value.ExactString()
	b, ok := new(big.Int).SetString(s, 10)
	return b, ok
}

// refine narrows the interval of the compared value on a branch edge.
func (a *ivAnalyzer) refine(cond ssa.Value, taken bool, e env) {
	c, neg := normCond(cond)
	if neg {
		taken = !taken
	}
	bo, ok := c.(*ssa.BinOp)
	if !ok {
		return
	}
	l, ok1 := a.eval(bo.X, e)
	r, ok2 := a.eval(bo.Y, e)
	if !ok1 || !ok2 {
		return
	}
	op := bo.Op
	if !taken {
		switch op {
		case token.LSS:
			op = token.GEQ
		case token.LEQ:
			op = token.GTR
		case token.GTR:
			op = token.LEQ
		case token.GEQ:
			op = token.LSS
		case token.EQL:
			op = token.NEQ
		case token.NEQ:
			op = token.EQL
		}
	}
	one := big.NewInt(1)
	nl := ivb(l.lo, l.hi)
	switch op {
	case token.LSS:
		if h := new(big.Int).Sub(r.hi, one); h.Cmp(nl.hi) < 0 {
			nl.hi = h
		}
	case token.LEQ:
		if r.hi.Cmp(nl.hi) < 0 {
			nl.hi = new(big.Int).Set(r.hi)
		}
	case token.GTR:
		if lo := new(big.Int).Add(r.lo, one); lo.Cmp(nl.lo) > 0 {
			nl.lo = lo
		}
	case token.GEQ:
		if r.lo.Cmp(nl.lo) > 0 {
			nl.lo = new(big.Int).Set(r.lo)
		}
	case token.EQL:
		if r.lo.Cmp(nl.lo) > 0 {
			nl.lo = new(big.Int).Set(r.lo)
		}
		if r.hi.Cmp(nl.hi) < 0 {
			nl.hi = new(big.Int).Set(r.hi)
		}
	case token.NEQ:
		if r.lo.Cmp(r.hi) == 0 {
			if nl.lo.Cmp(r.lo) == 0 {
				nl.lo = new(big.Int).Add(nl.lo, one)
			} else if nl.hi.Cmp(r.lo) == 0 {
				nl.hi = new(big.Int).Sub(nl.hi, one)
			}
		}
	}
	e[bo.X] = nl
}

func (a *ivAnalyzer) oblige(fn *ssa.Function, pos token.Pos, kind string, ok bool, format string, args ...any) {
	a.obls = append(a.obls, ivObligation{fn, pos, kind, ok, fmt.Sprintf(format, args...)})
}

// analyze runs fn with the given parameter intervals and returns the joined result intervals.
func (a *ivAnalyzer) analyze(fn *ssa.Function, params []ival) ([]ival, bool) {
	if a.depth > 6 || len(fn.Blocks) == 0 {
		a.failed = "call depth or missing body at " + nm(fn)
		return nil, false
	}
	for _, b := range fn.Blocks {
		if inLoop(b) {
			a.failed = "loop in " + nm(fn)
			return nil, false
		}
	}
	a.depth++
	defer func() { a.depth-- }()
	base := env{}
	for i, q := range fn.Params {
		if i < len(params) && params[i].lo != nil {
			base[q] = params[i]
		} else if _, ok := q.Type().Underlying().(*types.Basic); ok {
			base[q] = typeRange(q.Type())
		}
	}
	type edge struct{ from, to int }
	edgeEnv := map[edge]env{}
	inEnv := map[int]env{0: base}
	var results []ival
	// iterate to a fixpoint (the CFG is acyclic: few rounds)
	for round := 0; round < len(fn.Blocks)+2; round++ {
		results = nil
		a.obls = filterObls(a.obls, fn)
		for _, b := range fn.Blocks {
			var e env
			if b.Index == 0 {
				e = base.clone()
			} else {
				// join the incoming edge environments
				first := true
				for _, pr := range b.Preds {
					pe, ok := edgeEnv[edge{pr.Index, b.Index}]
					if !ok {
						continue
					}
					if first {
						e = pe.clone()
						first = false
						continue
					}
					for k, v := range e {
						if w, ok := pe[k]; ok {
							e[k] = v.join(w)
						} else {
							delete(e, k)
						}
					}
				}
				if first {
					continue // unreachable so far
				}
				// phis
				for _, in := range b.Instrs {
					ph, ok := in.(*ssa.Phi)
					if !ok {
						break
					}
					var acc *ival
					for i, pr := range b.Preds {
						pe, ok := edgeEnv[edge{pr.Index, b.Index}]
						if !ok {
							continue
						}
						v, ok := a.eval(ph.Edges[i], pe)
						if !ok {
							if _, isBasic := ph.Type().Underlying().(*types.Basic); isBasic {
								v = typeRange(ph.Type())
							} else {
								continue
							}
						}
						if acc == nil {
							vv := v
							acc = &vv
						} else {
							j := acc.join(v)
							acc = &j
						}
					}
					if acc != nil {
						e[ph] = *acc
					}
				}
			}
			inEnv[b.Index] = e
			dead := false
			for _, in := range b.Instrs {
				switch x := in.(type) {
				case *ssa.Store:
					if ia, ok := x.Addr.(*ssa.IndexAddr); ok {
						idx, ok1 := a.eval(ia.Index, e)
						var ln ival
						ok2 := false
						if pt, ok := ia.X.Type().Underlying().(*types.Pointer); ok {
							if arr, ok := pt.Elem().Underlying().(*types.Array); ok {
								ln, ok2 = iv(arr.Len(), arr.Len()), true
							}
						} else {
							ln, ok2 = a.sliceLen(ia.X, e)
						}
						if !ok1 || !ok2 {
							a.oblige(fn, instrPos(x), "index", false, "index or length not evaluable")
						} else {
							good := idx.lo.Sign() >= 0 && idx.hi.Cmp(ln.lo) < 0
							a.oblige(fn, instrPos(x), "index", good, "byte stored at index %s of a buffer of length %s", idx, ln)
						}
					}
				case *ssa.Slice:
					// bounds of a reslice
					var ln ival
					ok2 := false
					if pt, ok := x.X.Type().Underlying().(*types.Pointer); ok {
						if arr, ok := pt.Elem().Underlying().(*types.Array); ok {
							ln, ok2 = iv(arr.Len(), arr.Len()), true
						}
					} else {
						ln, ok2 = a.sliceLen(x.X, e)
					}
					for _, bnd := range []ssa.Value{x.Low, x.High} {
						if bnd == nil {
							continue
						}
						bv, ok1 := a.eval(bnd, e)
						if !ok1 || !ok2 {
							a.oblige(fn, instrPos(x), "slice", false, "slice bound not evaluable")
							continue
						}
						good := bv.lo.Sign() >= 0 && bv.hi.Cmp(ln.lo) <= 0
						a.oblige(fn, instrPos(x), "slice", good, "slice bound %s on a buffer of length %s", bv, ln)
					}
				case *ssa.Call:
					cc := x.Common()
					if isBuiltinCall(x, "copy") {
						dl, ok1 := a.sliceLen(cc.Args[0], e)
						ok2 := false
						var srcLen int64
						if s, ok := constString(cc.Args[1]); ok {
							srcLen, ok2 = int64(len(s)), true
						}
						if ok1 && ok2 {
							a.oblige(fn, instrPos(x), "copy", dl.lo.Cmp(big.NewInt(srcLen)) >= 0, "%d bytes copied into room for %s", srcLen, dl)
						} else {
							a.oblige(fn, instrPos(x), "copy", false, "copy not evaluable")
						}
						continue
					}
					cal := calleeOf(x)
					if cal == nil {
						continue
					}
					switch {
					case a.summar[nm(cal)] && nm(cal) == "fmtInt":
						ln, ok1 := a.sliceLen(cc.Args[0], e)
						v, ok2 := a.eval(cc.Args[1], e)
						if !ok1 || !ok2 {
							a.oblige(fn, instrPos(x), "digits", false, "fmtInt operands not evaluable")
							continue
						}
						d := digits(v.hi)
						nl := new(big.Int).Sub(ln.lo, big.NewInt(d))
						a.oblige(fn, instrPos(x), "digits", nl.Sign() >= 0, "fmtInt writes up to %d digit(s) (value <= %s) into room for %s", d, v.hi, ln)
						e[x] = ivb(nl, new(big.Int).Sub(ln.hi, big.NewInt(1)))
					case a.summar[nm(cal)] && nm(cal) == "fmtFrac":
						ln, ok1 := a.sliceLen(cc.Args[0], e)
						v, ok2 := a.eval(cc.Args[1], e)
						pr, ok3 := a.eval(cc.Args[2], e)
						if !ok1 || !ok2 || !ok3 {
							a.oblige(fn, instrPos(x), "digits", false, "fmtFrac operands not evaluable")
							continue
						}
						need := new(big.Int).Add(pr.hi, big.NewInt(1))
						nl := new(big.Int).Sub(ln.lo, need)
						a.oblige(fn, instrPos(x), "digits", nl.Sign() >= 0, "fmtFrac writes up to %s byte(s) into room for %s", need, ln)
						// results: nw, nv = v / 10^prec
						plo := new(big.Int).Exp(big.NewInt(10), pr.lo, nil)
						phi := new(big.Int).Exp(big.NewInt(10), pr.hi, nil)
						for _, ref := range *x.Referrers() {
							if ex, ok := ref.(*ssa.Extract); ok {
								if ex.Index == 0 {
									e[ex] = ivb(nl, ln.hi)
								} else {
									e[ex] = ivb(new(big.Int).Quo(v.lo, phi), new(big.Int).Quo(v.hi, plo))
								}
							}
						}
					case cal.Pkg == fn.Pkg && len(cal.Blocks) > 0:
						var ps []ival
						for i, arg := range cc.Args {
							var pv ival
							if _, isSlice := cal.Params[i].Type().Underlying().(*types.Slice); isSlice {
								pv, _ = a.sliceLen(arg, e)
							} else {
								pv, _ = a.eval(arg, e)
							}
							ps = append(ps, pv)
						}
						res, ok := a.analyze(cal, ps)
						if !ok {
							a.oblige(fn, instrPos(x), "call", false, "helper %s could not be analysed (%s)", nm(cal), a.failed)
							continue
						}
						if len(res) == 1 {
							e[x] = res[0]
						}
					}
				case *ssa.Return:
					for i, rv := range x.Results {
						v, ok := a.eval(rv, e)
						if !ok {
							v = typeRange(rv.Type())
						}
						if i >= len(results) {
							results = append(results, v)
						} else {
							results[i] = results[i].join(v)
						}
					}
				case *ssa.Panic:
					dead = true
				}
			}
			if dead {
				continue
			}
			// out edges
			if iff := ifOf(b); iff != nil {
				for k, s := range b.Succs {
					ne := e.clone()
					if prm, ok := iff.Cond.(*ssa.Parameter); ok {
						_ = prm
					} else {
						a.refine(iff.Cond, k == 0, ne)
					}
					// infeasible edge?
					feasible := true
					c, _ := normCond(iff.Cond)
					if bo, ok := c.(*ssa.BinOp); ok {
						if v, ok := ne[bo.X]; ok && v.empty() {
							feasible = false
						}
					}
					if feasible {
						edgeEnv[edge{b.Index, s.Index}] = ne
					} else {
						delete(edgeEnv, edge{b.Index, s.Index})
					}
				}
			} else {
				for _, s := range b.Succs {
					edgeEnv[edge{b.Index, s.Index}] = e.clone()
				}
			}
		}
	}
	return results, true
}

func filterObls(in []ivObligation, fn *ssa.Function) []ivObligation {
	var out []ivObligation
	for _, o := range in {
		if o.Fn != fn {
			out = append(out, o)
		}
	}
	return out
}
