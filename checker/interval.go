package main

import (
	"fmt"
	"go/constant"
	"go/token"
	"go/types"
	"math/big"

	"golang.org/x/tools/go/ssa"
)

// Engine E9: interval / write-budget analysis for loop-free integer code that fills a fixed
// buffer from the right (the duration formatter). Abstract values are integer intervals;
// branch conditions against constants refine them per edge; helper calls are analysed
// context-sensitively by recursion; the two digit writers (copies of time.fmtInt/fmtFrac,
// validated by E8) are summarised by the number of bytes they can write.

// An abstract integer: an interval, optionally relative to a symbolic base (value = sym + [lo,hi], with
// one and the same unknown value of sym in sym.rng for every abstract value that shares it). The symbolic
// base keeps the relation between a slice parameter's length and the cursors derived from it
// (w := len(buf); w -= k; buf[w:] ...), which plain intervals lose as soon as the length is not a single value.
type ival struct {
	lo, hi *big.Int
	sym    *symv
}

type symv struct {
	rng ival // concrete
	id  int
}

var (
	two64 = new(big.Int).Lsh(big.NewInt(1), 64)
	maxU  = new(big.Int).Sub(two64, big.NewInt(1))
	minI  = new(big.Int).Neg(new(big.Int).Lsh(big.NewInt(1), 63))
	maxI  = new(big.Int).Sub(new(big.Int).Lsh(big.NewInt(1), 63), big.NewInt(1))
)

func iv(lo, hi int64) ival     { return ival{big.NewInt(lo), big.NewInt(hi), nil} }
func ivb(lo, hi *big.Int) ival { return ival{new(big.Int).Set(lo), new(big.Int).Set(hi), nil} }
func (a ival) String() string {
	if a.sym != nil {
		return fmt.Sprintf("n%d+[%s,%s] (n%d in [%s,%s])", a.sym.id, a.lo, a.hi, a.sym.id, a.sym.rng.lo, a.sym.rng.hi)
	}
	return fmt.Sprintf("[%s,%s]", a.lo, a.hi)
}

// conc forgets the symbolic base.
func (a ival) conc() ival {
	if a.sym == nil {
		return a
	}
	return ivb(new(big.Int).Add(a.sym.rng.lo, a.lo), new(big.Int).Add(a.sym.rng.hi, a.hi))
}
func (a ival) join(b ival) ival {
	if a.sym != b.sym {
		a, b = a.conc(), b.conc()
	}
	lo, hi := a.lo, a.hi
	if b.lo.Cmp(lo) < 0 {
		lo = b.lo
	}
	if b.hi.Cmp(hi) > 0 {
		hi = b.hi
	}
	out := ivb(lo, hi)
	out.sym = a.sym
	return out
}
func (a ival) eq(b ival) bool { return a.sym == b.sym && a.lo.Cmp(b.lo) == 0 && a.hi.Cmp(b.hi) == 0 }
func (a ival) empty() bool    { return a.lo.Cmp(a.hi) > 0 }

// addIv / subIv keep a symbolic base where the arithmetic allows it.
func addIv(a, b ival) ival {
	switch {
	case a.sym != nil && b.sym != nil:
		a, b = a.conc(), b.conc()
	case b.sym != nil:
		a, b = b, a
	}
	out := ivb(new(big.Int).Add(a.lo, b.lo), new(big.Int).Add(a.hi, b.hi))
	out.sym = a.sym
	return out
}
func subIv(a, b ival) ival {
	switch {
	case a.sym != nil && a.sym == b.sym:
		return ivb(new(big.Int).Sub(a.lo, b.hi), new(big.Int).Sub(a.hi, b.lo))
	case b.sym != nil:
		a, b = a.conc(), b.conc()
	}
	out := ivb(new(big.Int).Sub(a.lo, b.hi), new(big.Int).Sub(a.hi, b.lo))
	out.sym = a.sym
	return out
}

// leIv: a <= b for all values; ltIv: a < b (same base: compare offsets).
func leIv(a, b ival) bool {
	if a.sym != b.sym {
		a, b = a.conc(), b.conc()
	}
	return a.hi.Cmp(b.lo) <= 0
}
func ltIv(a, b ival) bool {
	if a.sym != b.sym {
		a, b = a.conc(), b.conc()
	}
	return a.hi.Cmp(b.lo) < 0
}
func nonNeg(a ival) bool { return a.conc().lo.Sign() >= 0 }

func typeRange(t types.Type) ival {
	if b, ok := t.Underlying().(*types.Basic); ok {
		switch b.Kind() {
		case types.Uint64, types.Uint, types.Uintptr:
			return ivb(big.NewInt(0), maxU)
		case types.Int64, types.Int:
			return ivb(minI, maxI)
		case types.Uint8:
			return iv(0, 255)
		case types.Bool:
			return iv(0, 1)
		}
	}
	return ivb(minI, maxU)
}

func isUnsigned(t types.Type) bool {
	b, ok := t.Underlying().(*types.Basic)
	return ok && b.Info()&types.IsUnsigned != 0
}

func digits(n *big.Int) int64 {
	if n.Sign() <= 0 {
		return 1
	}
	return int64(len(n.String()))
}

type env map[ssa.Value]ival

func (e env) clone() env {
	o := make(env, len(e))
	for k, v := range e {
		o[k] = v
	}
	return o
}

type ivObligation struct {
	Fn   *ssa.Function
	Pos  token.Pos
	Kind string
	OK   bool
	Msg  string
}

type ivAnalyzer struct {
	p      *Prog
	obls   []ivObligation
	depth  int
	summar map[string]bool // names of summarised digit writers
	failed string
	nsym   int
	curFn  *ssa.Function
	cells  map[string]ssa.Value
}

// sliceLen evaluates the length interval of a slice-typed value.
func (a *ivAnalyzer) sliceLen(v ssa.Value, e env) (ival, bool) {
	if x, ok := e[v]; ok {
		return x, true
	}
	switch x := v.(type) {
	case *ssa.Slice:
		var base ival
		if pt, ok := x.X.Type().Underlying().(*types.Pointer); ok {
			if arr, ok := pt.Elem().Underlying().(*types.Array); ok {
				base = iv(arr.Len(), arr.Len())
			} else {
				return ival{}, false
			}
		} else {
			b, ok := a.sliceLen(x.X, e)
			if !ok {
				return ival{}, false
			}
			base = b
		}
		lo := iv(0, 0)
		hi := base
		if x.Low != nil {
			l, ok := a.eval(x.Low, e)
			if !ok {
				return ival{}, false
			}
			lo = l
		}
		if x.High != nil {
			h, ok := a.eval(x.High, e)
			if !ok {
				return ival{}, false
			}
			hi = h
		}
		return subIv(hi, lo), true
	}
	return ival{}, false
}

func (a *ivAnalyzer) eval(v ssa.Value, e env) (ival, bool) {
	if x, ok := e[v]; ok {
		return x, true
	}
	switch x := v.(type) {
	case *ssa.Const:
		if x.Value == nil {
			return ival{}, false
		}
		if i, ok := constInt(x); ok {
			if isUnsigned(x.Type()) && i < 0 {
				return ival{}, false
			}
			return iv(i, i), true
		}
		if u, ok := constUint(x); ok {
			return ivb(u, u), true
		}
		if b, ok := constBool(x); ok {
			if b {
				return iv(1, 1), true
			}
			return iv(0, 0), true
		}
		return ival{}, false
	case *ssa.Convert:
		in, ok := a.eval(x.X, e)
		if !ok {
			return ival{}, false
		}
		if in.sym != nil {
			// a conversion that cannot change the value keeps the relation
			tr := typeRange(x.Type())
			if c := in.conc(); c.lo.Cmp(tr.lo) >= 0 && c.hi.Cmp(tr.hi) <= 0 {
				return in, true
			}
			in = in.conc()
		}
		// a conversion to a NARROWER integer type must not lose bits of the value being formatted
		if ws, wt := intBits(x.X.Type()), intBits(x.Type()); ws > 0 && wt > 0 && wt < ws && a.curFn != nil {
			tr := typeRange(x.Type())
			if wt == 32 {
				if isUnsigned(x.Type()) {
					tr = ivb(big.NewInt(0), big.NewInt(1<<32-1))
				} else {
					tr = iv(-1<<31, 1<<31-1)
				}
			}
			c := in.conc()
			fits := c.lo.Cmp(tr.lo) >= 0 && c.hi.Cmp(tr.hi) <= 0
			if wt == 32 || wt == 8 {
				a.oblige(a.curFn, x.Pos(), "narrowing", fits, "value %s converted to %s", c, x.Type())
			}
		}
		from, to := isUnsigned(x.X.Type()), isUnsigned(x.Type())
		if !from && to {
			switch {
			case in.lo.Sign() >= 0:
				return in, true
			case in.hi.Sign() < 0:
				return ivb(new(big.Int).Add(two64, in.lo), new(big.Int).Add(two64, in.hi)), true
			default:
				return ivb(big.NewInt(0), maxU), true
			}
		}
		tr := typeRange(x.Type())
		if in.lo.Cmp(tr.lo) >= 0 && in.hi.Cmp(tr.hi) <= 0 {
			return in, true
		}
		return tr, true
	case *ssa.ChangeType:
		return a.eval(x.X, e)
	case *ssa.Field, *ssa.Index:
		if isIntLike(v.Type()) {
			return a.loadValue(v, e)
		}
		return ival{}, false
	case *ssa.UnOp:
		if x.Op == token.MUL && isIntLike(x.Type()) {
			return a.loadAddr(x.X, e)
		}
		if x.Op == token.SUB {
			in, ok := a.eval(x.X, e)
			if !ok {
				return ival{}, false
			}
			in = in.conc()
			if isUnsigned(x.Type()) {
				switch {
				case in.hi.Sign() == 0:
					return iv(0, 0), true
				case in.lo.Sign() > 0:
					return ivb(new(big.Int).Sub(two64, in.hi), new(big.Int).Sub(two64, in.lo)), true
				default:
					return ivb(big.NewInt(0), maxU), true
				}
			}
			return ivb(new(big.Int).Neg(in.hi), new(big.Int).Neg(in.lo)), true
		}
		return ival{}, false
	case *ssa.BinOp:
		l, ok1 := a.eval(x.X, e)
		r, ok2 := a.eval(x.Y, e)
		if !ok1 || !ok2 {
			return ival{}, false
		}
		var out ival
		if x.Op != token.ADD && x.Op != token.SUB {
			l, r = l.conc(), r.conc()
		}
		switch x.Op {
		case token.ADD:
			out = addIv(l, r)
		case token.SUB:
			out = subIv(l, r)
		case token.MUL:
			if l.lo.Sign() < 0 || r.lo.Sign() < 0 {
				return typeRange(x.Type()), true
			}
			out = ivb(new(big.Int).Mul(l.lo, r.lo), new(big.Int).Mul(l.hi, r.hi))
		case token.QUO:
			if r.lo.Sign() <= 0 || l.lo.Sign() < 0 {
				return typeRange(x.Type()), true
			}
			out = ivb(new(big.Int).Quo(l.lo, r.hi), new(big.Int).Quo(l.hi, r.lo))
		case token.REM:
			if r.lo.Sign() <= 0 || l.lo.Sign() < 0 {
				return typeRange(x.Type()), true
			}
			top := new(big.Int).Sub(r.hi, big.NewInt(1))
			if l.hi.Cmp(top) < 0 {
				top = l.hi
			}
			out = ivb(big.NewInt(0), top)
		case token.EQL, token.NEQ, token.LSS, token.LEQ, token.GTR, token.GEQ:
			return iv(0, 1), true
		default:
			return ival{}, false
		}
		tr := typeRange(x.Type())
		if oc := out.conc(); oc.lo.Cmp(tr.lo) < 0 || oc.hi.Cmp(tr.hi) > 0 {
			return tr, true // may wrap
		}
		return out, true
	case *ssa.Call:
		if isBuiltinCall(x, "len") {
			arg := x.Common().Args[0]
			if s, ok := constString(arg); ok {
				return iv(int64(len(s)), int64(len(s))), true
			}
			if bt, ok := arg.Type().Underlying().(*types.Basic); ok && bt.Info()&types.IsString != 0 {
				return a.strLen(arg, e) // strings are abstracted by their length
			}
			if pt, ok := arg.Type().Underlying().(*types.Pointer); ok {
				if arr, ok := pt.Elem().Underlying().(*types.Array); ok {
					return iv(arr.Len(), arr.Len()), true
				}
			}
			return a.sliceLen(arg, e)
		}
	}
	return ival{}, false
}

func constUint(c *ssa.Const) (*big.Int, bool) {
	if c.Value == nil {
		return nil, false
	}
	s := c.Value.ExactString()
	b, ok := new(big.Int).SetString(s, 10)
	return b, ok
}

// refine narrows the interval of the compared value on a branch edge.
func (a *ivAnalyzer) refine(cond ssa.Value, taken bool, e env) {
	c, neg := normCond(cond)
	if neg {
		taken = !taken
	}
	bo, ok := c.(*ssa.BinOp)
	if !ok {
		return
	}
	l, ok1 := a.eval(bo.X, e)
	r, ok2 := a.eval(bo.Y, e)
	if !ok1 || !ok2 {
		return
	}
	if l.sym != nil {
		return // a value relative to a symbolic length is not narrowed (the relation is worth more)
	}
	r = r.conc()
	op := bo.Op
	if !taken {
		switch op {
		case token.LSS:
			op = token.GEQ
		case token.LEQ:
			op = token.GTR
		case token.GTR:
			op = token.LEQ
		case token.GEQ:
			op = token.LSS
		case token.EQL:
			op = token.NEQ
		case token.NEQ:
			op = token.EQL
		}
	}
	one := big.NewInt(1)
	nl := ivb(l.lo, l.hi)
	switch op {
	case token.LSS:
		if h := new(big.Int).Sub(r.hi, one); h.Cmp(nl.hi) < 0 {
			nl.hi = h
		}
	case token.LEQ:
		if r.hi.Cmp(nl.hi) < 0 {
			nl.hi = new(big.Int).Set(r.hi)
		}
	case token.GTR:
		if lo := new(big.Int).Add(r.lo, one); lo.Cmp(nl.lo) > 0 {
			nl.lo = lo
		}
	case token.GEQ:
		if r.lo.Cmp(nl.lo) > 0 {
			nl.lo = new(big.Int).Set(r.lo)
		}
	case token.EQL:
		if r.lo.Cmp(nl.lo) > 0 {
			nl.lo = new(big.Int).Set(r.lo)
		}
		if r.hi.Cmp(nl.hi) < 0 {
			nl.hi = new(big.Int).Set(r.hi)
		}
	case token.NEQ:
		if r.lo.Cmp(r.hi) == 0 {
			if nl.lo.Cmp(r.lo) == 0 {
				nl.lo = new(big.Int).Add(nl.lo, one)
			} else if nl.hi.Cmp(r.lo) == 0 {
				nl.hi = new(big.Int).Sub(nl.hi, one)
			}
		}
	}
	e[bo.X] = nl
}

func (a *ivAnalyzer) oblige(fn *ssa.Function, pos token.Pos, kind string, ok bool, format string, args ...any) {
	a.obls = append(a.obls, ivObligation{fn, pos, kind, ok, fmt.Sprintf(format, args...)})
}

// analyze runs fn with the given parameter intervals and returns the joined result intervals.
//
// Loops are executed by bounded unrolling: a node is a (block, iteration) pair of the loop the block belongs to;
// a back edge leads to the header's next iteration, infeasible edges (the refined interval of the compared value
// is empty) are not followed, so a loop with a constant trip count unrolls exactly and precisely. If the back
// edge is still feasible after ivMaxIter iterations the function is not analysable (never "ok" by default).
// Local arrays and structs (a table of units built in the function, a scratch array of parts) are tracked cell by
// cell; strings are abstracted by their length.
const ivMaxIter = 40

func (a *ivAnalyzer) analyze(fn *ssa.Function, params []ival) ([]ival, bool) {
	if a.depth > 6 || len(fn.Blocks) == 0 {
		a.failed = "call depth or missing body at " + nm(fn)
		return nil, false
	}
	// natural loops (no nesting)
	loopHead := map[int]int{}
	for _, b := range fn.Blocks {
		loopHead[b.Index] = -1
	}
	for _, b := range fn.Blocks {
		for _, h := range b.Succs {
			if !h.Dominates(b) {
				continue
			}
			// back edge b -> h: the loop is h plus everything that reaches b without passing h
			members := map[*ssa.BasicBlock]bool{h: true}
			var stack []*ssa.BasicBlock
			if !members[b] {
				members[b] = true
				stack = append(stack, b)
			}
			for len(stack) > 0 {
				x := stack[len(stack)-1]
				stack = stack[:len(stack)-1]
				for _, pr := range x.Preds {
					if !members[pr] {
						members[pr] = true
						stack = append(stack, pr)
					}
				}
			}
			for m := range members {
				if cur := loopHead[m.Index]; cur >= 0 && cur != h.Index {
					a.failed = "nested loops in " + nm(fn)
					return nil, false
				}
				loopHead[m.Index] = h.Index
			}
		}
	}
	a.depth++
	saved := a.curFn
	a.curFn = fn
	defer func() { a.depth--; a.curFn = saved }()
	base := env{}
	for i, q := range fn.Params {
		if i < len(params) && params[i].lo != nil {
			base[q] = params[i] // (slices and strings are abstracted by their length)
		} else if bt, ok := q.Type().Underlying().(*types.Basic); ok && bt.Info()&types.IsString == 0 {
			base[q] = typeRange(q.Type())
		}
	}
	start := len(a.obls) // obligations of earlier call contexts stay; those of this invocation are rebuilt per sweep
	type nodeKey struct{ b, k int }
	type edgeKey struct{ fb, fk, tb, tk int }
	edgeEnv := map[edgeKey]env{}
	target := func(b *ssa.BasicBlock, k int, s *ssa.BasicBlock) nodeKey {
		hb, hs := loopHead[b.Index], loopHead[s.Index]
		switch {
		case hs >= 0 && hs == hb && s.Index == hs:
			return nodeKey{s.Index, k + 1} // back edge
		case hs >= 0 && hs == hb:
			return nodeKey{s.Index, k}
		}
		return nodeKey{s.Index, 0}
	}
	var results []ival
	for sweep := 0; sweep < 3; sweep++ {
		results = nil
		a.obls = a.obls[:start]
		for k := 0; k <= ivMaxIter; k++ {
			any := false
			for _, b := range fn.Blocks {
				if k > 0 && loopHead[b.Index] < 0 {
					continue
				}
				var e env
				if b.Index == 0 && k == 0 {
					e = base.clone()
				} else {
					first := true
					type inc struct {
						pred *ssa.BasicBlock
						pe   env
					}
					var incs []inc
					for _, pr := range b.Preds {
						for pk := 0; pk <= ivMaxIter; pk++ {
							if pk > 0 && loopHead[pr.Index] < 0 {
								break
							}
							pe, ok := edgeEnv[edgeKey{pr.Index, pk, b.Index, k}]
							if !ok {
								continue
							}
							incs = append(incs, inc{pr, pe})
							if first {
								e = pe.clone()
								first = false
								continue
							}
							for kk, v := range e {
								if w, ok := pe[kk]; ok {
									e[kk] = v.join(w)
								} else {
									delete(e, kk)
								}
							}
						}
					}
					if first {
						continue // not reached (yet)
					}
					// a new iteration: what the body computed last time is stale (phis are recomputed below)
					if k > 0 && loopHead[b.Index] == b.Index {
						for kk := range e {
							if in, ok := kk.(ssa.Instruction); ok && in.Block() != nil && loopHead[in.Block().Index] == b.Index {
								if _, isPhi := kk.(*ssa.Phi); !isPhi {
									delete(e, kk)
								}
							}
						}
					}
					// phis
					for _, in := range b.Instrs {
						ph, ok := in.(*ssa.Phi)
						if !ok {
							break
						}
						var acc *ival
						for _, ic := range incs {
							for i, pr := range b.Preds {
								if pr != ic.pred {
									continue
								}
								v, ok := a.eval(ph.Edges[i], ic.pe)
								if !ok {
									if _, isBasic := ph.Type().Underlying().(*types.Basic); isBasic {
										v = typeRange(ph.Type())
									} else {
										continue
									}
								}
								if acc == nil {
									vv := v
									acc = &vv
								} else {
									j := acc.join(v)
									acc = &j
								}
							}
						}
						if acc != nil {
							e[ph] = *acc
						} else {
							delete(e, ph)
						}
					}
				}
				any = true
				dead := false
				for _, in := range b.Instrs {
					a.aggTransfer(in, e)
					switch x := in.(type) {
					case *ssa.Store:
						if ia, ok := x.Addr.(*ssa.IndexAddr); ok {
							idx, ok1 := a.eval(ia.Index, e)
							var ln ival
							ok2 := false
							if pt, ok := ia.X.Type().Underlying().(*types.Pointer); ok {
								if arr, ok := pt.Elem().Underlying().(*types.Array); ok {
									ln, ok2 = iv(arr.Len(), arr.Len()), true
								}
							} else {
								ln, ok2 = a.sliceLen(ia.X, e)
							}
							if !ok1 || !ok2 {
								a.oblige(fn, instrPos(x), "index", false, "index or length not evaluable")
							} else {
								good := nonNeg(idx) && ltIv(idx, ln)
								a.oblige(fn, instrPos(x), "index", good, "byte stored at index %s of a buffer of length %s", idx, ln)
								// remember the lowest position written so far on this path (for the "nothing written
								// below the returned start" obligation of right-to-left writers)
								lk := a.cell(fn, "#lowest-written")
								if old, has := e[lk]; !has || (old.sym == idx.sym && idx.hi.Cmp(old.hi) < 0) {
									e[lk] = idx
								}
							}
						}
					case *ssa.Slice:
						// bounds of a reslice
						var ln ival
						ok2 := false
						if pt, ok := x.X.Type().Underlying().(*types.Pointer); ok {
							if arr, ok := pt.Elem().Underlying().(*types.Array); ok {
								ln, ok2 = iv(arr.Len(), arr.Len()), true
							}
						} else {
							ln, ok2 = a.sliceLen(x.X, e)
						}
						for _, bnd := range []ssa.Value{x.Low, x.High} {
							if bnd == nil {
								continue
							}
							bv, ok1 := a.eval(bnd, e)
							if !ok1 || !ok2 {
								a.oblige(fn, instrPos(x), "slice", false, "slice bound not evaluable")
								continue
							}
							good := nonNeg(bv) && leIv(bv, ln)
							a.oblige(fn, instrPos(x), "slice", good, "slice bound %s on a buffer of length %s", bv, ln)
						}
					case *ssa.Call:
						cc := x.Common()
						if isBuiltinCall(x, "copy") {
							dl, ok1 := a.sliceLen(cc.Args[0], e)
							ok2 := false
							var srcLen int64
							if s, ok := constString(cc.Args[1]); ok {
								srcLen, ok2 = int64(len(s)), true
							} else if l, ok := a.strLen(cc.Args[1], e); ok && l.sym == nil && l.lo.Cmp(l.hi) == 0 && l.lo.IsInt64() {
								srcLen, ok2 = l.lo.Int64(), true // a string parameter of known length in this call context
							}
							if ok1 && ok2 {
								a.oblige(fn, instrPos(x), "copy", dl.conc().lo.Cmp(big.NewInt(srcLen)) >= 0, "%d bytes copied into room for %s", srcLen, dl)
							} else {
								a.oblige(fn, instrPos(x), "copy", false, "copy not evaluable")
							}
							continue
						}
						cal := calleeOf(x)
						if cal == nil {
							continue
						}
						switch {
						case a.summar[nm(cal)] && nm(cal) == "fmtInt":
							ln, ok1 := a.sliceLen(cc.Args[0], e)
							v, ok2 := a.eval(cc.Args[1], e)
							if !ok1 || !ok2 {
								a.oblige(fn, instrPos(x), "digits", false, "fmtInt operands not evaluable")
								continue
							}
							v = v.conc()
							d := digits(v.hi)
							res := subIv(ln, iv(1, d)) // at least one digit, at most d
							a.oblige(fn, instrPos(x), "digits", nonNeg(res), "fmtInt writes up to %d digit(s) (value <= %s) into room for %s", d, v.hi, ln)
							e[x] = res
						case a.summar[nm(cal)] && nm(cal) == "fmtFrac":
							ln, ok1 := a.sliceLen(cc.Args[0], e)
							v, ok2 := a.eval(cc.Args[1], e)
							pr, ok3 := a.eval(cc.Args[2], e)
							if !ok1 || !ok2 || !ok3 {
								a.oblige(fn, instrPos(x), "digits", false, "fmtFrac operands not evaluable")
								continue
							}
							v, pr = v.conc(), pr.conc()
							need := new(big.Int).Add(pr.hi, big.NewInt(1))
							lower := subIv(ln, ivb(need, need))
							nl := lower.lo
							a.oblige(fn, instrPos(x), "digits", nonNeg(lower), "fmtFrac writes up to %s byte(s) into room for %s", need, ln)
							// results: nw, nv = v / 10^prec
							plo := new(big.Int).Exp(big.NewInt(10), pr.lo, nil)
							phi := new(big.Int).Exp(big.NewInt(10), pr.hi, nil)
							for _, ref := range *x.Referrers() {
								if ex, ok := ref.(*ssa.Extract); ok {
									if ex.Index == 0 {
										w0 := ivb(nl, ln.hi)
										w0.sym = ln.sym
										e[ex] = w0
									} else {
										e[ex] = ivb(new(big.Int).Quo(v.lo, phi), new(big.Int).Quo(v.hi, plo))
									}
								}
							}
						case cal.Pkg == fn.Pkg && len(cal.Blocks) > 0:
							var ps []ival
							for i, arg := range cc.Args {
								var pv ival
								if _, isSlice := cal.Params[i].Type().Underlying().(*types.Slice); isSlice {
									pv, _ = a.sliceLen(arg, e)
								} else if bt, isB := cal.Params[i].Type().Underlying().(*types.Basic); isB && bt.Info()&types.IsString != 0 {
									if l, has := a.strLen(arg, e); has {
										pv = l
									}
								} else {
									pv, _ = a.eval(arg, e)
								}
								ps = append(ps, pv)
							}
							// a slice argument whose length is not a single value gets a symbolic length in the callee;
							// an integer argument that IS that length (f(buf[:w], ..., w)) shares it
							fresh := map[*symv]ival{}
							for i, arg := range cc.Args {
								if _, isSlice := cal.Params[i].Type().Underlying().(*types.Slice); !isSlice || ps[i].lo == nil || ps[i].sym != nil || ps[i].lo.Cmp(ps[i].hi) == 0 {
									continue
								}
								a.nsym++
								sv := &symv{rng: ps[i], id: a.nsym}
								fresh[sv] = ps[i]
								ps[i] = ival{big.NewInt(0), big.NewInt(0), sv}
								if sl, isSl := arg.(*ssa.Slice); isSl && sl.High != nil && (sl.Low == nil || func() bool { z, c := constInt(sl.Low); return c && z == 0 }()) {
									for j, other := range cc.Args {
										if j != i && other == sl.High {
											ps[j] = ival{big.NewInt(0), big.NewInt(0), sv}
										}
									}
								}
							}
							res, ok := a.analyze(cal, ps)
							if !ok {
								a.oblige(fn, instrPos(x), "call", false, "helper %s could not be analysed (%s)", nm(cal), a.failed)
								continue
							}
							for i := range res {
								if base, mine := fresh[res[i].sym]; mine {
									off := res[i]
									off.sym = nil
									res[i] = addIv(base, off)
								}
							}
							if len(res) == 1 {
								e[x] = res[0]
							} else if refs := x.Referrers(); refs != nil {
								// several results: each component is read through an Extract
								for _, ref := range *refs {
									if ex, ok := ref.(*ssa.Extract); ok && ex.Index < len(res) {
										e[ex] = res[ex.Index]
									}
								}
							}
						}
					case *ssa.Return:
						// a right-to-left writer returns the index where its text begins: a byte it stored at a
						// position definitely below that index is not part of the text
						if len(x.Results) >= 1 && isIntLike(x.Results[0].Type()) {
							if low, has := e[a.cell(fn, "#lowest-written")]; has {
								if rv0, ok := a.eval(x.Results[0], e); ok && rv0.sym == low.sym && low.hi.Cmp(rv0.lo) < 0 {
									a.oblige(fn, instrPos(x), "start", false, "a byte was stored at index %s but the returned start index is %s: the byte is cut off the result", low, rv0)
								}
							}
						}
						for i, rv := range x.Results {
							v, ok := a.eval(rv, e)
							if !ok {
								v = typeRange(rv.Type())
							}
							if i >= len(results) {
								results = append(results, v)
							} else {
								results[i] = results[i].join(v)
							}
						}
					case *ssa.Panic:
						dead = true
					}
				}

				if dead {
					continue
				}
				// out edges
				if iff := ifOf(b); iff != nil {
					for ki, s := range b.Succs {
						ne := e.clone()
						feasible := true
						if cb, isC := a.condConst(iff.Cond, e); isC {
							feasible = cb == (ki == 0)
						} else if _, ok := iff.Cond.(*ssa.Parameter); !ok {
							a.refine(iff.Cond, ki == 0, ne)
							c, _ := normCond(iff.Cond)
							if bo, ok := c.(*ssa.BinOp); ok {
								if v, ok := ne[bo.X]; ok && v.empty() {
									feasible = false
								}
							}
						}
						t := target(b, k, s)
						ek := edgeKey{b.Index, k, t.b, t.k}
						if feasible {
							if t.k > ivMaxIter {
								a.failed = "loop bound not established in " + nm(fn)
								return nil, false
							}
							edgeEnv[ek] = ne
						} else {
							delete(edgeEnv, ek)
						}
					}
				} else {
					for _, s := range b.Succs {
						t := target(b, k, s)
						if t.k > ivMaxIter {
							a.failed = "loop bound not established in " + nm(fn)
							return nil, false
						}
						edgeEnv[edgeKey{b.Index, k, t.b, t.k}] = e.clone()
					}
				}
			}
			if !any && k > 0 {
				break
			}
		}
	}
	return results, true
}

// condConst decides a comparison whose operands are single values (the unrolled loop test i < 7 with i concrete).
func (a *ivAnalyzer) condConst(cond ssa.Value, e env) (bool, bool) {
	c, neg := normCond(cond)
	bo, ok := c.(*ssa.BinOp)
	if !ok {
		return false, false
	}
	l, ok1 := a.eval(bo.X, e)
	r, ok2 := a.eval(bo.Y, e)
	if !ok1 || !ok2 || l.sym != nil || r.sym != nil {
		return false, false
	}
	var res bool
	switch bo.Op {
	case token.LSS:
		if l.hi.Cmp(r.lo) < 0 {
			res = true
		} else if l.lo.Cmp(r.hi) >= 0 {
			res = false
		} else {
			return false, false
		}
	case token.GEQ:
		if l.lo.Cmp(r.hi) >= 0 {
			res = true
		} else if l.hi.Cmp(r.lo) < 0 {
			res = false
		} else {
			return false, false
		}
	case token.GTR:
		if l.lo.Cmp(r.hi) > 0 {
			res = true
		} else if l.hi.Cmp(r.lo) <= 0 {
			res = false
		} else {
			return false, false
		}
	case token.LEQ:
		if l.hi.Cmp(r.lo) <= 0 {
			res = true
		} else if l.lo.Cmp(r.hi) > 0 {
			res = false
		} else {
			return false, false
		}
	default:
		return false, false
	}
	return res != neg, true
}

func filterObls(in []ivObligation, fn *ssa.Function) []ivObligation {
	var out []ivObligation
	for _, o := range in {
		if o.Fn != fn {
			out = append(out, o)
		}
	}
	return out
}

// intBits: bit width of an integer type (0 if not an integer type; int/uint/uintptr count as 64).
func intBits(t types.Type) int {
	b, ok := t.Underlying().(*types.Basic)
	if !ok || b.Info()&types.IsInteger == 0 {
		return 0
	}
	switch b.Kind() {
	case types.Int8, types.Uint8:
		return 8
	case types.Int16, types.Uint16:
		return 16
	case types.Int32, types.Uint32:
		return 32
	}
	return 64
}

// ---- local aggregates (arrays / structs built inside the function) -------------------------------------------------------

func isIntLike(t types.Type) bool {
	b, ok := t.Underlying().(*types.Basic)
	return ok && b.Info()&(types.IsInteger|types.IsBoolean) != 0
}

func isStringT(t types.Type) bool {
	b, ok := t.Underlying().(*types.Basic)
	return ok && b.Info()&types.IsString != 0
}

// cell interns the abstract memory cell (root, path) as a map key of env.
func (a *ivAnalyzer) cell(root ssa.Value, path string) ssa.Value {
	if a.cells == nil {
		a.cells = map[string]ssa.Value{}
	}
	k := fmt.Sprintf("%p|%s", root, path)
	if c, ok := a.cells[k]; ok {
		return c
	}
	c := new(ssa.Alloc) // a unique key; never used as an instruction
	a.cells[k] = c
	return c
}

// leafPaths lists the scalar leaves of an aggregate type as relative paths ("" for a scalar).
func leafPaths(t types.Type, limit int) ([]string, bool) {
	switch u := t.Underlying().(type) {
	case *types.Array:
		sub, ok := leafPaths(u.Elem(), limit)
		if !ok || int(u.Len())*len(sub) > limit {
			return nil, false
		}
		var out []string
		for i := int64(0); i < u.Len(); i++ {
			for _, s := range sub {
				out = append(out, fmt.Sprintf("%d.", i)+s)
			}
		}
		return out, true
	case *types.Struct:
		var out []string
		for i := 0; i < u.NumFields(); i++ {
			sub, ok := leafPaths(u.Field(i).Type(), limit)
			if !ok {
				return nil, false
			}
			for _, s := range sub {
				out = append(out, fmt.Sprintf("f%d.", i)+s)
			}
		}
		return out, len(out) <= limit
	case *types.Basic:
		return []string{""}, true
	}
	return nil, false
}

func isAggT(t types.Type) bool {
	switch t.Underlying().(type) {
	case *types.Array, *types.Struct:
		return true
	}
	return false
}

func idxRange(idx ival, n int64) (int64, int64, bool) {
	idx = idx.conc()
	lo, hi := int64(0), n-1
	if idx.lo.IsInt64() && idx.lo.Int64() > lo {
		lo = idx.lo.Int64()
	}
	if idx.hi.IsInt64() && idx.hi.Int64() < hi {
		hi = idx.hi.Int64()
	}
	if hi-lo > 64 || hi < lo {
		return 0, 0, false
	}
	return lo, hi, true
}

// resolveAddr: addr points into a tracked local aggregate; the result is the root and the concrete cell prefixes it can
// denote (several when an index is not a single value).
func (a *ivAnalyzer) resolveAddr(addr ssa.Value, e env) (ssa.Value, []string, bool) {
	switch x := addr.(type) {
	case *ssa.Alloc:
		if _, tracked := e[a.cell(x, "#")]; !tracked {
			return nil, nil, false
		}
		return x, []string{""}, true
	case *ssa.Global:
		// a package-level table that is never stored to: its cells are the constants of its literal
		if _, tracked := e[a.cell(x, "#")]; !tracked {
			leaves, ok := a.p.globalLeaves(x)
			if !ok {
				return nil, nil, false
			}
			e[a.cell(x, "#")] = iv(1, 1)
			for path, cv := range leaves {
				switch cv.Kind() {
				case constant.String:
					n := int64(len(constant.StringVal(cv)))
					e[a.cell(x, path)] = iv(n, n)
				case constant.Int:
					if bi, okb := new(big.Int).SetString(cv.ExactString(), 10); okb {
						e[a.cell(x, path)] = ivb(bi, bi)
					}
				case constant.Bool:
					if constant.BoolVal(cv) {
						e[a.cell(x, path)] = iv(1, 1)
					} else {
						e[a.cell(x, path)] = iv(0, 0)
					}
				}
			}
		}
		return x, []string{""}, true
	case *ssa.FieldAddr:
		root, ps, ok := a.resolveAddr(x.X, e)
		if !ok {
			return nil, nil, false
		}
		out := make([]string, len(ps))
		for i, p := range ps {
			out[i] = p + fmt.Sprintf("f%d.", x.Field)
		}
		return root, out, true
	case *ssa.IndexAddr:
		root, ps, ok := a.resolveAddr(x.X, e)
		if !ok {
			return nil, nil, false
		}
		idx, ok := a.eval(x.Index, e)
		if !ok {
			return nil, nil, false
		}
		n := int64(-1)
		if pt, ok := x.X.Type().Underlying().(*types.Pointer); ok {
			if arr, ok := pt.Elem().Underlying().(*types.Array); ok {
				n = arr.Len()
			}
		}
		if n < 0 {
			return nil, nil, false
		}
		lo, hi, ok := idxRange(idx, n)
		if !ok {
			return nil, nil, false
		}
		var out []string
		for _, p := range ps {
			for i := lo; i <= hi; i++ {
				out = append(out, p+fmt.Sprintf("%d.", i))
			}
		}
		return root, out, true
	}
	return nil, nil, false
}

// aggOf: v is an aggregate VALUE (the copy of an array, an element struct) whose cells are tracked under (v, path).
func (a *ivAnalyzer) aggOf(v ssa.Value, e env) (ssa.Value, []string, bool) {
	switch x := v.(type) {
	case *ssa.Index:
		root, ps, ok := a.aggOf(x.X, e)
		if !ok {
			return nil, nil, false
		}
		idx, ok := a.eval(x.Index, e)
		arr, isArr := x.X.Type().Underlying().(*types.Array)
		if !ok || !isArr {
			return nil, nil, false
		}
		lo, hi, ok := idxRange(idx, arr.Len())
		if !ok {
			return nil, nil, false
		}
		var out []string
		for _, p := range ps {
			for i := lo; i <= hi; i++ {
				out = append(out, p+fmt.Sprintf("%d.", i))
			}
		}
		return root, out, true
	case *ssa.Field:
		root, ps, ok := a.aggOf(x.X, e)
		if !ok {
			return nil, nil, false
		}
		out := make([]string, len(ps))
		for i, p := range ps {
			out[i] = p + fmt.Sprintf("f%d.", x.Field)
		}
		return root, out, true
	}
	if _, tracked := e[a.cell(v, "#")]; tracked {
		return v, []string{""}, true
	}
	return nil, nil, false
}

func (a *ivAnalyzer) readCells(root ssa.Value, ps []string, e env) (ival, bool) {
	var acc *ival
	for _, p := range ps {
		v, ok := e[a.cell(root, p)]
		if !ok {
			return ival{}, false
		}
		if acc == nil {
			vv := v
			acc = &vv
		} else {
			j := acc.join(v)
			acc = &j
		}
	}
	if acc == nil {
		return ival{}, false
	}
	return *acc, true
}

func (a *ivAnalyzer) loadAddr(addr ssa.Value, e env) (ival, bool) {
	root, ps, ok := a.resolveAddr(addr, e)
	if !ok {
		return ival{}, false
	}
	return a.readCells(root, ps, e)
}

func (a *ivAnalyzer) loadValue(v ssa.Value, e env) (ival, bool) {
	root, ps, ok := a.aggOf(v, e)
	if !ok {
		return ival{}, false
	}
	return a.readCells(root, ps, e)
}

// strLen: the length of a string value (constant, parameter abstracted by its length, or a tracked cell).
func (a *ivAnalyzer) strLen(v ssa.Value, e env) (ival, bool) {
	if s, ok := constString(v); ok {
		return iv(int64(len(s)), int64(len(s))), true
	}
	if l, ok := e[v]; ok {
		return l, true
	}
	switch x := v.(type) {
	case *ssa.UnOp:
		if x.Op == token.MUL {
			return a.loadAddr(x.X, e)
		}
	case *ssa.Field, *ssa.Index:
		return a.loadValue(v, e)
	case *ssa.Phi:
		var acc *ival
		for _, ed := range x.Edges {
			l, ok := a.strLen(ed, e)
			if !ok {
				return ival{}, false
			}
			if acc == nil {
				ll := l
				acc = &ll
			} else {
				j := acc.join(l)
				acc = &j
			}
		}
		if acc != nil {
			return *acc, true
		}
	}
	return ival{}, false
}

// aggTransfer keeps the cells of local aggregates up to date: allocation (zero value), stores, whole-value loads.
func (a *ivAnalyzer) aggTransfer(in ssa.Instruction, e env) {
	scalarOf := func(v ssa.Value) (ival, bool) {
		if isStringT(v.Type()) {
			return a.strLen(v, e)
		}
		if isIntLike(v.Type()) {
			return a.eval(v, e)
		}
		return ival{}, false
	}
	copyAgg := func(dst ssa.Value, dp string, src ssa.Value, sps []string, t types.Type) {
		leaves, ok := leafPaths(t, 256)
		if !ok {
			return
		}
		for _, lf := range leaves {
			var acc *ival
			good := true
			for _, sp := range sps {
				v, ok := e[a.cell(src, sp+lf)]
				if !ok {
					good = false
					break
				}
				if acc == nil {
					vv := v
					acc = &vv
				} else {
					j := acc.join(v)
					acc = &j
				}
			}
			if good && acc != nil {
				e[a.cell(dst, dp+lf)] = *acc
			} else {
				delete(e, a.cell(dst, dp+lf))
			}
		}
		e[a.cell(dst, "#")] = iv(1, 1)
	}
	switch x := in.(type) {
	case *ssa.Alloc:
		pt, ok := x.Type().Underlying().(*types.Pointer)
		if !ok || !isAggT(pt.Elem()) {
			return
		}
		leaves, ok := leafPaths(pt.Elem(), 256)
		if !ok {
			return
		}
		e[a.cell(x, "#")] = iv(1, 1)
		for _, lf := range leaves {
			e[a.cell(x, lf)] = iv(0, 0) // zero value (integers 0, strings empty)
		}
	case *ssa.Store:
		root, ps, ok := a.resolveAddr(x.Addr, e)
		if !ok {
			return
		}
		if isAggT(x.Val.Type()) {
			sroot, sps, sok := a.aggOf(x.Val, e)
			for _, p := range ps {
				if sok && len(ps) == 1 {
					copyAgg(root, p, sroot, sps, x.Val.Type())
				} else if leaves, lok := leafPaths(x.Val.Type(), 256); lok {
					for _, lf := range leaves {
						delete(e, a.cell(root, p+lf))
					}
				}
			}
			return
		}
		v, vok := scalarOf(x.Val)
		for _, p := range ps {
			c := a.cell(root, p)
			switch {
			case !vok:
				delete(e, c)
			case len(ps) == 1:
				e[c] = v
			default:
				if old, has := e[c]; has {
					e[c] = old.join(v)
				}
			}
		}
	case *ssa.UnOp:
		if x.Op != token.MUL || !isAggT(x.Type()) {
			return
		}
		if root, ps, ok := a.resolveAddr(x.X, e); ok {
			copyAgg(x, "", root, ps, x.Type())
		}
	case *ssa.Index:
		if !isAggT(x.Type()) {
			return
		}
		if root, ps, ok := a.aggOf(x, e); ok && root != ssa.Value(x) {
			copyAgg(x, "", root, ps, x.Type())
		}
	}
}
