package main

import (
	"fmt"
	"go/token"
	"go/types"
	"math/big"

	"golang.org/x/tools/go/ssa"
)

// Engine E9: interval / write-budget analysis for loop-free integer code that fills a fixed
// buffer from the right (the duration formatter). Abstract values are integer intervals;
// branch conditions against constants refine them per edge; helper calls are analysed
// context-sensitively by recursion; the two digit writers (copies of time.fmtInt/fmtFrac,
// validated by E8) are summarised by the number of bytes they can write.

// An abstract integer: an interval, optionally relative to a symbolic base (value = sym + [lo,hi], with
// one and the same unknown value of sym in sym.rng for every abstract value that shares it). The symbolic
// base keeps the relation between a slice parameter's length and the cursors derived from it
// (w := len(buf); w -= k; buf[w:] ...), which plain intervals lose as soon as the length is not a single value.
type ival struct {
	lo, hi *big.Int
	sym    *symv
}

type symv struct {
	rng ival // concrete
	id  int
}

var (
	two64 = new(big.Int).Lsh(big.NewInt(1), 64)
	maxU  = new(big.Int).Sub(two64, big.NewInt(1))
	minI  = new(big.Int).Neg(new(big.Int).Lsh(big.NewInt(1), 63))
	maxI  = new(big.Int).Sub(new(big.Int).Lsh(big.NewInt(1), 63), big.NewInt(1))
)

func iv(lo, hi int64) ival     { return ival{big.NewInt(lo), big.NewInt(hi), nil} }
func ivb(lo, hi *big.Int) ival { return ival{new(big.Int).Set(lo), new(big.Int).Set(hi), nil} }
func (a ival) String() string {
	if a.sym != nil {
		return fmt.Sprintf("n%d+[%s,%s] (n%d in [%s,%s])", a.sym.id, a.lo, a.hi, a.sym.id, a.sym.rng.lo, a.sym.rng.hi)
	}
	return fmt.Sprintf("[%s,%s]", a.lo, a.hi)
}

// conc forgets the symbolic base.
func (a ival) conc() ival {
	if a.sym == nil {
		return a
	}
	return ivb(new(big.Int).Add(a.sym.rng.lo, a.lo), new(big.Int).Add(a.sym.rng.hi, a.hi))
}
func (a ival) join(b ival) ival {
	if a.sym != b.sym {
		a, b = a.conc(), b.conc()
	}
	lo, hi := a.lo, a.hi
	if b.lo.Cmp(lo) < 0 {
		lo = b.lo
	}
	if b.hi.Cmp(hi) > 0 {
		hi = b.hi
	}
	out := ivb(lo, hi)
	out.sym = a.sym
	return out
}
func (a ival) eq(b ival) bool { return a.sym == b.sym && a.lo.Cmp(b.lo) == 0 && a.hi.Cmp(b.hi) == 0 }
func (a ival) empty() bool    { return a.lo.Cmp(a.hi) > 0 }

// addIv / subIv keep a symbolic base where the arithmetic allows it.
func addIv(a, b ival) ival {
	switch {
	case a.sym != nil && b.sym != nil:
		a, b = a.conc(), b.conc()
	case b.sym != nil:
		a, b = b, a
	}
	out := ivb(new(big.Int).Add(a.lo, b.lo), new(big.Int).Add(a.hi, b.hi))
	out.sym = a.sym
	return out
}
func subIv(a, b ival) ival {
	switch {
	case a.sym != nil && a.sym == b.sym:
		return ivb(new(big.Int).Sub(a.lo, b.hi), new(big.Int).Sub(a.hi, b.lo))
	case b.sym != nil:
		a, b = a.conc(), b.conc()
	}
	out := ivb(new(big.Int).Sub(a.lo, b.hi), new(big.Int).Sub(a.hi, b.lo))
	out.sym = a.sym
	return out
}

// leIv: a <= b for all values; ltIv: a < b (same base: compare offsets).
func leIv(a, b ival) bool {
	if a.sym != b.sym {
		a, b = a.conc(), b.conc()
	}
	return a.hi.Cmp(b.lo) <= 0
}
func ltIv(a, b ival) bool {
	if a.sym != b.sym {
		a, b = a.conc(), b.conc()
	}
	return a.hi.Cmp(b.lo) < 0
}
func nonNeg(a ival) bool { return a.conc().lo.Sign() >= 0 }

func typeRange(t types.Type) ival {
	if b, ok := t.Underlying().(*types.Basic); ok {
		switch b.Kind() {
		case types.Uint64, types.Uint, types.Uintptr:
			return ivb(big.NewInt(0), maxU)
		case types.Int64, types.Int:
			return ivb(minI, maxI)
		case types.Uint8:
			return iv(0, 255)
		case types.Bool:
			return iv(0, 1)
		}
	}
	return ivb(minI, maxU)
}

func isUnsigned(t types.Type) bool {
	b, ok := t.Underlying().(*types.Basic)
	return ok && b.Info()&types.IsUnsigned != 0
}

func digits(n *big.Int) int64 {
	if n.Sign() <= 0 {
		return 1
	}
	return int64(len(n.String()))
}

type env map[ssa.Value]ival

func (e env) clone() env {
	o := make(env, len(e))
	for k, v := range e {
		o[k] = v
	}
	return o
}

type ivObligation struct {
	Fn   *ssa.Function
	Pos  token.Pos
	Kind string
	OK   bool
	Msg  string
}

type ivAnalyzer struct {
	p      *Prog
	obls   []ivObligation
	depth  int
	summar map[string]bool // names of summarised digit writers
	failed string
	nsym   int
	curFn  *ssa.Function
}

// sliceLen evaluates the length interval of a slice-typed value.
func (a *ivAnalyzer) sliceLen(v ssa.Value, e env) (ival, bool) {
	if x, ok := e[v]; ok {
		return x, true
	}
	switch x := v.(type) {
	case *ssa.Slice:
		var base ival
		if pt, ok := x.X.Type().Underlying().(*types.Pointer); ok {
			if arr, ok := pt.Elem().Underlying().(*types.Array); ok {
				base = iv(arr.Len(), arr.Len())
			} else {
				return ival{}, false
			}
		} else {
			b, ok := a.sliceLen(x.X, e)
			if !ok {
				return ival{}, false
			}
			base = b
		}
		lo := iv(0, 0)
		hi := base
		if x.Low != nil {
			l, ok := a.eval(x.Low, e)
			if !ok {
				return ival{}, false
			}
			lo = l
		}
		if x.High != nil {
			h, ok := a.eval(x.High, e)
			if !ok {
				return ival{}, false
			}
			hi = h
		}
		return subIv(hi, lo), true
	}
	return ival{}, false
}

func (a *ivAnalyzer) eval(v ssa.Value, e env) (ival, bool) {
	if x, ok := e[v]; ok {
		return x, true
	}
	switch x := v.(type) {
	case *ssa.Const:
		if x.Value == nil {
			return ival{}, false
		}
		if i, ok := constInt(x); ok {
			if isUnsigned(x.Type()) && i < 0 {
				return ival{}, false
			}
			return iv(i, i), true
		}
		if u, ok := constUint(x); ok {
			return ivb(u, u), true
		}
		if b, ok := constBool(x); ok {
			if b {
				return iv(1, 1), true
			}
			return iv(0, 0), true
		}
		return ival{}, false
	case *ssa.Convert:
		in, ok := a.eval(x.X, e)
		if !ok {
			return ival{}, false
		}
		if in.sym != nil {
			// a conversion that cannot change the value keeps the relation
			tr := typeRange(x.Type())
			if c := in.conc(); c.lo.Cmp(tr.lo) >= 0 && c.hi.Cmp(tr.hi) <= 0 {
				return in, true
			}
			in = in.conc()
		}
		// a conversion to a NARROWER integer type must not lose bits of the value being formatted
		if ws, wt := intBits(x.X.Type()), intBits(x.Type()); ws > 0 && wt > 0 && wt < ws && a.curFn != nil {
			tr := typeRange(x.Type())
			if wt == 32 {
				if isUnsigned(x.Type()) {
					tr = ivb(big.NewInt(0), big.NewInt(1<<32-1))
				} else {
					tr = iv(-1<<31, 1<<31-1)
				}
			}
			c := in.conc()
			fits := c.lo.Cmp(tr.lo) >= 0 && c.hi.Cmp(tr.hi) <= 0
			if wt == 32 || wt == 8 {
				a.oblige(a.curFn, x.Pos(), "narrowing", fits, "value %s converted to %s", c, x.Type())
			}
		}
		from, to := isUnsigned(x.X.Type()), isUnsigned(x.Type())
		if !from && to {
			switch {
			case in.lo.Sign() >= 0:
				return in, true
			case in.hi.Sign() < 0:
				return ivb(new(big.Int).Add(two64, in.lo), new(big.Int).Add(two64, in.hi)), true
			default:
				return ivb(big.NewInt(0), maxU), true
			}
		}
		tr := typeRange(x.Type())
		if in.lo.Cmp(tr.lo) >= 0 && in.hi.Cmp(tr.hi) <= 0 {
			return in, true
		}
		return tr, true
	case *ssa.ChangeType:
		return a.eval(x.X, e)
	case *ssa.UnOp:
		if x.Op == token.SUB {
			in, ok := a.eval(x.X, e)
			if !ok {
				return ival{}, false
			}
			in = in.conc()
			if isUnsigned(x.Type()) {
				switch {
				case in.hi.Sign() == 0:
					return iv(0, 0), true
				case in.lo.Sign() > 0:
					return ivb(new(big.Int).Sub(two64, in.hi), new(big.Int).Sub(two64, in.lo)), true
				default:
					return ivb(big.NewInt(0), maxU), true
				}
			}
			return ivb(new(big.Int).Neg(in.hi), new(big.Int).Neg(in.lo)), true
		}
		return ival{}, false
	case *ssa.BinOp:
		l, ok1 := a.eval(x.X, e)
		r, ok2 := a.eval(x.Y, e)
		if !ok1 || !ok2 {
			return ival{}, false
		}
		var out ival
		if x.Op != token.ADD && x.Op != token.SUB {
			l, r = l.conc(), r.conc()
		}
		switch x.Op {
		case token.ADD:
			out = addIv(l, r)
		case token.SUB:
			out = subIv(l, r)
		case token.MUL:
			if l.lo.Sign() < 0 || r.lo.Sign() < 0 {
				return typeRange(x.Type()), true
			}
			out = ivb(new(big.Int).Mul(l.lo, r.lo), new(big.Int).Mul(l.hi, r.hi))
		case token.QUO:
			if r.lo.Sign() <= 0 || l.lo.Sign() < 0 {
				return typeRange(x.Type()), true
			}
			out = ivb(new(big.Int).Quo(l.lo, r.hi), new(big.Int).Quo(l.hi, r.lo))
		case token.REM:
			if r.lo.Sign() <= 0 || l.lo.Sign() < 0 {
				return typeRange(x.Type()), true
			}
			top := new(big.Int).Sub(r.hi, big.NewInt(1))
			if l.hi.Cmp(top) < 0 {
				top = l.hi
			}
			out = ivb(big.NewInt(0), top)
		case token.EQL, token.NEQ, token.LSS, token.LEQ, token.GTR, token.GEQ:
			return iv(0, 1), true
		default:
			return ival{}, false
		}
		tr := typeRange(x.Type())
		if oc := out.conc(); oc.lo.Cmp(tr.lo) < 0 || oc.hi.Cmp(tr.hi) > 0 {
			return tr, true // may wrap
		}
		return out, true
	case *ssa.Call:
		if isBuiltinCall(x, "len") {
			arg := x.Common().Args[0]
			if s, ok := constString(arg); ok {
				return iv(int64(len(s)), int64(len(s))), true
			}
			if bt, ok := arg.Type().Underlying().(*types.Basic); ok && bt.Info()&types.IsString != 0 {
				if l, ok := e[arg]; ok {
					return l, true // a string parameter is abstracted by its length
				}
				return ival{}, false
			}
			if pt, ok := arg.Type().Underlying().(*types.Pointer); ok {
				if arr, ok := pt.Elem().Underlying().(*types.Array); ok {
					return iv(arr.Len(), arr.Len()), true
				}
			}
			return a.sliceLen(arg, e)
		}
	}
	return ival{}, false
}

func constUint(c *ssa.Const) (*big.Int, bool) {
	if c.Value == nil {
		return nil, false
	}
	s := c.Value.ExactString()
	b, ok := new(big.Int).SetString(s, 10)
	return b, ok
}

// refine narrows the interval of the compared value on a branch edge.
func (a *ivAnalyzer) refine(cond ssa.Value, taken bool, e env) {
	c, neg := normCond(cond)
	if neg {
		taken = !taken
	}
	bo, ok := c.(*ssa.BinOp)
	if !ok {
		return
	}
	l, ok1 := a.eval(bo.X, e)
	r, ok2 := a.eval(bo.Y, e)
	if !ok1 || !ok2 {
		return
	}
	if l.sym != nil {
		return // a value relative to a symbolic length is not narrowed (the relation is worth more)
	}
	r = r.conc()
	op := bo.Op
	if !taken {
		switch op {
		case token.LSS:
			op = token.GEQ
		case token.LEQ:
			op = token.GTR
		case token.GTR:
			op = token.LEQ
		case token.GEQ:
			op = token.LSS
		case token.EQL:
			op = token.NEQ
		case token.NEQ:
			op = token.EQL
		}
	}
	one := big.NewInt(1)
	nl := ivb(l.lo, l.hi)
	switch op {
	case token.LSS:
		if h := new(big.Int).Sub(r.hi, one); h.Cmp(nl.hi) < 0 {
			nl.hi = h
		}
	case token.LEQ:
		if r.hi.Cmp(nl.hi) < 0 {
			nl.hi = new(big.Int).Set(r.hi)
		}
	case token.GTR:
		if lo := new(big.Int).Add(r.lo, one); lo.Cmp(nl.lo) > 0 {
			nl.lo = lo
		}
	case token.GEQ:
		if r.lo.Cmp(nl.lo) > 0 {
			nl.lo = new(big.Int).Set(r.lo)
		}
	case token.EQL:
		if r.lo.Cmp(nl.lo) > 0 {
			nl.lo = new(big.Int).Set(r.lo)
		}
		if r.hi.Cmp(nl.hi) < 0 {
			nl.hi = new(big.Int).Set(r.hi)
		}
	case token.NEQ:
		if r.lo.Cmp(r.hi) == 0 {
			if nl.lo.Cmp(r.lo) == 0 {
				nl.lo = new(big.Int).Add(nl.lo, one)
			} else if nl.hi.Cmp(r.lo) == 0 {
				nl.hi = new(big.Int).Sub(nl.hi, one)
			}
		}
	}
	e[bo.X] = nl
}

func (a *ivAnalyzer) oblige(fn *ssa.Function, pos token.Pos, kind string, ok bool, format string, args ...any) {
	a.obls = append(a.obls, ivObligation{fn, pos, kind, ok, fmt.Sprintf(format, args...)})
}

// analyze runs fn with the given parameter intervals and returns the joined result intervals.
func (a *ivAnalyzer) analyze(fn *ssa.Function, params []ival) ([]ival, bool) {
	if a.depth > 6 || len(fn.Blocks) == 0 {
		a.failed = "call depth or missing body at " + nm(fn)
		return nil, false
	}
	for _, b := range fn.Blocks {
		if inLoop(b) {
			a.failed = "loop in " + nm(fn)
			return nil, false
		}
	}
	a.depth++
	saved := a.curFn
	a.curFn = fn
	defer func() { a.depth--; a.curFn = saved }()
	base := env{}
	for i, q := range fn.Params {
		if i < len(params) && params[i].lo != nil {
			base[q] = params[i] // (slices and strings are abstracted by their length)
		} else if bt, ok := q.Type().Underlying().(*types.Basic); ok && bt.Info()&types.IsString == 0 {
			base[q] = typeRange(q.Type())
		}
	}
	start := len(a.obls) // obligations of earlier call contexts stay; those of this invocation are rebuilt per round
	type edge struct{ from, to int }
	edgeEnv := map[edge]env{}
	inEnv := map[int]env{0: base}
	var results []ival
	// iterate to a fixpoint (the CFG is acyclic: few rounds)
	for round := 0; round < len(fn.Blocks)+2; round++ {
		results = nil
		a.obls = a.obls[:start]
		for _, b := range fn.Blocks {
			var e env
			if b.Index == 0 {
				e = base.clone()
			} else {
				// join the incoming edge environments
				first := true
				for _, pr := range b.Preds {
					pe, ok := edgeEnv[edge{pr.Index, b.Index}]
					if !ok {
						continue
					}
					if first {
						e = pe.clone()
						first = false
						continue
					}
					for k, v := range e {
						if w, ok := pe[k]; ok {
							e[k] = v.join(w)
						} else {
							delete(e, k)
						}
					}
				}
				if first {
					continue // unreachable so far
				}
				// phis
				for _, in := range b.Instrs {
					ph, ok := in.(*ssa.Phi)
					if !ok {
						break
					}
					var acc *ival
					for i, pr := range b.Preds {
						pe, ok := edgeEnv[edge{pr.Index, b.Index}]
						if !ok {
							continue
						}
						v, ok := a.eval(ph.Edges[i], pe)
						if !ok {
							if _, isBasic := ph.Type().Underlying().(*types.Basic); isBasic {
								v = typeRange(ph.Type())
							} else {
								continue
							}
						}
						if acc == nil {
							vv := v
							acc = &vv
						} else {
							j := acc.join(v)
							acc = &j
						}
					}
					if acc != nil {
						e[ph] = *acc
					}
				}
			}
			inEnv[b.Index] = e
			dead := false
			for _, in := range b.Instrs {
				switch x := in.(type) {
				case *ssa.Store:
					if ia, ok := x.Addr.(*ssa.IndexAddr); ok {
						idx, ok1 := a.eval(ia.Index, e)
						var ln ival
						ok2 := false
						if pt, ok := ia.X.Type().Underlying().(*types.Pointer); ok {
							if arr, ok := pt.Elem().Underlying().(*types.Array); ok {
								ln, ok2 = iv(arr.Len(), arr.Len()), true
							}
						} else {
							ln, ok2 = a.sliceLen(ia.X, e)
						}
						if !ok1 || !ok2 {
							a.oblige(fn, instrPos(x), "index", false, "index or length not evaluable")
						} else {
							good := nonNeg(idx) && ltIv(idx, ln)
							a.oblige(fn, instrPos(x), "index", good, "byte stored at index %s of a buffer of length %s", idx, ln)
						}
					}
				case *ssa.Slice:
					// bounds of a reslice
					var ln ival
					ok2 := false
					if pt, ok := x.X.Type().Underlying().(*types.Pointer); ok {
						if arr, ok := pt.Elem().Underlying().(*types.Array); ok {
							ln, ok2 = iv(arr.Len(), arr.Len()), true
						}
					} else {
						ln, ok2 = a.sliceLen(x.X, e)
					}
					for _, bnd := range []ssa.Value{x.Low, x.High} {
						if bnd == nil {
							continue
						}
						bv, ok1 := a.eval(bnd, e)
						if !ok1 || !ok2 {
							a.oblige(fn, instrPos(x), "slice", false, "slice bound not evaluable")
							continue
						}
						good := nonNeg(bv) && leIv(bv, ln)
						a.oblige(fn, instrPos(x), "slice", good, "slice bound %s on a buffer of length %s", bv, ln)
					}
				case *ssa.Call:
					cc := x.Common()
					if isBuiltinCall(x, "copy") {
						dl, ok1 := a.sliceLen(cc.Args[0], e)
						ok2 := false
						var srcLen int64
						if s, ok := constString(cc.Args[1]); ok {
							srcLen, ok2 = int64(len(s)), true
						} else if l, ok := e[cc.Args[1]]; ok && l.lo.Cmp(l.hi) == 0 && l.lo.IsInt64() {
							srcLen, ok2 = l.lo.Int64(), true // a string parameter of known length in this call context
						}
						if ok1 && ok2 {
							a.oblige(fn, instrPos(x), "copy", dl.conc().lo.Cmp(big.NewInt(srcLen)) >= 0, "%d bytes copied into room for %s", srcLen, dl)
						} else {
							a.oblige(fn, instrPos(x), "copy", false, "copy not evaluable")
						}
						continue
					}
					cal := calleeOf(x)
					if cal == nil {
						continue
					}
					switch {
					case a.summar[nm(cal)] && nm(cal) == "fmtInt":
						ln, ok1 := a.sliceLen(cc.Args[0], e)
						v, ok2 := a.eval(cc.Args[1], e)
						if !ok1 || !ok2 {
							a.oblige(fn, instrPos(x), "digits", false, "fmtInt operands not evaluable")
							continue
						}
						v = v.conc()
						d := digits(v.hi)
						res := subIv(ln, iv(1, d)) // at least one digit, at most d
						a.oblige(fn, instrPos(x), "digits", nonNeg(res), "fmtInt writes up to %d digit(s) (value <= %s) into room for %s", d, v.hi, ln)
						e[x] = res
					case a.summar[nm(cal)] && nm(cal) == "fmtFrac":
						ln, ok1 := a.sliceLen(cc.Args[0], e)
						v, ok2 := a.eval(cc.Args[1], e)
						pr, ok3 := a.eval(cc.Args[2], e)
						if !ok1 || !ok2 || !ok3 {
							a.oblige(fn, instrPos(x), "digits", false, "fmtFrac operands not evaluable")
							continue
						}
						v, pr = v.conc(), pr.conc()
						need := new(big.Int).Add(pr.hi, big.NewInt(1))
						lower := subIv(ln, ivb(need, need))
						nl := lower.lo
						a.oblige(fn, instrPos(x), "digits", nonNeg(lower), "fmtFrac writes up to %s byte(s) into room for %s", need, ln)
						// results: nw, nv = v / 10^prec
						plo := new(big.Int).Exp(big.NewInt(10), pr.lo, nil)
						phi := new(big.Int).Exp(big.NewInt(10), pr.hi, nil)
						for _, ref := range *x.Referrers() {
							if ex, ok := ref.(*ssa.Extract); ok {
								if ex.Index == 0 {
									w0 := ivb(nl, ln.hi)
									w0.sym = ln.sym
									e[ex] = w0
								} else {
									e[ex] = ivb(new(big.Int).Quo(v.lo, phi), new(big.Int).Quo(v.hi, plo))
								}
							}
						}
					case cal.Pkg == fn.Pkg && len(cal.Blocks) > 0:
						var ps []ival
						for i, arg := range cc.Args {
							var pv ival
							if _, isSlice := cal.Params[i].Type().Underlying().(*types.Slice); isSlice {
								pv, _ = a.sliceLen(arg, e)
							} else if bt, isB := cal.Params[i].Type().Underlying().(*types.Basic); isB && bt.Info()&types.IsString != 0 {
								if s, isC := constString(arg); isC {
									pv = iv(int64(len(s)), int64(len(s)))
								} else if l, has := e[arg]; has {
									pv = l
								}
							} else {
								pv, _ = a.eval(arg, e)
							}
							ps = append(ps, pv)
						}
						// a slice argument whose length is not a single value gets a symbolic length in the callee;
						// an integer argument that IS that length (f(buf[:w], ..., w)) shares it
						fresh := map[*symv]ival{}
						for i, arg := range cc.Args {
							if _, isSlice := cal.Params[i].Type().Underlying().(*types.Slice); !isSlice || ps[i].lo == nil || ps[i].sym != nil || ps[i].lo.Cmp(ps[i].hi) == 0 {
								continue
							}
							a.nsym++
							sv := &symv{rng: ps[i], id: a.nsym}
							fresh[sv] = ps[i]
							ps[i] = ival{big.NewInt(0), big.NewInt(0), sv}
							if sl, isSl := arg.(*ssa.Slice); isSl && sl.High != nil && (sl.Low == nil || func() bool { z, c := constInt(sl.Low); return c && z == 0 }()) {
								for j, other := range cc.Args {
									if j != i && other == sl.High {
										ps[j] = ival{big.NewInt(0), big.NewInt(0), sv}
									}
								}
							}
						}
						res, ok := a.analyze(cal, ps)
						if !ok {
							a.oblige(fn, instrPos(x), "call", false, "helper %s could not be analysed (%s)", nm(cal), a.failed)
							continue
						}
						for i := range res {
							if base, mine := fresh[res[i].sym]; mine {
								off := res[i]
								off.sym = nil
								res[i] = addIv(base, off)
							}
						}
						if len(res) == 1 {
							e[x] = res[0]
						}
					}
				case *ssa.Return:
					for i, rv := range x.Results {
						v, ok := a.eval(rv, e)
						if !ok {
							v = typeRange(rv.Type())
						}
						if i >= len(results) {
							results = append(results, v)
						} else {
							results[i] = results[i].join(v)
						}
					}
				case *ssa.Panic:
					dead = true
				}
			}
			if dead {
				continue
			}
			// out edges
			if iff := ifOf(b); iff != nil {
				for k, s := range b.Succs {
					ne := e.clone()
					if prm, ok := iff.Cond.(*ssa.Parameter); ok {
						_ = prm
					} else {
						a.refine(iff.Cond, k == 0, ne)
					}
					// infeasible edge?
					feasible := true
					c, _ := normCond(iff.Cond)
					if bo, ok := c.(*ssa.BinOp); ok {
						if v, ok := ne[bo.X]; ok && v.empty() {
							feasible = false
						}
					}
					if feasible {
						edgeEnv[edge{b.Index, s.Index}] = ne
					} else {
						delete(edgeEnv, edge{b.Index, s.Index})
					}
				}
			} else {
				for _, s := range b.Succs {
					edgeEnv[edge{b.Index, s.Index}] = e.clone()
				}
			}
		}
	}
	return results, true
}

func filterObls(in []ivObligation, fn *ssa.Function) []ivObligation {
	var out []ivObligation
	for _, o := range in {
		if o.Fn != fn {
			out = append(out, o)
		}
	}
	return out
}

// intBits: bit width of an integer type (0 if not an integer type; int/uint/uintptr count as 64).
func intBits(t types.Type) int {
	b, ok := t.Underlying().(*types.Basic)
	if !ok || b.Info()&types.IsInteger == 0 {
		return 0
	}
	switch b.Kind() {
	case types.Int8, types.Uint8:
		return 8
	case types.Int16, types.Uint16:
		return 16
	case types.Int32, types.Uint32:
		return 32
	}
	return 64
}
