package main

import (
	"fmt"
	"go/constant"
	"go/types"
	"reflect"
	"strings"

	"golang.org/x/tools/go/ssa"
)

// Engine E8: clone agreement. Two functions are compared for SSA isomorphism: same block
// structure, pairwise equal instructions (kind, operator, field names, numeric constants,
// successor indices), operands in one-to-one correspondence, callees either identical or
// themselves declared counterparts, types equal up to a declared renaming. String constants
// (messages) are ignored. Isomorphic functions compute the same results, errors and panics
// (up to message text) for all inputs: translation validation by structural equivalence.

type isoCtx struct {
	p        *Prog
	typeRen  map[string]string               // type name in A -> type name in B
	fnPairs  map[*ssa.Function]*ssa.Function // declared counterparts (A -> B)
	globals  map[*ssa.Global]*ssa.Global     // discovered correspondence of package-level vars
	globalsR map[*ssa.Global]*ssa.Global
	queue    [][2]*ssa.Function // callee pairs discovered on the way (to be compared too)
	strict   bool               // compare string constants as well
}

func newIso(p *Prog, typeRen map[string]string) *isoCtx {
	return &isoCtx{p: p, typeRen: typeRen, fnPairs: map[*ssa.Function]*ssa.Function{}, globals: map[*ssa.Global]*ssa.Global{}, globalsR: map[*ssa.Global]*ssa.Global{}}
}

func (ic *isoCtx) typeEq(a, b types.Type) bool {
	sa := types.TypeString(a, func(p *types.Package) string { return "" })
	sb := types.TypeString(b, func(p *types.Package) string { return "" })
	for from, to := range ic.typeRen {
		sa = replaceIdent(sa, from, to)
	}
	return sa == sb
}

func replaceIdent(s, from, to string) string {
	// replace whole identifiers only
	var out strings.Builder
	i := 0
	for i < len(s) {
		j := strings.Index(s[i:], from)
		if j < 0 {
			out.WriteString(s[i:])
			break
		}
		j += i
		before := j == 0 || !isIdentChar(s[j-1])
		after := j+len(from) >= len(s) || !isIdentChar(s[j+len(from)])
		out.WriteString(s[i:j])
		if before && after {
			out.WriteString(to)
		} else {
			out.WriteString(from)
		}
		i = j + len(from)
	}
	return out.String()
}

func isIdentChar(c byte) bool {
	return c == '_' || c >= '0' && c <= '9' || c >= 'a' && c <= 'z' || c >= 'A' && c <= 'Z'
}

// compare returns "" when fa and fb are isomorphic, else a description of the first difference.
func (ic *isoCtx) compare(fa, fb *ssa.Function) string {
	if len(fa.Blocks) != len(fb.Blocks) {
		return fmt.Sprintf("different control-flow shape: %d vs %d basic blocks", len(fa.Blocks), len(fb.Blocks))
	}
	if len(fa.Params) != len(fb.Params) {
		return "different number of parameters"
	}
	vm := map[ssa.Value]ssa.Value{}
	rm := map[ssa.Value]ssa.Value{}
	bind := func(a, b ssa.Value) bool {
		if x, ok := vm[a]; ok {
			return x == b
		}
		if y, ok := rm[b]; ok {
			return y == a
		}
		vm[a], rm[b] = b, a
		return true
	}
	for i := range fa.Params {
		if !ic.typeEq(fa.Params[i].Type(), fb.Params[i].Type()) {
			return fmt.Sprintf("parameter %d has type %s vs %s", i, fa.Params[i].Type(), fb.Params[i].Type())
		}
		bind(fa.Params[i], fb.Params[i])
	}
	for i := range fa.FreeVars {
		if i < len(fb.FreeVars) {
			bind(fa.FreeVars[i], fb.FreeVars[i])
		}
	}
	// first pass: bind instruction values pairwise (so that phis can refer forward)
	for bi := range fa.Blocks {
		ba, bb := fa.Blocks[bi], fb.Blocks[bi]
		if len(ba.Instrs) != len(bb.Instrs) {
			return fmt.Sprintf("block %d has %d vs %d instructions (first instruction at %s)", bi, len(ba.Instrs), len(bb.Instrs), ic.p.Pos(instrPos(ba.Instrs[0])))
		}
		if len(ba.Succs) != len(bb.Succs) || len(ba.Preds) != len(bb.Preds) {
			return fmt.Sprintf("block %d has different edges", bi)
		}
		for k := range ba.Succs {
			if ba.Succs[k].Index != bb.Succs[k].Index {
				return fmt.Sprintf("block %d branches to different targets", bi)
			}
		}
		for k := range ba.Preds {
			if ba.Preds[k].Index != bb.Preds[k].Index {
				return fmt.Sprintf("block %d has predecessors in a different order", bi)
			}
		}
		for ii := range ba.Instrs {
			ia, ib := ba.Instrs[ii], bb.Instrs[ii]
			if reflect.TypeOf(ia) != reflect.TypeOf(ib) {
				return fmt.Sprintf("%s: %T vs %T (%s | %s)", ic.p.Pos(instrPos(ia)), ia, ib, ia, ib)
			}
			if va, ok := ia.(ssa.Value); ok {
				vb := ib.(ssa.Value)
				if !bind(va, vb) {
					return fmt.Sprintf("%s: value binding conflict", ic.p.Pos(instrPos(ia)))
				}
			}
		}
	}
	opEq := func(a, b ssa.Value, where ssa.Instruction) string {
		if a == nil || b == nil {
			if a == nil && b == nil {
				return ""
			}
			return fmt.Sprintf("%s: operand present on one side only", ic.p.Pos(instrPos(where)))
		}
		switch x := a.(type) {
		case *ssa.Const:
			y, ok := b.(*ssa.Const)
			if !ok {
				return fmt.Sprintf("%s: constant vs %s", ic.p.Pos(instrPos(where)), b)
			}
			if (x.Value == nil) != (y.Value == nil) {
				return fmt.Sprintf("%s: nil vs non-nil constant", ic.p.Pos(instrPos(where)))
			}
			if x.Value != nil {
				if x.Value.Kind() == constant.String && !ic.strict {
					return ""
				}
				if x.Value.Kind() != y.Value.Kind() || x.Value.ExactString() != y.Value.ExactString() {
					return fmt.Sprintf("%s: constant %s vs %s", ic.p.Pos(instrPos(where)), x.Value.ExactString(), y.Value.ExactString())
				}
			}
			return ""
		case *ssa.Global:
			y, ok := b.(*ssa.Global)
			if !ok {
				return fmt.Sprintf("%s: global vs %s", ic.p.Pos(instrPos(where)), b)
			}
			if x == y {
				return ""
			}
			if g, ok := ic.globals[x]; ok {
				if g != y {
					return fmt.Sprintf("%s: package variable %s corresponds to %s elsewhere but to %s here", ic.p.Pos(instrPos(where)), nm(x), nm(g), nm(y))
				}
				return ""
			}
			if g, ok := ic.globalsR[y]; ok && g != x {
				return fmt.Sprintf("%s: package variable %s vs %s (already matched with %s)", ic.p.Pos(instrPos(where)), nm(x), nm(y), nm(g))
			}
			if !ic.typeEq(x.Type(), y.Type()) {
				return fmt.Sprintf("%s: package variables %s and %s have different types", ic.p.Pos(instrPos(where)), nm(x), nm(y))
			}
			ic.globals[x], ic.globalsR[y] = y, x
			return ""
		case *ssa.Function:
			y, ok := b.(*ssa.Function)
			if !ok {
				return fmt.Sprintf("%s: function vs %s", ic.p.Pos(instrPos(where)), b)
			}
			return ic.calleeEq(x, y, where)
		case *ssa.Builtin:
			y, ok := b.(*ssa.Builtin)
			if !ok || nm(x) != nm(y) {
				return fmt.Sprintf("%s: builtin %s vs %s", ic.p.Pos(instrPos(where)), nm(x), b)
			}
			return ""
		}
		if vm[a] != b {
			return fmt.Sprintf("%s: operand %s corresponds to %v, found %s", ic.p.Pos(instrPos(where)), nm(a), nameOf(vm[a]), nm(b))
		}
		return ""
	}
	for bi := range fa.Blocks {
		ba, bb := fa.Blocks[bi], fb.Blocks[bi]
		for ii := range ba.Instrs {
			ia, ib := ba.Instrs[ii], bb.Instrs[ii]
			pos := ic.p.Pos(instrPos(ia))
			if va, ok := ia.(ssa.Value); ok {
				if !ic.typeEq(va.Type(), ib.(ssa.Value).Type()) {
					return fmt.Sprintf("%s: result type %s vs %s", pos, va.Type(), ib.(ssa.Value).Type())
				}
			}
			switch x := ia.(type) {
			case *ssa.BinOp:
				if x.Op != ib.(*ssa.BinOp).Op {
					return fmt.Sprintf("%s: operator %s vs %s", pos, x.Op, ib.(*ssa.BinOp).Op)
				}
			case *ssa.UnOp:
				y := ib.(*ssa.UnOp)
				if x.Op != y.Op || x.CommaOk != y.CommaOk {
					return fmt.Sprintf("%s: operator %s vs %s", pos, x.Op, y.Op)
				}
			case *ssa.FieldAddr:
				y := ib.(*ssa.FieldAddr)
				na, nb := nm(structOf(x.X.Type()).Field(x.Field)), nm(structOf(y.X.Type()).Field(y.Field))
				if na != nb {
					return fmt.Sprintf("%s: field %s vs %s", pos, na, nb)
				}
			case *ssa.Field:
				y := ib.(*ssa.Field)
				na, nb := nm(structOf(x.X.Type()).Field(x.Field)), nm(structOf(y.X.Type()).Field(y.Field))
				if na != nb {
					return fmt.Sprintf("%s: field %s vs %s", pos, na, nb)
				}
			case *ssa.Extract:
				if x.Index != ib.(*ssa.Extract).Index {
					return fmt.Sprintf("%s: extract #%d vs #%d", pos, x.Index, ib.(*ssa.Extract).Index)
				}
			case *ssa.TypeAssert:
				y := ib.(*ssa.TypeAssert)
				if x.CommaOk != y.CommaOk || !ic.typeEq(x.AssertedType, y.AssertedType) {
					return fmt.Sprintf("%s: type assertion differs", pos)
				}
			case *ssa.Lookup:
				if x.CommaOk != ib.(*ssa.Lookup).CommaOk {
					return fmt.Sprintf("%s: lookup comma-ok differs", pos)
				}
			case *ssa.Alloc:
				if x.Heap != ib.(*ssa.Alloc).Heap {
					// escape analysis hints do not change behaviour
				}
			case ssa.CallInstruction:
				cx, cy := x.Common(), ib.(ssa.CallInstruction).Common()
				if cx.IsInvoke() != cy.IsInvoke() {
					return fmt.Sprintf("%s: interface call vs static call", pos)
				}
				if cx.IsInvoke() && nm(cx.Method) != nm(cy.Method) {
					return fmt.Sprintf("%s: invokes %s vs %s", pos, nm(cx.Method), nm(cy.Method))
				}
				if len(cx.Args) != len(cy.Args) {
					return fmt.Sprintf("%s: different number of arguments", pos)
				}
			}
			opsA, opsB := ia.Operands(nil), ib.Operands(nil)
			if len(opsA) != len(opsB) {
				return fmt.Sprintf("%s: different number of operands", pos)
			}
			for k := range opsA {
				if d := opEq(*opsA[k], *opsB[k], ia); d != "" {
					return d + fmt.Sprintf(" [%s | %s]", ia, ib)
				}
			}
		}
	}
	// anonymous functions pairwise
	if len(fa.AnonFuncs) != len(fb.AnonFuncs) {
		return "different number of closures"
	}
	for i := range fa.AnonFuncs {
		if d := ic.compare(fa.AnonFuncs[i], fb.AnonFuncs[i]); d != "" {
			return "closure: " + d
		}
	}
	return ""
}

func nameOf(v ssa.Value) string {
	if v == nil {
		return "<none>"
	}
	return nm(v)
}

// calleeEq: identical functions, declared counterparts, or same-named methods/functions of corresponding types (queued for comparison).
func (ic *isoCtx) calleeEq(a, b *ssa.Function, where ssa.Instruction) string {
	if a == b {
		return ""
	}
	if origin(a) == origin(b) && a.Origin() != nil {
		// two instances of the same generic: same code, compare type arguments
		if fmt.Sprint(a.TypeArgs()) == fmt.Sprint(b.TypeArgs()) {
			return ""
		}
	}
	if x, ok := ic.fnPairs[a]; ok {
		if x != b {
			return fmt.Sprintf("%s: calls %s, whose counterpart is %s, not %s", ic.p.Pos(instrPos(where)), a, x, b)
		}
		return ""
	}
	if a.Parent() != nil && b.Parent() != nil {
		return "" // closures are compared with their parents
	}
	if nm(a) != nm(b) {
		return fmt.Sprintf("%s: calls %s vs %s", ic.p.Pos(instrPos(where)), a, b)
	}
	// same name: receivers must correspond
	ra, rb := a.Signature.Recv(), b.Signature.Recv()
	if (ra == nil) != (rb == nil) {
		return fmt.Sprintf("%s: calls %s vs %s", ic.p.Pos(instrPos(where)), a, b)
	}
	if ra != nil && !ic.typeEq(ra.Type(), rb.Type()) {
		return fmt.Sprintf("%s: calls %s vs %s (different receivers)", ic.p.Pos(instrPos(where)), a, b)
	}
	ic.fnPairs[a] = b
	ic.queue = append(ic.queue, [2]*ssa.Function{a, b})
	return ""
}
