package main

import (
	"fmt"
	"go/constant"
	"go/token"
	"go/types"
	"math/big"
	"sort"
	"strings"

	"golang.org/x/tools/go/ssa"
)

func init() { register("C20", checkC20) }

func checkC20(c *Ctx) {
	r := c.R
	r.Rule("R20.1", "formatter totality by write budget: an interval analysis of shortDurFormat and its helpers over ALL int64 durations and both styles (values refined by the >=, <, /, % against constants; digit writers summarised by the number of digits of the largest possible value) shows that every byte store and every reslice stays inside the fixed array, i.e. the right-to-left write cursor never goes below 0, and the returned start index lies in [0, len]")
	r.Rule("R20.2", "formatter/parser unit agreement: every unit suffix the compact formatter writes is a key of the parser's unitMap and the divisor the formatter used for that component equals unitMap's multiplier (necessary for parse(format(d)) == d)")
	r.Rule("R20.3", "the parser is the standard one plus the day unit: ParseDuration, leadingInt, leadingFraction, quote (and the digit writers fmtInt, fmtFrac) are SSA-isomorphic to their originals in package time of the toolchain, and unitMap equals time's unitMap plus exactly \"d\" = 24h: same accept/reject decision and same value on everything time.ParseDuration accepts")
	r.Assume("fmtInt writes exactly the decimal digits of its argument and fmtFrac at most prec digits plus the point (they are shown to be copies of time.fmtInt/time.fmtFrac by R20.3)")
	r.Assume("exact invertibility parse(format(d)) == d for every value is NOT decided: it depends on floating-point fraction arithmetic in the parser")
	for _, tags := range c.Configs([]string{""}, []string{"", "verbose"}) {
		p := c.Prog(tags)
		if p == nil {
			continue
		}
		copies := c20Clones(c, p)
		c20Budget(c, p, copies)
		c20Units(c, p)
		c20Tables(c, p)
		c20UnitHasNumber(c, p)
		c20ZeroHasText(c, p)
	}
	c.Floor["R20.1"] = 12
	c.Floor["R20.2"] = 7
	c.Floor["R20.3"] = 7
}

func c20Clones(c *Ctx, p *Prog) map[string]bool {
	r := c.R
	tp := p.Pkg("time")
	ok := map[string]bool{}
	if tp == nil {
		r.Unk("R20.3", "time", "-", "standard library package time not loaded")
		return ok
	}
	ic := newIso(p, map[string]string{})
	pairs := []string{"ParseDuration", "leadingFraction", "quote", "fmtInt", "fmtFrac"}
	done := map[*ssa.Function]bool{}
	cmp := func(fa, fb *ssa.Function, name string) {
		if done[fa] {
			return
		}
		done[fa] = true
		key := "clone:times." + name + "~time." + name
		if d := ic.compare(fa, fb); d != "" {
			r.Bad("R20.3", key, p.FuncPos(fa), "not isomorphic to time.%s: %s — agreement with the standard parser/formatter is not established", name, d)
		} else {
			ok[name] = true
			r.Ok("R20.3", key, p.FuncPos(fa), "isomorphic to the toolchain's time.%s (%d blocks)", name, len(fa.Blocks))
		}
	}
	for _, n := range pairs {
		fa, fb := p.Func(p.Times, n), tp.Func(n)
		if fa == nil || fb == nil {
			r.Bad("R20.3", "clone:times."+n, "-", "function missing (repo: %v, time: %v)", fa != nil, fb != nil)
			continue
		}
		ic.fnPairs[fa] = fb
		cmp(fa, fb, n)
	}
	for len(ic.queue) > 0 {
		pr := ic.queue[0]
		ic.queue = ic.queue[1:]
		if origin(pr[0]).Pkg == p.Times {
			cmp(pr[0], pr[1], nm(pr[0]))
		}
	}
	// package variables matched (unitMap, errLeadingInt)
	var gl []string
	for a, b := range ic.globals {
		gl = append(gl, nm(a)+"~"+nm(b.Pkg.Pkg)+"."+nm(b))
	}
	sort.Strings(gl)
	r.Extra["matched_package_variables"] = gl
	// unitMap
	mine, err1 := mapLiteral(p, p.Times, "unitMap")
	std, err2 := mapLiteral(p, tp, "unitMap")
	if err1 != nil || err2 != nil {
		r.Unk("R20.3", "table:unitMap", "-", "unitMap literals: %v %v", err1, err2)
		return ok
	}
	toMap := func(kvs []KV) map[string]string {
		o := map[string]string{}
		for _, kv := range kvs {
			o[constant.StringVal(kv.K)] = kv.V.ExactString()
		}
		return o
	}
	mm, sm := toMap(mine), toMap(std)
	var probs []string
	for k, v := range sm {
		if mm[k] != v {
			probs = append(probs, fmt.Sprintf("unit %q is %s here but %s in package time", k, mm[k], v))
		}
	}
	for k, v := range mm {
		if _, in := sm[k]; !in {
			if k == "d" && v == "86400000000000" {
				continue
			}
			probs = append(probs, fmt.Sprintf("extra unit %q = %s", k, v))
		}
	}
	if mm["d"] != "86400000000000" {
		probs = append(probs, "the day unit is not 24h")
	}
	sort.Strings(probs)
	r.Check(len(probs) == 0, "R20.3", "table:unitMap", p.Pos(p.Global(p.Times, "unitMap").Pos()), fmt.Sprintf("time's %d units plus \"d\"=24h", len(sm)), strings.Join(probs, "; "))
	return ok
}

func c20Budget(c *Ctx, p *Prog, copies map[string]bool) {
	r := c.R
	sdf := p.Func(p.Times, "shortDurFormat")
	if sdf == nil {
		r.Unk("R20.1", "shortDurFormat", "-", "not found")
		return
	}
	if !copies["fmtInt"] || !copies["fmtFrac"] {
		r.Unk("R20.1", "summaries", p.FuncPos(sdf), "the digit writers are not established copies of time.fmtInt/time.fmtFrac: their write-size summaries are not justified")
		return
	}
	a := &ivAnalyzer{p: p, summar: map[string]bool{"fmtInt": true, "fmtFrac": true}}
	var params []ival
	for _, q := range sdf.Params {
		switch q.Type().String() {
		case "time.Duration":
			params = append(params, ivb(minI, maxI))
		case "bool":
			params = append(params, iv(0, 1))
		default:
			params = append(params, ival{})
		}
	}
	res, ok := a.analyze(sdf, params)
	if !ok {
		r.Unk("R20.1", "shortDurFormat", p.FuncPos(sdf), "not analysable: %s", a.failed)
		return
	}
	// dedupe obligations by (fn, pos, kind) keeping the conjunction
	type k3 struct {
		fn   string
		pos  token.Pos
		kind string
	}
	agg := map[k3]*ivObligation{}
	var order []k3
	for i := range a.obls {
		o := a.obls[i]
		k := k3{nm(o.Fn), o.Pos, o.Kind}
		if x, in := agg[k]; in {
			if !o.OK {
				x.OK = false
				x.Msg = o.Msg
			}
		} else {
			cp := o
			agg[k] = &cp
			order = append(order, k)
		}
	}
	sort.Slice(order, func(i, j int) bool { return order[i].pos < order[j].pos })
	counts := map[string]int{}
	for _, k := range order {
		o := agg[k]
		counts[k.fn+":"+k.kind]++
		key := fmt.Sprintf("budget:%s:%s#%d", k.fn, k.kind, counts[k.fn+":"+k.kind])
		if o.OK {
			r.Ok("R20.1", key, p.Pos(o.Pos), "%s", o.Msg)
		} else {
			if k.kind == "narrowing" {
				r.Bad("R20.1", key, p.Pos(o.Pos), "%s: for some duration bits of the value are cut off before it is formatted (the text is well-formed but is another duration)", o.Msg)
				continue
			}
			r.Bad("R20.1", key, p.Pos(o.Pos), "%s: for some duration the right-to-left write runs out of the fixed buffer (index out of range panic)", o.Msg)
		}
	}
	// the returned start index
	if len(res) == 1 {
		ln := int64(0)
		if pt, ok := sdf.Params[0].Type().Underlying().(interface{ Elem() interface{} }); ok {
			_ = pt
		}
		if s := sdf.Params[0].Type().String(); strings.HasPrefix(s, "*[") {
			fmt.Sscanf(s, "*[%d]byte", &ln)
		}
		good := res[0].lo.Sign() >= 0 && res[0].hi.Cmp(big.NewInt(ln)) <= 0
		r.Check(good, "R20.1", "budget:result", p.FuncPos(sdf), fmt.Sprintf("the start index lies in %s within [0,%d]", res[0], ln), fmt.Sprintf("the returned start index can be %s, outside [0,%d]", res[0], ln))
		r.Extra["write_cursor_range"] = res[0].String()
	}
	// shortDur slices arr[n:] with n = the result, on the same array size
	if sd := p.Func(p.Times, "shortDur"); sd != nil {
		ok := false
		for _, cs := range callsTo(sd, sdf) {
			for _, ref := range *cs.Value().Referrers() {
				if sl, isS := ref.(*ssa.Slice); isS && sl.Low == cs.Value() && sl.High == nil {
					if strip(sl.X) == strip(cs.Common().Args[0]) {
						ok = true
					}
				}
			}
		}
		r.Check(ok, "R20.1", "shortDur:uses-result", p.FuncPos(sd), "the text is the array from the returned index", "shortDur does not return the array tail starting at the index shortDurFormat returned")
	}
}

// c20Units: R20.2
func c20Units(c *Ctx, p *Prog) {
	r := c.R
	sdf := p.Func(p.Times, "shortDurFormat")
	um, err := mapLiteral(p, p.Times, "unitMap")
	if sdf == nil || err != nil {
		r.Unk("R20.2", "anchors", "-", "shortDurFormat/unitMap not found")
		return
	}
	units2 := map[string]*big.Int{}
	for _, kv := range um {
		b, _ := new(big.Int).SetString(kv.V.ExactString(), 10)
		units2[constant.StringVal(kv.K)] = b
	}
	// the minus sign is written on every way out: the branch that stores '-' for a negative duration belongs to a test
	// that dominates every return of the formatter (an early return from one style would print |d| for -d)
	{
		var signIf *ssa.BasicBlock
		for _, b := range sdf.Blocks {
			for _, in := range b.Instrs {
				st, ok := in.(*ssa.Store)
				if !ok {
					continue
				}
				if k, isC := constInt(st.Val); !isC || k != '-' {
					continue
				}
				if _, isIA := st.Addr.(*ssa.IndexAddr); !isIA {
					continue
				}
				if gs := guardsOf(b); len(gs) > 0 {
					signIf = gs[len(gs)-1].If.Block()
				}
			}
		}
		if signIf == nil {
			r.Unk("R20.2", "sign:every-exit", p.FuncPos(sdf), "no guarded store of '-' found in the formatter")
		} else {
			rets, _ := exitBlocks(sdf)
			var early []string
			for _, rb := range rets {
				if !signIf.Dominates(rb) {
					early = append(early, p.Pos(instrPos(rb.Instrs[len(rb.Instrs)-1])))
				}
			}
			sort.Strings(early)
			r.Check(len(early) == 0, "R20.2", "sign:every-exit", p.Pos(instrPos(signIf.Instrs[len(signIf.Instrs)-1])), "every return of the formatter comes after the sign step",
				"the formatter can return (at "+strings.Join(early, ", ")+") without passing the step that writes '-' for a negative duration: such durations are printed as their absolute value and parse back to another duration")
		}
	}
	fmtInt := p.Func(p.Times, "fmtInt")
	// a component is printed exactly when IT is non-zero: the innermost "x > 0" test around a digit writer tests the
	// value that is written (sibling blocks copied from one another keep the neighbour's test otherwise)
	nG := 0
	var fmtCalls []ssa.CallInstruction
	{
		var tree []*ssa.Function
		for fn := range staticReach([]*ssa.Function{sdf}, func(f *ssa.Function) bool { return f.Pkg != p.Times }) {
			tree = append(tree, fn)
		}
		sort.Slice(tree, func(i, j int) bool { return shortName(tree[i]) < shortName(tree[j]) })
		for _, fn := range tree {
			fmtCalls = append(fmtCalls, callsTo(fn, fmtInt)...)
		}
	}
	for _, cs := range fmtCalls {
		gs := guardsOf(cs.Block())
		if len(gs) == 0 {
			continue
		}
		g := gs[len(gs)-1]
		cond, neg := normCond(g.If.Cond)
		bo, ok := cond.(*ssa.BinOp)
		if !ok || (g.Succ == 0) == neg {
			continue
		}
		z, isC := constInt(bo.Y)
		if !isC || z != 0 || (bo.Op != token.GTR && bo.Op != token.NEQ) {
			continue
		}
		nG++
		arg := cs.Common().Args[1]
		key := fmt.Sprintf("component-test#%d", nG)
		same := strip(arg) == strip(bo.X)
		if ab, isB := strip(arg).(*ssa.BinOp); isB && (ab.Op == token.REM || ab.Op == token.QUO) && strip(ab.X) == strip(bo.X) {
			same = true // the low part of the tested running value (u % 60 under u > 0)
		}
		if la, okA := strip(arg).(*ssa.UnOp); okA && la.Op == token.MUL {
			if lb, okB := strip(bo.X).(*ssa.UnOp); okB && lb.Op == token.MUL && sameCell(la.X, lb.X, 0) {
				same = true // two reads of the same cell (parts[i], part.value)
			}
		}
		r.Check(same, "R20.2", key, p.Pos(instrPos(cs)), "the component written is the one tested non-zero",
			fmt.Sprintf("the digit writer at %s prints one component under the non-zero test of another (%s tested at %s): the component is dropped when the other one is zero and printed as \"0\"/empty when only the other is set, so the text is another duration", p.Pos(instrPos(cs)), bo.X.Name(), p.Pos(instrPos(g.If))))
	}
	if nG < 1 {
		r.Ok("R20.2", "component-test", p.FuncPos(sdf), "no digit writer sits directly under a non-zero test of a component (%d digit-writer call(s) in the formatter)", len(fmtCalls))
	}
	n := 0
	var fracParam *ssa.Parameter
	for _, q := range sdf.Params {
		if q.Type().String() == "bool" {
			fracParam = q
		}
	}
	// Every call of the digit writer in the compact style (the formatter itself and the helpers it is cut into,
	// entered with their call-site context) is one component: its unit is what the same block wrote before it
	// (constant bytes right to left, or a copied string - possibly a parameter bound at the call site), its value's
	// divisor is read off the value's term.
	te := newTermEval(p)
	te.noInline = func(f *ssa.Function) bool { return f == fmtInt || nm(f) == "fmtFrac" }
	sites, _ := te.callsOf(sdf, func(f *ssa.Function) bool { return f.Pkg == p.Times && f != fmtInt && nm(f) != "fmtFrac" })
	for _, site := range sites {
		x, isCall := site.Instr.(*ssa.Call)
		if !isCall || calleeOf(x) != fmtInt {
			continue
		}
		// only the compact style has its own units; the fractional style is the standard library's algorithm (h, m, s)
		compact := false
		for _, g := range site.guards() {
			cond, neg := normCond(g.If.Cond)
			if cond == ssa.Value(fracParam) && ((g.Succ == 1) != neg) {
				compact = true
			}
		}
		if !compact {
			continue
		}
		var suffix []byte // in store order (right to left)
		var copied string
		for _, in := range x.Block().Instrs {
			if in == ssa.Instruction(x) {
				break
			}
			switch y := in.(type) {
			case *ssa.Store:
				if _, ok := y.Addr.(*ssa.IndexAddr); ok {
					if v, ok := constInt(y.Val); ok {
						suffix = append(suffix, byte(v))
					}
				}
			case *ssa.Call:
				if isBuiltinCall(y, "copy") {
					if t := te.eval(y.Common().Args[1], site.Ctx); t.Op == "const" {
						if cv, ok := t.V.(*ssa.Const); ok && cv.Value != nil && cv.Value.Kind() == constant.String {
							copied = constant.StringVal(cv.Value)
						}
					}
				}
				if calleeOf(y) == fmtInt {
					suffix, copied = nil, ""
				}
			}
		}
		unit := copied
		if unit == "" {
			rev := make([]byte, len(suffix))
			for i := range suffix {
				rev[len(suffix)-1-i] = suffix[i]
			}
			unit = string(rev)
		}
		if unit == "" || unit == "-" {
			continue
		}
		// divisor of the value operand
		div := divisorOfTerm(te.eval(x.Common().Args[1], site.Ctx))
		key := "unit:" + unit
		n++
		mult, in := units2[unit]
		switch {
		case !in:
			r.Bad("R20.2", key, p.Pos(instrPos(x)), "the formatter writes the unit %q, which the parser's unitMap does not know: the text cannot be parsed back", unit)
		case div == nil:
			r.Unk("R20.2", key, p.Pos(instrPos(x)), "the divisor of the %q component could not be determined", unit)
		case div.Cmp(mult) != 0:
			r.Bad("R20.2", key, p.Pos(instrPos(x)), "the %q component is computed with divisor %s but the parser multiplies %q by %s", unit, div, unit, mult)
		default:
			r.Ok("R20.2", key, p.Pos(instrPos(x)), "component divisor %s = unitMap[%q]", div, unit)
		}
	}
	// components kept in a local table {unit, value} that a loop walks (the seven copies folded into one loop):
	// element k pairs the unit text stored into it with the value stored into it
	if n < 7 {
		for g := range regionOf(p, sdf, func(f *ssa.Function) bool { return f.Pkg == p.Times }) {
			for _, b := range g.Blocks {
				for _, in := range b.Instrs {
					al, ok := in.(*ssa.Alloc)
					if !ok {
						continue
					}
					pt, ok := al.Type().Underlying().(*types.Pointer)
					if !ok {
						continue
					}
					arr, ok := pt.Elem().Underlying().(*types.Array)
					if !ok {
						continue
					}
					st, ok := arr.Elem().Underlying().(*types.Struct)
					if !ok || st.NumFields() != 2 {
						continue
					}
					compact := g != sdf
					for _, gd := range guardsOf(b) {
						cond, neg := normCond(gd.If.Cond)
						if cond == ssa.Value(fracParam) && ((gd.Succ == 1) != neg) {
							compact = true
						}
					}
					if !compact || !usedInLoop(al) {
						continue
					}
					units := map[int64]string{}
					vals := map[int64]ssa.Value{}
					for _, ref := range *al.Referrers() {
						ia, ok := ref.(*ssa.IndexAddr)
						if !ok {
							continue
						}
						k, isC := constInt(ia.Index)
						if !isC {
							continue
						}
						for _, r2 := range *ia.Referrers() {
							fa, ok := r2.(*ssa.FieldAddr)
							if !ok {
								continue
							}
							for _, r3 := range *fa.Referrers() {
								if stv, ok := r3.(*ssa.Store); ok && stv.Addr == ssa.Value(fa) {
									if us, isS := constString(stv.Val); isS {
										units[k] = us
									} else {
										vals[k] = stv.Val
									}
								}
							}
						}
					}
					for k := int64(0); k < arr.Len(); k++ {
						unit, v := units[k], vals[k]
						if unit == "" || v == nil {
							continue
						}
						div := divisorOfTerm(te.eval(v, nil))
						key := "unit:" + unit
						n++
						mult, in := units2[unit]
						switch {
						case !in:
							r.Bad("R20.2", key, p.Pos(instrPos(al)), "the formatter writes the unit %q, which the parser's unitMap does not know: the text cannot be parsed back", unit)
						case div == nil:
							r.Unk("R20.2", key, p.Pos(instrPos(al)), "the divisor of the %q component could not be determined", unit)
						case div.Cmp(mult) != 0:
							r.Bad("R20.2", key, p.Pos(instrPos(al)), "the %q component is computed with divisor %s but the parser multiplies %q by %s", unit, div, unit, mult)
						default:
							r.Ok("R20.2", key, p.Pos(instrPos(al)), "component divisor %s = unitMap[%q] (table element %d)", div, unit, k)
						}
					}
				}
			}
		}
	}
	// components described by a package-level table {suffix, size}: the size IS the divisor (some division in the
	// formatter divides by the table's size field), and each suffix must be the parser's unit of that size
	if n < 7 {
		region := regionOf(p, sdf, func(f *ssa.Function) bool { return f.Pkg == p.Times })
		tables := map[*ssa.Global]bool{}
		dividesBy := map[*ssa.Global]bool{}
		for g := range region {
			for _, b := range g.Blocks {
				for _, in := range b.Instrs {
					for _, op := range in.Operands(nil) {
						if gl, ok := (*op).(*ssa.Global); ok && gl.Pkg == p.Times {
							tables[gl] = true
						}
					}
					if bo, ok := in.(*ssa.BinOp); ok && (bo.Op == token.QUO || bo.Op == token.REM) {
						// y = table[i].size (through a copied element or directly)
						var walk func(v ssa.Value, d int) *ssa.Global
						walk = func(v ssa.Value, d int) *ssa.Global {
							if d > 6 || v == nil {
								return nil
							}
							switch x := v.(type) {
							case *ssa.Global:
								return x
							case *ssa.UnOp:
								return walk(x.X, d+1)
							case *ssa.Field:
								return walk(x.X, d+1)
							case *ssa.FieldAddr:
								return walk(x.X, d+1)
							case *ssa.Index:
								return walk(x.X, d+1)
							case *ssa.IndexAddr:
								return walk(x.X, d+1)
							case *ssa.Alloc:
								for _, ref := range *x.Referrers() {
									if st, ok := ref.(*ssa.Store); ok && st.Addr == ssa.Value(x) {
										if gl := walk(st.Val, d+1); gl != nil {
											return gl
										}
									}
								}
							}
							return nil
						}
						if gl := walk(bo.Y, 0); gl != nil {
							dividesBy[gl] = true
						}
					}
				}
			}
		}
		for gl := range tables {
			leaves, ok := p.globalLeaves(gl)
			if !ok || !dividesBy[gl] {
				continue
			}
			// elements: k.f0 = suffix (string), k.f1 = size (int)
			for k := int64(0); k < 16; k++ {
				sv, ok1 := leaves[fmt.Sprintf("%d.f0.", k)]
				zv, ok2 := leaves[fmt.Sprintf("%d.f1.", k)]
				if !ok1 || !ok2 || sv.Kind() != constant.String {
					continue
				}
				unit := constant.StringVal(sv)
				size, okb := new(big.Int).SetString(zv.ExactString(), 10)
				if !okb {
					continue
				}
				n++
				key := "unit:" + unit
				mult, in := units2[unit]
				switch {
				case !in:
					r.Bad("R20.2", key, p.Pos(gl.Pos()), "the formatter's unit table holds %q, which the parser's unitMap does not know: the text cannot be parsed back", unit)
				case size.Cmp(mult) != 0:
					r.Bad("R20.2", key, p.Pos(gl.Pos()), "the %q component is computed with divisor %s (unit table) but the parser multiplies %q by %s", unit, size, unit, mult)
				default:
					r.Ok("R20.2", key, p.Pos(gl.Pos()), "unit table: size %s = unitMap[%q]", size, unit)
				}
			}
		}
	}
	if n < 7 {
		r.Unk("R20.2", "unit:count", p.FuncPos(sdf), "only %d unit components recognised in the formatter", n)
	}
}

// divisorOf: v is (phi of 0 and) X / c1 / c2 ... or X % m (remainder: divisor 1 relative to ns), returns the product of the divisors.
func divisorOf(v ssa.Value) *big.Int {
	for _, s := range sources(v) {
		if z, ok := constInt(s); ok && z == 0 {
			continue
		}
		d := big.NewInt(1)
		cur := s
		for i := 0; i < 6; i++ {
			bo, ok := cur.(*ssa.BinOp)
			if !ok {
				break
			}
			if bo.Op == token.QUO {
				cu, ok := constUint(bo.Y.(*ssa.Const))
				if !ok {
					return nil
				}
				d.Mul(d, cu)
				cur = bo.X
				continue
			}
			if bo.Op == token.REM {
				break
			}
			return nil
		}
		return d
	}
	return nil
}

// divisorOfTerm: the value is (0 or) X / c1 / c2 ... or X % m (the remainder: divisor 1); returns the product of
// the divisors, which must be the same for every non-zero alternative.
func divisorOfTerm(t *Term) *big.Int {
	var out *big.Int
	for _, alt := range t.alts() {
		if alt.Op == "const" && alt.Name == "0" {
			continue
		}
		d := big.NewInt(1)
		cur := alt
		for i := 0; i < 8; i++ {
			if cur.Op == "un" && strings.HasPrefix(cur.Name, "conv:") {
				cur = cur.Args[0]
				continue
			}
			if cur.Op != "bin" {
				break
			}
			if cur.Name == "/" {
				if cur.Args[1].Op != "const" {
					return nil
				}
				cu, ok := new(big.Int).SetString(cur.Args[1].Name, 10)
				if !ok {
					return nil
				}
				d.Mul(d, cu)
				cur = cur.Args[0]
				continue
			}
			if cur.Name == "%" {
				break
			}
			return nil
		}
		if out != nil && out.Cmp(d) != 0 {
			return nil
		}
		out = d
	}
	return out
}

// regionOf: fn and the functions it reaches statically for which follow holds.
func regionOf(p *Prog, fn *ssa.Function, follow func(*ssa.Function) bool) map[*ssa.Function]bool {
	return staticReach([]*ssa.Function{fn}, func(f *ssa.Function) bool { return f != fn && !follow(f) })
}

// usedInLoop: some load of the array (or of one of its elements) happens inside a loop.
func usedInLoop(al *ssa.Alloc) bool {
	for _, ref := range *al.Referrers() {
		if in, ok := ref.(ssa.Instruction); ok && in.Block() != nil && inLoop(in.Block()) {
			return true
		}
		if u, ok := ref.(*ssa.UnOp); ok {
			for _, r2 := range *u.Referrers() {
				if in, ok := r2.(ssa.Instruction); ok && in.Block() != nil && inLoop(in.Block()) {
					return true
				}
			}
		}
	}
	return false
}

// sameCell: two address expressions denote the same cell (same base value, same field / index path).
func sameCell(a, b ssa.Value, depth int) bool {
	if a == b {
		return true
	}
	if depth > 4 {
		return false
	}
	switch x := a.(type) {
	case *ssa.FieldAddr:
		y, ok := b.(*ssa.FieldAddr)
		return ok && x.Field == y.Field && sameCell(x.X, y.X, depth+1)
	case *ssa.IndexAddr:
		y, ok := b.(*ssa.IndexAddr)
		return ok && x.Index == y.Index && sameCell(x.X, y.X, depth+1)
	}
	return false
}

// c20Tables: a package-level table of the duration helpers indexed at a computed position (a cache of pre-rendered
// texts, a unit table) is indexed inside its bounds for every duration: the position has a derivable upper bound
// below the table's length and is shown non-negative (durations are signed: -3s / time.Second is -3).
func c20Tables(c *Ctx, p *Prog) {
	r := c.R
	n := 0
	for _, fn := range p.RepoFuncs() {
		if fn.Pkg != p.Times {
			continue
		}
		for _, s := range arrayBoundSites(fn) {
			g, isG := s.x.(*ssa.Global)
			if !isG {
				continue // local scratch arrays are decided by the interval analysis (R20.1 budget)
			}
			var idx ssa.Value
			switch i := s.in.(type) {
			case *ssa.IndexAddr:
				idx = i.Index
			case *ssa.Index:
				idx = i.Index
			}
			n++
			up, why, have := idxUpper(idx, s.in.Block())
			nonNeg := idxNonNeg(idx, s.in.Block(), 0)
			key := fmt.Sprintf("table:%s[%s]", shortName(fn), nm(g))
			r.Check(have && up < s.need && nonNeg, "R20.1", key, p.Pos(instrPos(s.in)), fmt.Sprintf("position in 0..%d (%s) of %d entries", up, why, s.need),
				fmt.Sprintf("the table %s has %d entries; the position is bounded above: %v (%d, %s), shown non-negative: %v - for some duration (a negative one, if the sign is not handled first) the formatter panics with an index out of range instead of being total", nm(g), s.need, have, up, why, nonNeg))
		}
	}
	if n == 0 {
		r.Ok("R20.1", "table:none", "-", "no package-level table of the duration helpers is indexed at a computed position")
	}
}

// c20UnitHasNumber (R20.2): a unit suffix never stands alone: once the formatter has written a unit ("s", "ms", "h", ..)
// every path on writes that component's integer digits (the digit writer fmtInt, or a helper that writes digits on all
// of its paths) before the next unit or the end of the text. A lone suffix glues onto the component to its left
// ("5m" + "s" reads back as 5 milliseconds), which the parser accepts - with another value.
func c20UnitHasNumber(c *Ctx, p *Prog) {
	r := c.R
	sdf := p.Func(p.Times, "shortDurFormat")
	fmtInt := p.Func(p.Times, "fmtInt")
	if sdf == nil || fmtInt == nil {
		r.Unk("R20.2", "unit-has-number", "-", "shortDurFormat / fmtInt not found")
		return
	}
	isUnitStore := func(in ssa.Instruction) bool {
		switch y := in.(type) {
		case *ssa.Store:
			if _, ok := y.Addr.(*ssa.IndexAddr); ok {
				if v, ok := constInt(y.Val); ok {
					return (v >= 'a' && v <= 'z') || v >= 0x80
				}
			}
		case *ssa.Call:
			if isBuiltinCall(y, "copy") {
				if cv, ok := strip(y.Common().Args[1]).(*ssa.Const); ok && cv.Value != nil && cv.Value.Kind() == constant.String {
					for _, ch := range constant.StringVal(cv.Value) {
						if (ch >= 'a' && ch <= 'z') || ch >= 0x80 {
							return true
						}
					}
				}
			}
		}
		return false
	}
	digitFns := map[*ssa.Function]bool{fmtInt: true}
	isDigit := func(in ssa.Instruction) bool {
		switch y := in.(type) {
		case *ssa.Store:
			if _, ok := y.Addr.(*ssa.IndexAddr); ok {
				if v, ok := constInt(y.Val); ok {
					return v >= '0' && v <= '9'
				}
			}
		case *ssa.Call:
			return digitFns[calleeOf(y)]
		}
		return false
	}
	// first event of a block from instruction index `from`: 'd' digit, 'u' unit, 0 none
	firstEvent := func(b *ssa.BasicBlock, from int) byte {
		for i := from; i < len(b.Instrs); i++ {
			if isDigit(b.Instrs[i]) {
				return 'd'
			}
			if isUnitStore(b.Instrs[i]) {
				return 'u'
			}
		}
		return 0
	}
	tree := []*ssa.Function{}
	for fn := range staticReach([]*ssa.Function{sdf}, func(f *ssa.Function) bool { return f.Pkg != p.Times || f == fmtInt || nm(f) == "fmtFrac" }) {
		if fn != fmtInt && nm(fn) != "fmtFrac" {
			tree = append(tree, fn)
		}
	}
	sort.Slice(tree, func(i, j int) bool { return shortName(tree[i]) < shortName(tree[j]) })
	// helpers that write digits on all of their paths
	for changed := true; changed; {
		changed = false
		for _, fn := range tree {
			if digitFns[fn] || fn == sdf || len(fn.Blocks) == 0 {
				continue
			}
			all := true
			seen := map[*ssa.BasicBlock]bool{}
			var dfs func(b *ssa.BasicBlock)
			dfs = func(b *ssa.BasicBlock) {
				if seen[b] || !all {
					return
				}
				seen[b] = true
				if firstEvent(b, 0) == 'd' {
					return
				}
				if _, isRet := b.Instrs[len(b.Instrs)-1].(*ssa.Return); isRet {
					all = false
					return
				}
				for _, s := range b.Succs {
					dfs(s)
				}
			}
			dfs(fn.Blocks[0])
			if all {
				digitFns[fn] = true
				changed = true
			}
		}
	}
	n := 0
	var bad []string
	for _, fn := range tree {
		for _, b := range fn.Blocks {
			last := -1
			for i, in := range b.Instrs {
				if isUnitStore(in) {
					last = i
				}
			}
			if last < 0 {
				continue
			}
			n++
			if firstEvent(b, last+1) == 'd' {
				continue
			}
			// explore from the block's successors up to the next unit-writing block / the return, remembering whether
			// digits were written on the way. A next unit reached both with and without digits (or a return reached
			// without) is a number that can be skipped; a next unit never reached with digits is the second letter of
			// a multi-letter unit ("s" then "m" = "ms").
			type st struct {
				b *ssa.BasicBlock
				d bool
			}
			seen := map[st]bool{}
			reached := map[*ssa.BasicBlock][2]bool{}
			lone := ""
			var dfs func(x *ssa.BasicBlock, d bool)
			dfs = func(x *ssa.BasicBlock, d bool) {
				if seen[st{x, d}] || lone != "" {
					return
				}
				seen[st{x, d}] = true
				switch firstEvent(x, 0) {
				case 'u':
					rr := reached[x]
					if d {
						rr[1] = true
					} else {
						rr[0] = true
					}
					reached[x] = rr
					return
				case 'd':
					d = true
					for _, in := range x.Instrs {
						if isUnitStore(in) {
							return // a new component starts here, after digits
						}
					}
				}
				if ret, isRet := x.Instrs[len(x.Instrs)-1].(*ssa.Return); isRet {
					if !d {
						lone = "the return at " + p.Pos(instrPos(ret))
					}
					return
				}
				for _, s := range x.Succs {
					dfs(s, d)
				}
			}
			if _, isRet := b.Instrs[len(b.Instrs)-1].(*ssa.Return); isRet {
				lone = "the return at " + p.Pos(instrPos(b.Instrs[len(b.Instrs)-1]))
			}
			for _, s := range b.Succs {
				dfs(s, false)
			}
			if lone == "" {
				for x, rr := range reached {
					if rr[0] && rr[1] {
						lone = "the next unit at " + p.Pos(instrPos(x.Instrs[0])) + " both with and"
					}
				}
			}
			if lone != "" {
				bad = append(bad, shortName(fn)+": unit written at "+p.Pos(instrPos(b.Instrs[last]))+" reaches "+lone+" with no digits written")
			}
		}
	}
	sort.Strings(bad)
	if n < 1 {
		r.Unk("R20.2", "unit-has-number", p.FuncPos(sdf), "no unit-writing block recognised in the formatter (%d)", n)
		return
	}
	r.Check(len(bad) == 0, "R20.2", "unit-has-number", p.FuncPos(sdf), fmt.Sprintf("each of the %d unit-writing blocks is followed by its integer digits on every path", n),
		"a unit suffix can be left without its number ("+strings.Join(bad, "; ")+"): the lone suffix glues onto the component before it and the text parses back as another duration")
}

// c20ZeroHasText (R20.1): the zero duration has a text in both styles: with d = 0 (and each value of the style switch)
// substituted, the decisions of the formatter are walked with constants folded; the path taken reaches a digit writer
// before the return. (An empty text is rejected by the parser.) Only a path that is fully decided counts: when the
// walk meets a condition it cannot fold the obligation is recorded as not evaluated.
func c20ZeroHasText(c *Ctx, p *Prog) {
	r := c.R
	sdf := p.Func(p.Times, "shortDurFormat")
	if sdf == nil {
		return // reported elsewhere
	}
	var dPrm, fPrm *ssa.Parameter
	for _, q := range sdf.Params {
		switch q.Type().String() {
		case "time.Duration":
			dPrm = q
		case "bool":
			fPrm = q
		}
	}
	if dPrm == nil || fPrm == nil {
		r.OkTrivial("R20.1", "zero-has-text", p.FuncPos(sdf), "the formatter has no (duration, style) parameter pair: not evaluated")
		return
	}
	for _, frac := range []bool{false, true} {
		key := fmt.Sprintf("zero-has-text[frac=%v]", frac)
		subst := map[ssa.Value]ssa.Value{
			dPrm: ssa.NewConst(constant.MakeInt64(0), dPrm.Type()),
			fPrm: ssa.NewConst(constant.MakeBool(frac), fPrm.Type()),
		}
		digit := false
		t := walkDecisionInl(sdf.Blocks[0], map[string]bool{}, func(ssa.Value) (string, bool) { return "", false },
			func(in ssa.Instruction) (string, bool) {
				if cs, ok := in.(*ssa.Call); ok {
					if cal := calleeOf(cs); cal != nil && cal.Pkg == p.Times && cal != sdf {
						digit = true
						return "digit", true
					}
				}
				return "", false
			}, func(ssa.CallInstruction) *ssa.Function { return nil }, subst, 0)
		switch {
		case digit:
			r.Ok("R20.1", key, p.FuncPos(sdf), "for d = 0 the path taken calls a digit-writing helper")
		case t.Kind == "return":
			r.Bad("R20.1", key, p.FuncPos(sdf), "for the zero duration (fractional style %v) the formatter returns without having written anything: the text is empty, which the parser rejects", frac)
		default:
			r.OkTrivial("R20.1", key, p.FuncPos(sdf), "not evaluated: the walk for d = 0 stops at a condition it cannot fold (%s)", t.Kind)
		}
	}
}
