package main

import (
	"fmt"
	"go/token"
	"go/types"
	"os"
	"sort"
	"strings"

	"golang.org/x/tools/go/ssa"
)

func checkC06(c *Ctx) {
	r := c.R
	r.Rule("R06.5", "first line / remaining lines: every search result on the print path (strings/bytes Index*) is split at the absent/found boundary (-1 | >= 0); a test r > 0 treats a line break or marker at position 0 as absent")
	r.Rule("R06.6", "the attributes as key=value: the loop of serializeAttrs over the member list has its natural exit only")
	r.Rule("R06.1", "SGR typestate: treating every write of a constant on the print path as an event (\"\\x1b[0m\" resets, any other \"\\x1b[\" switches a colour on, '\\n' in a constant or as a Join separator is a line break), a may-analysis with function summaries over the colored-mode call tree (dependency colour helpers included, testing/debug dump excluded) shows that no line break is written while a colour may be on and that the record ends in the clean state")
	r.Rule("R06.2", "values contribute no raw bytes: in colored mode no site copies an attribute value, error text or fallback formatting into the record verbatim")
	r.Rule("R06.3", "layout: timestamp, logger name, severity tag, first line, attributes, caller, remaining lines, in this order; the tag is ShortTag(levelOutputWidth) between brackets; the first line is right-padded to minimalMessageWidth; remaining lines are indented by padFunc(.., \" \", 4, ..) and follow a line break; attributes are sorted (R07.3)")
	r.Rule("R05.5", "(shared with C05) group members under dotted keys in colored mode too: member keys are DotPrefix(key, enclosing prefix) and the prefix pushed for a value is the dotted key")
	r.Rule("R05.1", "(shared with C05) groupness is decided per element")
	r.Rule("R02.2", "(shared with C02) every destination gets the record as formatted: the sink hands its payload itself to one Write")
	r.Rule("R13.1", "(shared with C13) the fan-out hands each member the whole payload")
	r.Rule("R13.5", "(shared with C13) the package's writer wrappers forward the payload unchanged, once")
	r.Rule("R16.2", "(shared with C16) the timestamp column follows the flags in force: the layout is the logger's own, else defaultLayouts[flags & mask] read at print time, else TimeNano")
	r.Rule("R05.9", "(shared with C05) each key once")
	r.Rule("R01.1", "(shared with C01) the caller shown is the user's statement: every entry point captures the pc itself and emits on the spine directly (no verb implemented by calling another verb)")
	r.Rule("R19.1", "(shared with C19) the record is the bytes the encoder appended: the write side of the formatting buffer is isomorphic to bytes.Buffer")
	r.Rule("R05.3", "(shared with C05) the quoting routine behind every quoted attribute value lets no control byte through: appendQuotedWith appends only the quote, \\xHH of an invalid byte and the output of appendEscapedRune, which copies a rune verbatim only under a printability test")
	r.Rule("R09.2", "(shared with C09) the layout depends on the configuration in force, not on earlier records: nothing on the print path stores to package-level state (a tag or padding computed for one width is not kept for another)")
	r.Rule("R17.6", "(shared with C17) the level tag of a given width: every tag literal and every tag a registration stores under width n has n characters")
	r.Rule("R08.1", "(shared with C08) what a record says was logged by this call: nothing on the print path writes memory that outlives the call other than the pooled objects of this call")
	r.Rule("R08.2", "(shared with C08) attribute lists that are sorted/compacted in place or appended to belong to this call, never to a logger, handler, group or caller")
	r.Rule("R07.3", "(shared with C07) ascending key order: the member list is sorted by a stable sort whose comparator reads Key() only, orders ascending, and is a consistent three-way order also for nil placeholders")
	r.Rule("R07.4", "(shared with C07) the list given is sorted, then de-duplicated, and the loop prints the result")
	r.Rule("R05.10", "(shared with C05) the message is handed on as given from the verbs to the encoder's message field")
	r.Rule("R02.3", "(shared with C02) what is handed to the destination is the finished record: the payload is the formatting buffer's Bytes() taken right after End(true); nothing cuts, truncates or re-slices the record after the colours were closed")
	r.Rule("R02.6", "(shared with C02) the pooled formatting context is returned to the pool by the normal path only, after the Write, and not used afterwards: a context put back by a deferred call after a panic inside a value's own method carries the half-built state (group prefix, colours) into the records that follow")
	r.Rule("R06.7", "values emitted by user marshallers: every exported Add*(.., value string) helper of the encoder that MarshalSlogObject/MarshalSlogArray receive passes its string value through the quoting routine on every path of colored mode (no verbatim forwarding to the buffer)")
	r.Rule("R06.4", "no pooled encoder field is read stale in colored mode (engine E10): remaining lines, colours and the end-of-line flag of a previous record cannot surface")
	r.Assume("messages contain no escape bytes and no HTML-like markup (the property's domain for hygiene/layout); the markup translator of the dependency is treated as text")
	mode := Mode{false, false}
	for _, tags := range c.Configs([]string{""}, []string{"", "verbose"}) {
		p := c.Prog(tags)
		if p == nil {
			continue
		}
		m, err := BuildModel(p)
		if err != nil {
			r.Unk("R06.1", "model", "-", "%v", err)
			continue
		}
		mr := emissionCommon(c, p, m, mode, "R06.2")
		c06SGR(c, p, m, mr, "")
		// the same with the testing/debug-only branches included (the post-record error dump of go test / a debugger)
		c06SGR(c, p, m, NewModeReach(p, m, mode, sessionEntries(p), false), "[debug]")
		c06Layout(c, p, m, mr)
		c06EveryLine(c, p, m, mr)
		inDomainArmsFirst(c, p, m, "R06.2")
		c05Keys(c, p, m, mr)
		c11Transitions(c, p, m)
		c17Register(c, p, m)
		c01Gates(c, p, m, tags)
		recordLevelWrittenOnce(c, p, m, "R06.3")
		c16Timestamp(c, p, m)
		dedupeEquality(c, p, m, "R05.9")
		c02Sink(c, p, m)
		c13Fanout(c, p, m)
		wrapperForwarding(c, p, "R13.5")
		tagStoresFromRegistration(c, p)
		padUnbounded(c, p)
		noScannerOnPrintPath(c, p, m, "R06.3")
		tagWidthSetter(c, p)
		c02Newline(c, p, m)
		fixedMembersAlways(c, p, m, "R06.3", []Mode{mode})
		c02Pool(c, p, m)
		c07Sort(c, p, m)
		c19WriteSide(c, p)
		attrsTraversal(c, p, "R06.6")
		indexFoundTests(c, p, sortedTree(p, m), "R06.5")
		messageIdentity(c, p, "R05.10")
		c08Stores(c, p, m)
		c05Quoting(c, p, m, mr)
		c09Globals(c, p, m)
		c17Tags(c, p, m)
		fieldOrder(c, p, m, mode, "R06.3", []string{"Begin", "printTimestamp", "printLoggerName", "printSeverity", "printFirstLineOfMsg", "serializeAttrs", "printPC", "printRestLinesOfMsg", "End", "Bytes", "printOut"}, map[string]bool{"printPC": true})
		c09Pooled(c, p, m, "R06.4", []Mode{mode})
		marshallerStringHelpers(c, p, m, mode, "R06.7")
	}
	c.Floor["R06.7"] = 2
	c.Floor["R06.2"] = 5
	c.Floor["R06.1"] = 3
}

func c06SGR(c *Ctx, p *Prog, m *Model, mr *ModeReach, sfx string) {
	r := c.R
	pi := p.Method(p.Slog, "Entry", "printImpl")
	if pi == nil {
		r.Unk("R06.1", "printImpl", "-", "not found")
		return
	}
	a := newSGR(mr)
	exit := a.run(pi)
	r.Extra["sgr_functions_summarised"] = len(a.sum)
	r.Extra["sgr_constant_write_events"] = a.nEv
	// per-function summaries as obligations
	var fns []*ssa.Function
	for fn := range a.sum {
		fns = append(fns, fn)
	}
	sort.Slice(fns, func(i, j int) bool { return fns[i].String() < fns[j].String() })
	stStr := func(s sgrState) string {
		switch s {
		case sgrClean:
			return "clean"
		case sgrOn:
			return "on"
		case sgrClean | sgrOn:
			return "clean|on"
		}
		return "-"
	}
	violBy := map[*ssa.Function][]sgrViolation{}
	for _, v := range a.viol {
		violBy[v.Fn] = append(violBy[v.Fn], v)
	}
	for _, fn := range fns {
		if os.Getenv("LOGGCHECK_DEBUG") != "" {
			fmt.Fprintf(os.Stderr, "SGR %-50s entered=%-9s clean->%-9s on->%s\n", shortName(fn), stStr(a.entries[fn]), stStr(a.sum[fn].exit[sgrClean]), stStr(a.sum[fn].exit[sgrOn]))
		}
		if a.entries[fn] == 0 {
			continue
		}
		key := "sgr" + sfx + ":" + strings.TrimPrefix(shortName(fn), "github.com/hedzr/is/term/color.")
		if vs := violBy[fn]; len(vs) > 0 {
			sort.Slice(vs, func(i, j int) bool { return vs[i].What < vs[j].What })
			r.Bad("R06.1", key, p.Pos(instrPos(vs[0].Pos)), "%s (entered %s): the colour bleeds across the line break into the terminal output that follows", vs[0].What, stStr(a.entries[fn]))
			continue
		}
		r.Ok("R06.1", key, p.FuncPos(fn), "entered %s; leaves %s/%s for entry clean/on; no line break while a colour may be on", stStr(a.entries[fn]), stStr(a.sum[fn].exit[sgrClean]), stStr(a.sum[fn].exit[sgrOn]))
	}
	r.Check(exit == sgrClean, "R06.1", "sgr"+sfx+":record-end", p.FuncPos(pi), "the record ends in the clean state on every path", "the record can end with a colour still switched on ("+stStr(exit)+"): it recolours the terminal output that follows")
	if a.nEv < 8 {
		r.Unk("R06.1", "sgr"+sfx+":events", "-", "only %d constant write events seen in colored mode: the event model lost its anchors", a.nEv)
	}
}

func c06Layout(c *Ctx, p *Prog, m *Model, mr *ModeReach) {
	r := c.R
	// severity tag
	if ps := p.Method(p.Slog, "Entry", "printSeverity"); ps != nil {
		okTag, okWrap := false, false
		for _, cs := range callsIn(ps) {
			if !mr.Blocks[ps][cs.Block()] {
				continue
			}
			cal := calleeOf(cs)
			if cal == nil {
				continue
			}
			if nm(cal) == "ShortTag" {
				if g, ok := globalLoad(cs.Common().Args[1]); ok && nm(g) == "levelOutputWidth" {
					if _, isF := isFieldLoadOf(cs.Common().Args[0], "PrintCtx", "lvl"); isF {
						okTag = true
					}
				}
			}
			if nm(cal) == "wrapRune" {
				a := cs.Common().Args
				l, ok1 := constInt(a[len(a)-2])
				rr, ok2 := constInt(a[len(a)-1])
				if ok1 && ok2 && l == '[' && rr == ']' {
					okWrap = true
				}
			}
		}
		r.Check(okTag && okWrap, "R06.3", "tag", p.FuncPos(ps), "[ShortTag(record level, levelOutputWidth)]", "the severity tag is not ShortTag(record level, configured width) between square brackets")
	}
	if pf := p.Method(p.Slog, "Entry", "printFirstLineOfMsg"); pf != nil {
		okPad, okSplit := false, false
		okPadGuard := true
		for _, cs := range callsIn(pf) {
			cal := calleeOf(cs)
			if cal == nil {
				continue
			}
			if nm(cal) == "rightPad" {
				a := cs.Common().Args
				if s, ok := constString(a[len(a)-2]); ok && s == " " {
					if g, ok := globalLoad(a[len(a)-1]); ok && nm(g) == "minimalMessageWidth" {
						okPad = true
					}
					// whether the padder runs does not depend on the WHOLE message (its length is not the first line's):
					// the guards on the way test the configured width, or the first line itself
					for _, gd := range guardsOf(cs.Block()) {
						dep := false
						seen := map[ssa.Value]bool{}
						var walk func(v ssa.Value, d int)
						walk = func(v ssa.Value, d int) {
							if v == nil || seen[v] || d > 6 || dep {
								return
							}
							seen[v] = true
							if _, isMsg := isFieldLoadOf(strip(v), "PrintCtx", "msg"); isMsg {
								dep = true
								return
							}
							if in, ok := v.(ssa.Instruction); ok {
								if call, isCall := v.(*ssa.Call); isCall {
									if c2 := calleeOf(call); c2 != nil && nm(c2) == "splitFirstAndRestLines" {
										return // the first line taken from the message
									}
								}
								for _, op := range in.Operands(nil) {
									if *op != nil {
										walk(*op, d+1)
									}
								}
							}
						}
						walk(gd.If.Cond, 0)
						if dep {
							okPadGuard = false
						}
					}
				}
			}
			if nm(cal) == "splitFirstAndRestLines" {
				if _, isF := isFieldLoadOf(cs.Common().Args[len(cs.Common().Args)-1], "PrintCtx", "msg"); isF && len(guardsOf(cs.Block())) == 0 {
					okSplit = true
				}
			}
		}
		r.Check(okPad, "R06.3", "first-line-pad", p.FuncPos(pf), "first line right-padded with spaces to minimalMessageWidth", "the first line is not right-padded with spaces to the configured minimal width")
		r.Check(okPadGuard, "R06.3", "first-line-pad:guard", p.FuncPos(pf), "whether the first line is padded does not depend on the whole message", "whether the first line is padded depends on the whole message (its length, not the first line's): the short first line of a long multi-line message is left unpadded, so the attributes do not start at the configured column")
		r.Check(okSplit, "R06.3", "first-line-split", p.FuncPos(pf), "the message is split into first/rest lines unconditionally for every record", "the message is not split into first and remaining lines unconditionally: remaining-lines state may belong to another record")
	}
	if pr := p.Method(p.Slog, "Entry", "printRestLinesOfMsg"); pr != nil {
		okPad, nlFirst := false, false
		var nl, pad ssa.CallInstruction
		for _, cs := range callsIn(pr) {
			cal := calleeOf(cs)
			if cal == nil {
				continue
			}
			if nm(cal) == "padFunc" {
				a := cs.Common().Args
				if s, ok := constString(a[len(a)-3]); ok && s == " " {
					if n, ok := constInt(a[len(a)-2]); ok && n == 4 {
						// the text indented is the remaining lines as split off the message, untransformed
						if _, isF := isFieldLoadOf(a[len(a)-4], "PrintCtx", "restLines"); isF {
							okPad = true
							pad = cs
						}
					}
				}
			}
			if nm(cal) == "pcAppendByte" && nl == nil {
				if v, ok := constInt(cs.Common().Args[1]); ok && v == '\n' {
					nl = cs
				}
			}
		}
		if nl != nil && pad != nil {
			nlFirst = after(nl, pad) && !after(pad, nl)
		}
		r.Check(okPad && nlFirst, "R06.3", "rest-lines", p.FuncPos(pr), "a line break, then the remaining lines each indented by four spaces", "the remaining lines are not printed after a line break with a four-space indent")
	}
	// attributes: key=value with ' ' separator in colored mode
	if sa := p.Func(p.Slog, "serializeAttrs"); sa != nil {
		sep := false
		inRegion := map[ssa.Instruction]bool{}
		for _, site := range modeRegionCalls(p, mr, sa) {
			inRegion[site.Instr] = true
		}
		for _, ce := range mr.constEmissions() {
			if inRegion[ce.Instr] && ce.Text == " " {
				sep = true
			}
		}
		r.Check(sep, "R06.3", "attr-separator", p.FuncPos(sa), "attributes are separated by a space", "attributes are not separated by a space in colored mode")
	}
	if pc := p.Method(p.Slog, "PrintCtx", "pcAppendColon"); pc != nil {
		eq := false
		for _, ce := range mr.constEmissions() {
			if ce.Fn == pc && ce.Text == "=" {
				eq = true
			}
		}
		r.Check(eq, "R06.3", "attr-equals", p.FuncPos(pc), "key and value are joined by '='", "key and value are not joined by '=' in colored mode")
	}
	_ = fmt.Sprint
}

// fixedMembersAlways: (R06.3 / R04.6 / R05.6) the members every record has - timestamp, severity, message - are written
// on every path of their printers, in every mode: a printer that returns early for some record (a zero time, an
// empty text) takes a field out of the record.
func fixedMembersAlways(c *Ctx, p *Prog, m *Model, rule string, modes []Mode) {
	r := c.R
	for _, mode := range modes {
		_, always := emitAnalysis(p, mode)
		for _, name := range []string{"printTimestamp", "printSeverity", "printMsg", "printFirstLineOfMsg"} {
			fn := p.Method(p.Slog, "Entry", name)
			if fn == nil {
				continue
			}
			// the message printers are per mode: skip the one this mode does not use
			if (name == "printMsg" && !mode.NoColor) || (name == "printFirstLineOfMsg" && mode.NoColor) {
				continue
			}
			r.Check(always(fn), rule, fmt.Sprintf("always[%s]:%s", mode, name), p.FuncPos(fn), "writes its member on every path", fmt.Sprintf("in %s mode %s can return without having written anything: for some record (a zero time, an empty value) a member every record has is missing", mode, name))
		}
	}
}

// c06EveryLine: every line of a multi-line text is handled: wherever a function of the colored print tree splits a
// text at line breaks and then works on the pieces by index inside a loop, the loop is a full index loop over the
// pieces (from the first to the last).
func c06EveryLine(c *Ctx, p *Prog, m *Model, mr *ModeReach) {
	r := c.R
	n := 0
	var fns []*ssa.Function
	for fn := range mr.Blocks {
		fns = append(fns, fn)
	}
	sort.Slice(fns, func(i, j int) bool { return shortName(fns[i]) < shortName(fns[j]) })
	for _, fn := range fns {
		for _, cs := range callsIn(fn) {
			cal := calleeOf(cs)
			call, isCall := cs.(*ssa.Call)
			if cal == nil || !isCall || cal.String() != "strings.Split" {
				continue
			}
			if sep, ok := constString(cs.Common().Args[1]); !ok || sep != "\n" {
				continue
			}
			for _, ref := range *call.Referrers() {
				ia, ok := ref.(*ssa.IndexAddr)
				if !ok || !inLoop(ia.Block()) {
					continue
				}
				if _, isC := constInt(ia.Index); isC {
					continue
				}
				n++
				key := fmt.Sprintf("every-line:%s#%d", shortName(fn), n)
				r.Check(fullIndexLoop(ia.Index, call), "R06.4", key, p.Pos(instrPos(ia)), "the loop over the lines runs from the first line to the last",
					"the loop over the lines of a multi-line text does not visit every line (it does not start at the first or stop at the last): a line is left without its indent and colour")
			}
		}
	}
	if n == 0 {
		r.Ok("R06.4", "every-line", "-", "no function of the colored print tree indexes the pieces of a text split at line breaks")
	}
}

// marshallerStringHelpers (R06.7): the encoder handed to user marshallers (MarshalSlogObject/MarshalSlogArray receive the
// *PrintCtx itself) offers exported Add* key/value helpers; a string `value` parameter of such a helper is an attribute
// value, so in the given mode no path of the helper may forward it verbatim into the record (raw-forwarding fixpoint of
// emit.go, rooted at the helpers themselves because the library's own print path does not reach them in this mode).
func marshallerStringHelpers(c *Ctx, p *Prog, m *Model, mode Mode, rule string) {
	r := c.R
	var roots []*ssa.Function
	type inst struct {
		fn  *ssa.Function
		idx int
	}
	var insts []inst
	for _, fn := range p.RepoFuncs() {
		if fn.Signature.Recv() == nil || typeName(fn.Signature.Recv().Type()) != "PrintCtx" || fn.Parent() != nil {
			continue
		}
		if !strings.HasPrefix(fn.Name(), "Add") || !token.IsExported(fn.Name()) {
			continue
		}
		for i, prm := range fn.Params {
			if i == 0 || prm.Name() != "value" {
				continue
			}
			if b, ok := prm.Type().Underlying().(*types.Basic); ok && b.Kind() == types.String {
				roots = append(roots, fn)
				insts = append(insts, inst{fn, i})
			}
		}
	}
	if len(insts) < 2 {
		r.Unk(rule, "marshaller-helper:instances", "-", "only %d exported Add*(.., value string) helpers of the encoder found (2 confirmed by hand: AddString, AddPrefixedString): anchor lost", len(insts))
		return
	}
	mr := NewModeReach(p, m, mode, roots, true)
	ra := &rawAnalysis{mr: mr}
	ra.run()
	for _, in := range insts {
		key := fmt.Sprintf("marshaller-helper[%s]:%s", mode, shortName(in.fn))
		if !mr.Has(in.fn) {
			r.Unk(rule, key, p.FuncPos(in.fn), "the helper has no feasible block in %s mode", mode)
			continue
		}
		raw := ra.fwd[in.fn][in.idx]
		if !raw {
			// a site inside the helper that copies the parameter itself is recorded as forwarding too; sites with other classes are R06.2's business
			for _, s := range ra.Sites {
				if origin(s.Fn) == in.fn && s.Classes[fmt.Sprintf("param:%d", in.idx)] {
					raw = true
				}
			}
		}
		r.Check(!raw, rule, key, p.FuncPos(in.fn), "the string value goes through the quoting routine on every path of "+mode.String()+" mode", "in "+mode.String()+" mode the helper copies its string value into the record verbatim on some path: a value emitted by a user marshaller (enc."+in.fn.Name()+"(..)) carries escape or control bytes and line breaks into the terminal output")
	}
}
