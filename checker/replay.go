package main

import (
	"encoding/json"
	"os"
)

func readReplay(path string) map[string]string {
	b, err := os.ReadFile(path)
	if err != nil {
		return nil
	}
	var m map[string]any
	if json.Unmarshal(b, &m) != nil {
		return nil
	}
	out := map[string]string{}
	for k, v := range m {
		if s, ok := v.(string); ok {
			out[k] = s
		}
	}
	return out
}
