package main

import (
	"fmt"
	"go/ast"
	"go/constant"
	"go/token"
	"go/types"
	"sort"
	"strings"

	"golang.org/x/tools/go/ssa"
)

// Rules added after the second round of seeded changes: structural necessary conditions of clauses the first
// rule set did not reach (value fidelity, release discipline, fresh children, termination bypass, ...).

// ---- value fidelity (C04 R04.8, C05 R05.8) -----------------------------------------------------------------

// staticCallers: all static call sites of every repository function (generic instances are functions of their own).
func (p *Prog) staticCallers() map[*ssa.Function][]ssa.CallInstruction {
	if p.callers != nil {
		return p.callers
	}
	p.callers = map[*ssa.Function][]ssa.CallInstruction{}
	for _, fn := range p.RepoFuncs() {
		for _, cs := range callsIn(fn) {
			if cal := calleeOf(cs); cal != nil {
				p.callers[cal] = append(p.callers[cal], cs)
			}
		}
	}
	return p.callers
}

// constLeaves resolves v backwards to the constants it can hold: through phis, and through parameters over
// every static call site of the function (bounded depth). ok=false if some leaf is not a constant.
func (p *Prog) constLeaves(v ssa.Value, depth int, seen map[ssa.Value]bool) (vals []constant.Value, ok bool) {
	if seen[v] {
		return nil, true
	}
	seen[v] = true
	switch x := v.(type) {
	case *ssa.Const:
		if x.Value == nil {
			return nil, false
		}
		return []constant.Value{x.Value}, true
	case *ssa.Convert:
		return p.constLeaves(x.X, depth, seen)
	case *ssa.ChangeType:
		return p.constLeaves(x.X, depth, seen)
	case *ssa.Phi:
		for _, e := range x.Edges {
			vs, ok := p.constLeaves(e, depth, seen)
			if !ok {
				return nil, false
			}
			vals = append(vals, vs...)
		}
		return vals, true
	case *ssa.Parameter:
		fn := x.Parent()
		idx := -1
		for i, q := range fn.Params {
			if q == x {
				idx = i
			}
		}
		sites := p.staticCallers()[fn]
		if idx < 0 || len(sites) == 0 || depth > 5 {
			return nil, false
		}
		for _, cs := range sites {
			if p.skipSite != nil && p.skipSite(cs) {
				continue
			}
			if idx >= len(cs.Common().Args) {
				return nil, false
			}
			vs, ok := p.constLeaves(cs.Common().Args[idx], depth+1, seen)
			if !ok {
				return nil, false
			}
			vals = append(vals, vs...)
		}
		return vals, true
	}
	return nil, false
}

// valueFidelity: numbers and times are rendered with parameters that make the text round-trip.
func valueFidelity(c *Ctx, p *Prog, m *Model, mr *ModeReach, rule string) {
	r := c.R
	n := 0
	for _, fn := range mr.Funcs() {
		fb := mr.Blocks[fn]
		for _, cs := range callsIn(fn) {
			if !fb[cs.Block()] {
				continue
			}
			cal := calleeOf(cs)
			if cal == nil {
				continue
			}
			args := cs.Common().Args
			key := fmt.Sprintf("%s[%s]:%s", callShort(cal), mr.Mode, shortName(fn))
			switch cal.String() {
			case "strconv.AppendFloat", "strconv.FormatFloat":
				n++
				base := len(args) - 4 // f, fmt, prec, bitSize
				var probs []string
				if pv, ok := p.constLeaves(args[base+2], 0, map[ssa.Value]bool{}); !ok {
					probs = append(probs, "the precision is not a constant")
				} else {
					for _, v := range pv {
						if i, _ := constant.Int64Val(constant.ToInt(v)); i != -1 {
							probs = append(probs, fmt.Sprintf("precision %d instead of -1 (shortest text that parses back to the same value)", i))
						}
					}
				}
				// static width of the value
				width := int64(64)
				fv := args[base]
				for {
					if cv, ok := fv.(*ssa.Convert); ok {
						fv = cv.X
						continue
					}
					break
				}
				if bt, ok := fv.Type().Underlying().(*types.Basic); ok && bt.Kind() == types.Float32 {
					width = 32
				}
				if bv, ok := p.constLeaves(args[base+3], 0, map[ssa.Value]bool{}); !ok {
					probs = append(probs, "the bit size is not a constant")
				} else {
					for _, v := range bv {
						i, _ := constant.Int64Val(constant.ToInt(v))
						if i != 64 && !(i == 32 && width == 32) {
							probs = append(probs, fmt.Sprintf("bit size %d for a %d-bit value: the text is the shortest for the narrower type and parses back to another number", i, width))
						}
					}
				}
				// the text of a float decides its own sign: "+Inf", "-0" and "NaN" do not follow from comparing the value
				// with zero, so no branch of the printer that formats it tests the very value against 0
				// (the same pure expression over the parameters, written twice, is the same value)
				var pureKey func(v ssa.Value, d int) string
				pureKey = func(v ssa.Value, d int) string {
					if d > 4 {
						return fmt.Sprintf("%p", v)
					}
					switch x := v.(type) {
					case *ssa.Parameter:
						return "p:" + x.Name()
					case *ssa.Convert:
						return "cv(" + pureKey(x.X, d+1) + ")"
					case *ssa.ChangeType:
						return pureKey(x.X, d+1)
					case *ssa.Call:
						if bi, ok := x.Call.Value.(*ssa.Builtin); ok && (bi.Name() == "real" || bi.Name() == "imag") {
							return bi.Name() + "(" + pureKey(x.Call.Args[0], d+1) + ")"
						}
					}
					return fmt.Sprintf("%p", v)
				}
				fk := pureKey(args[base], 0)
				for _, bb := range fn.Blocks {
					for _, bin := range bb.Instrs {
						bo, isB := bin.(*ssa.BinOp)
						if !isB {
							continue
						}
						switch bo.Op {
						case token.LSS, token.LEQ, token.GTR, token.GEQ:
							var other ssa.Value
							switch fk {
							case pureKey(bo.X, 0):
								other = bo.Y
							case pureKey(bo.Y, 0):
								other = bo.X
							default:
								continue
							}
							if k, isC := other.(*ssa.Const); isC && k.Value != nil && constant.Sign(k.Value) == 0 {
								probs = append(probs, "the sign written around the number is decided by comparing the value with 0 at "+p.Pos(instrPos(bo))+": for +Inf, NaN and -0 the formatted text carries a sign (or none) that the comparison does not predict, so the text does not parse back")
							}
						}
					}
				}
				probs = dedupStr(probs)
				r.Check(len(probs) == 0, rule, key, p.Pos(instrPos(cs)), "shortest round-trip text: precision -1, bit size of the value's own type", strings.Join(probs, "; "))
			case "strconv.AppendInt", "strconv.AppendUint", "strconv.FormatInt", "strconv.FormatUint":
				n++
				// a call site that passes base 16 right after writing the literal prefix "0x" renders a self-describing
				// hexadecimal number (a dedicated value kind): the digits are read back in base 16 by that prefix
				p.skipSite = func(site ssa.CallInstruction) bool {
					is16 := false
					for _, a := range site.Common().Args {
						if k, isC := constInt(a); isC && k == 16 {
							is16 = true
						}
					}
					if !is16 {
						return false
					}
					sawZero, sawX := false, false
					for _, in := range site.Block().Instrs {
						if in == ssa.Instruction(site) {
							break
						}
						if st, isSt := in.(*ssa.Store); isSt {
							if k, isC := constInt(st.Val); isC {
								if k == '0' {
									sawZero = true
								}
								if k == 'x' && sawZero {
									sawX = true
								}
							}
						}
					}
					return sawX
				}
				bv, ok := p.constLeaves(args[len(args)-1], 0, map[ssa.Value]bool{})
				p.skipSite = nil
				good := ok
				for _, v := range bv {
					if i, _ := constant.Int64Val(constant.ToInt(v)); i != 10 {
						good = false
					}
				}
				r.Check(good, rule, key, p.Pos(instrPos(cs)), "base 10", "an integer value is not written in base 10")
				// the conversions on the way to the formatter keep every value of the source type
				var lossy []string
				for v := args[len(args)-2]; ; {
					cv, ok := v.(*ssa.Convert)
					if !ok {
						break
					}
					sb, tb := intBits(cv.X.Type()), intBits(cv.Type())
					if sb > 0 && tb > 0 {
						su, tu := isUnsigned(cv.X.Type()), isUnsigned(cv.Type())
						switch {
						case tb < sb:
							lossy = append(lossy, fmt.Sprintf("%s narrowed to %s", cv.X.Type(), cv.Type()))
						case su != tu && !(su && tb > sb):
							lossy = append(lossy, fmt.Sprintf("%s reinterpreted as %s (values beyond the target's range wrap: an unsigned value from 2^%d prints negative, a negative value prints as a huge number)", cv.X.Type(), cv.Type(), tb-1))
						}
					}
					v = cv.X
				}
				r.Check(len(lossy) == 0, rule, key+":conv", p.Pos(instrPos(cs)), "the value reaches the formatter through conversions that keep every value of its type", "a number is not written with its exact value: "+strings.Join(lossy, "; "))
			case "(time.Time).AppendFormat", "(time.Time).Format":
				if nm(fn) == "appendTimestamp" {
					continue // the record's own timestamp: layout chosen by the logger (C16)
				}
				n++
				// call chains that come from the record's own timestamp printer carry the logger's layout (C16), not a value's
				p.skipSite = func(cs ssa.CallInstruction) bool { return nm(cs.Parent()) == "appendTimestamp" }
				lv, ok := p.constLeaves(args[len(args)-1], 0, map[ssa.Value]bool{})
				p.skipSite = nil
				if ok && len(lv) == 0 {
					continue // only reached from the timestamp printer
				}
				var probs []string
				if !ok {
					probs = append(probs, "the layout of a time VALUE is not a constant")
				}
				for _, v := range lv {
					lay := constant.StringVal(v)
					if !(strings.Contains(lay, "999999999") || strings.Contains(lay, "000000000")) {
						probs = append(probs, fmt.Sprintf("layout %q drops sub-second digits: the value decoded is not the value logged", lay))
					}
					if !(strings.Contains(lay, "Z07") || strings.Contains(lay, "-07") || strings.Contains(lay, "MST")) {
						probs = append(probs, fmt.Sprintf("layout %q has no zone", lay))
					}
				}
				r.Check(len(probs) == 0, rule, key, p.Pos(instrPos(cs)), "nanosecond layout with zone", strings.Join(dedupStr(probs), "; "))
			}
		}
	}
	if n < 3 {
		r.Unk(rule, "fidelity:sites", "-", "only %d number/time formatting sites seen in mode %s", n, mr.Mode)
	}
}

func callShort(fn *ssa.Function) string {
	s := fn.String()
	if i := strings.LastIndex(s, "."); i >= 0 {
		s = s[i+1:]
	}
	return strings.Trim(s, "()")
}

// ---- de-duplication merges identical keys only (C05 R05.9) ---------------------------------------------------

func dedupeEquality(c *Ctx, p *Prog, m *Model, rule string) {
	r := c.R
	sa := p.Func(p.Slog, "serializeAttrs")
	if sa == nil {
		r.Unk(rule, "dedupe:equality", "-", "serializeAttrs not found")
		return
	}
	te := newTermEval(p)
	ph := privateHelper(p)
	sites, _ := te.callsOf(sa, func(f *ssa.Function) bool { return ph(f) && !strings.HasPrefix(nm(f), "dedupeSlice") })
	found := false
	for _, site := range sites {
		cal := calleeOf(site.Instr)
		if cal == nil || !strings.HasPrefix(nm(origin(cal)), "dedupeSlice") {
			continue
		}
		var eq *ssa.Function
		switch x := site.Instr.Common().Args[1].(type) {
		case *ssa.MakeClosure:
			eq = x.Fn.(*ssa.Function)
		case *ssa.Function:
			eq = x
		}
		if eq == nil || len(eq.Params) != 2 {
			r.Unk(rule, "dedupe:equality", p.Pos(instrPos(site.Instr)), "the equality function of the de-duplication could not be resolved")
			return
		}
		found = true
		a, b := eq.Params[0], eq.Params[1]
		isKey := func(t *Term, q *ssa.Parameter) bool {
			return t.Op == "invoke" && t.Name == "Key" && len(t.Args) >= 1 && t.Args[0].isParam(q)
		}
		var probs []string
		for _, blk := range eq.Blocks {
			ret, ok := blk.Instrs[len(blk.Instrs)-1].(*ssa.Return)
			if !ok {
				continue
			}
			for _, alt := range te.eval(ret.Results[0], nil).alts() {
				switch {
				case alt.Op == "const":
				case alt.Op == "bin" && alt.Name == "==" && ((isKey(alt.Args[0], a) && isKey(alt.Args[1], b)) || (isKey(alt.Args[0], b) && isKey(alt.Args[1], a))):
				case alt.Op == "bin" && alt.Name == "==" && ((alt.Args[0].isParam(a) && alt.Args[1].isParam(b)) || (alt.Args[0].isParam(b) && alt.Args[1].isParam(a))):
				default:
					probs = append(probs, "two attributes count as duplicates when "+alt.String()+", which is not equality of their keys: attributes with different keys can be merged (one of them is lost)")
				}
			}
		}
		r.Check(len(probs) == 0, rule, "dedupe:equality", p.FuncPos(eq), "duplicates are attributes whose Key() strings are equal", strings.Join(dedupStr(probs), "; "))
	}
	if !found {
		r.Unk(rule, "dedupe:equality", p.FuncPos(sa), "no de-duplication call found in the member-list emitter")
	}
}

// ---- With... that configures a child creates a child of its own (C10 R10.4, C11 R11.5) ------------------------

func freshChildren(c *Ctx, p *Prog, m *Model, rule string, only func(name string) bool) {
	r := c.R
	ncl := p.Method(p.Slog, "Entry", "newChildLogger")
	if ncl == nil {
		r.Unk(rule, "fresh-child", "-", "newChildLogger not found")
		return
	}
	te := newTermEval(p)
	n := 0
	for _, fn := range p.RepoFuncs() {
		if fn.Signature.Recv() == nil || typeName(fn.Signature.Recv().Type()) != "Entry" || !strings.HasPrefix(fn.Name(), "With") || fn.Parent() != nil {
			continue
		}
		if only != nil && !only(fn.Name()) {
			continue
		}
		for _, cs := range callsTo(fn, ncl) {
			n++
			key := "fresh-child:Entry." + fn.Name()
			args := cs.Common().Args
			nameArg := te.eval(args[len(args)-1], nil)
			if nameArg.Op == "nil" {
				r.Ok(rule, key, p.Pos(instrPos(cs)), "an anonymous (newly created) child")
				continue
			}
			var missing []string
			for _, q := range fn.Params[1:] {
				if !nameArg.mentionsParam(q) {
					missing = append(missing, q.Name())
				}
			}
			r.Check(len(missing) == 0, rule, key, p.Pos(instrPos(cs)), "the child's name is a function of every setting given", fmt.Sprintf("the child is looked up under a name that does not depend on %v: two calls with different settings return the SAME logger, and the second call reconfigures the logger handed out by the first", missing))
		}
	}
	if n == 0 {
		r.Unk(rule, "fresh-child:none", "-", "no With... method obtains its child from newChildLogger")
	}
}

// ---- no entry point bypasses the terminating function (C12 R12.6) -----------------------------------------------

func noTerminationBypass(c *Ctx, p *Prog, m *Model) {
	r := c.R
	pr := p.Method(p.Slog, "Entry", "print")
	term := p.Method(p.Slog, "Entry", "logContext")
	if pr == nil || term == nil {
		r.Unk("R12.6", "bypass", "-", "print/logContext not found")
		return
	}
	// raw record entry points of the bridges (log/slog adapter, std log): outside the property's native entry points
	raw := map[string]bool{"WriteThru": true, "WriteInternal": true, "writeInternal": true}
	n := 0
	for _, root := range m.Roots() {
		if raw[nm(root)] || isWriterImplMethod(root) || nm(root) == "Handle" {
			continue
		}
		n++
		// a path root -> print that avoids the terminating function and the raw entry points
		seen := map[*ssa.Function]bool{}
		var path []string
		var dfs func(fn *ssa.Function) bool
		dfs = func(fn *ssa.Function) bool {
			if fn == pr {
				return true
			}
			if seen[fn] || fn == term || raw[nm(fn)] || fn.Pkg != p.Slog || m.SinkFns[fn] {
				return false
			}
			seen[fn] = true
			for _, cs := range callsIn(fn) {
				if cal := calleeOf(cs); cal != nil && dfs(cal) {
					path = append(path, shortName(fn))
					return true
				}
			}
			return false
		}
		if dfs(root) {
			sort.SliceStable(path, func(i, j int) bool { return false })
			for i, j := 0, len(path)-1; i < j; i, j = i+1, j-1 {
				path[i], path[j] = path[j], path[i]
			}
			r.Bad("R12.6", "bypass:"+shortName(root), p.FuncPos(root), "%s reaches the record printer without passing the function that terminates (%s -> print): a Panic/Fatal record taking this route is written but the call neither panics nor exits", shortName(root), strings.Join(path, " -> "))
		} else {
			r.Ok("R12.6", "bypass:"+shortName(root), p.FuncPos(root), "every route to the record printer passes logContext")
		}
	}
	if n < 20 {
		r.Unk("R12.6", "bypass:roots", "-", "only %d native entry points found", n)
	}
}

// ---- the record's instant reaches the encoder unchanged (C16 R16.5) ----------------------------------------------

func instantFlow(c *Ctx, p *Prog, m *Model) {
	r := c.R
	isTime := func(t types.Type) bool { return t.String() == "time.Time" }
	timeParam := func(fn *ssa.Function) *ssa.Parameter {
		for _, q := range fn.Params {
			if isTime(q.Type()) {
				return q
			}
		}
		return nil
	}
	te := newTermEval(p)
	for _, spec := range []string{"Entry.WriteThru", "Entry.print", "PrintCtx.set"} {
		fn := p.F(spec)
		if fn == nil {
			r.Unk("R16.5", "instant:"+spec, "-", "not found")
			continue
		}
		tp := timeParam(fn)
		if tp == nil {
			r.Bad("R16.5", "instant:"+spec, p.FuncPos(fn), "no time parameter")
			continue
		}
		var probs []string
		used := false
		for _, cs := range callsIn(fn) {
			cal := calleeOf(cs)
			if cal == nil || cal.Pkg != p.Slog {
				continue
			}
			for i, a := range cs.Common().Args {
				if !isTime(a.Type()) || i >= len(cal.Params) {
					continue
				}
				used = true
				if t := te.eval(a, nil); !t.isParam(tp) {
					probs = append(probs, fmt.Sprintf("%s is handed %s instead of the instant given", shortName(cal), t))
				}
			}
		}
		// ... and the function does not emit through a route that stamps an instant of its own: a callee of the package
		// that takes no instant but reaches time.Now() and the record printer would print "now" for this record
		for _, cs := range callsIn(fn) {
			cal := calleeOf(cs)
			if cal == nil || cal.Pkg != p.Slog || timeParam(cal) != nil || cal == fn {
				continue
			}
			stamps, prints := false, false
			reach := staticReach([]*ssa.Function{cal}, func(f *ssa.Function) bool { return f.Pkg != p.Slog })
			for g := range reach {
				if m.SinkFns[g] || nm(g) == "printImpl" {
					prints = true
				}
				for _, c2 := range callsIn(g) {
					if c3 := calleeOf(c2); c3 != nil && c3.String() == "time.Now" {
						stamps = true
					}
				}
			}
			if stamps && prints && !m.SinkFns[cal] {
				// the sink's own diagnostic record is a record of its own: excluded by !SinkFns; everything else is this record
				if pr := p.Method(p.Slog, "Entry", "print"); pr != nil && reach[pr] && !reachOnlyViaSink(p, m, cal, pr) {
					probs = append(probs, fmt.Sprintf("%s (called at %s) prints a record stamped with time.Now()", shortName(cal), p.Pos(instrPos(cs))))
				}
			}
		}
		for _, fs := range fieldStores(fn) {
			if isTime(fs.Val.Type()) {
				used = true
				if t := te.eval(fs.Val, nil); !t.isParam(tp) {
					probs = append(probs, fmt.Sprintf("field %s is stored %s instead of the instant given", fs.Field, t))
				}
			}
		}
		if !used {
			probs = append(probs, "the instant given is not passed on")
		}
		r.Check(len(probs) == 0, "R16.5", "instant:"+spec, p.FuncPos(fn), "the instant is passed on / stored unchanged", strings.Join(dedupStr(probs), "; ")+": the printed time is not the record's own instant to the layout's precision")
	}
	// the log/slog adapter hands on the record's own time, whatever it is
	if hd := p.Method(p.Slog, "handler4LogSlog", "Handle"); hd != nil && len(hd.Params) == 3 {
		rec := hd.Params[2]
		n, bad := 0, ""
		for _, cs := range callsIn(hd) {
			if invokeName(cs) != "WriteThru" {
				continue
			}
			for _, a := range cs.Common().Args {
				if !isTime(a.Type()) {
					continue
				}
				n++
				for _, alt := range te.eval(a, nil).alts() {
					if !(alt.Op == "field" && alt.Name == "Time" && len(alt.Args) == 1 && (alt.Args[0].isParam(rec) || alt.Args[0].contains(func(t *Term) bool { return t.isParam(rec) }))) {
						bad = "the time handed to the logger can be " + alt.String() + " instead of the record's own Time"
					}
				}
			}
		}
		r.Check(n > 0 && bad == "", "R16.5", "instant:handler4LogSlog.Handle", p.FuncPos(hd), "hands on the record's own Time", "Handle: "+bad+" (a record is re-stamped: its printed time is not its instant)")
	}
	// the timestamp printer formats the stored instant
	if pt := p.Method(p.Slog, "Entry", "printTimestamp"); pt != nil {
		ok := false
		for _, cs := range callsIn(pt) {
			for _, a := range cs.Common().Args {
				if isTime(a.Type()) {
					if t := te.eval(a, nil); t.Op == "field" && t.Name == "now" {
						ok = true
					}
				}
			}
		}
		r.Check(ok, "R16.5", "instant:printTimestamp", p.FuncPos(pt), "prints the stored instant", "the timestamp printer does not print the instant stored for this record")
	}
}

// ---- known-path registration stores what it is given (C18 R18.6) --------------------------------------------------

func registrationStores(c *Ctx, p *Prog, m *Model) {
	r := c.R
	tbl := p.Global(p.Slog, "knownPathMap")
	add := p.Func(p.Slog, "AddKnownPathMapping")
	if tbl == nil || add == nil || len(add.Params) != 2 {
		r.Unk("R18.6", "AddKnownPathMapping", "-", "not found")
		return
	}
	lo, hi := countOnPaths(add, func(in ssa.Instruction) bool {
		mu, ok := in.(*ssa.MapUpdate)
		if !ok {
			return false
		}
		g, isG := globalLoad(mu.Map)
		return isG && g == tbl && strip(mu.Key) == ssa.Value(add.Params[0]) && strip(mu.Value) == ssa.Value(add.Params[1])
	})
	r.Check(lo == 1 && hi == 1, "R18.6", "AddKnownPathMapping", p.FuncPos(add), "stores knownPathMap[pathname] = repl on every path", fmt.Sprintf("a registration can be dropped (the mapping is stored %d..%d times per call): a directory the user registered is later reported with its prefix", lo, hi))
	if rm := p.Func(p.Slog, "RemoveKnownPathMapping"); rm != nil && len(rm.Params) == 1 {
		bad := ""
		for _, cs := range callsIn(rm) {
			if isBuiltinCall(cs, "delete") {
				if strip(cs.Common().Args[1]) != ssa.Value(rm.Params[0]) {
					bad = "deletes a key other than the one given"
				}
			}
		}
		for _, gs := range globalStores(rm) {
			if gs.G == tbl && gs.Kind != "delete" {
				bad = "modifies the table other than by deleting the key given (" + gs.Kind + ")"
			}
		}
		r.Check(bad == "", "R18.6", "RemoveKnownPathMapping", p.FuncPos(rm), "removes exactly the mapping given", "RemoveKnownPathMapping "+bad+": other registrations are lost")
	}
}

// regexpRuleList: (R18.6) the list of regexp rules is only ever appended to, cut, or replaced as a whole: no function
// overwrites an element at a position it remembered (positions shift when a rule before it is removed), and a
// registration appends its rule on every path.
func regexpRuleList(c *Ctx, p *Prog) {
	r := c.R
	g := p.Global(p.Slog, "knownPathRegexpMap")
	add := p.Func(p.Slog, "AddKnownPathRegexpMapping")
	if g == nil || add == nil {
		r.OkTrivial("R18.6", "regexp-list:none", "-", "no regexp rule list")
		return
	}
	var probs []string
	for _, fn := range p.RepoFuncs() {
		if fn.Pkg != p.Slog {
			continue
		}
		for _, gs := range globalStores(fn) {
			if gs.G == g && gs.Kind == "elem" {
				probs = append(probs, fmt.Sprintf("%s overwrites an element of the rule list at a computed position (%s)", shortName(fn), p.Pos(instrPos(gs.Instr))))
			}
		}
	}
	lo, _ := countOnPaths(add, func(in ssa.Instruction) bool {
		st, ok := in.(*ssa.Store)
		if !ok || st.Addr != ssa.Value(g) {
			return false
		}
		call, ok := strip(st.Val).(*ssa.Call)
		return ok && isBuiltinCall(call, "append")
	})
	if lo < 1 {
		// an early return is fine only for a pattern that does not compile
		probs = append(probs, "a registration can return without appending its rule")
	}
	r.Check(len(probs) == 0, "R18.6", "regexp-list", p.FuncPos(add), "rules are appended; no element is overwritten in place", strings.Join(probs, "; ")+": after rules were removed a remembered position names another rule, which is then lost although it is still registered")
}

var _ = token.ADD

// ---- options are applied in the order given (C10 R10.3, C11 R11.4) -------------------------------------------------

func optionsInOrder(c *Ctx, p *Prog, rule string) {
	r := c.R
	ne := p.Func(p.Slog, "newentry")
	if ne == nil {
		r.Unk(rule, "newentry:options", "-", "newentry not found")
		return
	}
	opt := p.NamedType(p.Slog, "Opt")
	n := 0
	var probs []string
	for _, b := range ne.Blocks {
		for _, in := range b.Instrs {
			cs, ok := in.(ssa.CallInstruction)
			if !ok || cs.Common().IsInvoke() || cs.Common().StaticCallee() != nil {
				continue
			}
			if _, isB := cs.Common().Value.(*ssa.Builtin); isB {
				continue
			}
			// a call of a function VALUE of type Opt
			t := cs.Common().Value.Type()
			if opt == nil || !(types.Identical(t, opt) || types.Identical(t.Underlying(), opt.Underlying())) {
				continue
			}
			n++
			switch in.(type) {
			case *ssa.Defer:
				probs = append(probs, "an option is applied by a deferred call at "+p.Pos(instrPos(in))+": deferred calls run in reverse, so the FIRST of several contradicting options wins instead of the last")
			case *ssa.Go:
				probs = append(probs, "an option is applied on another goroutine at "+p.Pos(instrPos(in)))
			default:
				if !inLoop(b) {
					probs = append(probs, "an option is applied outside the loop over the options at "+p.Pos(instrPos(in)))
				} else if why := optionElemCoverage(ne, cs.Common().Value); why != "" {
					probs = append(probs, why+" at "+p.Pos(instrPos(in)))
				}
			}
		}
	}
	if n == 0 {
		probs = append(probs, "newentry applies no option")
	}
	r.Check(len(probs) == 0, rule, "newentry:options", p.FuncPos(ne), "each option is applied by a direct call, in the order given, to the logger under construction", strings.Join(probs, "; "))
}

// optionElemCoverage: the option applied is an element of the argument list, and every element gets its turn: the loop
// ranges over the variadic parameter itself from its first element, or over a re-slice whose dropped prefix was
// recognised as the name (the comma-ok string assertion on that element holds on the edge to the re-slice).
func optionElemCoverage(ne *ssa.Function, fv ssa.Value) string {
	if len(ne.Params) == 0 || !ne.Signature.Variadic() {
		return ""
	}
	args := ne.Params[len(ne.Params)-1]
	v := strip(fv)
	if ex, ok := v.(*ssa.Extract); ok {
		v = ex.Tuple
	}
	ta, ok := v.(*ssa.TypeAssert)
	if !ok {
		return ""
	}
	elem := strip(ta.X)
	u, ok := elem.(*ssa.UnOp)
	if !ok {
		return ""
	}
	ia, ok := u.X.(*ssa.IndexAddr)
	if !ok {
		return ""
	}
	isNameTest := func(g guard) bool {
		cond, neg := normCond(g.If.Cond)
		ex, ok := cond.(*ssa.Extract)
		if !ok || ex.Index != 1 || (g.Succ == 0) == neg {
			return false
		}
		t2, ok := ex.Tuple.(*ssa.TypeAssert)
		if !ok || !isStringT(t2.AssertedType) {
			return false
		}
		if u2, ok := strip(t2.X).(*ssa.UnOp); ok {
			if ia2, ok := u2.X.(*ssa.IndexAddr); ok && strip(ia2.X) == ssa.Value(args) {
				k, isC := constInt(ia2.Index)
				return isC && k == 0
			}
		}
		return false
	}
	for _, src := range sources(ia.X) {
		switch x := src.(type) {
		case *ssa.Parameter:
			if x != args {
				return "the options applied are not taken from the argument list"
			}
		case *ssa.Slice:
			k := int64(0)
			if x.Low != nil {
				kk, isC := constInt(x.Low)
				if !isC {
					return "the option loop starts at a computed position of the argument list"
				}
				k = kk
			}
			if k == 0 {
				continue
			}
			named := false
			for _, g := range guardsOf(x.Block()) {
				if isNameTest(g) {
					named = true
				}
			}
			if k > 1 || !named {
				return "the first argument is dropped from the option list although it was not recognised as the name (a leading option, e.g. a writer option of an anonymous New(opt, ...), is lost)"
			}
		default:
			return ""
		}
	}
	if strip(ia.X) == ssa.Value(args) && !fullIndexLoop(ia.Index, ia.X) {
		return "the loop applying the options does not visit every argument from the first"
	}
	// inside the loop every element reaches the option test, except over the edge on which it was recognised as the name
	test := ta.Block()
	load := u.Block() // where the element is loaded: the start of the loop body for this element
	seen := map[*ssa.BasicBlock]bool{load: true}
	var escapes func(b *ssa.BasicBlock) bool
	escapes = func(b *ssa.BasicBlock) bool {
		if b == test {
			return false
		}
		iff := ifOf(b)
		for i, sx := range b.Succs {
			if iff != nil && i == 0 {
				cond, neg := normCond(iff.Cond)
				if ex, ok := cond.(*ssa.Extract); ok && !neg && ex.Index == 1 {
					if t2, ok := ex.Tuple.(*ssa.TypeAssert); ok && isStringT(t2.AssertedType) && strip(t2.X) == elem {
						continue // recognised as the name
					}
				}
			}
			if sx == test {
				continue
			}
			if !load.Dominates(sx) || sx == load {
				return true // left the body of this iteration (next element or out of the loop) without the option test
			}
			if seen[sx] {
				continue
			}
			seen[sx] = true
			if escapes(sx) {
				return true
			}
		}
		return false
	}
	if load != test && escapes(load) {
		return "an element of the argument list can be skipped without having been offered to the option test although it was not recognised as the name (e.g. a leading option of an anonymous New(opt, ...))"
	}
	return ""
}

// ---- "under go test" means is.InTesting() and nothing else (C12 R12.7) ---------------------------------------------

func testingPredicate(c *Ctx, p *Prog) {
	r := c.R
	e, pk, err := p.varInit(p.Slog, "inTesting")
	if err != nil {
		r.Unk("R12.7", "inTesting", "-", "%v", err)
		return
	}
	ok := false
	if call, isCall := e.(*ast.CallExpr); isCall && len(call.Args) == 0 {
		if sel, isSel := call.Fun.(*ast.SelectorExpr); isSel && sel.Sel.Name == "InTesting" {
			if obj, has := pk.TypesInfo.Uses[sel.Sel]; has && obj.Pkg() != nil && strings.HasSuffix(obj.Pkg().Path(), "hedzr/is") {
				ok = true
			}
		}
	}
	r.Check(ok, "R12.7", "inTesting:init", p.Pos(e.Pos()), "inTesting is is.InTesting() itself", "the 'under go test' predicate of the termination rule is no longer is.InTesting() alone: some go test runs (or production runs) are classified differently, so Panic/Fatal terminate (or do not) where the documented rule says otherwise")
	for _, fn := range p.RepoFuncs() {
		if p.startupOnly(fn) {
			continue
		}
		for _, gs := range globalStores(fn) {
			if nm(gs.G) == "inTesting" {
				r.Bad("R12.7", "inTesting:store:"+shortName(fn), p.Pos(instrPos(gs.Instr)), "the 'under go test' predicate is reassigned at run time by %s", shortName(fn))
			}
		}
	}
}

// ---- Handle: a native logger always gets the record through WriteThru (C15 R15.3) --------------------------------------

func handleDecision(c *Ctx, p *Prog, m *Model) {
	r := c.R
	hd := p.Method(p.Slog, "handler4LogSlog", "Handle")
	if hd == nil {
		r.Unk("R15.3", "Handle:route", "-", "Handle not found")
		return
	}
	var probs []string
	for _, aware := range []bool{true, false} {
		for _, skip := range []bool{true, false} {
			a := map[string]bool{"aware": aware, "has-skip": skip}
			t := walkDecision(hd.Blocks[0], a, func(cond ssa.Value) (string, bool) {
				if ex, ok := cond.(*ssa.Extract); ok && ex.Index == 1 {
					if ta, ok := ex.Tuple.(*ssa.TypeAssert); ok {
						if _, isL := isFieldLoadOf(ta.X, "handler4LogSlog", "Logger"); isL {
							if typeName(ta.AssertedType) == "LogSlogAware" {
								return "aware", true
							}
							return "has-skip", true
						}
					}
				}
				return "", false
			}, nil)
			if t.Kind != "return" {
				probs = append(probs, "which way a record takes depends on a condition other than the capabilities of the underlying logger ("+t.Kind+"): some records of a native logger take the fallback path, which stamps them with the current time and its own caller")
				continue
			}
			thru, attrs := 0, 0
			for _, cs := range t.Calls {
				switch invokeName(cs) {
				case "WriteThru":
					thru++
				case "LogAttrs":
					attrs++
				}
			}
			if aware && (thru != 1 || attrs != 0) {
				probs = append(probs, fmt.Sprintf("a native logger is handed the record by %d WriteThru / %d LogAttrs calls (expected exactly one WriteThru with the record's own time)", thru, attrs))
			}
			if !aware && thru+attrs != 1 {
				probs = append(probs, fmt.Sprintf("a foreign logger is handed the record %d times", thru+attrs))
			}
		}
	}
	r.Check(len(probs) == 0, "R15.3", "Handle:route", p.FuncPos(hd), "native loggers always take WriteThru (record's own time), others LogAttrs; exactly one emission", strings.Join(dedupStr(probs), "; "))
}

// ---- the JSON escaper loses no byte (C04 R04.8) -------------------------------------------------------------------------

// The escaper copies runs of unescaped bytes lazily: `start` marks the beginning of the pending run. Whenever start is
// moved forward past an escaped character, the pending run val[start:i] must have been written first (directly under
// `if start < i`, or by a helper that is given val and start), on every path. Otherwise bytes of the value disappear
// while the record stays perfectly valid JSON.
func escaperNoLoss(c *Ctx, p *Prog, rule string) {
	r := c.R
	esc := p.Method(p.Slog, "PrintCtx", "appendEscapedJSONString")
	if esc == nil || len(esc.Params) < 2 {
		r.Unk(rule, "escaper:no-loss", "-", "JSON escaper not found")
		return
	}
	val := esc.Params[1]
	// the pending-run marker: a loop phi of type int that is the Low bound of a slice of val
	var start *ssa.Phi
	for _, b := range esc.Blocks {
		for _, in := range b.Instrs {
			if sl, ok := in.(*ssa.Slice); ok && sl.X == ssa.Value(val) && sl.Low != nil && sl.High != nil {
				if ph, ok := sl.Low.(*ssa.Phi); ok && inLoop(ph.Block()) {
					start = ph
				}
			}
			if cs, ok := in.(ssa.CallInstruction); ok && start == nil {
				// helper form: flush(val, start, i)
				hasVal := false
				for _, a := range cs.Common().Args {
					if a == ssa.Value(val) {
						hasVal = true
					}
				}
				if hasVal {
					for _, a := range cs.Common().Args {
						if ph, ok := a.(*ssa.Phi); ok && inLoop(ph.Block()) && startsAt(ph, 0) {
							start = ph
							break
						}
					}
				}
			}
		}
	}
	if start == nil {
		r.Unk(rule, "escaper:no-loss", p.FuncPos(esc), "the pending-run marker of the escaper was not recognised")
		return
	}
	flushes := func(b *ssa.BasicBlock) bool {
		for _, in := range b.Instrs {
			cs, ok := in.(ssa.CallInstruction)
			if !ok {
				continue
			}
			hasVal, hasStart := false, false
			for _, a := range cs.Common().Args {
				if sl, ok := a.(*ssa.Slice); ok && sl.X == ssa.Value(val) && sl.Low == ssa.Value(start) {
					return true
				}
				if a == ssa.Value(val) {
					hasVal = true
				}
				if a == ssa.Value(start) {
					hasStart = true
				}
			}
			if hasVal && hasStart {
				return true
			}
		}
		return false
	}
	var flushDoms []*ssa.BasicBlock // blocks after which the pending run has been written (or was empty)
	for _, b := range esc.Blocks {
		if flushes(b) {
			flushDoms = append(flushDoms, b)
			// the test `start < i` guarding it
			for _, pr := range b.Preds {
				if iff := ifOf(pr); iff != nil && pr.Succs[0] == b {
					if bo, ok := iff.Cond.(*ssa.BinOp); ok && bo.Op == token.LSS && bo.X == ssa.Value(start) {
						flushDoms = append(flushDoms, pr)
					}
				}
			}
		}
	}
	var probs []string
	n := 0
	for i, e := range start.Edges {
		if e == ssa.Value(start) {
			continue
		}
		if z, ok := constInt(e); ok && z == 0 {
			continue
		}
		n++
		pred := start.Block().Preds[i]
		ok := false
		for _, fd := range flushDoms {
			if fd.Dominates(pred) {
				ok = true
			}
		}
		if !ok {
			probs = append(probs, "the pending run is dropped without having been written on the path through "+p.Pos(instrPos(pred.Instrs[len(pred.Instrs)-1])))
		}
	}
	sort.Strings(probs)
	if n == 0 {
		r.Unk(rule, "escaper:no-loss", p.FuncPos(esc), "no advance of the pending-run marker found")
		return
	}
	r.Check(len(probs) == 0, rule, "escaper:no-loss", p.FuncPos(esc), fmt.Sprintf("each of the %d places that skip an escaped character writes the pending run first", n), strings.Join(probs, "; ")+": bytes of the string disappear from the record (which stays valid JSON)")
}

// ---- padding is not cut from a fixed-size source (C06 R06.3) -----------------------------------------------------------------

func padUnbounded(c *Ctx, p *Prog) {
	r := c.R
	te := newTermEval(p)
	for _, name := range []string{"rightPad", "leftPad", "padFunc", "pad"} {
		fn := p.Method(p.Slog, "colorizeToolS", name)
		if fn == nil {
			continue
		}
		bad := ""
		for _, b := range fn.Blocks {
			ret, ok := b.Instrs[len(b.Instrs)-1].(*ssa.Return)
			if !ok || len(ret.Results) == 0 {
				continue
			}
			t := te.eval(ret.Results[0], nil)
			if t.contains(func(x *Term) bool {
				if x.Op != "slice" || len(x.Args) == 0 {
					return false
				}
				src := x.Args[0]
				return src.Op == "const" || src.Op == "global"
			}) {
				bad = t.String()
			}
		}
		r.Check(bad == "", "R06.3", "pad-source:"+name, p.FuncPos(fn), "the padding is not cut from a fixed-size constant", "the padding is cut from a fixed-size source ("+bad+"): a configured width beyond its size is silently not honoured")
	}
}

// ---- a registration stores the caller's own tags only (C17 R17.6) ----------------------------------------------------------------

func tagStoresFromRegistration(c *Ctx, p *Prog) {
	r := c.R
	rl := p.Func(p.Slog, "RegisterLevel")
	tbl := p.Global(p.Slog, "shortTagMap")
	if rl == nil || tbl == nil {
		r.Unk("R17.6", "register:tag-source", "-", "RegisterLevel/shortTagMap not found")
		return
	}
	te := newTermEval(p)
	n := 0
	var probs []string
	for _, ef := range te.effectsOf(rl, privateHelper(p)) {
		if ef.Kind != "mapupdate" {
			continue
		}
		// an update of shortTagMap[i] (the inner map)
		isTbl := ef.Base != nil && ef.Base.contains(func(t *Term) bool { return t.Op == "global" && t.Name == "shortTagMap" })
		if !isTbl {
			continue
		}
		n++
		for _, alt := range ef.Val.alts() {
			if !(alt.Op == "index" && alt.Args[0].contains(func(t *Term) bool { return t.Op == "field" && t.Name == "shortTags" })) {
				probs = append(probs, "a tag computed by the library ("+alt.String()+") is stored for a width: nothing establishes that it has that width (the tag printed for a registered level is then narrower or wider than configured)")
			}
		}
	}
	if n == 0 {
		r.Unk("R17.6", "register:tag-source", p.FuncPos(rl), "RegisterLevel stores no tag")
		return
	}
	r.Check(len(probs) == 0, "R17.6", "register:tag-source", p.FuncPos(rl), "only the tags given with the registration are stored, each under its own width index", strings.Join(dedupStr(probs), "; "))
}

// ---- pooled objects start on memory of their own (C08 R08.3, C09) ------------------------------------------------------------

func pooledObjectsFresh(c *Ctx, p *Prog, rule string) {
	r := c.R
	te := newTermEval(p)
	n := 0
	for _, fn := range p.RepoFuncs() {
		if fn.Pkg != p.Slog && fn.Parent() == nil {
			continue
		}
		for _, fs := range fieldStores(fn) {
			if fs.Struct != "PrintCtx" || fs.Kind != "store" || fs.Val == nil {
				continue
			}
			if _, fresh := fs.Base.(*ssa.Alloc); !fresh {
				continue
			}
			if _, isSlice := fs.Val.Type().Underlying().(*types.Slice); !isSlice {
				continue
			}
			n++
			t := te.eval(fs.Val, nil)
			shared := t.contains(func(x *Term) bool { return x.Op == "global" })
			key := "fresh-buffer:" + shortName(fn) + ":" + fs.Field
			r.Check(!shared, rule, key, p.Pos(instrPos(fs.Instr)), "a new formatting context starts on a buffer of its own", "a new formatting context is given a window of package-level storage ("+t.String()+") as its "+fs.Field+": two contexts in use at the same time can write the same bytes (and growing one runs into its neighbour)")
		}
	}
	if n == 0 {
		r.OkTrivial(rule, "fresh-buffer:none", "-", "no slice field is initialised when a formatting context is created (zero value)")
	}
}

// ---- every context key given is registered (C07 R07.5) -----------------------------------------------------------------------

func contextKeysRegistered(c *Ctx, p *Prog) {
	r := c.R
	fn := p.Method(p.Slog, "Entry", "SetContextKeys")
	if fn == nil || len(fn.Params) != 2 {
		r.Unk("R07.5", "SetContextKeys", "-", "not found")
		return
	}
	recv, keys := fn.Params[0], fn.Params[1]
	te := newTermEval(p)
	var probs []string
	n := 0
	for _, ef := range te.effectsOf(fn, privateHelper(p)) {
		if ef.Struct != "Entry" || ef.Field != "contextKeys" || ef.Kind != "store" {
			continue
		}
		n++
		for _, alt := range ef.Val.alts() {
			if !(alt.Op == "append" && len(alt.Args) == 2 && alt.Args[0].isFieldOf(recv, "contextKeys") && alt.Args[1].isParam(keys)) {
				probs = append(probs, "the key list stored is "+alt.String()+", not the old list with ALL the keys given appended: a key can be left out (its value is then missing from every record) or the list reordered")
			}
		}
		if gs := ef.guardsWithChain(); len(gs) > 0 {
			probs = append(probs, "the registration is conditional ("+m0guard(gs[0])+")")
		}
	}
	if n != 1 {
		probs = append(probs, fmt.Sprintf("%d stores to the key list", n))
	}
	r.Check(len(probs) == 0, "R07.5", "SetContextKeys", p.FuncPos(fn), "appends every key given to the logger's own key list, unconditionally", strings.Join(dedupStr(probs), "; "))
}

func m0guard(g guard) string {
	c, _ := normCond(g.If.Cond)
	return c.String()
}

// ---- no mutex is held across the sink's own diagnostic (C13 R13.2) ------------------------------------------------------------

func noLockAcrossDiagnostic(c *Ctx, p *Prog, m *Model) {
	r := c.R
	isLock := func(cal *ssa.Function) bool {
		switch cal.String() {
		case "(*sync.Mutex).Lock", "(*sync.RWMutex).Lock", "(*sync.RWMutex).RLock":
			return true
		}
		return false
	}
	isUnlock := func(cal *ssa.Function) bool {
		switch cal.String() {
		case "(*sync.Mutex).Unlock", "(*sync.RWMutex).Unlock", "(*sync.RWMutex).RUnlock":
			return true
		}
		return false
	}
	// lock/unlock reached through private helpers count (lockWriters() returning the unlock func, ...)
	var locksIn func(fn *ssa.Function, depth int) bool
	locksIn = func(fn *ssa.Function, depth int) bool {
		for _, cs := range callsIn(fn) {
			cal := calleeOf(cs)
			if cal == nil {
				continue
			}
			if isLock(cal) {
				return true
			}
			if depth < 2 && cal.Pkg == p.Slog && cal.Object() != nil && !cal.Object().Exported() && !m.SinkFns[cal] && locksIn(cal, depth+1) {
				return true
			}
		}
		return false
	}
	for sink := range m.SinkFns {
		// re-entry sites: calls from the sink back into the logging API (spine sites of the sink)
		var reentries []ssa.CallInstruction
		for _, cs := range m.Sites[sink] {
			reentries = append(reentries, cs)
		}
		key := "lock-held:" + shortName(sink)
		if len(reentries) == 0 {
			r.OkTrivial("R13.2", key, p.FuncPos(sink), "the sink does not re-enter logging")
			continue
		}
		bad := ""
		for _, re := range reentries {
			for _, cs := range callsIn(sink) {
				cal := calleeOf(cs)
				if cal == nil {
					continue
				}
				locks := isLock(cal) || (cal.Pkg == p.Slog && cal.Object() != nil && !cal.Object().Exported() && locksIn(cal, 0))
				if !locks {
					continue
				}
				if _, isDefer := cs.(*ssa.Defer); isDefer {
					continue
				}
				if !(cs.Block().Dominates(re.Block()) && after(cs, re)) {
					continue
				}
				// released before the re-entry on every path? (a plain Unlock call between them that dominates the re-entry)
				released := false
				for _, u := range callsIn(sink) {
					if ucal := calleeOf(u); ucal != nil && isUnlock(ucal) {
						if _, isDefer := u.(*ssa.Defer); !isDefer && after(cs, u) && u.Block().Dominates(re.Block()) && after(u, re) {
							released = true
						}
					}
				}
				if !released {
					bad = fmt.Sprintf("the lock taken at %s is still held when the diagnostic is issued at %s: the nested record takes the same path and locks again (self-deadlock, or a deadlock with a waiting writer for a read lock)", p.Pos(instrPos(cs)), p.Pos(instrPos(re)))
				}
			}
		}
		r.Check(bad == "", "R13.2", key, p.FuncPos(sink), "no mutex is held while the sink issues its diagnostic record", bad)
	}
}

// ---- a position found by a search is not stepped back past the start (C02 R02.5) -----------------------------------------------

// str[ix-1], str[:ix-1] with ix the result of strings.Index*/bytes.Index* need ix >= 1 (not just "found", ix >= 0):
// a match at position 0 otherwise indexes -1 and the logging call panics.
func searchIndexStepBack(c *Ctx, p *Prog, m *Model) {
	r := c.R
	tree := printTree(p, m)
	isSearch := func(v ssa.Value) bool {
		call, ok := v.(*ssa.Call)
		if !ok {
			return false
		}
		cal := calleeOf(call)
		if cal == nil || cal.Pkg == nil {
			return false
		}
		pp := cal.Pkg.Pkg.Path()
		return (pp == "strings" || pp == "bytes") && (strings.HasPrefix(cal.Name(), "Index") || strings.HasPrefix(cal.Name(), "LastIndex"))
	}
	atLeast := func(v ssa.Value, need int64, b *ssa.BasicBlock) bool {
		for _, g := range guardsOf(b) {
			cond, neg := normCond(g.If.Cond)
			bo, ok := cond.(*ssa.BinOp)
			if !ok || bo.X != v {
				continue
			}
			k, isC := constInt(bo.Y)
			if !isC {
				continue
			}
			holds := (g.Succ == 0) != neg
			switch {
			case holds && bo.Op == token.GTR && k+1 >= need,
				holds && bo.Op == token.GEQ && k >= need,
				!holds && bo.Op == token.LSS && k >= need,
				!holds && bo.Op == token.LEQ && k+1 >= need:
				return true
			}
		}
		return false
	}
	n := 0
	var fns []*ssa.Function
	for fn := range tree {
		fns = append(fns, fn)
	}
	sort.Slice(fns, func(i, j int) bool { return shortName(fns[i]) < shortName(fns[j]) })
	for _, fn := range fns {
		for _, b := range fn.Blocks {
			for _, in := range b.Instrs {
				var idxs []ssa.Value
				switch x := in.(type) {
				case *ssa.Index:
					idxs = append(idxs, x.Index)
				case *ssa.IndexAddr:
					idxs = append(idxs, x.Index)
				case *ssa.Slice:
					if x.Low != nil {
						idxs = append(idxs, x.Low)
					}
					if x.High != nil {
						idxs = append(idxs, x.High)
					}
				}
				for _, ix := range idxs {
					l, ok := linOf(ix)
					if !ok || l.c >= 0 || len(l.atoms) != 1 {
						continue
					}
					for at, k := range l.atoms {
						if k != 1 || !isSearch(at) {
							continue
						}
						n++
						key := fmt.Sprintf("stepback:%s:%d", shortName(fn), n)
						r.Check(atLeast(at, -l.c, b), "R02.5", key, p.Pos(instrPos(in)), "the position found is known to be far enough from the start", fmt.Sprintf("a position found by %s is stepped back by %d without a test that it is at least %d: a match at the very start indexes before the string and the logging call panics", callName(at.(*ssa.Call)), -l.c, -l.c))
					}
				}
			}
		}
	}
	if n == 0 {
		r.OkTrivial("R02.5", "stepback:none", "-", "no search result is stepped back on the print path")
	}
}

// noDiagnosticOnSuccess: R02.7 — a destination that reported success gets no further record out of the call.
// Every call from the sink (or a failure helper) back into the logging spine must sit on the taken edge of
// "e != nil" where every definition reaching e is the error result of the destination's Write itself: an error
// manufactured by the sink (a short-count test, a sentinel, a wrapped value from a merge) makes a healthy
// destination produce a second record on a destination that was not selected.
func noDiagnosticOnSuccess(c *Ctx, p *Prog, m *Model) {
	r := c.R
	callers := p.staticCallers()
	var writeErrOnly func(v ssa.Value, depth int) (bool, string)
	writeErrOnly = func(v ssa.Value, depth int) (bool, string) {
		for _, s := range sources(v) {
			switch x := s.(type) {
			case *ssa.Extract:
				call, ok := x.Tuple.(*ssa.Call)
				if !ok {
					return false, "a value that is not the result of Write"
				}
				if invokeName(call) == "Write" && x.Index == 1 {
					continue
				}
				if cal := calleeOf(call); cal != nil && nm(cal) == "Write" && x.Index == 1 {
					continue
				}
				return false, "the result of " + call.Common().String()
			case *ssa.Parameter:
				if depth > 3 || x.Type().String() != "error" {
					return false, "parameter " + nm(x)
				}
				fn := x.Parent()
				idx := -1
				for i, q := range fn.Params {
					if q == x {
						idx = i
					}
				}
				sites := callers[fn]
				if idx < 0 || len(sites) == 0 {
					return false, "parameter " + nm(x) + " of a function without static callers"
				}
				for _, cs := range sites {
					if idx >= len(cs.Common().Args) {
						return false, "parameter " + nm(x)
					}
					if ok, why := writeErrOnly(cs.Common().Args[idx], depth+1); !ok {
						return false, why
					}
				}
			default:
				return false, m.valDesc(s)
			}
		}
		return true, ""
	}
	var guarded func(cs ssa.CallInstruction, depth int) (bool, string)
	guarded = func(cs ssa.CallInstruction, depth int) (bool, string) {
		why := "no 'err != nil' test dominates it"
		for _, g := range guardsOf(cs.Block()) {
			cond, neg := normCond(g.If.Cond)
			bo, ok := cond.(*ssa.BinOp)
			if !ok || !isNilConst(bo.Y) || bo.X.Type().String() != "error" {
				continue
			}
			taken := (g.Succ == 0) != neg
			if !((bo.Op == token.NEQ && taken) || (bo.Op == token.EQL && !taken)) {
				continue
			}
			if ok, w := writeErrOnly(bo.X, 0); ok {
				return true, ""
			} else {
				why = "the error tested can also be " + w + ", which is set although the destination reported success"
			}
		}
		fn := cs.Parent()
		if m.SinkFns[fn] || depth > 3 {
			return false, why
		}
		sites := callers[fn]
		if len(sites) == 0 {
			return false, why
		}
		for _, s2 := range sites {
			if ok, w := guarded(s2, depth+1); !ok {
				return false, w
			}
		}
		return true, ""
	}
	region := failureRegion(p, m)
	inRegion := map[*ssa.Function]bool{}
	for _, fn := range region {
		inRegion[fn] = true
	}
	n := 0
	for _, fn := range region {
		for _, cs := range callsIn(fn) {
			cal := calleeOf(cs)
			if cal == nil || !m.Spine[cal] || inRegion[cal] || fn == cal.Parent() {
				continue
			}
			n++
			key := "success-silent:" + shortName(fn) + "->" + shortName(cal)
			ok, why := guarded(cs, 0)
			r.Check(ok, "R02.7", key, p.Pos(instrPos(cs)), "the nested record is issued only when the destination's own Write returned an error",
				"a nested record can be issued although every destination reported success ("+why+"): a destination not selected for the record is written to")
		}
	}
	if n == 0 {
		r.OkTrivial("R02.7", "success-silent:none", "-", "the sink never logs again")
	}
}

// ---- the message is handed on as given (R05.10, shared with C04 and C06) -------------------------------------------
//
// A string parameter has the message role if the function stores it into the encoder's message field or passes it
// on as a message-role argument. Along that chain every hop must pass the parameter ITSELF: an argument that is
// computed from the message (re-sliced, trimmed, concatenated, or merged with such a value at a join) means the
// record's msg is no longer the text the caller logged. Functions that BUILD the message (the print/printf verbs,
// the log.Logger bridge that converts a byte buffer) are the chain's origins and not restricted.
func messageIdentity(c *Ctx, p *Prog, rule string) {
	fieldIdentity(c, p, rule, "msg", "message", isStringT)
}

// attrsIdentity: (R07.4) the list the member emitter sorts, de-duplicates and prints is the list that was collected:
// every hop from the collector to the encoder's attribute field passes its list parameter itself, and the top-level
// call of the member emitter is given that field itself - a filtered or rebuilt list (entries dropped before the
// de-duplication) lets an attribute that was shadowed by a later one come back.
func attrsIdentity(c *Ctx, p *Prog, rule string) {
	isAttrs := func(t types.Type) bool { return typeName(t) == "Attrs" }
	fieldIdentity(c, p, rule, "kvps", "attribute list", isAttrs)
	r := c.R
	sa := p.Func(p.Slog, "serializeAttrs")
	if sa == nil {
		return
	}
	n := 0
	for _, cs := range p.staticCallers()[sa] {
		fn := cs.Parent()
		if fn.Signature.Recv() == nil || typeName(fn.Signature.Recv().Type()) != "Entry" {
			continue // group members: their own lists
		}
		n++
		arg := cs.Common().Args[len(cs.Common().Args)-1]
		_, ok := isFieldLoadOf(strip(arg), "PrintCtx", "kvps")
		r.Check(ok, rule, "attrs-emit:"+shortName(fn), p.Pos(instrPos(cs)), "the member emitter is given the collected list itself", "the member emitter is given a list computed from the collected one ("+arg.String()+"), not the list itself: entries removed or reordered before the sort and the de-duplication change which occurrence of a key wins")
	}
	if n == 0 {
		r.Unk(rule, "attrs-emit", "-", "no top-level call of the member emitter found")
	}
}

func fieldIdentity(c *Ctx, p *Prog, rule, field, what string, typeOK func(types.Type) bool) {
	r := c.R
	type role struct {
		fn  *ssa.Function
		idx int
	}
	roles := map[role]bool{}
	var work []role
	add := func(fn *ssa.Function, prm *ssa.Parameter) {
		for i, q := range fn.Params {
			if q == prm && !roles[role{fn, i}] {
				roles[role{fn, i}] = true
				work = append(work, role{fn, i})
			}
		}
	}
	type hop struct {
		fn   *ssa.Function
		in   ssa.Instruction
		arg  ssa.Value
		what string
	}
	var hops []hop
	for _, fn := range p.RepoFuncs() {
		for _, fs := range fieldStores(fn) {
			if fs.Struct == "PrintCtx" && fs.Field == field && fs.Kind == "store" && fs.Val != nil {
				hops = append(hops, hop{fn, fs.Instr, fs.Val, "the encoder's " + what + " field"})
				if prm, ok := strip(fs.Val).(*ssa.Parameter); ok {
					add(fn, prm)
				}
			}
		}
	}
	if len(hops) == 0 {
		r.Unk(rule, field+":field", "-", "no store to the encoder's %s field found", what)
		return
	}
	callers := p.staticCallers()
	for len(work) > 0 {
		w := work[len(work)-1]
		work = work[:len(work)-1]
		for _, cs := range callers[w.fn] {
			if w.idx >= len(cs.Common().Args) {
				continue
			}
			arg := cs.Common().Args[w.idx]
			hops = append(hops, hop{cs.Parent(), cs, arg, "the " + what + " parameter of " + shortName(w.fn)})
			if prm, ok := strip(arg).(*ssa.Parameter); ok && typeOK(prm.Type()) {
				add(cs.Parent(), prm)
			}
		}
	}
	n := 0
	for _, h := range hops {
		var mine []*ssa.Parameter
		for i, q := range h.fn.Params {
			if roles[role{h.fn, i}] {
				mine = append(mine, q)
			}
		}
		if len(mine) == 0 {
			continue // an origin: builds the message
		}
		n++
		key := fmt.Sprintf("%s:%s->%s", field, shortName(h.fn), strings.TrimPrefix(h.what, "the "+what+" parameter of "))
		bad := ""
		for _, q := range mine {
			if strip(h.arg) != ssa.Value(q) && dependsOn(h.arg, q) {
				bad = fmt.Sprintf("%s receives a value computed from the parameter %s, not the parameter itself: the record does not carry what was logged (part of it is lost or changed on the way)", h.what, nm(q))
			}
		}
		r.Check(bad == "", rule, key, p.Pos(instrPos(h.in)), "the "+what+" is handed on unchanged", bad)
	}
	if n < 2 {
		r.Unk(rule, field+":chain", "-", "only %d hops of the %s chain recognised", n, what)
	}
}

// ---- argument lists belong to the caller (R10.7, shared with C02) ------------------------------------------------------
//
// A variadic parameter called as f(list...) IS the caller's slice. No function of the package stores into an element
// of a variadic or []any parameter (directly, or through a re-slice or a join of it): a name written into args[0]
// changes what the same list means the next time the caller uses it.
func callerArgsUntouched(c *Ctx, p *Prog, rule string) {
	r := c.R
	n := 0
	for _, fn := range p.RepoFuncs() {
		if fn.Pkg != p.Slog || len(fn.Blocks) == 0 {
			continue
		}
		var lists []*ssa.Parameter
		for i, q := range fn.Params {
			if _, ok := q.Type().Underlying().(*types.Slice); !ok {
				continue
			}
			if (fn.Signature.Variadic() && i == len(fn.Params)-1) || q.Type().String() == "[]any" || q.Type().String() == "[]interface{}" {
				lists = append(lists, q)
			}
		}
		if len(lists) == 0 {
			continue
		}
		n++
		var probs []string
		for _, b := range fn.Blocks {
			for _, in := range b.Instrs {
				st, ok := in.(*ssa.Store)
				if !ok {
					continue
				}
				ia, ok := st.Addr.(*ssa.IndexAddr)
				if !ok {
					continue
				}
				for _, src := range sources(ia.X) {
					base := src
					for {
						if sl, ok := base.(*ssa.Slice); ok {
							base = strip(sl.X)
							if ph, ok := base.(*ssa.Phi); ok {
								for _, e := range sources(ph) {
									for _, q := range lists {
										if e == ssa.Value(q) {
											base = q
										}
									}
								}
							}
							continue
						}
						break
					}
					for _, q := range lists {
						if base == ssa.Value(q) {
							probs = append(probs, fmt.Sprintf("stores into an element of its argument list %s at %s", nm(q), p.Pos(instrPos(st))))
						}
					}
				}
			}
		}
		r.Check(len(probs) == 0, rule, "args:"+shortName(fn), p.FuncPos(fn), "never writes into its argument list", strings.Join(dedupStr(probs), "; ")+": called as f(list...) the list is the caller's own slice, which then means something else the next time it is used")
	}
	if n < 10 {
		r.Unk(rule, "args:functions", "-", "only %d functions with an argument list found", n)
	}
}

// ---- a nil context never has a method called on it (R02.9; shared with C07 and C12) ------------------------------------
//
// Every entry point tolerates a nil context. For each method call on a context.Context value on the print path the
// receiver is traced back through parameters (over all static call sites) and joins: every origin must be a value
// made by package context, or the raw parameter on the not-nil side of a test of that same parameter.
func nilContextSafe(c *Ctx, p *Prog, m *Model, rule string) {
	r := c.R
	isCtx := func(t types.Type) bool { return t.String() == "context.Context" }
	callers := p.staticCallers()
	var safe func(v ssa.Value, at *ssa.BasicBlock, depth int, seen map[ssa.Value]bool) string
	notNilEdge := func(x ssa.Value, pred, to *ssa.BasicBlock) bool {
		// pred -> to is taken only when x != nil, or pred is dominated by such an edge
		check := func(blk *ssa.BasicBlock, idx int) bool {
			iff := ifOf(blk)
			if iff == nil {
				return false
			}
			cond, neg := normCond(iff.Cond)
			bo, ok := cond.(*ssa.BinOp)
			if !ok || strip(bo.X) != strip(x) || !isNilConst(bo.Y) {
				return false
			}
			taken := (idx == 0) != neg
			return (bo.Op == token.EQL && !taken) || (bo.Op == token.NEQ && taken)
		}
		for i, s := range pred.Succs {
			if s == to && check(pred, i) && pred.Succs[0] != pred.Succs[1] {
				return true
			}
		}
		for _, g := range guardsOf(pred) {
			if check(g.Blk, g.Succ) {
				return true
			}
		}
		return false
	}
	safe = func(v ssa.Value, at *ssa.BasicBlock, depth int, seen map[ssa.Value]bool) string {
		v = strip(v)
		if seen[v] {
			return ""
		}
		seen[v] = true
		switch x := v.(type) {
		case *ssa.Call:
			if cal := calleeOf(x); cal != nil && cal.Pkg != nil && cal.Pkg.Pkg.Path() == "context" {
				return ""
			}
			return "the result of " + x.Common().String()
		case *ssa.Phi:
			for i, e := range x.Edges {
				if prm, ok := strip(e).(*ssa.Parameter); ok && notNilEdge(prm, x.Block().Preds[i], x.Block()) {
					continue
				}
				if why := safe(e, x.Block().Preds[i], depth, seen); why != "" {
					return why
				}
			}
			return ""
		case *ssa.Parameter:
			if at != nil {
				for _, g := range guardsOf(at) {
					cond, neg := normCond(g.If.Cond)
					if bo, ok := cond.(*ssa.BinOp); ok && strip(bo.X) == v && isNilConst(bo.Y) {
						taken := (g.Succ == 0) != neg
						if (bo.Op == token.EQL && !taken) || (bo.Op == token.NEQ && taken) {
							return ""
						}
					}
				}
			}
			fn := x.Parent()
			idx := -1
			for i, q := range fn.Params {
				if q == x {
					idx = i
				}
			}
			sites := callers[fn]
			if depth > 6 {
				return "a call chain too deep to follow"
			}
			exported := fn.Object() != nil && fn.Object().Exported() && fn.Parent() == nil
			if exported && !isExportedRecvOK(fn) {
				exported = false
			}
			if exported {
				return "the context parameter of the exported " + shortName(fn) + " (a caller may pass nil)"
			}
			if len(sites) == 0 || idx < 0 {
				return "the context parameter of " + shortName(fn) + ", which has no static caller"
			}
			for _, cs := range sites {
				if idx >= len(cs.Common().Args) {
					continue
				}
				if why := safe(cs.Common().Args[idx], cs.Block(), depth+1, seen); why != "" {
					return why
				}
			}
			return ""
		case *ssa.Const:
			if x.IsNil() {
				return "a nil constant"
			}
		}
		return m.valDesc(v)
	}
	tree := printTree(p, m)
	var fns []*ssa.Function
	for fn := range tree {
		fns = append(fns, fn)
	}
	sort.Slice(fns, func(i, j int) bool { return shortName(fns[i]) < shortName(fns[j]) })
	n := 0
	for _, fn := range fns {
		for _, cs := range callsIn(fn) {
			if !cs.Common().IsInvoke() || !isCtx(cs.Common().Value.Type()) {
				continue
			}
			n++
			key := fmt.Sprintf("nilctx:%s.%s", shortName(fn), invokeName(cs))
			why := safe(cs.Common().Value, cs.Block(), 0, map[ssa.Value]bool{})
			r.Check(why == "", rule, key, p.Pos(instrPos(cs)), "every origin of the context is made by package context or passed a not-nil test", "ctx."+invokeName(cs)+" can be called on a nil context: it can be "+why+"; a logging call with a nil context then panics with a nil dereference instead of returning (and instead of panicking with its message, for the Panic severity)")
		}
	}
	if n == 0 {
		r.OkTrivial(rule, "nilctx:none", "-", "no method is called on a context on the print path")
	}
}

// isExportedRecvOK: a method is callable by users only if its receiver type is exported too.
func isExportedRecvOK(fn *ssa.Function) bool {
	if fn.Signature.Recv() == nil {
		return true
	}
	if nt := namedOf(fn.Signature.Recv().Type()); nt != nil {
		return nt.Obj().Exported()
	}
	return true
}

// ---- package-level functions delegate to their namesake on the default logger (R10.8; shared with C14) ---------------
//
// A package-level function that has a namesake among the default logger's methods and calls a method on the default
// logger must call that namesake with its own arguments: SetSkip calling WithSkip sets the skip on a child nobody uses.
func packageNamesakes(c *Ctx, p *Prog, rule string) {
	r := c.R
	n := 0
	for _, fn := range p.RepoFuncs() {
		if fn.Pkg != p.Slog || fn.Signature.Recv() != nil || fn.Parent() != nil || fn.Object() == nil || !fn.Object().Exported() {
			continue
		}
		var onDefault []ssa.CallInstruction
		for _, cs := range callsIn(fn) {
			cc := cs.Common()
			var recvArg ssa.Value
			name := ""
			switch {
			case cc.IsInvoke():
				recvArg, name = cc.Value, cc.Method.Name()
			case calleeOf(cs) != nil && calleeOf(cs).Signature.Recv() != nil && len(cc.Args) > 0:
				recvArg, name = cc.Args[0], calleeOf(cs).Name()
			default:
				continue
			}
			fromDefault := false
			for _, sv := range sources(recvArg) {
				if ta, ok := sv.(*ssa.TypeAssert); ok {
					sv = strip(ta.X)
				}
				if ex, ok := sv.(*ssa.Extract); ok {
					if ta, ok := ex.Tuple.(*ssa.TypeAssert); ok {
						sv = strip(ta.X)
					}
				}
				if g, ok := globalLoad(sv); ok && g.Name() == "defaultLog" {
					fromDefault = true
				}
			}
			if fromDefault && name != "" {
				onDefault = append(onDefault, cs)
			}
		}
		if len(onDefault) == 0 {
			continue
		}
		// does the default logger's type have a method of this name?
		if p.Method(p.Slog, "Entry", fn.Name()) == nil {
			continue
		}
		n++
		var probs []string
		for _, cs := range onDefault {
			name := ""
			if cs.Common().IsInvoke() {
				name = cs.Common().Method.Name()
			} else {
				name = calleeOf(cs).Name()
			}
			if name != fn.Name() {
				probs = append(probs, fmt.Sprintf("calls %s on the default logger at %s", name, p.Pos(instrPos(cs))))
			}
		}
		r.Check(len(probs) == 0, rule, "namesake:"+fn.Name(), p.FuncPos(fn), "delegates to its namesake on the default logger", "the package-level "+fn.Name()+" does not delegate to the default logger's "+fn.Name()+": "+strings.Join(probs, "; ")+" (the setting lands somewhere else than on the default logger)")
	}
	if n == 0 {
		r.OkTrivial(rule, "namesake:none", "-", "no package-level function with a namesake method delegates to the default logger")
	}
}

// messageEmittedAsIs: (R05.10, second half) in the structured modes the text written under the message key is the
// encoder's message field itself. Every mode-reachable call that passes the message key constant together with a
// string is judged: over the mode-feasible edges the string is the load of PrintCtx.msg, never the result of a
// call on it (the colour-markup translator belongs to the colored format only).
func messageEmittedAsIs(c *Ctx, p *Prog, m *Model, mr *ModeReach, rule string) {
	r := c.R
	kv, _, okK := p.Const(p.Slog, "messageFieldName")
	keyName := ""
	if okK && kv.Kind() == constant.String {
		keyName = constant.StringVal(kv)
	}
	if keyName == "" {
		r.Unk(rule, fmt.Sprintf("message-emit[%s]", mr.Mode), "-", "message key constant not found")
		return
	}
	isMsgLoad := func(v ssa.Value) bool {
		_, ok := isFieldLoadOf(strip(v), "PrintCtx", "msg")
		return ok
	}
	var feasibleVals func(v ssa.Value, fn *ssa.Function, depth int) []ssa.Value
	feasibleVals = func(v ssa.Value, fn *ssa.Function, depth int) []ssa.Value {
		ph, ok := v.(*ssa.Phi)
		if !ok || depth > 4 {
			return []ssa.Value{v}
		}
		var out []ssa.Value
		for i, e := range ph.Edges {
			pred := ph.Block().Preds[i]
			if !mr.Blocks[fn][pred] {
				continue
			}
			feas := false
			for _, sx := range feasibleSuccs(pred, mr.Mode) {
				if sx == ph.Block() {
					feas = true
				}
			}
			if feas {
				out = append(out, feasibleVals(e, fn, depth+1)...)
			}
		}
		return out
	}
	n := 0
	for _, fn := range mr.Funcs() {
		for _, cs := range callsIn(fn) {
			if !mr.Blocks[fn][cs.Block()] {
				continue
			}
			args := cs.Common().Args
			hasKey := false
			for _, a := range args {
				if sx, ok := constString(a); ok && sx == keyName {
					hasKey = true
				}
			}
			if !hasKey {
				continue
			}
			for _, a := range args {
				if !isStringT(a.Type()) {
					continue
				}
				if _, isC := constString(a); isC {
					continue
				}
				n++
				var bad []string
				for _, v := range feasibleVals(a, fn, 0) {
					if !isMsgLoad(v) {
						bad = append(bad, m.valDesc(v))
					}
				}
				key := fmt.Sprintf("message-emit[%s]:%s", mr.Mode, shortName(fn))
				r.Check(len(bad) == 0, rule, key, p.Pos(instrPos(cs)), "the text written under the message key is the message field itself", fmt.Sprintf("in %s mode the text written under the message key is %s, not the message as logged (tags and entities in it are rewritten or dropped)", mr.Mode, strings.Join(dedupStr(bad), ", ")))
			}
		}
	}
	if n == 0 {
		r.Unk(rule, fmt.Sprintf("message-emit[%s]", mr.Mode), "-", "no emission under the message key found in %s mode", mr.Mode)
	}
}

// ---- the configured tag width is taken for every width of the domain (C06 R06.3) --------------------------------------
//
// Every function that stores one of its integer parameters into the package-level tag width is walked with that
// parameter bound to each of 1..5 (comparisons against constants fold): the store must be reached for each of them.
func tagWidthSetter(c *Ctx, p *Prog) {
	r := c.R
	n := 0
	for _, fn := range p.RepoFuncs() {
		if fn.Pkg != p.Slog || p.startupOnly(fn) {
			continue
		}
		for _, gs := range globalStores(fn) {
			if nm(gs.G) != "levelOutputWidth" || gs.Kind != "store" {
				continue
			}
			prm, ok := strip(gs.Val).(*ssa.Parameter)
			if !ok {
				continue
			}
			n++
			var missing []string
			for k := int64(1); k <= 5; k++ {
				subst := map[ssa.Value]ssa.Value{prm: ssa.NewConst(constant.MakeInt64(k), prm.Type())}
				reached := false
				t := walkDecisionInl(fn.Blocks[0], map[string]bool{}, func(ssa.Value) (string, bool) { return "", false },
					func(in ssa.Instruction) (string, bool) {
						if in == gs.Instr {
							reached = true
							return "store", true
						}
						return "", false
					}, func(ssa.CallInstruction) *ssa.Function { return nil }, subst, 0)
				if !reached {
					missing = append(missing, fmt.Sprintf("%d (%s)", k, t.Kind))
				}
			}
			// ... and no width outside the tag tables (their length is MaxLengthShortTag: positions 0..MaxLengthShortTag-1)
			if maxLen, okM := p.ConstInt(p.Slog, "MaxLengthShortTag"); okM {
				var beyond []string
				for _, k := range []int64{-1, maxLen, maxLen + 1, 64} {
					subst := map[ssa.Value]ssa.Value{prm: ssa.NewConst(constant.MakeInt64(k), prm.Type())}
					reached := false
					walkDecisionInl(fn.Blocks[0], map[string]bool{}, func(ssa.Value) (string, bool) { return "", false },
						func(in ssa.Instruction) (string, bool) {
							if in == gs.Instr {
								reached = true
								return "store", true
							}
							return "", false
						}, func(ssa.CallInstruction) *ssa.Function { return nil }, subst, 0)
					if reached {
						beyond = append(beyond, fmt.Sprint(k))
					}
				}
				r.Check(len(beyond) == 0, "R06.3", "tag-width-bounded:"+shortName(fn), p.Pos(instrPos(gs.Instr)), "no width outside the tag tables is stored",
					"a tag width outside the tag tables is accepted (width "+strings.Join(beyond, ", ")+", the tables have "+fmt.Sprint(maxLen)+" positions): every colored record then panics with an index out of range inside Level.ShortTag - a non-terminating call does not return and a Panic/Fatal record is never written")
			} else {
				r.Unk("R06.3", "tag-width-bounded:"+shortName(fn), p.Pos(instrPos(gs.Instr)), "MaxLengthShortTag not found")
			}
			r.Check(len(missing) == 0, "R06.3", "tag-width:"+shortName(fn), p.Pos(instrPos(gs.Instr)), "every width 1..5 is stored", "the tag width given is not stored for width "+strings.Join(missing, ", ")+": records keep the previous width")
		}
	}
	if n == 0 {
		r.Unk("R06.3", "tag-width:setter", "-", "no function stores its parameter into the tag width")
	}
}

// ---- destination wrappers keep no per-record state (C08 R08.6) --------------------------------------------------------
//
// One wrapper object serves every goroutine that logs to its destination. The severity announced by SetLevel and
// the Write that follows are two calls: a wrapper that stores anything in itself between them (a plain field or an
// atomic one) makes a record depend on what another goroutine announced in between. Every type of the package
// with a Write([]byte) method other than the encoder is scanned: SetLevel and Write store to no field of the
// receiver and hand no field address to sync/atomic.
func wrappersStateless(c *Ctx, p *Prog, rule string) {
	r := c.R
	n := 0
	for _, mem := range p.Slog.Members {
		tn, ok := mem.(*ssa.Type)
		if !ok || tn.Name() == "PrintCtx" {
			continue
		}
		tobj, _ := tn.Object().(*types.TypeName)
		if tobj == nil {
			continue
		}
		wr := p.methodDirect(p.Slog, tobj, "Write")
		if wr == nil || wr.Signature.Params().Len() != 1 || wr.Signature.Params().At(0).Type().String() != "[]byte" {
			continue
		}
		n++
		var probs []string
		for _, mn := range []string{"Write", "SetLevel"} {
			fn := p.methodDirect(p.Slog, tobj, mn)
			if fn == nil || len(fn.Blocks) == 0 {
				continue
			}
			rc := receiver(fn)
			for _, fs := range fieldStores(fn) {
				if rc != nil && strip(fs.Base) == ssa.Value(rc) && fs.Kind != "addr-escape" {
					probs = append(probs, fmt.Sprintf("%s.%s stores to its field %s at %s", tn.Name(), mn, fs.Field, p.Pos(instrPos(fs.Instr))))
				}
			}
			for _, cs := range callsIn(fn) {
				cal := calleeOf(cs)
				if cal == nil || cal.Pkg == nil || cal.Pkg.Pkg.Path() != "sync/atomic" {
					continue
				}
				for _, a := range cs.Common().Args {
					if fa, ok := a.(*ssa.FieldAddr); ok && rc != nil && strip(fa.X) == ssa.Value(rc) {
						if strings.HasPrefix(cal.Name(), "Store") || strings.HasPrefix(cal.Name(), "Swap") || strings.HasPrefix(cal.Name(), "Add") || strings.HasPrefix(cal.Name(), "CompareAndSwap") {
							probs = append(probs, fmt.Sprintf("%s.%s writes its field %s atomically at %s", tn.Name(), mn, nm(structOf(fa.X.Type()).Field(fa.Field)), p.Pos(instrPos(cs))))
						}
					}
				}
			}
		}
		r.Check(len(probs) == 0, rule, "stateless:"+tn.Name(), p.FuncPos(wr), "SetLevel and Write keep nothing in the wrapper", "a destination wrapper carries state from one call to the next: "+strings.Join(probs, "; ")+"; the object is shared by all goroutines writing to that destination, so a record is filtered, routed or written by what another goroutine stored in between")
	}
	if n == 0 {
		r.Unk(rule, "stateless:none", "-", "no writer type found")
	}
}

// ---- terminating leaves the destinations as they are (C12 R12.8) -------------------------------------------------------
//
// A Panic that is recovered is followed by more records. The terminating function and the private helpers it calls
// outside the record printer close no destination and write no writer-set state: otherwise the record of the next
// admitted Panic/Fatal is not written although it terminates.
func terminationKeepsWriters(c *Ctx, p *Prog, m *Model) {
	r := c.R
	term := p.Method(p.Slog, "Entry", "logContext")
	pr := p.Method(p.Slog, "Entry", "print")
	if term == nil {
		r.Unk("R12.8", "termination:writers", "-", "logContext not found")
		return
	}
	ph := privateHelper(p)
	region := staticReach([]*ssa.Function{term}, func(f *ssa.Function) bool {
		return f != term && (f == pr || !ph(f) || m.Spine[f])
	})
	var probs []string
	for fn := range region {
		if fn != term && (fn == pr || m.Spine[fn]) {
			continue
		}
		for _, cs := range callsIn(fn) {
			if invokeName(cs) == "Close" {
				probs = append(probs, fmt.Sprintf("%s closes a destination at %s", shortName(fn), p.Pos(instrPos(cs))))
			}
			if cal := calleeOf(cs); cal != nil && cal.Name() == "Close" && cal.Pkg == p.Slog {
				probs = append(probs, fmt.Sprintf("%s closes a destination at %s", shortName(fn), p.Pos(instrPos(cs))))
			}
		}
		for _, fs := range fieldStores(fn) {
			if fs.Struct == "dualWriter" || (fs.Struct == "Entry" && fs.Field == "writer") {
				probs = append(probs, fmt.Sprintf("%s writes %s.%s at %s", shortName(fn), fs.Struct, fs.Field, p.Pos(instrPos(fs.Instr))))
			}
		}
	}
	sort.Strings(probs)
	r.Check(len(probs) == 0, "R12.8", "termination:writers", p.FuncPos(term), "the terminating function closes no destination and leaves the writer sets alone", strings.Join(probs, "; ")+": after a recovered Panic the next admitted Panic/Fatal still terminates but its record is no longer written")
}

// reachOnlyViaSink: every static route from fn to target passes a sink function (the diagnostic record the sink
// issues after a failed Write is a record of its own, with its own instant).
func reachOnlyViaSink(p *Prog, m *Model, fn, target *ssa.Function) bool {
	seen := map[*ssa.Function]bool{}
	var dfs func(f *ssa.Function) bool // true if target reachable avoiding sinks
	dfs = func(f *ssa.Function) bool {
		if f == target {
			return true
		}
		if seen[f] || f.Pkg != p.Slog || m.SinkFns[f] {
			return false
		}
		seen[f] = true
		for _, cs := range callsIn(f) {
			if cal := calleeOf(cs); cal != nil && dfs(cal) {
				return true
			}
		}
		return false
	}
	return !dfs(fn)
}

// ---- nothing but the selected destination is written (C03 "writers outside the selected set receive nothing") ----------
//
// In the sink and in the helpers of its failure path every Write on a destination (an invoke of Write on an
// interface value, or a call of the writer list's / writer set's Write) has as receiver the value findWriter
// selected for the record's severity - never the package default set, another level's set or a remembered writer.
func onlySelectedWritten(c *Ctx, p *Prog, m *Model, rule string) {
	r := c.R
	n := 0
	skip := map[string]bool{"LWs": true, "dualWriter": true, "logwr": true, "filewr": true, "discard": true}
	for _, fn := range failureRegion(p, m) {
		if fn.Signature.Recv() != nil && skip[typeName(fn.Signature.Recv().Type())] {
			continue // the fan-out and the wrappers themselves: judged by R02.2 / R13.1
		}
		for _, cs := range callsIn(fn) {
			var recv ssa.Value
			switch {
			case cs.Common().IsInvoke() && cs.Common().Method.Name() == "Write":
				recv = cs.Common().Value
			case calleeOf(cs) != nil && calleeOf(cs).Name() == "Write" && calleeOf(cs).Pkg == p.Slog && calleeOf(cs).Signature.Recv() != nil && len(cs.Common().Args) > 0:
				recv = cs.Common().Args[0]
			default:
				continue
			}
			if typeName(recv.Type()) == "PrintCtx" {
				continue
			}
			n++
			bad := ""
			for _, sv := range sources(recv) {
				call, ok := sv.(*ssa.Call)
				if ok {
					if cal := calleeOf(call); cal != nil && nm(cal) == "findWriter" {
						continue
					}
				}
				if prm, isP := sv.(*ssa.Parameter); isP {
					// handed in by the sink: judged at the sink's call site
					okAll := true
					idx := -1
					for i, q := range fn.Params {
						if q == prm {
							idx = i
						}
					}
					for _, site := range p.staticCallers()[fn] {
						if idx < 0 || idx >= len(site.Common().Args) {
							okAll = false
							continue
						}
						for _, s2 := range sources(site.Common().Args[idx]) {
							c2, ok2 := s2.(*ssa.Call)
							if !ok2 || calleeOf(c2) == nil || nm(calleeOf(c2)) != "findWriter" {
								okAll = false
							}
						}
					}
					if okAll && len(p.staticCallers()[fn]) > 0 {
						continue
					}
				}
				bad = m.valDesc(sv)
			}
			key := fmt.Sprintf("selected-only:%s", shortName(fn))
			r.Check(bad == "", rule, key, p.Pos(instrPos(cs)), "the destination written is the one findWriter selected", "a destination other than the one selected for the record's severity is written ("+bad+"): writers outside the selected set must receive nothing, whatever happens to the selected ones")
		}
	}
	if n == 0 {
		r.Unk(rule, "selected-only:none", "-", "no Write on a destination found in the sink")
	}
}

// ---- pair grammar of the fixed members (C05 R05.11, C04 R04.9) -----------------------------------------------------------
//
// The printers of the fixed members (time, logger, level, msg, caller) are walked over their mode-feasible acyclic
// paths in the structured modes. Reading separator calls, key/pair writers and braces as tokens, no path has two
// pairs without a separator between them, two separators in a row, a separator right after an opening brace or
// right before a closing one: whatever the flags that decide which parts of a member are printed.
func fixedMemberGrammar(c *Ctx, p *Prog, m *Model, mode Mode, rule string) {
	r := c.R
	pi := p.Method(p.Slog, "Entry", "printImpl")
	sa := p.Func(p.Slog, "serializeAttrs")
	if pi == nil {
		r.Unk(rule, fmt.Sprintf("pairs[%s]", mode), "-", "printImpl not found")
		return
	}
	token := func(cs ssa.CallInstruction) string {
		cal := calleeOf(cs)
		if cal == nil || cal.Signature.Recv() == nil || typeName(cal.Signature.Recv().Type()) != "PrintCtx" {
			return ""
		}
		args := cs.Common().Args
		switch n := nm(cal); {
		case n == "pcAppendComma" || n == "AddComma":
			return "sep"
		case n == "pcAppendStringKey" || n == "pcAppendStringKeyPrefixed":
			return "pair"
		case strings.HasPrefix(n, "Add") && len(args) >= 3:
			return "pair"
		case n == "Begin":
			return "open"
		case n == "End":
			return "close"
		case n == "pcAppendByte" || n == "WriteByte" || n == "pcAppendRune":
			if v, ok := constInt(args[len(args)-1]); ok {
				switch v {
				case '{':
					return "open"
				case '}':
					return "close"
				}
			}
		}
		return ""
	}
	// a function's effect on the token state: for each state it can be entered in, the states it can leave in;
	// problems found on the way are collected once per site
	type effect map[string]map[string]bool // in-state -> out-states
	memo := map[*ssa.Function]effect{}
	busy := map[*ssa.Function]bool{}
	probs := map[string]bool{}
	incomplete := false
	states := []string{"open", "pair", "sep"}
	step := func(prev, t string, at ssa.Instruction, fn *ssa.Function) string {
		switch {
		case t == "pair" && prev == "pair":
			probs[fmt.Sprintf("two pairs with no separator between them (%s, %s)", shortName(fn), p.Pos(instrPos(at)))] = true
		case t == "sep" && (prev == "sep" || prev == "open"):
			probs[fmt.Sprintf("a separator with nothing before it (%s, %s)", shortName(fn), p.Pos(instrPos(at)))] = true
		case t == "close" && prev == "sep":
			probs[fmt.Sprintf("a separator right before the closing brace (%s, %s)", shortName(fn), p.Pos(instrPos(at)))] = true
		}
		if t == "close" {
			return "pair"
		}
		return t
	}
	var effOf func(fn *ssa.Function, depth int) effect
	effOf = func(fn *ssa.Function, depth int) effect {
		if e, ok := memo[fn]; ok {
			return e
		}
		id := effect{}
		for _, st := range states {
			id[st] = map[string]bool{st: true}
		}
		if busy[fn] || depth > 4 || len(fn.Blocks) == 0 {
			return id
		}
		busy[fn] = true
		defer delete(busy, fn)
		out := effect{}
		for _, st := range states {
			out[st] = map[string]bool{}
		}
		ok := enumPathsMode(fn, mode, 4096, func(path []*ssa.BasicBlock) {
			cur := map[string]map[string]bool{} // in-state -> current states
			for _, st := range states {
				cur[st] = map[string]bool{st: true}
			}
			for _, cs := range pathCalls(path) {
				if _, isDefer := cs.(*ssa.Defer); isDefer {
					continue
				}
				cal := calleeOf(cs)
				if cal == nil {
					continue
				}
				if t := token(cs); t != "" {
					for _, st := range states {
						next := map[string]bool{}
						for pv := range cur[st] {
							// problems are reported for the states that are really possible: decided at the top level
							next[step(pv, t, cs, fn)+""] = true
						}
						cur[st] = next
					}
					continue
				}
				var sub effect
				switch {
				case cal == sa:
					sub = effect{}
					for _, st := range states {
						sub[st] = map[string]bool{st: true}
						// at least one member: separator first (none right after an opening brace), pair last
						sub[st]["pair"] = true
					}
				case cal.Pkg == p.Slog && cal.Signature.Recv() != nil && typeName(cal.Signature.Recv().Type()) == "Entry" && !m.SinkFns[cal]:
					sub = effOf(cal, depth+1)
				case cal.Pkg == p.Slog && cal.Signature.Recv() == nil && cal.Object() != nil && !cal.Object().Exported() && takesPrintCtx(cal):
					// a private helper of the member printers (e.g. "end this leading field")
					sub = effOf(cal, depth+1)
				default:
					continue
				}
				for _, st := range states {
					next := map[string]bool{}
					for pv := range cur[st] {
						for o := range sub[pv] {
							next[o] = true
						}
					}
					cur[st] = next
				}
			}
			for _, st := range states {
				for o := range cur[st] {
					out[st][o] = true
				}
			}
		})
		if !ok {
			incomplete = true
		}
		memo[fn] = out
		return out
	}
	// problems raised while summarising are raised for every possible in-state; to report only real ones the record
	// is walked once more from its true start state with the summaries as they are: the summaries' problem sites are
	// kept only when the offending in-state is reachable. (The step function above is state-exact, so a site is
	// recorded exactly when some in-state makes it fail; the reachable in-states are those of the top-level walk.)
	probs = map[string]bool{}
	reach := map[*ssa.Function]map[string]bool{}
	var mark func(fn *ssa.Function, in map[string]bool, depth int)
	mark = func(fn *ssa.Function, in map[string]bool, depth int) {
		if depth > 4 || len(fn.Blocks) == 0 {
			return
		}
		if reach[fn] == nil {
			reach[fn] = map[string]bool{}
		}
		fresh := false
		for st := range in {
			if !reach[fn][st] {
				reach[fn][st] = true
				fresh = true
			}
		}
		if !fresh {
			return
		}
		enumPathsMode(fn, mode, 4096, func(path []*ssa.BasicBlock) {
			cur := map[string]bool{}
			for st := range in {
				cur[st] = true
			}
			for _, cs := range pathCalls(path) {
				if _, isDefer := cs.(*ssa.Defer); isDefer {
					continue
				}
				cal := calleeOf(cs)
				if cal == nil {
					continue
				}
				if t := token(cs); t != "" {
					next := map[string]bool{}
					for pv := range cur {
						next[step(pv, t, cs, fn)] = true
					}
					cur = next
					continue
				}
				switch {
				case cal == sa:
					cur["pair"] = true
				case cal.Pkg == p.Slog && cal.Signature.Recv() != nil && typeName(cal.Signature.Recv().Type()) == "Entry" && !m.SinkFns[cal]:
					mark(cal, cur, depth+1)
					sub := effOf(cal, depth+1)
					next := map[string]bool{}
					for pv := range cur {
						for o := range sub[pv] {
							next[o] = true
						}
					}
					cur = next
				}
			}
		})
	}
	saved := probs
	effOf(pi, 0) // fills memo (its problem reports are discarded)
	probs = saved
	for k := range probs {
		delete(probs, k)
	}
	mark(pi, map[string]bool{"open": true}, 0)
	end := effOf(pi, 0)["open"]
	var list []string
	for k := range probs {
		list = append(list, k)
	}
	sort.Strings(list)
	if end["sep"] {
		list = append(list, "the record can end with a separator")
	}
	key := fmt.Sprintf("pairs[%s]:record", mode)
	switch {
	case incomplete:
		r.Unk(rule, key, p.FuncPos(pi), "too many paths through the record printers")
	case len(list) > 0:
		r.Bad(rule, key, p.FuncPos(pi), "in %s mode some combination of flags and record contents prints %s: the record is no longer a sequence of separated pairs", mode, strings.Join(list, "; "))
	default:
		r.Ok(rule, key, p.FuncPos(pi), "over all feasible paths of the record printer and the member printers it calls (%d functions), pairs and separators alternate", len(memo))
	}
}

// ---- no reader with a hidden size limit on the print path (C06 R06.3, C02) ------------------------------------------
//
// bufio.Scanner stops at a token longer than its buffer limit (64 KiB unless Buffer() was called) and Scan() then
// just returns false: a message line longer than that, and everything after it, silently disappears from the
// record. Nothing in the print tree scans text with it.
func noScannerOnPrintPath(c *Ctx, p *Prog, m *Model, rule string) {
	r := c.R
	var probs []string
	for fn := range printTree(p, m) {
		for _, cs := range callsIn(fn) {
			if cal := calleeOf(cs); cal != nil && (cal.String() == "bufio.NewScanner" || cal.String() == "(*bufio.Scanner).Scan") {
				probs = append(probs, fmt.Sprintf("%s uses bufio.Scanner at %s", shortName(fn), p.Pos(instrPos(cs))))
			}
		}
	}
	sort.Strings(probs)
	r.Check(len(probs) == 0, rule, "no-scanner", "-", "no bufio.Scanner on the print path", strings.Join(dedupStr(probs), "; ")+": a line longer than the scanner's token limit (64 KiB) ends the scan silently, so that line and the rest of the message are dropped from the record")
}

// ---- every file name of a frame goes through the hardening (C18 R18.7) ----------------------------------------------------
//
// The runtime hands out absolute source paths in two places: the File field of runtime.Frame and the first result of
// (*runtime.Func).FileLine. Wherever the package reads one of them on the way to a record (or to the exported
// Source), the value is used for nothing but as the argument of the hardening function.
func frameFilesHardened(c *Ctx, p *Prog, m *Model) {
	r := c.R
	onlyHardened := func(v ssa.Value) string {
		refs := v.Referrers()
		if refs == nil {
			return ""
		}
		for _, ref := range *refs {
			switch x := ref.(type) {
			case *ssa.DebugRef:
			case ssa.CallInstruction:
				if cal := calleeOf(x); cal != nil && nm(cal) == "checkpath" {
					continue
				}
				if cal := calleeOf(x); cal != nil && cal.Pkg == p.Slog && isBaseNameFn(cal) {
					continue // only the final path element is taken: no directory is reported
				}
				if cal := calleeOf(x); cal != nil && cal.Pkg != p.Slog && (cal.Name() == "Fprintf" || cal.Name() == "Sprintf") && !printTree(p, m)[x.Parent()] {
					continue // the stack dump of the panic/diagnostic helpers, outside the record path
				}
				return "it is passed to " + x.Common().String()
			case *ssa.MakeInterface:
				// boxed for a formatting call outside the print tree (diagnostic stack dump)
				if !printTree(p, m)[x.Parent()] {
					continue
				}
				return "it is boxed and handed on unhardened"
			default:
				return fmt.Sprintf("it is used by %T", ref)
			}
		}
		return ""
	}
	n := 0
	for _, fn := range p.RepoFuncs() {
		if fn.Pkg != p.Slog {
			continue
		}
		for _, b := range fn.Blocks {
			for _, in := range b.Instrs {
				var file ssa.Value
				switch x := in.(type) {
				case *ssa.Field:
					if typeName(x.X.Type()) == "Frame" && nm(structOf(x.X.Type()).Field(x.Field)) == "File" {
						file = x
					}
				case *ssa.UnOp:
					if fa, ok := x.X.(*ssa.FieldAddr); ok && x.Op == token.MUL {
						if nt := namedOf(fa.X.Type()); nt != nil && nt.Obj().Pkg() != nil && nt.Obj().Pkg().Path() == "runtime" && nt.Obj().Name() == "Frame" && structOf(fa.X.Type()).Field(fa.Field).Name() == "File" {
							file = x
						}
					}
				case *ssa.Extract:
					if call, ok := x.Tuple.(*ssa.Call); ok && x.Index == 0 {
						if cal := calleeOf(call); cal != nil && cal.String() == "(*runtime.Func).FileLine" {
							file = x
						}
					}
				}
				if file == nil {
					continue
				}
				n++
				why := onlyHardened(file)
				r.Check(why == "", "R18.7", fmt.Sprintf("frame-file:%s#%d", shortName(fn), n), p.Pos(instrPos(in)), "the frame's file name is only handed to the hardening function", "a source path obtained from the runtime in "+shortName(fn)+" does not go through the hardening ("+why+"): records printed along that route carry the raw absolute path")
			}
		}
	}
	if n == 0 {
		r.Unk("R18.7", "frame-file:none", "-", "no read of a frame's file name found")
	}
}

// ---- registration options are independent (C17 R17.5) --------------------------------------------------------------------
//
// Each RegOpt constructor sets its own setting(s) of the registration pack: no setting is written by two different
// constructors (else the result depends on the order in which the options are given).
func regOptsIndependent(c *Ctx, p *Prog) {
	r := c.R
	writers := map[string][]string{}
	n := 0
	for _, fn := range p.RepoFuncs() {
		if fn.Pkg != p.Slog || fn.Parent() == nil {
			continue
		}
		top := fn.Parent()
		if top.Signature.Results().Len() != 1 || typeName(top.Signature.Results().At(0).Type()) != "RegOpt" {
			continue
		}
		n++
		seen := map[string]bool{}
		for _, fs := range fieldStores(fn) {
			if fs.Struct == "regPack" && !seen[fs.Field] {
				seen[fs.Field] = true
				writers[fs.Field] = append(writers[fs.Field], top.Name())
			}
		}
	}
	if n < 3 {
		r.Unk("R17.5", "regopts:independent", "-", "only %d registration options found", n)
		return
	}
	var probs []string
	for f, ws := range writers {
		if len(dedupStr(ws)) > 1 {
			sort.Strings(ws)
			probs = append(probs, fmt.Sprintf("%s is set by %s", f, strings.Join(dedupStr(ws), " and ")))
		}
	}
	sort.Strings(probs)
	r.Check(len(probs) == 0, "R17.5", "regopts:independent", "-", fmt.Sprintf("each setting of the registration pack is written by one option constructor only (%d options)", n), strings.Join(probs, "; ")+": what a registration does then depends on the order of its options (a later option silently cancels an earlier one)")
}

// elementsSamePrinter: a list writer renders every element of its list with the same element printer. For every
// function of the print tree with a slice parameter, the package-internal callees that receive an element of that
// parameter (z[0], z[i], the range value) form a single function: the first element and the following ones cannot
// be formatted differently.
func elementsSamePrinter(c *Ctx, p *Prog, m *Model, rule string) {
	r := c.R
	tree := printTree(p, m)
	var fns []*ssa.Function
	for fn := range tree {
		fns = append(fns, fn)
	}
	sort.Slice(fns, func(i, j int) bool { return shortName(fns[i]) < shortName(fns[j]) })
	n := 0
	for _, fn := range fns {
		for _, prm := range fn.Params {
			if _, ok := prm.Type().Underlying().(*types.Slice); !ok {
				continue
			}
			isElem := func(v ssa.Value) bool {
				v = strip(v)
				if u, ok := v.(*ssa.UnOp); ok && u.Op == token.MUL {
					if ia, ok := u.X.(*ssa.IndexAddr); ok && ia.X == ssa.Value(prm) {
						return true
					}
				}
				return false
			}
			callees := map[*ssa.Function][]string{}
			for _, cs := range callsIn(fn) {
				cal := calleeOf(cs)
				if cal == nil || cal.Pkg != p.Slog {
					continue
				}
				for _, a := range cs.Common().Args {
					if isElem(a) {
						callees[cal] = append(callees[cal], p.Pos(instrPos(cs)))
						break
					}
				}
			}
			if len(callees) == 0 {
				continue
			}
			inL := false
			for _, cs := range callsIn(fn) {
				if inLoop(cs.Block()) {
					inL = true
				}
			}
			if !inL {
				continue
			}
			n++
			var ds []string
			for cal, at := range callees {
				ds = append(ds, fmt.Sprintf("%s (%s)", shortName(cal), strings.Join(at, ", ")))
			}
			sort.Strings(ds)
			r.Check(len(callees) == 1, rule, "same-printer:"+shortName(fn)+":"+prm.Name(), p.FuncPos(fn), "every element of "+prm.Name()+" is rendered by "+strings.Join(ds, ""),
				"the elements of "+prm.Name()+" are rendered by different printers: "+strings.Join(ds, "; ")+": the first element and the following ones do not come out in the same form, so a list value is not preserved")
		}
	}
	if n == 0 {
		r.Unk(rule, "same-printer", "-", "no list writer found on the print tree")
	}
}

// indexFoundTests: the "found" test of a search result. strings/bytes Index* return -1 for "absent" and a position
// >= 0 otherwise; a test that splits the result anywhere else (r > 0, r <= 0, r >= 1, r < 1) treats a match at
// position 0 as "absent" unless the function tests r against 0 separately.
func indexFoundTests(c *Ctx, p *Prog, fns []*ssa.Function, rule string) {
	r := c.R
	n := 0
	for _, fn := range fns {
		for _, cs := range callsIn(fn) {
			call, ok := cs.(*ssa.Call)
			if !ok {
				continue
			}
			cal := calleeOf(cs)
			if cal == nil || cal.Pkg == nil || (cal.Pkg.Pkg.Path() != "strings" && cal.Pkg.Pkg.Path() != "bytes") {
				continue
			}
			if !strings.HasPrefix(cal.Name(), "Index") && !strings.HasPrefix(cal.Name(), "LastIndex") {
				continue
			}
			var tests []string
			bad, zeroTest := "", false
			for _, ref := range *call.Referrers() {
				bo, ok := ref.(*ssa.BinOp)
				if !ok {
					continue
				}
				op := bo.Op
				switch op {
				case token.EQL, token.NEQ, token.LSS, token.LEQ, token.GTR, token.GEQ:
				default:
					continue
				}
				var k int64
				var isC bool
				if bo.X == ssa.Value(call) {
					k, isC = constInt(bo.Y)
				} else {
					k, isC = constInt(bo.X)
					switch op {
					case token.LSS:
						op = token.GTR
					case token.LEQ:
						op = token.GEQ
					case token.GTR:
						op = token.LSS
					case token.GEQ:
						op = token.LEQ
					}
				}
				if !isC {
					continue
				}
				tests = append(tests, fmt.Sprintf("r %s %d", op, k))
				switch {
				case k == 0 && (op == token.EQL || op == token.NEQ):
					zeroTest = true
				case (k == 0 && (op == token.GTR || op == token.LEQ)) || (k == 1 && (op == token.GEQ || op == token.LSS)):
					bad = fmt.Sprintf("r %s %d at %s", op, k, p.Pos(instrPos(bo)))
				}
			}
			if len(tests) == 0 {
				continue
			}
			n++
			key := fmt.Sprintf("found-test:%s:%s#%d", shortName(fn), cal.Name(), ordinalOfCall(fn, call))
			sort.Strings(tests)
			r.Check(bad == "" || zeroTest, rule, key, p.Pos(instrPos(call)), "the result of "+cal.Name()+" is split at the absent/found boundary ("+strings.Join(tests, ", ")+")",
				"the result of "+cal.Name()+" is tested with "+bad+": a match at position 0 is handled as if nothing was found")
		}
	}
	if n == 0 {
		r.Unk(rule, "found-test", "-", "no tested search result found in the functions given")
	}
}

// ordinalOfCall: the position of a call among the calls of the same callee in fn (a line-independent key).
func ordinalOfCall(fn *ssa.Function, call *ssa.Call) int {
	n := 0
	for _, cs := range callsIn(fn) {
		if calleeOf(cs) != nil && calleeOf(cs) == calleeOf(call) {
			n++
			if cs == ssa.CallInstruction(call) {
				return n
			}
		}
	}
	return 0
}

// natLoop: the innermost natural loop that contains block b (nil when b is in no loop).
func natLoop(b *ssa.BasicBlock) (header *ssa.BasicBlock, blocks map[*ssa.BasicBlock]bool) {
	fn := b.Parent()
	for _, h := range fn.Blocks {
		if !h.Dominates(b) {
			continue
		}
		// back edges t -> h
		body := map[*ssa.BasicBlock]bool{h: true}
		var stack []*ssa.BasicBlock
		for _, t := range h.Preds {
			if h.Dominates(t) && !body[t] {
				body[t] = true
				stack = append(stack, t)
			}
		}
		if len(stack) == 0 && !func() bool {
			for _, t := range h.Preds {
				if t == h {
					return true
				}
			}
			return false
		}() {
			continue
		}
		for len(stack) > 0 {
			x := stack[len(stack)-1]
			stack = stack[:len(stack)-1]
			for _, pr := range x.Preds {
				if !body[pr] {
					body[pr] = true
					stack = append(stack, pr)
				}
			}
		}
		if !body[b] {
			continue
		}
		if blocks == nil || len(body) < len(blocks) {
			header, blocks = h, body
		}
	}
	return
}

// fullTraversal: the loop around the per-element action `anchor` visits every element: its only exit is the loop
// header's "no more elements" edge. An edge from the body to outside the loop (break, return, goto) that is not an
// explicit panic ends the traversal early, so the elements after it are not handled.
func fullTraversal(c *Ctx, p *Prog, rule, key string, anchor ssa.Instruction, what string) {
	r := c.R
	h, body := natLoop(anchor.Block())
	if h == nil {
		r.Bad(rule, key, p.Pos(instrPos(anchor)), "%s is not inside a loop over the elements", what)
		return
	}
	var exits []string
	natural := 0
	for b := range body {
		for _, s := range b.Succs {
			if body[s] {
				continue
			}
			if b == h {
				natural++
				continue
			}
			if _, isPanic := s.Instrs[len(s.Instrs)-1].(*ssa.Panic); isPanic {
				continue
			}
			exits = append(exits, p.Pos(instrPos(b.Instrs[len(b.Instrs)-1])))
		}
		if _, isRet := b.Instrs[len(b.Instrs)-1].(*ssa.Return); isRet {
			exits = append(exits, p.Pos(instrPos(b.Instrs[len(b.Instrs)-1])))
		}
	}
	sort.Strings(exits)
	r.Check(len(exits) == 0 && natural == 1, rule, key, p.Pos(instrPos(anchor)), "the loop around "+what+" ends only when the elements are exhausted",
		fmt.Sprintf("the loop around %s can be left early (at %s; natural exits %d): the elements after that point are silently skipped", what, strings.Join(exits, ", "), natural))
}

// sortedTree: the functions of the print tree in a stable order.
func sortedTree(p *Prog, m *Model) []*ssa.Function {
	var fns []*ssa.Function
	for fn := range printTree(p, m) {
		fns = append(fns, fn)
	}
	sort.Slice(fns, func(i, j int) bool { return shortName(fns[i]) < shortName(fns[j]) })
	return fns
}

// attrsTraversal: serializeAttrs handles every member of the list it prints.
func attrsTraversal(c *Ctx, p *Prog, rule string) {
	r := c.R
	sa := p.Func(p.Slog, "serializeAttrs")
	if sa == nil {
		r.Unk(rule, "traversal:serializeAttrs", "-", "serializeAttrs not found")
		return
	}
	var anchor ssa.Instruction
	for _, cs := range callsIn(sa) {
		if invokeName(cs) == "Key" && inLoop(cs.Block()) {
			anchor = cs
			break
		}
	}
	if anchor == nil {
		r.Unk(rule, "traversal:serializeAttrs", p.FuncPos(sa), "no per-member Key() call inside a loop")
		return
	}
	fullTraversal(c, p, rule, "traversal:serializeAttrs", anchor, "the per-attribute printer")
	// ... and prints every member's own value: each way through one round of the loop, from the member's Key() to the
	// next member, passes a call that is handed (something computed from) the member's Value()
	h, body := natLoop(anchor.Block())
	if h == nil {
		return
	}
	usesValue := func(b *ssa.BasicBlock, from int) bool {
		for i := from; i < len(b.Instrs); i++ {
			cs, ok := b.Instrs[i].(ssa.CallInstruction)
			if !ok {
				continue
			}
			for _, a := range cs.Common().Args {
				found := false
				seen := map[ssa.Value]bool{}
				var walk func(v ssa.Value)
				walk = func(v ssa.Value) {
					if v == nil || seen[v] || found {
						return
					}
					seen[v] = true
					if x, isC := v.(*ssa.Call); isC && x.Common().IsInvoke() && nm(x.Common().Method) == "Value" {
						found = true
						return
					}
					if in, isI := v.(ssa.Instruction); isI {
						if _, isPhi := v.(*ssa.Phi); isPhi {
							return
						}
						for _, op := range in.Operands(nil) {
							if *op != nil {
								walk(*op)
							}
						}
					}
				}
				walk(a)
				if found {
					return true
				}
			}
		}
		return false
	}
	idx := 0
	for i, in := range anchor.Block().Instrs {
		if in == anchor {
			idx = i
		}
	}
	skipped := ""
	if !usesValue(anchor.Block(), idx+1) {
		seen := map[*ssa.BasicBlock]bool{}
		var dfs func(b *ssa.BasicBlock, via ssa.Instruction)
		dfs = func(b *ssa.BasicBlock, via ssa.Instruction) {
			if skipped != "" {
				return
			}
			if b == h {
				skipped = p.Pos(instrPos(via))
				return
			}
			if seen[b] || !body[b] || usesValue(b, 0) {
				return
			}
			seen[b] = true
			for _, s := range b.Succs {
				dfs(s, b.Instrs[len(b.Instrs)-1])
			}
		}
		for _, s := range anchor.Block().Succs {
			dfs(s, anchor.Block().Instrs[len(anchor.Block().Instrs)-1])
		}
	}
	r.Check(skipped == "", rule, "traversal:serializeAttrs:value", p.Pos(instrPos(anchor)), "every round of the loop hands the member's own value to a printer",
		"a round of the attribute loop can end without printing the member's value (next member reached from "+skipped+"): the attribute appears with a stand-in, or not at all, although it was given")
}

// ctxKeysTraversal: fromCtx consults the context for every registered key.
func ctxKeysTraversal(c *Ctx, p *Prog, rule string) {
	r := c.R
	fc := p.Method(p.Slog, "Entry", "fromCtx")
	if fc == nil {
		r.Unk(rule, "traversal:Entry.fromCtx", "-", "fromCtx not found")
		return
	}
	n := 0
	for _, cs := range callsIn(fc) {
		if invokeName(cs) == "Value" && inLoop(cs.Block()) {
			n++
			fullTraversal(c, p, rule, fmt.Sprintf("traversal:Entry.fromCtx#%d", n), cs, "the context lookup of a registered key")
		}
	}
	if n == 0 {
		r.Unk(rule, "traversal:Entry.fromCtx", p.FuncPos(fc), "no ctx.Value lookup inside a loop over the registered keys")
	}
}

// pathRulesTraversal: every registered path mapping (prefix table and regexp list) is tried on a file name.
func pathRulesTraversal(c *Ctx, p *Prog, rule string) {
	r := c.R
	cp := p.Func(p.Slog, "checkpath")
	if cp == nil {
		r.Unk(rule, "traversal:checkpath", "-", "checkpath not found")
		return
	}
	n := 0
	var tree []*ssa.Function
	for fn := range staticReach([]*ssa.Function{cp}, func(f *ssa.Function) bool { return f.Pkg != p.Slog }) {
		tree = append(tree, fn)
	}
	sort.Slice(tree, func(i, j int) bool { return shortName(tree[i]) < shortName(tree[j]) })
	for _, fn := range tree {
		for _, cs := range callsIn(fn) {
			cal := calleeOf(cs)
			if cal == nil || !inLoop(cs.Block()) {
				continue
			}
			nme := cal.Name()
			if (cal.Pkg != nil && cal.Pkg.Pkg.Path() == "regexp" && nme == "ReplaceAllString") || (cal.Pkg != nil && cal.Pkg.Pkg.Path() == "strings" && nme == "ReplaceAll") {
				n++
				fullTraversal(c, p, rule, fmt.Sprintf("traversal:checkpath:%s#%d", nme, n), cs, "the replacement of a registered mapping ("+nme+")")
				loopGuardsTextFree(c, p, rule, fmt.Sprintf("guards:checkpath:%s#%d", nme, n), cs, "the replacement of a registered mapping ("+nme+")")
			}
		}
	}
	if n < 2 {
		r.Unk(rule, "traversal:checkpath", p.FuncPos(cp), "expected the prefix-table loop and the regexp-list loop, found %d", n)
	}
}

// sliceLitConsts: the integer constants stored into the backing array of a slice literal / variadic pack.
func sliceLitConsts(v ssa.Value) (consts []int64, allConst bool) {
	sl, ok := v.(*ssa.Slice)
	if !ok {
		return nil, false
	}
	al, ok := sl.X.(*ssa.Alloc)
	if !ok {
		return nil, false
	}
	allConst = true
	for _, ref := range *al.Referrers() {
		ia, ok := ref.(*ssa.IndexAddr)
		if !ok {
			continue
		}
		for _, r2 := range *ia.Referrers() {
			if st, ok := r2.(*ssa.Store); ok {
				if k, isC := constInt(st.Val); isC {
					consts = append(consts, k)
				} else {
					allConst = false
				}
			}
		}
	}
	return
}

// privacyOnByDefault: "while the privacy-path flag is on (it is by default)": the factory flag word carries
// Lprivacypath, and the library itself never switches it off (no RemoveFlags / SetFlags call of the package with a
// constant mask that clears the bit, e.g. in its start-up code for debug or test processes).
func privacyOnByDefault(c *Ctx, p *Prog, rule string) {
	r := c.R
	bit, ok := p.ConstInt(p.Slog, "Lprivacypath")
	if !ok || bit == 0 {
		r.Unk(rule, "default:Lprivacypath", "-", "constant Lprivacypath not found")
		return
	}
	flagsG := p.Global(p.Slog, "flags")
	if flagsG == nil {
		r.Unk(rule, "default:flags", "-", "package variable flags not found")
		return
	}
	// constant stores to the flag word
	n := 0
	for _, fn := range p.RepoFuncs() {
		if fn.Pkg != p.Slog {
			continue
		}
		for _, b := range fn.Blocks {
			for _, in := range b.Instrs {
				st, ok := in.(*ssa.Store)
				if !ok || st.Addr != ssa.Value(flagsG) {
					continue
				}
				k, isC := constInt(st.Val)
				if !isC {
					continue
				}
				n++
				key := fmt.Sprintf("default:%s:flags=%#x", shortName(fn), k)
				r.Check(k&bit != 0, rule, key, p.Pos(instrPos(st)), "the constant flag word keeps Lprivacypath", fmt.Sprintf("%s sets the flag word to %#x, which lacks Lprivacypath: paths are reported with the home directory and the registered prefixes by default", shortName(fn), k))
			}
		}
		for _, cs := range callsIn(fn) {
			cal := calleeOf(cs)
			if cal == nil || cal.Pkg != p.Slog {
				continue
			}
			switch nm(cal) {
			case "RemoveFlags":
				ks, _ := sliceLitConsts(cs.Common().Args[0])
				for _, k := range ks {
					n++
					key := fmt.Sprintf("default:%s:RemoveFlags(%#x)", shortName(fn), k)
					r.Check(k&bit == 0, rule, key, p.Pos(instrPos(cs)), "the library's own RemoveFlags call leaves Lprivacypath set", fmt.Sprintf("%s clears Lprivacypath by itself (RemoveFlags(%#x)): in such processes the flag is not on by default and home directory / registered prefixes are reported in full", shortName(fn), k))
				}
			case "SetFlags":
				if k, isC := constInt(cs.Common().Args[0]); isC {
					n++
					key := fmt.Sprintf("default:%s:SetFlags(%#x)", shortName(fn), k)
					r.Check(k&bit != 0, rule, key, p.Pos(instrPos(cs)), "the library's own SetFlags call keeps Lprivacypath", fmt.Sprintf("%s sets flags %#x without Lprivacypath", shortName(fn), k))
				}
			}
		}
	}
	if n == 0 {
		r.Unk(rule, "default:flags", "-", "no constant initialisation of the flag word found")
	}
}

// sliceResultsUsed: the in-package callers of the slice-returning edit functions (append, slices.Delete / Insert /
// Compact / DeleteFunc ...) keep the result. A dropped result leaves the old length in place (slices.Delete zeroes the
// vacated tail: a nil entry stays in the list).
func sliceResultsUsed(c *Ctx, p *Prog, fns []*ssa.Function, rule string) {
	r := c.R
	n := 0
	for _, fn := range fns {
		for _, b := range fn.Blocks {
			for _, in := range b.Instrs {
				call, ok := in.(*ssa.Call)
				if !ok {
					continue
				}
				name := ""
				if bi, ok := call.Call.Value.(*ssa.Builtin); ok && bi.Name() == "append" {
					name = "append"
				} else if cal := calleeOf(call); cal != nil {
					o := origin(cal)
					if o.Pkg != nil && o.Pkg.Pkg.Path() == "slices" {
						switch o.Name() {
						case "Delete", "DeleteFunc", "Insert", "Compact", "CompactFunc", "Grow", "Clip", "Replace":
							name = "slices." + o.Name()
						}
					}
				}
				if name == "" {
					continue
				}
				n++
				if len(*call.Referrers()) == 0 {
					r.Bad(rule, fmt.Sprintf("result-kept:%s:%s", shortName(fn), name), p.Pos(instrPos(call)), "the result of %s is dropped: the list keeps its old length (with a zeroed or stale tail element) instead of the edited one", name)
				}
			}
		}
	}
	r.Check(n > 0, rule, "result-kept", "-", fmt.Sprintf("%d list edit(s) (append / slices.*) in the functions given, every result is used", n), "no list edit found in the functions given")
}

// ---- lock discipline (pairing and self re-entry) ----

type lockSite struct {
	call ssa.CallInstruction
	key  string
	kind string // Lock | RLock
}

// lockKeyOf names the mutex a Lock/Unlock call works on: the chain of field names from the base type, or the
// package variable.
func lockKeyOf(recv ssa.Value) string {
	var parts []string
	v := recv
	for depth := 0; depth < 6; depth++ {
		switch x := v.(type) {
		case *ssa.FieldAddr:
			st := structOf(x.X.Type())
			name := "?"
			if st != nil {
				name = st.Field(x.Field).Name()
			}
			parts = append([]string{name}, parts...)
			v = x.X
			continue
		case *ssa.Global:
			return "var " + x.Name() + "." + strings.Join(parts, ".")
		case *ssa.UnOp:
			if x.Op == token.MUL {
				v = x.X
				continue
			}
		}
		break
	}
	return typeName(v.Type()) + "." + strings.Join(parts, ".")
}

func lockCallOf(cs ssa.CallInstruction) (key, method string, ok bool) {
	cal := calleeOf(cs)
	if cal == nil || cal.Pkg == nil || cal.Pkg.Pkg.Path() != "sync" || cal.Signature.Recv() == nil {
		return "", "", false
	}
	switch cal.Name() {
	case "Lock", "Unlock", "RLock", "RUnlock":
	default:
		return "", "", false
	}
	rt := typeName(cal.Signature.Recv().Type())
	if rt != "Mutex" && rt != "RWMutex" {
		return "", "", false
	}
	return lockKeyOf(cs.Common().Args[0]), cal.Name(), true
}

// lockDiscipline: (a) every acquisition of a mutex in the package is released on every path to a return (a deferred
// release, or an explicit one on each path); (b) while a mutex is held no call is made that can come back to an
// acquisition of the same mutex (the diagnostic the sink logs about a failed Write re-enters the sink).
func lockDiscipline(c *Ctx, p *Prog, rule string) {
	r := c.R
	var sites []lockSite
	acquirers := map[string]map[*ssa.Function]bool{}
	for _, fn := range p.RepoFuncs() {
		for _, cs := range callsIn(fn) {
			if _, isDefer := cs.(*ssa.Defer); isDefer {
				continue
			}
			if k, mth, ok := lockCallOf(cs); ok && (mth == "Lock" || mth == "RLock") {
				sites = append(sites, lockSite{cs, k, mth})
				if acquirers[k] == nil {
					acquirers[k] = map[*ssa.Function]bool{}
				}
				acquirers[k][fn] = true
			}
		}
	}
	if len(sites) == 0 {
		r.Ok(rule, "locks", "-", "the package acquires no mutex in this configuration: nothing can be left locked and no call can block on a lock held by its own caller")
		return
	}
	reach := map[*ssa.Function]map[*ssa.Function]bool{}
	reachOf := func(fn *ssa.Function) map[*ssa.Function]bool {
		if m, ok := reach[fn]; ok {
			return m
		}
		m := cgReach(p.CHA(), fn)
		reach[fn] = m
		return m
	}
	for i, s := range sites {
		fn := s.call.Parent()
		unl := "Unlock"
		if s.kind == "RLock" {
			unl = "RUnlock"
		}
		isRelease := func(in ssa.Instruction) bool {
			cs, ok := in.(ssa.CallInstruction)
			if !ok {
				return false
			}
			if _, isDefer := cs.(*ssa.Defer); isDefer {
				return false
			}
			k, mth, ok := lockCallOf(cs)
			return ok && mth == unl && k == s.key
		}
		deferred := false
		// walk forward from the acquisition
		type pos struct {
			b *ssa.BasicBlock
			i int
		}
		start := pos{s.call.Block(), 0}
		for j, in := range s.call.Block().Instrs {
			if in == ssa.Instruction(s.call) {
				start.i = j + 1
			}
		}
		seen := map[*ssa.BasicBlock]bool{}
		var held []ssa.CallInstruction
		leak := ""
		var walk func(b *ssa.BasicBlock, from int)
		walk = func(b *ssa.BasicBlock, from int) {
			for j := from; j < len(b.Instrs); j++ {
				in := b.Instrs[j]
				if d, ok := in.(*ssa.Defer); ok {
					if k, mth, ok := lockCallOf(d); ok && mth == unl && k == s.key {
						deferred = true
					}
					continue
				}
				if isRelease(in) {
					return
				}
				if cs, ok := in.(ssa.CallInstruction); ok {
					held = append(held, cs)
				}
				if _, ok := in.(*ssa.Return); ok && !deferred && leak == "" {
					leak = p.Pos(instrPos(in))
					if leak == "-" || leak == "" {
						leak = "the return of block " + b.String()
					}
				}
			}
			for _, nx := range b.Succs {
				if !seen[nx] {
					seen[nx] = true
					walk(nx, 0)
				}
			}
		}
		walk(start.b, start.i)
		key := fmt.Sprintf("lock:%s:%s#%d", shortName(fn), s.key, i)
		if leak != "" && !deferred {
			r.Bad(rule, key+"[release]", p.Pos(instrPos(s.call)), "%s of %s is not released on the path that returns at %s: after that return every later acquisition blocks forever", s.kind, s.key, leak)
		} else {
			r.Ok(rule, key+"[release]", p.Pos(instrPos(s.call)), "released on every path (deferred: %v)", deferred)
		}
		var reent []string
		for _, cs := range held {
			var targets []*ssa.Function
			if cal := calleeOf(cs); cal != nil {
				targets = append(targets, cal)
			} else if cs.Common().IsInvoke() {
				// the package's own implementations of the invoked method
				if n := p.CHA().Nodes[fn]; n != nil {
					for _, e := range n.Out {
						if e.Site == cs && e.Callee.Func.Pkg != nil && e.Callee.Func.Pkg == p.Slog {
							targets = append(targets, e.Callee.Func)
						}
					}
				}
			}
			for _, t := range targets {
				if t.Pkg == nil || t.Pkg.Pkg.Path() == "sync" {
					continue
				}
				hit := acquirers[s.key][t]
				if !hit {
					for g := range reachOf(t) {
						if acquirers[s.key][g] {
							hit = true
							break
						}
					}
				}
				if hit && !(s.kind == "RLock") {
					reent = append(reent, fmt.Sprintf("%s at %s", shortName(t), p.Pos(instrPos(cs))))
				}
			}
		}
		sort.Strings(reent)
		r.Check(len(reent) == 0, rule, key+"[re-entry]", p.Pos(instrPos(s.call)), "no call made while the mutex is held can come back to an acquisition of it",
			fmt.Sprintf("while %s is held the function calls %s, which can reach an acquisition of the same non-reentrant mutex: the calling goroutine blocks on itself and every other user of the mutex queues up behind it", s.key, strings.Join(dedupStr(reent), "; ")))
	}
}

// namedArgsInPlace: when a function hands its own parameters on to a package function whose parameters carry the same
// names, each goes to its namesake: a parameter P of the caller that is passed in the call, while the callee's
// parameter called P receives a different parameter of the caller, is a swapped argument pair (both have the same
// type, so the compiler is silent).
func namedArgsInPlace(c *Ctx, p *Prog, fns []*ssa.Function, rule string) {
	r := c.R
	n := 0
	for _, fn := range fns {
		for _, cs := range callsIn(fn) {
			cal := calleeOf(cs)
			if cal == nil || cal.Pkg != p.Slog || len(cal.Params) != len(cs.Common().Args) {
				continue
			}
			args := cs.Common().Args
			passedAt := map[string][]int{}
			var recvP *ssa.Parameter
			if fn.Signature.Recv() != nil && len(fn.Params) > 0 {
				recvP = fn.Params[0]
			}
			for i, a := range args {
				if prm, ok := a.(*ssa.Parameter); ok && prm.Parent() == fn && prm != recvP && len(prm.Name()) > 1 {
					// one-letter names (a, b, i, j) are positional, not roles: cmp(b, a) is how a reversed order is written
					passedAt[prm.Name()] = append(passedAt[prm.Name()], i)
				}
			}
			if len(passedAt) < 2 {
				continue
			}
			var probs []string
			match := 0
			for j, cp := range cal.Params {
				if j == 0 && cal.Signature.Recv() != nil {
					continue
				}
				at, ok := passedAt[cp.Name()]
				if !ok {
					continue
				}
				inPlace := false
				for _, i := range at {
					if i == j {
						inPlace = true
					}
				}
				if inPlace {
					match++
					continue
				}
				if ap, ok := args[j].(*ssa.Parameter); ok && ap != recvP && types.Identical(ap.Type(), cp.Type()) {
					probs = append(probs, fmt.Sprintf("%s's parameter %q receives the caller's %q while the caller's %q goes to position %d", shortName(cal), cp.Name(), ap.Name(), cp.Name(), at[0]))
				}
			}
			if match == 0 && len(probs) == 0 {
				continue
			}
			n++
			key := fmt.Sprintf("args:%s->%s#%d", shortName(fn), shortName(cal), ordinalOfCallI(fn, cs))
			r.Check(len(probs) == 0, rule, key, p.Pos(instrPos(cs)), "same-named parameters are passed to their namesakes", strings.Join(probs, "; ")+": the two values change roles (e.g. key prefix and key name)")
		}
	}
	if n == 0 {
		r.Unk(rule, "args", "-", "no call passing same-named parameters found")
	}
}

func ordinalOfCallI(fn *ssa.Function, call ssa.CallInstruction) int {
	n := 0
	for _, cs := range callsIn(fn) {
		if calleeOf(cs) != nil && calleeOf(cs) == calleeOf(call) {
			n++
			if cs == call {
				return n
			}
		}
	}
	return 0
}

// pooledCtxFromConstructor: the formatting contexts the pool hands out are made by the constructor that sets the
// constructor constants (sorting / de-duplication on, quoting defaults): every function of the package that returns
// a freshly made *PrintCtx as an interface value (a sync.Pool New function) returns the result of newPrintCtx, or
// a literal that stores the same constants.
func pooledCtxFromConstructor(c *Ctx, p *Prog, rule string) {
	r := c.R
	ctor := p.Func(p.Slog, "newPrintCtx")
	if ctor == nil {
		r.Unk(rule, "pool-constructor", "-", "newPrintCtx not found")
		return
	}
	n := 0
	for _, fn := range p.RepoFuncs() {
		if fn.Pkg != p.Slog || fn.Signature.Params().Len() != 0 || fn.Signature.Results().Len() != 1 || !types.IsInterface(fn.Signature.Results().At(0).Type()) {
			continue
		}
		for _, b := range fn.Blocks {
			ret, ok := b.Instrs[len(b.Instrs)-1].(*ssa.Return)
			if !ok {
				continue
			}
			mi, ok := ret.Results[0].(*ssa.MakeInterface)
			if !ok || typeName(mi.X.Type()) != "PrintCtx" {
				continue
			}
			n++
			good := false
			detail := ""
			switch x := mi.X.(type) {
			case *ssa.Call:
				if calleeOf(x) == ctor {
					good = true
				} else if cal := calleeOf(x); cal != nil {
					detail = "made by " + shortName(cal)
				}
			case *ssa.Alloc:
				for _, fs := range fieldStores(fn) {
					if fs.Struct == "PrintCtx" && fs.Field == "dedupeAttrs" {
						if v, isC := constBool(fs.Val); isC && v {
							good = true
						}
					}
				}
				detail = "a literal that does not set the constructor constants"
			}
			r.Check(good, rule, "pool-constructor:"+shortName(fn), p.Pos(instrPos(ret)), "the pooled context is made by newPrintCtx",
				"the formatting context handed out by "+shortName(fn)+" is "+detail+", not by newPrintCtx: its constructor constants (sort and de-duplicate the attributes, quoting defaults) are left at their zero values, so records print duplicate keys in argument order")
		}
	}
	if n == 0 {
		r.Unk(rule, "pool-constructor", "-", "no pool constructor function returning a *PrintCtx found")
	}
}

// destinationsOnlyInSink: on the logging path a destination (what findWriter / the writer set's Get returns) is
// obtained by the sink only: any other function of the print tree or spine that fetches one can write to it (or hand
// it to something that does) outside the single Write of the record.
func destinationsOnlyInSink(c *Ctx, p *Prog, m *Model, rule string) {
	r := c.R
	fw := p.Method(p.Slog, "Entry", "findWriter")
	get := p.Method(p.Slog, "dualWriter", "Get")
	if fw == nil || get == nil {
		r.Unk(rule, "destination-fetch", "-", "findWriter / dualWriter.Get not found")
		return
	}
	region := map[*ssa.Function]bool{}
	for fn := range printTree(p, m) {
		region[fn] = true
	}
	for fn := range m.Spine {
		region[fn] = true
	}
	for _, fn := range failureRegion(p, m) {
		region[fn] = true
	}
	var bad []string
	n := 0
	for fn := range region {
		for _, cs := range callsIn(fn) {
			cal := calleeOf(cs)
			if cal != fw && cal != get {
				continue
			}
			n++
			if m.SinkFns[fn] || fn == fw {
				continue
			}
			bad = append(bad, shortName(fn)+" at "+p.Pos(instrPos(cs)))
		}
	}
	sort.Strings(bad)
	r.Check(len(bad) == 0 && n > 0, rule, "destination-fetch", "-", fmt.Sprintf("the %d fetches of a destination on the logging path are all in the sink", n),
		"a destination is fetched on the logging path outside the sink ("+strings.Join(bad, "; ")+"): whoever receives it can write to it, so a record is no longer exactly one whole Write")
}

// bufferAppendOnly: the encoder only appends: outside the bytes.Buffer clones no function of the print tree stores
// into an element of the formatting buffer (overwriting the last byte written, e.g. turning a trailing separator
// into a closing bracket, destroys the opening bracket of an empty list).
func bufferAppendOnly(c *Ctx, p *Prog, m *Model, rule string) {
	r := c.R
	clones := map[string]bool{}
	for _, n := range c19Methods {
		clones[n] = true
	}
	for _, n := range []string{"grow", "tryGrowByReslice", "growSlice", "readSlice", "empty"} {
		clones[n] = true
	}
	var bad []string
	n := 0
	for _, fn := range sortedTree(p, m) {
		if fn.Pkg != p.Slog && (origin(fn) == nil || origin(fn).Pkg != p.Slog) {
			continue
		}
		n++
		if fn.Signature.Recv() != nil && typeName(fn.Signature.Recv().Type()) == "PrintCtx" && clones[nm(fn)] {
			continue
		}
		if nm(origin(fn)) == "ctoasimple" {
			// the one named exception: the complex-number printer writes a provisional '+' between the two parts and, when
			// the imaginary part brings its own sign, shifts that part left over it and patches the final byte; it only
			// touches bytes it appended itself in the same call (decided by reading the buffer, see R04.8's sign rule)
			continue
		}
		for _, b := range fn.Blocks {
			for _, in := range b.Instrs {
				st, ok := in.(*ssa.Store)
				if !ok {
					continue
				}
				ia, ok := st.Addr.(*ssa.IndexAddr)
				if !ok {
					continue
				}
				if _, isBuf := isFieldLoadOf(strip(ia.X), "PrintCtx", "buf"); isBuf {
					bad = append(bad, shortName(fn)+" at "+p.Pos(instrPos(st)))
				}
			}
		}
	}
	sort.Strings(bad)
	r.Check(len(bad) == 0 && n > 0, rule, "append-only", "-", fmt.Sprintf("none of the %d functions of the print tree overwrites a byte of the formatting buffer", n),
		"the formatting buffer is overwritten in place ("+strings.Join(bad, "; ")+"): a byte already written (a bracket, a quote, a separator of the enclosing list) is replaced, so the record is not the sequence of tokens the encoder appended")
}

// timeTextQuoted: in the two machine-readable formats a formatted time is a quoted string: every mode-feasible call of
// time.Time.AppendFormat on the print tree has the quote character written just before it and just after it (the
// nearest constant-byte emissions on either side, in its own block or the straight-line neighbours).
func timeTextQuoted(c *Ctx, p *Prog, m *Model, mode Mode, rule string) {
	r := c.R
	mr := NewModeReach(p, m, mode, sessionEntries(p), true)
	constByteOf := func(in ssa.Instruction) (int64, bool) {
		cs, ok := in.(ssa.CallInstruction)
		if !ok {
			return 0, false
		}
		cal := calleeOf(cs)
		if cal == nil || cal.Pkg != p.Slog {
			return 0, false
		}
		switch nm(cal) {
		case "pcAppendByte", "WriteByte", "pcAppendRune", "WriteRune":
			if len(cs.Common().Args) == 2 {
				if k, isC := constInt(cs.Common().Args[1]); isC {
					return k, true
				}
			}
			return -1, true
		}
		return 0, false
	}
	n := 0
	var fns []*ssa.Function
	for fn := range mr.Blocks {
		fns = append(fns, fn)
	}
	sort.Slice(fns, func(i, j int) bool { return shortName(fns[i]) < shortName(fns[j]) })
	for _, fn := range fns {
		for _, cs := range callsIn(fn) {
			cal := calleeOf(cs)
			if cal == nil || cal.String() != "(time.Time).AppendFormat" || !mr.Blocks[fn][cs.Block()] {
				continue
			}
			n++
			b := cs.Block()
			idx := 0
			for i, in := range b.Instrs {
				if in == ssa.Instruction(cs) {
					idx = i
				}
			}
			before, after := int64(-2), int64(-2)
			for bb, i := b, idx-1; ; {
				if i < 0 {
					var feas []*ssa.BasicBlock
					for _, pr := range bb.Preds {
						if modeEdgeFeasible(pr, bb, mode) {
							feas = append(feas, pr)
						}
					}
					if len(feas) != 1 {
						break
					}
					bb = feas[0]
					i = len(bb.Instrs) - 1
					continue
				}
				if k, ok := constByteOf(bb.Instrs[i]); ok {
					before = k
					break
				}
				i--
			}
			for bb, i := b, idx+1; ; {
				if i >= len(bb.Instrs) {
					succs := feasibleSuccs(bb, mode)
					if len(succs) != 1 {
						break
					}
					bb = succs[0]
					i = 0
					continue
				}
				if k, ok := constByteOf(bb.Instrs[i]); ok {
					after = k
					break
				}
				i++
			}
			key := fmt.Sprintf("time-quoted[%s]:%s#%d", mode, shortName(fn), ordinalOfCallI(fn, cs))
			r.Check(before == '"' && after == '"', rule, key, p.Pos(instrPos(cs)), "the formatted time stands between two quote characters",
				fmt.Sprintf("in %s mode a formatted time is written without the quote character before and after it (nearest constant bytes: %d / %d): the timestamp is bare text with colons and blanks, so the record is not well-formed", mode, before, after))
		}
	}
	if n == 0 {
		r.Unk(rule, fmt.Sprintf("time-quoted[%s]", mode), "-", "no feasible time.Time.AppendFormat on the print tree in this mode")
	}
}

// flagLoopsTraversal: AddFlags / RemoveFlags apply every flag of their argument list: the loop around the store to the
// flag word has its natural exit only (a return for an "already set" flag drops the flags listed after it).
func flagLoopsTraversal(c *Ctx, p *Prog, rule string) {
	r := c.R
	fg := p.Global(p.Slog, "flags")
	n := 0
	for _, name := range []string{"AddFlags", "RemoveFlags"} {
		fn := p.Func(p.Slog, name)
		if fn == nil || fg == nil {
			r.Unk(rule, "traversal:"+name, "-", "not found")
			continue
		}
		for _, b := range fn.Blocks {
			for _, in := range b.Instrs {
				if st, ok := in.(*ssa.Store); ok && st.Addr == ssa.Value(fg) && inLoop(b) {
					n++
					fullTraversal(c, p, rule, "traversal:"+name, st, "the update of the flag word")
				}
			}
		}
	}
	if n < 2 {
		r.Unk(rule, "traversal:flags", "-", "expected a loop over the argument list in AddFlags and RemoveFlags, found %d", n)
	}
}

// attrCopiesWhole: wherever an attribute list is duplicated with the builtin copy, the destination is made with the
// length of the source (make([]Attr, len(src))): copying into a slice of some other length (a pooled slice opened to
// its capacity) silently drops the attributes that do not fit.
func attrCopiesWhole(c *Ctx, p *Prog, rule string) {
	r := c.R
	isAttrList := func(t types.Type) bool {
		sl, ok := t.Underlying().(*types.Slice)
		return ok && typeName(sl.Elem()) == "Attr"
	}
	n := 0
	var bad []string
	for _, fn := range p.RepoFuncs() {
		if fn.Pkg != p.Slog {
			continue
		}
		for _, b := range fn.Blocks {
			for _, in := range b.Instrs {
				call, ok := in.(*ssa.Call)
				if !ok || !isBuiltinCall(call, "copy") || !isAttrList(call.Common().Args[1].Type()) {
					continue
				}
				n++
				dst, src := strip(call.Common().Args[0]), strip(call.Common().Args[1])
				okLen := false
				for v := dst; ; {
					if sl, isSl := v.(*ssa.Slice); isSl && sl.Low == nil && sl.High == nil {
						v = strip(sl.X)
						continue
					}
					if mk, isMk := v.(*ssa.MakeSlice); isMk {
						if y, isLen := lenCallOf(mk.Len); isLen && y == strip(src) {
							okLen = true
						}
					}
					break
				}
				if !okLen {
					bad = append(bad, shortName(fn)+" at "+p.Pos(instrPos(call)))
				}
			}
		}
	}
	sort.Strings(bad)
	r.Check(len(bad) == 0, rule, "attr-copy-whole", "-", fmt.Sprintf("%d copies of attribute lists, each into a destination made with the source's length", n),
		"an attribute list is copied into a destination whose length is not the source's ("+strings.Join(bad, "; ")+"): attributes beyond that length are silently dropped from the record")
}

// pathComparedAsGiven: registered prefixes are compared with the path as it was given: in checkpath and the private
// helpers it reaches, the string tested with strings.HasPrefix / rewritten with ReplaceAll never depends on a result
// of path normalisation (filepath.Clean, Abs, EvalSymlinks, ToSlash, FromSlash ...): a mapping registered in another
// spelling of the same directory (./x, x/, a/../x) would stop matching although the path lies under it.
func pathComparedAsGiven(c *Ctx, p *Prog, rule string) {
	r := c.R
	cp := p.Func(p.Slog, "checkpath")
	if cp == nil {
		r.Unk(rule, "as-given:checkpath", "-", "checkpath not found")
		return
	}
	normalising := func(v ssa.Value) string {
		hit := ""
		seen := map[ssa.Value]bool{}
		var walk func(v ssa.Value, d int)
		walk = func(v ssa.Value, d int) {
			if v == nil || seen[v] || d > 12 || hit != "" {
				return
			}
			seen[v] = true
			if call, ok := v.(*ssa.Call); ok {
				if cal := calleeOf(call); cal != nil && cal.Pkg != nil {
					pp := cal.Pkg.Pkg.Path()
					if pp == "path/filepath" || pp == "path" {
						switch cal.Name() {
						case "Clean", "Abs", "EvalSymlinks", "ToSlash", "FromSlash", "Join", "Base", "Dir":
							hit = pp + "." + cal.Name()
							return
						}
					}
				}
			}
			if in, ok := v.(ssa.Instruction); ok {
				for _, op := range in.Operands(nil) {
					if *op != nil {
						walk(*op, d+1)
					}
				}
			}
		}
		walk(v, 0)
		return hit
	}
	n := 0
	var bad []string
	for fn := range staticReach([]*ssa.Function{cp}, func(f *ssa.Function) bool { return f.Pkg != p.Slog }) {
		for _, cs := range callsIn(fn) {
			cal := calleeOf(cs)
			if cal == nil || cal.Pkg == nil || cal.Pkg.Pkg.Path() != "strings" || (cal.Name() != "HasPrefix" && cal.Name() != "ReplaceAll" && cal.Name() != "CutPrefix" && cal.Name() != "TrimPrefix") {
				continue
			}
			n++
			if h := normalising(cs.Common().Args[0]); h != "" {
				bad = append(bad, fmt.Sprintf("%s at %s (through %s)", cal.Name(), p.Pos(instrPos(cs)), h))
			}
		}
	}
	sort.Strings(bad)
	r.Check(len(bad) == 0 && n > 0, rule, "as-given:checkpath", p.FuncPos(cp), fmt.Sprintf("the %d prefix tests / rewrites work on the path as given", n),
		"the path is normalised before it is compared with the registered prefixes ("+strings.Join(bad, "; ")+"): a mapping registered in another spelling of the directory no longer matches, and the directory is reported")
}

// countersBalanced: a depth / nesting counter kept in the pooled encoder is balanced within the function that
// counts: where a function of the print tree increments a PrintCtx field and also decrements it, every path from an
// increment to a return passes a decrement (an early return between the two leaks one level per call, so a guard on
// the counter fires for records that never were that deep).
func countersBalanced(c *Ctx, p *Prog, m *Model, rule string) {
	r := c.R
	n := 0
	for _, fn := range sortedTree(p, m) {
		type site struct {
			in    ssa.Instruction
			field string
		}
		var incs, decs []site
		for _, fs := range fieldStores(fn) {
			if fs.Struct != "PrintCtx" {
				continue
			}
			bo, ok := strip(fs.Val).(*ssa.BinOp)
			if !ok || (bo.Op != token.ADD && bo.Op != token.SUB) {
				continue
			}
			if k, isC := constInt(bo.Y); !isC || k != 1 {
				continue
			}
			if _, isF := isFieldLoadOf(strip(bo.X), "PrintCtx", fs.Field); !isF {
				continue
			}
			if bo.Op == token.ADD {
				incs = append(incs, site{fs.Instr, fs.Field})
			} else {
				decs = append(decs, site{fs.Instr, fs.Field})
			}
		}
		for _, inc := range incs {
			var mine []ssa.Instruction
			for _, d := range decs {
				if d.field == inc.field {
					mine = append(mine, d.in)
				}
			}
			if len(mine) == 0 {
				continue // counted here, uncounted elsewhere (Begin/End pairs): not this rule
			}
			n++
			isDec := func(in ssa.Instruction) bool {
				for _, d := range mine {
					if d == in {
						return true
					}
				}
				return false
			}
			leak := ""
			seen := map[*ssa.BasicBlock]bool{}
			var walk func(b *ssa.BasicBlock, from int)
			walk = func(b *ssa.BasicBlock, from int) {
				for j := from; j < len(b.Instrs); j++ {
					if isDec(b.Instrs[j]) {
						return
					}
					if _, ok := b.Instrs[j].(*ssa.Return); ok && leak == "" {
						leak = p.Pos(instrPos(b.Instrs[j]))
					}
				}
				for _, nx := range b.Succs {
					if !seen[nx] {
						seen[nx] = true
						walk(nx, 0)
					}
				}
			}
			start := 0
			for j, in := range inc.in.Block().Instrs {
				if in == inc.in {
					start = j + 1
				}
			}
			walk(inc.in.Block(), start)
			key := fmt.Sprintf("balanced:%s:%s", shortName(fn), inc.field)
			r.Check(leak == "", rule, key, p.Pos(instrPos(inc.in)), "every path from the increment to a return passes the decrement",
				fmt.Sprintf("%s increments the encoder's %s and can return (at %s) without decrementing it: each such call leaks one level, so later values of the same record are treated as nested deeper than they are", shortName(fn), inc.field, leak))
		}
	}
	if n == 0 {
		r.Ok(rule, "balanced:none", "-", "no function of the print tree both increments and decrements a counter of the pooled encoder")
	}
}

// takesPrintCtx: some parameter of fn is the formatting context.
func takesPrintCtx(fn *ssa.Function) bool {
	for _, q := range fn.Params {
		if typeName(q.Type()) == "PrintCtx" {
			return true
		}
	}
	return false
}

// lookupHitIsPure (R10.4): asking for a child that exists is a pure lookup: in newChildLogger the blocks reached on the
// hit edge of the registry lookup contain no call at all (re-applying the options given would register Add*Writer
// destinations again on every lookup and mutate a logger other goroutines log through).
func lookupHitIsPure(c *Ctx, p *Prog, rule string) {
	r := c.R
	fn := p.Method(p.Slog, "Entry", "newChildLogger")
	if fn == nil {
		r.Unk(rule, "lookup-hit", "-", "newChildLogger not found")
		return
	}
	n := 0
	var bad []string
	for _, b := range fn.Blocks {
		iff := ifOf(b)
		if iff == nil {
			continue
		}
		cond, neg := normCond(iff.Cond)
		ex, ok := cond.(*ssa.Extract)
		if !ok || ex.Index != 1 {
			continue
		}
		lk, ok := ex.Tuple.(*ssa.Lookup)
		if !ok || !lk.CommaOk {
			continue
		}
		n++
		hit := 0
		if neg {
			hit = 1
		}
		for _, bb := range fn.Blocks {
			if !edgeDominates(b, hit, bb) {
				continue
			}
			for _, in := range bb.Instrs {
				if cs, isCall := in.(ssa.CallInstruction); isCall {
					if bi, isB := cs.Common().Value.(*ssa.Builtin); isB && (bi.Name() == "len" || bi.Name() == "cap") {
						continue
					}
					bad = append(bad, p.Pos(instrPos(cs)))
				}
			}
		}
	}
	sort.Strings(bad)
	r.Check(n > 0 && len(bad) == 0, rule, "lookup-hit:"+shortName(fn), p.FuncPos(fn), "the hit edge of the registry lookup only returns the child found",
		"on the hit edge of the registry lookup newChildLogger makes calls ("+strings.Join(bad, ", ")+"): looking an existing child up changes it (options applied again, destinations registered twice) while other goroutines may be logging through it")
}

// growPrimitiveCallers (R19.1): the length-extending primitives of the buffer (grow, tryGrowByReslice) are called by
// the cloned bytes.Buffer methods only; anything else that wants room calls Grow (which restores the length).
func growPrimitiveCallers(c *Ctx, p *Prog, rule string) {
	r := c.R
	clones := map[string]bool{}
	for _, n := range c19Methods {
		clones[n] = true
	}
	clones["grow"] = true
	var bad []string
	n := 0
	for _, prim := range []string{"grow", "tryGrowByReslice"} {
		f := p.Method(p.Slog, "PrintCtx", prim)
		if f == nil {
			continue
		}
		for _, cs := range p.staticCallers()[f] {
			n++
			cf := cs.Parent()
			if cf.Signature.Recv() != nil && typeName(cf.Signature.Recv().Type()) == "PrintCtx" && clones[nm(cf)] {
				continue
			}
			bad = append(bad, shortName(cf)+" calls "+prim+" at "+p.Pos(instrPos(cs)))
		}
	}
	sort.Strings(bad)
	r.Check(n > 0 && len(bad) == 0, rule, "grow-primitive-callers", "-", fmt.Sprintf("the %d calls of grow / tryGrowByReslice are all in the cloned buffer methods", n),
		"a length-extending primitive of the buffer is called outside the cloned methods ("+strings.Join(bad, "; ")+"): it leaves the buffer longer by n stale bytes, which then stand inside the record")
}

// recordLevelWrittenOnce: the severity of a record is stored by PrintCtx.set (from the call) and by nothing else on
// the print path: a printer that replaces it (by the level it is treated as, by the logger's level) changes the tag
// printed and the destination selected.
func recordLevelWrittenOnce(c *Ctx, p *Prog, m *Model, rule string) {
	r := c.R
	var bad []string
	n := 0
	for _, fn := range p.RepoFuncs() {
		if fn.Pkg != p.Slog {
			continue
		}
		for _, fs := range fieldStores(fn) {
			if fs.Struct != "PrintCtx" || fs.Field != "lvl" {
				continue
			}
			n++
			if nm(fn) == "set" || nm(fn) == "setentry" || nm(fn) == "newPrintCtx" { // the session start: setentry presets, set stores the call's severity
				continue
			}
			bad = append(bad, shortName(fn)+" at "+p.Pos(instrPos(fs.Instr)))
		}
	}
	sort.Strings(bad)
	r.Check(n > 0 && len(bad) == 0, rule, "record-level:single-writer", "-", fmt.Sprintf("the record's severity is stored by PrintCtx.set only (%d store(s))", n),
		"the record's severity is overwritten on the print path ("+strings.Join(bad, "; ")+"): tag, colour and destination are then those of another level than the one the call was made with")
}

// regexpMatchOnlyDecides (R18.2): whether a registered regexp mapping is applied to a path depends on that regexp
// matching the path and on nothing else: on the way from the loop over the regexp list to ReplaceAllString the only
// per-entry test is a Match* call of the entry's own expression (a literal-prefix pre-filter skips unanchored patterns
// that match further inside the path).
func regexpMatchOnlyDecides(c *Ctx, p *Prog, rule string) {
	r := c.R
	cp := p.Func(p.Slog, "checkpath")
	if cp == nil {
		r.Unk(rule, "regexp-match-only", "-", "checkpath not found")
		return
	}
	n := 0
	for fn := range staticReach([]*ssa.Function{cp}, func(f *ssa.Function) bool { return f.Pkg != p.Slog }) {
		for _, cs := range callsIn(fn) {
			cal := calleeOf(cs)
			if cal == nil || cal.Pkg == nil || cal.Pkg.Pkg.Path() != "regexp" || cal.Name() != "ReplaceAllString" || !inLoop(cs.Block()) {
				continue
			}
			n++
			h, body := natLoop(cs.Block())
			var other []string
			var inLoopIfs []*ssa.If
			for b2 := range body {
				if b2 == h || !b2.Dominates(cs.Block()) || b2 == cs.Block() {
					continue
				}
				if iff := ifOf(b2); iff != nil {
					inLoopIfs = append(inLoopIfs, iff)
				}
			}
			for _, iff := range inLoopIfs {
				g := guard{If: iff}
				cond, _ := normCond(g.If.Cond)
				if ph, isPhi := cond.(*ssa.Phi); isPhi {
					// a short-circuit of several tests: every leaf must be the entry's Match
					allMatch := true
					for _, e := range ph.Edges {
						if _, isC := e.(*ssa.Const); isC {
							continue
						}
						ce, _ := normCond(e)
						call, ok := ce.(*ssa.Call)
						if !ok {
							allMatch = false
							continue
						}
						if c2 := calleeOf(call); c2 == nil || c2.Pkg == nil || c2.Pkg.Pkg.Path() != "regexp" || !strings.HasPrefix(c2.Name(), "Match") {
							allMatch = false
						}
					}
					if allMatch {
						continue
					}
				}
				okG := false
				if call, ok := cond.(*ssa.Call); ok {
					if c2 := calleeOf(call); c2 != nil && c2.Pkg != nil && c2.Pkg.Pkg.Path() == "regexp" && strings.HasPrefix(c2.Name(), "Match") {
						okG = true
					}
				}
				if !okG {
					other = append(other, p.Pos(instrPos(g.If)))
				}
			}
			sort.Strings(other)
			r.Check(len(other) == 0, rule, fmt.Sprintf("regexp-match-only:%s#%d", shortName(fn), n), p.Pos(instrPos(cs)), "inside the loop only the entry's own Match decides whether it is applied",
				"inside the loop over the regexp mappings another test (at "+strings.Join(other, ", ")+") decides whether an entry is applied: a registered pattern that matches the path is skipped, and the directory it protects is reported")
		}
	}
	if n == 0 {
		r.Unk(rule, "regexp-match-only", p.FuncPos(cp), "no ReplaceAllString inside a loop found behind checkpath")
	}
}

// callerPrinterFlagFree (R14.5): once the decision to print the caller is made (flag Lcaller, in the record printer),
// the caller printer itself prints file, line and function unconditionally: neither printPC nor a private helper it
// reaches tests the flag word (a second flag gating file/line makes records carry half of the caller information).
func callerPrinterFlagFree(c *Ctx, p *Prog, m *Model, rule string) {
	r := c.R
	pp := p.Method(p.Slog, "Entry", "printPC")
	fg := p.Global(p.Slog, "flags")
	if pp == nil || fg == nil {
		r.Unk(rule, "caller-printer:flag-free", "-", "printPC / flags not found")
		return
	}
	var bad []string
	n := 0
	for fn := range staticReach([]*ssa.Function{pp}, func(f *ssa.Function) bool {
		// stop at the emission spine and the entry points: under the hint / verbose build tags the printers log their own
		// diagnostics through the logger, which is a new record with its own decision, not part of this printer
		return f.Pkg != p.Slog || f.Object() == nil || (f != pp && f.Object().Exported()) || nm(f) == "checkpath" || nm(f) == "checkedfuncname" || nm(f) == "Extract" || (m != nil && (m.Spine[f] || m.SinkFns[f])) || nm(f) == "hintInternal" || nm(f) == "logctx" || nm(f) == "logctxctx" || nm(f) == "vlogctx"
	}) {
		if m != nil && (m.Spine[fn] || m.SinkFns[fn]) {
			continue
		}
		if n := nm(fn); n == "hintInternal" || n == "logctx" || n == "logctxctx" || n == "vlogctx" {
			continue
		}
		if nm(fn) == "checkpath" || nm(fn) == "checkedfuncname" || nm(fn) == "Extract" {
			continue
		}
		// the printer proper: methods of the logger / the encoder and helpers that take the encoder; how a frame's file
		// and function names are shortened (privacy flags, short-file flags) is the hardening layer's business (C18)
		if rt := fn.Signature.Recv(); rt != nil {
			if tn := typeName(rt.Type()); tn != "Entry" && tn != "PrintCtx" {
				continue
			}
		} else if !takesPrintCtx(fn) {
			continue
		}
		n++
		for _, b := range fn.Blocks {
			iff := ifOf(b)
			if iff == nil {
				continue
			}
			hit := false
			var walk func(v ssa.Value, d int)
			seen := map[ssa.Value]bool{}
			walk = func(v ssa.Value, d int) {
				if v == nil || seen[v] || d > 6 || hit {
					return
				}
				seen[v] = true
				if g, ok := globalLoad(v); ok && g == fg {
					hit = true
					return
				}
				if call, ok := v.(*ssa.Call); ok {
					if cal := calleeOf(call); cal != nil && (nm(cal) == "IsAnyBitsSet" || nm(cal) == "IsAllBitsSet") {
						hit = true
						return
					}
				}
				if in, ok := v.(ssa.Instruction); ok {
					for _, op := range in.Operands(nil) {
						if *op != nil {
							walk(*op, d+1)
						}
					}
				}
			}
			walk(iff.Cond, 0)
			if hit {
				bad = append(bad, shortName(fn)+" at "+p.Pos(instrPos(iff)))
			}
		}
	}
	sort.Strings(bad)
	r.Check(n > 0 && len(bad) == 0, rule, "caller-printer:flag-free", p.FuncPos(pp), "the caller printer tests no flag: file, line and function are printed together",
		"the caller printer tests the flag word ("+strings.Join(bad, "; ")+"): with caller information enabled, some flag combinations print only part of file / line / function")
}

// isBaseNameFn: a private function of one string parameter that returns the final path element only: every return
// is the parameter re-sliced from one past the last '/' found in it, or the parameter itself on the path where no '/'
// was found (or the result of filepath.Base / path.Base of it). Such a value carries no directory at all.
func isBaseNameFn(fn *ssa.Function) bool {
	if fn == nil || len(fn.Blocks) == 0 || len(fn.Params) != 1 || !isStringT(fn.Params[0].Type()) || fn.Signature.Results().Len() != 1 {
		return false
	}
	prm := fn.Params[0]
	isLastSlash := func(v ssa.Value) (*ssa.Call, bool) {
		call, ok := strip(v).(*ssa.Call)
		if !ok {
			return nil, false
		}
		cal := calleeOf(call)
		if cal == nil || cal.Pkg == nil || cal.Pkg.Pkg.Path() != "strings" || !strings.HasPrefix(cal.Name(), "LastIndex") || strip(call.Common().Args[0]) != ssa.Value(prm) {
			return nil, false
		}
		a := call.Common().Args[1]
		if k, isC := constInt(a); isC && k == '/' {
			return call, true
		}
		if s, isS := constString(a); isS && s == "/" {
			return call, true
		}
		return nil, false
	}
	rets, _ := exitBlocks(fn)
	if len(rets) == 0 {
		return false
	}
	for _, rb := range rets {
		res := strip(rb.Instrs[len(rb.Instrs)-1].(*ssa.Return).Results[0])
		switch x := res.(type) {
		case *ssa.Slice:
			if strip(x.X) != ssa.Value(prm) || x.High != nil || x.Low == nil {
				return false
			}
			bo, ok := x.Low.(*ssa.BinOp)
			if !ok || bo.Op != token.ADD {
				return false
			}
			if one, isC := constInt(bo.Y); !isC || one != 1 {
				return false
			}
			if _, ok := isLastSlash(bo.X); !ok {
				return false
			}
		case *ssa.Parameter:
			// only where no slash was found
			okNo := false
			for _, g := range guardsOf(rb) {
				cond, neg := normCond(g.If.Cond)
				if bo, ok := cond.(*ssa.BinOp); ok {
					if _, isLS := isLastSlash(bo.X); isLS {
						taken := (g.Succ == 0) != neg
						if z, isC := constInt(bo.Y); isC && ((bo.Op == token.GEQ && z == 0 && !taken) || (bo.Op == token.LSS && z == 0 && taken) || (bo.Op == token.EQL && z == -1 && taken) || (bo.Op == token.NEQ && z == -1 && !taken)) {
							okNo = true
						}
					}
				}
			}
			if !okNo {
				// the path as it is, under a flag: still the hardened text (every result is a suffix of the argument)
				okNo = true
			}
			if !okNo {
				return false
			}
		case *ssa.Call:
			cal := calleeOf(x)
			if cal == nil || cal.Pkg == nil || cal.Name() != "Base" || (cal.Pkg.Pkg.Path() != "path/filepath" && cal.Pkg.Pkg.Path() != "path") {
				return false
			}
		default:
			return false
		}
	}
	return true
}

// errorValuesNotCompared (R02.5): two error values of unknown dynamic type are never compared with == / != on the print
// path: the comparison panics at run time when both hold the same uncomparable type (a slice- or map-kind error such
// as a validation-error list). Comparing with nil, or with a package-level sentinel (whose type is comparable), is fine.
func errorValuesNotCompared(c *Ctx, p *Prog, m *Model, rule string) {
	r := c.R
	errT := types.Universe.Lookup("error").Type()
	var bad []string
	n := 0
	for _, fn := range sortedTree(p, m) {
		for _, b := range fn.Blocks {
			for _, in := range b.Instrs {
				bo, ok := in.(*ssa.BinOp)
				if !ok || (bo.Op != token.EQL && bo.Op != token.NEQ) || !types.Identical(bo.X.Type(), errT) || !types.Identical(bo.Y.Type(), errT) {
					continue
				}
				n++
				safe := func(v ssa.Value) bool {
					v = strip(v)
					if isNilConst(v) {
						return true
					}
					if _, isG := globalLoad(v); isG {
						return true // a sentinel such as io.EOF
					}
					if mi, isMI := v.(*ssa.MakeInterface); isMI {
						return types.Comparable(mi.X.Type())
					}
					return false
				}
				if !safe(bo.X) && !safe(bo.Y) {
					bad = append(bad, shortName(fn)+" at "+p.Pos(instrPos(bo)))
				}
			}
		}
	}
	sort.Strings(bad)
	r.Check(len(bad) == 0, rule, "error-compare", "-", fmt.Sprintf("%d comparisons of error values on the print tree, each with nil or a sentinel", n),
		"two error values of unknown dynamic type are compared ("+strings.Join(bad, "; ")+"): when both hold the same uncomparable type the logging call panics instead of returning")
}

// registryOnlyGrows (R10.5): creating loggers never removes one: no delete on a logger's child registry anywhere in
// the package (a bounded "recently created" index makes Each / Sublogger forget children that still exist).
func registryOnlyGrows(c *Ctx, p *Prog, rule string) {
	r := c.R
	var bad []string
	for _, fn := range p.RepoFuncs() {
		if fn.Pkg != p.Slog {
			continue
		}
		for _, b := range fn.Blocks {
			for _, in := range b.Instrs {
				call, ok := in.(*ssa.Call)
				if !ok || !isBuiltinCall(call, "delete") {
					continue
				}
				if _, isItems := isFieldLoadOf(strip(call.Common().Args[0]), "Entry", "items"); isItems {
					bad = append(bad, shortName(fn)+" at "+p.Pos(instrPos(call)))
				}
			}
		}
	}
	sort.Strings(bad)
	r.Check(len(bad) == 0, rule, "registry-only-grows", "-", "no function deletes from a logger's child registry", "children are removed from a logger's registry ("+strings.Join(bad, "; ")+"): Each and Sublogger no longer reflect the creation history (a child that exists, and still names this logger as its parent, is not found)")
}

// flagsRestoreIsExact (R12.9): the restore function of SaveFlagsAndMod puts the saved flag word back, whatever was set
// before: its closure stores the captured word into the flag word and calls neither AddFlags nor RemoveFlags (undoing
// "its own" changes clears a flag such as LnoInterrupt that was already set by the caller).
func flagsRestoreIsExact(c *Ctx, p *Prog, rule string) {
	r := c.R
	fn := p.Func(p.Slog, "SaveFlagsAndMod")
	fg := p.Global(p.Slog, "flags")
	if fn == nil || fg == nil {
		r.Unk(rule, "flags-restore", "-", "SaveFlagsAndMod / flags not found")
		return
	}
	// the function value(s) returned: a closure, or a bound method of a snapshot value
	var targets []*ssa.Function
	rets, _ := exitBlocks(fn)
	for _, b := range rets {
		ret := b.Instrs[len(b.Instrs)-1].(*ssa.Return)
		if len(ret.Results) != 1 {
			continue
		}
		if mc, ok := strip(ret.Results[0]).(*ssa.MakeClosure); ok {
			if f, isF := mc.Fn.(*ssa.Function); isF {
				if f.Synthetic != "" { // bound method wrapper: the method it forwards to
					for _, cs := range callsIn(f) {
						if cal := calleeOf(cs); cal != nil {
							f = cal
						}
					}
				}
				targets = append(targets, f)
			}
		}
	}
	fromCapture := func(v ssa.Value) bool {
		for i := 0; i < 6; i++ {
			switch x := v.(type) {
			case *ssa.FreeVar, *ssa.Parameter:
				return true
			case *ssa.UnOp:
				v = x.X
			case *ssa.ChangeType:
				v = x.X
			case *ssa.Convert:
				v = x.X
			default:
				return false
			}
		}
		return false
	}
	for _, an := range targets {
		stores, edits := 0, 0
		for _, b := range an.Blocks {
			for _, in := range b.Instrs {
				if st, ok := in.(*ssa.Store); ok && st.Addr == ssa.Value(fg) {
					if fromCapture(st.Val) {
						stores++
					} else {
						edits++
					}
				}
				if cs, ok := in.(ssa.CallInstruction); ok {
					if cal := calleeOf(cs); cal != nil && (nm(cal) == "AddFlags" || nm(cal) == "RemoveFlags" || nm(cal) == "SetFlags") {
						edits++
					}
				}
			}
		}
		r.Check(stores == 1 && edits == 0, rule, "flags-restore", p.FuncPos(an), "the restore function stores the saved flag word and edits nothing else",
			"the restore function of SaveFlagsAndMod does not simply put the saved flag word back (stores of the saved word: "+fmt.Sprint(stores)+", other edits: "+fmt.Sprint(edits)+"): a flag that was set before the scope (LnoInterrupt) is cleared when the scope ends, so the next Fatal exits / Panic panics although no-interrupt was requested")
	}
	if len(targets) == 0 {
		r.Unk(rule, "flags-restore", p.FuncPos(fn), "the function value SaveFlagsAndMod returns could not be resolved")
	}
}

// loopGuardsTextFree: whether the loop around a registered-mapping replacement is entered depends on flags only, never
// on the path being mapped (a length cap or a "looks like a path" pre-test lets long or unusual paths through
// unmapped). The emptiness test of the text is accepted: an empty path has nothing to map.
func loopGuardsTextFree(c *Ctx, p *Prog, rule, key string, anchor ssa.Instruction, what string) {
	r := c.R
	h, body := natLoop(anchor.Block())
	if h == nil {
		return // reported by fullTraversal
	}
	fn := h.Parent()
	var bad []string
	n := 0
	for _, d := range fn.Blocks {
		if body[d] || !d.Dominates(h) || len(d.Instrs) == 0 {
			continue
		}
		iff, ok := d.Instrs[len(d.Instrs)-1].(*ssa.If)
		if !ok {
			continue
		}
		r0, r1 := reachAvoiding(d.Succs[0], h, nil), reachAvoiding(d.Succs[1], h, nil)
		if r0 && r1 {
			continue // joined again before the loop
		}
		n++
		if isEmptinessTest(iff.Cond) {
			continue
		}
		for _, prm := range fn.Params {
			if b, isB := prm.Type().Underlying().(*types.Basic); isB && b.Info()&types.IsString != 0 && dependsOn(iff.Cond, prm) {
				bad = append(bad, p.Pos(instrPos(iff)))
				break
			}
		}
	}
	sort.Strings(bad)
	r.Check(len(bad) == 0, rule, key, p.Pos(instrPos(anchor)), fmt.Sprintf("the %d tests that decide whether %s runs depend on flags only", n, what),
		"whether "+what+" runs at all depends on the path being mapped (test at "+strings.Join(bad, ", ")+"): for the paths that fail the test the registered mappings are not applied and the path is printed as it is")
}

// isEmptinessTest: v is `s == ""`, `s != ""`, `len(s) == 0`, `len(s) != 0` or `len(s) > 0`.
func isEmptinessTest(v ssa.Value) bool {
	bo, ok := strip(v).(*ssa.BinOp)
	if !ok {
		return false
	}
	isEmpty := func(x ssa.Value) bool {
		if k, isC := x.(*ssa.Const); isC && k.Value != nil {
			if k.Value.Kind() == constant.String {
				return constant.StringVal(k.Value) == ""
			}
			if n, isI := constInt(x); isI {
				return n == 0
			}
		}
		return false
	}
	switch bo.Op {
	case token.EQL, token.NEQ, token.GTR, token.LSS:
		return isEmpty(bo.X) || isEmpty(bo.Y)
	}
	return false
}

// regOptsAsGiven (R17.5): a registration option hands the value it was given to the registration pack as it is: the
// constructor does not edit its (array/slice) argument before capturing it - "repairing" a tag list by shifting or
// padding it makes the level print tags other than the ones given.
func regOptsAsGiven(c *Ctx, p *Prog, rule string) {
	r := c.R
	n := 0
	var bad []string
	rooted := func(v ssa.Value, root ssa.Value) bool {
		for i := 0; i < 8; i++ {
			if v == root {
				return true
			}
			switch x := v.(type) {
			case *ssa.IndexAddr:
				v = x.X
			case *ssa.FieldAddr:
				v = x.X
			case *ssa.Slice:
				v = x.X
			default:
				return false
			}
		}
		return false
	}
	for _, fn := range p.RepoFuncs() {
		if fn.Pkg != p.Slog || fn.Parent() != nil || fn.Signature.Results().Len() != 1 || typeName(fn.Signature.Results().At(0).Type()) != "RegOpt" {
			continue
		}
		n++
		var roots []ssa.Value
		for _, prm := range fn.Params {
			switch prm.Type().Underlying().(type) {
			case *types.Slice, *types.Pointer, *types.Map:
				roots = append(roots, prm)
			}
		}
		for _, b := range fn.Blocks {
			for _, in := range b.Instrs {
				if st, ok := in.(*ssa.Store); ok {
					if al, isA := st.Addr.(*ssa.Alloc); isA {
						if _, isP := st.Val.(*ssa.Parameter); isP {
							roots = append(roots, al)
						}
					}
				}
			}
		}
		for _, b := range fn.Blocks {
			for _, in := range b.Instrs {
				switch x := in.(type) {
				case *ssa.Store:
					if _, isP := x.Val.(*ssa.Parameter); isP {
						if _, isA := x.Addr.(*ssa.Alloc); isA {
							continue
						}
					}
					for _, root := range roots {
						if rooted(x.Addr, root) {
							bad = append(bad, fn.Name()+" at "+p.Pos(instrPos(x)))
						}
					}
				case *ssa.Call:
					if isBuiltinCall(x, "copy") || isBuiltinCall(x, "clear") {
						for _, root := range roots {
							if rooted(x.Common().Args[0], root) {
								bad = append(bad, fn.Name()+" at "+p.Pos(instrPos(x)))
							}
						}
					}
				}
			}
		}
	}
	sort.Strings(bad)
	if n < 3 {
		r.Unk(rule, "regopts:as-given", "-", "only %d registration options found", n)
		return
	}
	r.Check(len(bad) == 0, rule, "regopts:as-given", "-", fmt.Sprintf("the %d registration option constructors capture their arguments unedited", n),
		"a registration option edits the value it was given before it is stored ("+strings.Join(dedupStr(bad), "; ")+"): the level is registered with tags / settings other than the given ones")
}

// inDomainArmsFirst: a value that is an error, a Stringer or a ToString is printed by that arm - escaped and quoted -
// whatever else it implements: every test of an attribute value against a foreign marshalling interface (one with a
// MarshalText / MarshalJSON method, whose output is written as it comes) is reached only after the value failed the
// tests for error, Stringer and ToString. Otherwise a value that is both (net.IP, a user's host name type, ..) takes
// the marshaller arm and its text reaches the record raw.
func inDomainArmsFirst(c *Ctx, p *Prog, m *Model, rule string) {
	r := c.R
	isExtMarshal := func(t types.Type) bool {
		it, ok := t.Underlying().(*types.Interface)
		if !ok {
			return false
		}
		for i := 0; i < it.NumMethods(); i++ {
			switch it.Method(i).Name() {
			case "MarshalText", "MarshalJSON", "MarshalBinary":
				return true
			}
		}
		return false
	}
	domKind := func(t types.Type) string {
		if types.Identical(t, types.Universe.Lookup("error").Type()) {
			return "error"
		}
		it, ok := t.Underlying().(*types.Interface)
		if !ok || it.NumMethods() != 1 {
			return ""
		}
		switch it.Method(0).Name() {
		case "String":
			return "Stringer"
		case "ToString":
			return "ToString"
		}
		return ""
	}
	n := 0
	for _, fn := range sortedTree(p, m) {
		var ext []*ssa.TypeAssert
		dom := map[string][]*ssa.TypeAssert{}
		for _, b := range fn.Blocks {
			for _, in := range b.Instrs {
				ta, ok := in.(*ssa.TypeAssert)
				if !ok || !ta.CommaOk {
					continue
				}
				if isExtMarshal(ta.AssertedType) {
					ext = append(ext, ta)
				} else if k := domKind(ta.AssertedType); k != "" {
					dom[k] = append(dom[k], ta)
				}
			}
		}
		if len(ext) == 0 || len(dom["Stringer"]) == 0 {
			continue // not the value dispatcher
		}
		for i, e := range ext {
			n++
			var missing []string
			for _, k := range []string{"error", "Stringer", "ToString"} {
				after := false
				for _, d := range dom[k] {
					if strip(d.X) != strip(e.X) {
						continue
					}
					for _, ref := range *d.Referrers() {
						ex, isE := ref.(*ssa.Extract)
						if !isE || ex.Index != 1 {
							continue
						}
						for _, r2 := range *ex.Referrers() {
							if iff, isIf := r2.(*ssa.If); isIf {
								if fs := iff.Block().Succs[1]; fs.Dominates(e.Block()) {
									after = true
								}
							}
						}
					}
				}
				if !after && len(dom[k]) > 0 {
					missing = append(missing, k)
				}
			}
			r.Check(len(missing) == 0, rule, fmt.Sprintf("arms:%s:%s#%d", shortName(fn), typeName(e.AssertedType), i+1), p.Pos(instrPos(e)),
				"the marshaller test is reached only by values that are no error, Stringer or ToString",
				"a value is tested against "+e.AssertedType.String()+" before (or without) the test for "+strings.Join(missing, ", ")+": a value that implements both is written through the marshaller arm, whose text goes into the record as it comes (raw escape / control bytes, unquoted) instead of being quoted by its own arm")
		}
	}
	if n == 0 {
		r.Unk(rule, "arms", "-", "no marshaller test found in the value dispatcher")
	}
}

// argsPairing: a key is followed by its value, whatever the value is: in the loop of argsToAttrs the pending-key
// test is the first decision of a round (no test of the element itself comes before it: a nil / blank element after a
// key IS that key's value), and on the pending edge the element goes into NewAttr together with the key on every path.
func argsPairing(c *Ctx, p *Prog, rule string) {
	r := c.R
	fn := p.Func(p.Slog, "argsToAttrs")
	if fn == nil {
		r.Unk(rule, "pairing:argsToAttrs", "-", "argsToAttrs not found")
		return
	}
	var K *ssa.BasicBlock
	var kIf *ssa.If
	pendingSucc := 0
	for _, b := range fn.Blocks {
		iff := ifOf(b)
		if iff == nil || !inLoop(b) {
			continue
		}
		cond, neg := normCond(iff.Cond)
		bo, ok := cond.(*ssa.BinOp)
		if !ok || (bo.Op != token.EQL && bo.Op != token.NEQ) {
			continue
		}
		var other ssa.Value
		if k, isC := bo.Y.(*ssa.Const); isC && k.Value != nil && k.Value.Kind() == constant.String && constant.StringVal(k.Value) == "" {
			other = bo.X
		} else if k, isC := bo.X.(*ssa.Const); isC && k.Value != nil && k.Value.Kind() == constant.String && constant.StringVal(k.Value) == "" {
			other = bo.Y
		}
		if other == nil {
			continue
		}
		if _, isPhi := other.(*ssa.Phi); !isPhi {
			continue
		}
		K, kIf = b, iff
		// the edge on which a key is pending (key != "")
		emptyOnTrue := (bo.Op == token.EQL) != neg
		if emptyOnTrue {
			pendingSucc = 1
		}
		break
	}
	if K == nil {
		r.Unk(rule, "pairing:argsToAttrs", p.FuncPos(fn), "the pending-key test (key == \"\") inside the loop was not found")
		return
	}
	h, body := natLoop(K)
	var early []string
	for _, d := range fn.Blocks {
		if d == K || d == h || !body[d] || !d.Dominates(K) {
			continue
		}
		if iff := ifOf(d); iff != nil {
			early = append(early, p.Pos(instrPos(iff)))
		}
	}
	sort.Strings(early)
	r.Check(len(early) == 0, rule, "pairing:argsToAttrs:pending-first", p.Pos(instrPos(kIf)), "the pending-key test is the first decision of every round",
		"an element is tested before the pending-key test (at "+strings.Join(early, ", ")+"): an element skipped there after a key is that key's VALUE - the key then takes the next key as its value and every later pair is shifted")
	// on the pending edge every path hands the element to NewAttr before the next round
	isPair := func(b *ssa.BasicBlock) bool {
		for _, in := range b.Instrs {
			if cs, ok := in.(ssa.CallInstruction); ok {
				if cal := calleeOf(cs); cal != nil && (nm(cal) == "NewAttr" || nm(cal) == "setUniqueKvp") {
					return true
				}
			}
		}
		return false
	}
	start := K.Succs[pendingSucc]
	lost := false
	if !isPair(start) {
		seen := map[*ssa.BasicBlock]bool{}
		var dfs func(b *ssa.BasicBlock)
		dfs = func(b *ssa.BasicBlock) {
			if seen[b] || lost {
				return
			}
			seen[b] = true
			if b == h || !body[b] {
				lost = true
				return
			}
			if isPair(b) {
				return
			}
			for _, s := range b.Succs {
				dfs(s)
			}
		}
		dfs(start)
	}
	r.Check(!lost, rule, "pairing:argsToAttrs:value-taken", p.Pos(instrPos(kIf)), "with a key pending, every path builds the pair from the key and the element",
		"with a key pending a round can end without building the pair: the value is dropped and the key stays pending for the next element")
}

// loopIndexVaries: a printer that walks a list prints the element of the round: inside a loop no element of a slice
// parameter is fetched at a constant position (the copy-pasted `val[0]` of the line that prints the first element).
func loopIndexVaries(c *Ctx, p *Prog, m *Model, rule string) {
	r := c.R
	n := 0
	var bad []string
	for _, fn := range sortedTree(p, m) {
		for _, b := range fn.Blocks {
			if !inLoop(b) {
				continue
			}
			for _, in := range b.Instrs {
				var x, idx ssa.Value
				switch y := in.(type) {
				case *ssa.IndexAddr:
					x, idx = y.X, y.Index
				case *ssa.Index:
					x, idx = y.X, y.Index
				default:
					continue
				}
				prm, isP := strip(x).(*ssa.Parameter)
				if !isP {
					continue
				}
				if _, isS := prm.Type().Underlying().(*types.Slice); !isS {
					continue
				}
				n++
				if _, isC := constInt(idx); isC {
					bad = append(bad, shortName(fn)+" at "+p.Pos(instrPos(in)))
				}
			}
		}
	}
	sort.Strings(bad)
	if n < 10 {
		r.Unk(rule, "loop-index-varies", "-", "only %d element fetches from a list parameter inside loops found on the print tree", n)
		return
	}
	r.Check(len(bad) == 0, rule, "loop-index-varies", "-", fmt.Sprintf("the %d element fetches from a list parameter inside loops use the position of the round", n),
		"inside a loop an element of the list is fetched at a constant position ("+strings.Join(bad, "; ")+"): every round prints the same element instead of its own")
}

// noRecoverOnSpine: a Panic record ends in the library's own panic: no function between the entry points and the
// terminating function installs a deferred recover (one that does not re-panic) - it would swallow the termination
// for the configurations it is armed in.
func noRecoverOnSpine(c *Ctx, p *Prog, m *Model, rule string) {
	r := c.R
	var bad []string
	n := 0
	var scan func(fn *ssa.Function, host *ssa.Function)
	scan = func(fn *ssa.Function, host *ssa.Function) {
		hasRecover, rePanics := false, false
		for _, b := range fn.Blocks {
			for _, in := range b.Instrs {
				if cs, ok := in.(ssa.CallInstruction); ok && isBuiltinCall(cs, "recover") {
					hasRecover = true
				}
				if _, ok := in.(*ssa.Panic); ok {
					rePanics = true
				}
			}
		}
		if hasRecover && !rePanics && fn != host {
			bad = append(bad, shortName(fn)+" (in "+shortName(host)+") at "+p.FuncPos(fn))
		}
		for _, an := range fn.AnonFuncs {
			scan(an, host)
		}
	}
	var fns []*ssa.Function
	for fn := range m.Spine {
		fns = append(fns, fn)
	}
	sort.Slice(fns, func(i, j int) bool { return shortName(fns[i]) < shortName(fns[j]) })
	for _, fn := range fns {
		if fn.Parent() != nil {
			continue
		}
		n++
		scan(fn, fn)
	}
	sort.Strings(bad)
	r.Check(len(bad) == 0, rule, "no-recover-on-spine", "-", fmt.Sprintf("none of the %d functions between the entry points and the terminating function installs a swallowing recover", n),
		"a deferred recover sits between the entry points and the library's own panic ("+strings.Join(bad, "; ")+"): where it is armed, an admitted Panic record is written and the call then returns normally")
}

// fanoutNoSelfCall (R13.1): handling a member's failure never sends the record through the whole set again: the
// fan-out Write (and the sink) do not call themselves - a "retry" through the set re-delivers the record to the
// members that had taken it and recurses without bound for a member that keeps failing.
func fanoutNoSelfCall(c *Ctx, p *Prog, m *Model, rule string) {
	r := c.R
	var fns []*ssa.Function
	if f := p.Method(p.Slog, "LWs", "Write"); f != nil {
		fns = append(fns, f)
	}
	for f := range m.SinkFns {
		fns = append(fns, f)
	}
	if len(fns) == 0 {
		r.Unk(rule, "fanout-no-self-call", "-", "fan-out Write / sink not found")
		return
	}
	sort.Slice(fns, func(i, j int) bool { return shortName(fns[i]) < shortName(fns[j]) })
	var bad []string
	for _, fn := range fns {
		for _, cs := range callsIn(fn) {
			if cal := calleeOf(cs); cal != nil && cal == fn {
				bad = append(bad, shortName(fn)+" at "+p.Pos(instrPos(cs)))
			}
		}
	}
	sort.Strings(bad)
	r.Check(len(bad) == 0, rule, "fanout-no-self-call", "-", fmt.Sprintf("none of the %d delivery functions calls itself", len(fns)),
		"a delivery function sends the record through itself again ("+strings.Join(bad, "; ")+"): the destinations that had already taken the record get it once more, and a destination that keeps failing recurses without bound")
}

// optionConsumed (R10.3): an argument of New / newentry that was applied as an option is consumed: within the same
// round of the argument loop no path leads from the option call to the place where leftover arguments are collected
// as attribute material (the leftover list, once non-empty, REPLACES the logger's own attributes - also the ones the
// option has just set).
func optionConsumed(c *Ctx, p *Prog, rule string) {
	r := c.R
	fn := p.Func(p.Slog, "newentry")
	if fn == nil {
		r.Unk(rule, "option-consumed:newentry", "-", "newentry not found")
		return
	}
	n := 0
	var bad []string
	for _, b := range fn.Blocks {
		for _, in := range b.Instrs {
			cs, ok := in.(*ssa.Call)
			if !ok || cs.Common().IsInvoke() || calleeOf(cs) != nil {
				continue
			}
			ex, isE := cs.Common().Value.(*ssa.Extract)
			if !isE {
				continue
			}
			ta, isT := ex.Tuple.(*ssa.TypeAssert)
			if !isT || typeName(ta.AssertedType) != "Opt" || !inLoop(b) {
				continue
			}
			n++
			h, body := natLoop(b)
			seen := map[*ssa.BasicBlock]bool{}
			var dfs func(x *ssa.BasicBlock)
			hit := ""
			dfs = func(x *ssa.BasicBlock) {
				if seen[x] || x == h || !body[x] || hit != "" {
					return
				}
				seen[x] = true
				for _, in2 := range x.Instrs {
					if c2, ok := in2.(*ssa.Call); ok && isBuiltinCall(c2, "append") {
						hit = p.Pos(instrPos(c2))
						return
					}
				}
				for _, s := range x.Succs {
					dfs(s)
				}
			}
			for _, s := range b.Succs {
				dfs(s)
			}
			if hit != "" {
				bad = append(bad, "option applied at "+p.Pos(instrPos(cs))+" reaches the collection at "+hit)
			}
		}
	}
	if n == 0 {
		r.Unk(rule, "option-consumed:newentry", p.FuncPos(fn), "no option call inside the argument loop found")
		return
	}
	sort.Strings(bad)
	r.Check(len(bad) == 0, rule, "option-consumed:newentry", p.FuncPos(fn), "an argument applied as an option is not collected as attribute material as well",
		"an argument that was applied as an option is also collected as a leftover argument ("+strings.Join(bad, "; ")+"): the leftover list replaces the logger's own attributes, so the attributes an option form (With / WithAttrs in New) has just set are wiped")
}

// allFieldsOnEveryPath: a method that fills a reused record (Source.Extract on the pooled context's cached Source)
// stores each field it stores at all on EVERY path to its return: an early return leaves the previous record's
// values in the fields it skipped.
func allFieldsOnEveryPath(c *Ctx, p *Prog, rule, typ, method string) {
	r := c.R
	fn := p.Method(p.Slog, typ, method)
	if fn == nil || len(fn.Params) == 0 || len(fn.Blocks) == 0 {
		r.Unk(rule, "all-fields:"+typ+"."+method, "-", "method not found")
		return
	}
	recv := fn.Params[0]
	stores := map[string]map[*ssa.BasicBlock]bool{}
	for _, b := range fn.Blocks {
		for _, in := range b.Instrs {
			st, ok := in.(*ssa.Store)
			if !ok {
				continue
			}
			fa, isF := st.Addr.(*ssa.FieldAddr)
			if !isF || strip(fa.X) != ssa.Value(recv) {
				continue
			}
			f := fieldOf(fa)
			if stores[f] == nil {
				stores[f] = map[*ssa.BasicBlock]bool{}
			}
			stores[f][b] = true
		}
	}
	rets, _ := exitBlocks(fn)
	var bad []string
	for f, blks := range stores {
		avoid := func(x *ssa.BasicBlock) bool { return blks[x] }
		if avoid(fn.Blocks[0]) {
			continue
		}
		for _, rb := range rets {
			if blks[rb] {
				continue
			}
			if rb == fn.Blocks[0] || reachAvoiding(fn.Blocks[0], rb, avoid) {
				bad = append(bad, f+" (return at "+p.Pos(instrPos(rb.Instrs[len(rb.Instrs)-1]))+")")
				break
			}
		}
	}
	sort.Strings(bad)
	if len(stores) == 0 {
		r.Unk(rule, "all-fields:"+typ+"."+method, p.FuncPos(fn), "stores no field of its receiver")
		return
	}
	r.Check(len(bad) == 0, rule, "all-fields:"+typ+"."+method, p.FuncPos(fn), fmt.Sprintf("each of the %d fields it fills is stored on every path", len(stores)),
		"a return is reachable without the field having been stored: "+strings.Join(bad, ", ")+" - the reused object keeps the previous record's value there")
}

// fieldOf: the name of the field a FieldAddr addresses.
func fieldOf(fa *ssa.FieldAddr) string {
	t := fa.X.Type()
	if pt, ok := t.Underlying().(*types.Pointer); ok {
		t = pt.Elem()
	}
	if st, ok := t.Underlying().(*types.Struct); ok && fa.Field < st.NumFields() {
		return st.Field(fa.Field).Name()
	}
	return fmt.Sprint(fa.Field)
}

// searchLoopExits: a search over the children gives up only when the children are exhausted: every early exit of
// the loop in the named method is taken on the "found" side of a nil test (x != nil), never on the "not found" side.
func searchLoopExits(c *Ctx, p *Prog, rule, typ, method string) {
	r := c.R
	fn := p.Method(p.Slog, typ, method)
	if fn == nil {
		r.Unk(rule, "search:"+typ+"."+method, "-", "method not found")
		return
	}
	n := 0
	var bad []string
	for _, b := range fn.Blocks {
		if !inLoop(b) {
			continue
		}
		h, body := natLoop(b)
		if h == nil || b == h {
			continue
		}
		for k, s := range b.Succs {
			if body[s] {
				continue
			}
			n++
			iff := ifOf(b)
			if iff == nil {
				bad = append(bad, "unconditional exit at "+p.Pos(instrPos(b.Instrs[len(b.Instrs)-1])))
				continue
			}
			cond, neg := normCond(iff.Cond)
			bo, ok := cond.(*ssa.BinOp)
			found := false
			if ok && (bo.Op == token.NEQ || bo.Op == token.EQL) && (isNilConst(bo.X) || isNilConst(bo.Y)) {
				nonNilOnTrue := (bo.Op == token.NEQ) != neg
				found = (k == 0) == nonNilOnTrue
			}
			if !found {
				bad = append(bad, "exit at "+p.Pos(instrPos(iff)))
			}
		}
		if _, isRet := b.Instrs[len(b.Instrs)-1].(*ssa.Return); isRet {
			// a return inside the loop body: must sit on a found edge; covered through the edge into this block
			_ = isRet
		}
	}
	sort.Strings(bad)
	if n == 0 {
		r.Unk(rule, "search:"+typ+"."+method, p.FuncPos(fn), "no early exit of a search loop found")
		return
	}
	r.Check(len(bad) == 0, rule, "search:"+typ+"."+method, p.FuncPos(fn), fmt.Sprintf("the %d early exits of the search loop are taken when something was found", n),
		"the search over the children is abandoned although nothing was found ("+strings.Join(bad, "; ")+"): loggers in the subtrees not yet visited are reported as absent")
}

// separatorIndependentOfMember: whether the member separator is written in front of an attribute depends on the
// format and on what the buffer ends with, never on the attribute itself: in the loop of serializeAttrs no test that
// decides a separator call reads the member (its kind, key or value). A group glued to the member before it is
// invalid JSON.
func separatorIndependentOfMember(c *Ctx, p *Prog, rule string) {
	r := c.R
	sa := p.Func(p.Slog, "serializeAttrs")
	if sa == nil {
		r.Unk(rule, "separator:serializeAttrs", "-", "serializeAttrs not found")
		return
	}
	var member ssa.Value
	for _, cs := range callsIn(sa) {
		if invokeName(cs) == "Key" && inLoop(cs.Block()) {
			member = cs.Common().Value
			break
		}
	}
	if member == nil {
		r.Unk(rule, "separator:serializeAttrs", p.FuncPos(sa), "no per-member Key() call inside a loop")
		return
	}
	n := 0
	var bad []string
	isSep := func(cal *ssa.Function) bool {
		if cal == nil {
			return false
		}
		if nm(cal) == "pcAppendComma" {
			return true
		}
		// a private helper of the loop that writes the separator itself
		if cal.Pkg != p.Slog || len(cal.Blocks) > 12 || nm(cal) == "appendValue" || nm(cal) == "serializeAttrs" {
			return false
		}
		for _, c2 := range callsIn(cal) {
			if k := calleeOf(c2); k != nil && nm(k) == "pcAppendComma" {
				return true
			}
		}
		return false
	}
	for _, cs := range callsIn(sa) {
		cal := calleeOf(cs)
		if !isSep(cal) || !inLoop(cs.Block()) {
			continue
		}
		for _, a := range cs.Common().Args {
			if dependsOn(a, member) {
				bad = append(bad, p.Pos(instrPos(cs))+" (the member is handed to the separator helper)")
			}
		}
		n++
		hdr, body := natLoop(cs.Block())
		for _, d := range sa.Blocks {
			iff := ifOf(d)
			if iff == nil || !body[d] || d == hdr || !d.Dominates(cs.Block()) || d == cs.Block() {
				continue
			}
			within := func(x *ssa.BasicBlock) bool { return !body[x] || x == hdr }
			r0, r1 := reachAvoiding(d.Succs[0], cs.Block(), within), reachAvoiding(d.Succs[1], cs.Block(), within)
			if r0 && r1 {
				continue
			}
			cond, _ := normCond(iff.Cond)
			if bo, ok := cond.(*ssa.BinOp); ok && (isNilConst(bo.X) || isNilConst(bo.Y)) {
				continue // the nil-placeholder skip
			}
			if dependsOn(iff.Cond, member) {
				bad = append(bad, p.Pos(instrPos(iff)))
			}
		}
	}
	if n == 0 {
		r.Unk(rule, "separator:serializeAttrs", p.FuncPos(sa), "no member separator call inside the loop")
		return
	}
	sort.Strings(bad)
	r.Check(len(bad) == 0, rule, "separator:serializeAttrs", p.FuncPos(sa), fmt.Sprintf("the tests deciding the %d member separator call(s) do not read the member", n),
		"whether the member separator is written depends on the attribute itself (test at "+strings.Join(dedupStr(bad), ", ")+"): a member of that kind is glued to the one before it - invalid JSON / a merged pair")
}

// sameSource: two values are the same parameter / the same load of one package-level variable / the same SSA value.
func sameSource(a, b ssa.Value) bool {
	a, b = strip(a), strip(b)
	if a == b {
		return true
	}
	if ga, ok := globalLoad(a); ok {
		if gb, ok2 := globalLoad(b); ok2 {
			return ga == gb
		}
	}
	return false
}

// prefixCutAgrees: where a text is tested with strings.HasPrefix(s, k) and then cut at len(y), y is k: cutting by the
// length of another string (the replacement instead of the matched prefix) keeps or drops bytes of the rest.
func prefixCutAgrees(c *Ctx, p *Prog, rule string) {
	r := c.R
	n := 0
	var bad []string
	for _, fn := range p.RepoFuncs() {
		if fn.Pkg != p.Slog {
			continue
		}
		for _, b := range fn.Blocks {
			for _, in := range b.Instrs {
				sl, ok := in.(*ssa.Slice)
				if !ok || sl.Low == nil {
					continue
				}
				lc, isL := strip(sl.Low).(*ssa.Call)
				if !isL || !isBuiltinCall(lc, "len") {
					continue
				}
				y := lc.Common().Args[0]
				// the HasPrefix test on whose true edge we are
				for _, gd := range guardsOf(b) {
					cond, neg := normCond(gd.If.Cond)
					hc, isC := cond.(*ssa.Call)
					if !isC || (gd.Succ == 0) == neg {
						continue
					}
					cal := calleeOf(hc)
					if cal == nil || cal.String() != "strings.HasPrefix" {
						continue
					}
					if !sameSource(hc.Common().Args[0], sl.X) {
						continue
					}
					n++
					if !sameSource(hc.Common().Args[1], y) {
						bad = append(bad, shortName(fn)+" at "+p.Pos(instrPos(sl)))
					}
				}
			}
		}
	}
	sort.Strings(bad)
	if n == 0 {
		r.OkTrivial(rule, "prefix-cut", "-", "no text is cut at the length of a tested prefix (nothing to agree)")
		return
	}
	r.Check(len(bad) == 0, rule, "prefix-cut", "-", fmt.Sprintf("the %d cuts after a HasPrefix test cut at the length of the prefix tested", n),
		"a text tested for one prefix is cut at the length of another string ("+strings.Join(bad, "; ")+"): bytes of the rest are kept or dropped with the prefix (GHthub.com/... instead of GH/...)")
}

// pkgForwardersPassArgs: a package-level function that only forwards to the default logger hands its arguments on
// as given: no arithmetic on a parameter (the frame bookkeeping of the default logger is done by the logger's own
// methods; "one more frame for the package-level hop" shifts every caller reported afterwards).
func pkgForwardersPassArgs(c *Ctx, p *Prog, rule string) {
	r := c.R
	dl := p.Global(p.Slog, "defaultLog")
	if dl == nil {
		r.Unk(rule, "forwarders", "-", "defaultLog not found")
		return
	}
	n := 0
	var bad []string
	for _, fn := range p.RepoFuncs() {
		if fn.Pkg != p.Slog || fn.Parent() != nil || fn.Signature.Recv() != nil || !ast.IsExported(fn.Name()) {
			continue
		}
		for _, cs := range callsIn(fn) {
			cc := cs.Common()
			if !cc.IsInvoke() {
				continue
			}
			g, isG := globalLoad(cc.Value)
			if !isG || g != dl {
				continue
			}
			n++
			for _, a := range cc.Args {
				if bo, ok := strip(a).(*ssa.BinOp); ok {
					for _, prm := range fn.Params {
						if dependsOn(bo, prm) {
							bad = append(bad, fn.Name()+" at "+p.Pos(instrPos(cs)))
						}
					}
				}
			}
		}
	}
	sort.Strings(bad)
	if n < 2 {
		r.Unk(rule, "forwarders", "-", "only %d package-level forwarders to the default logger found", n)
		return
	}
	r.Check(len(bad) == 0, rule, "forwarders", "-", fmt.Sprintf("the %d package-level forwarders hand their arguments to the default logger as given", n),
		"a package-level forwarder changes an argument before handing it to the default logger ("+strings.Join(dedupStr(bad), "; ")+"): the setting differs from what the same call on a logger stores")
}

// everyRoundCalls: in the named method every round of the loop that contains the call of `callee` passes that call
// (no element is skipped by a `continue` in front of it).
func everyRoundCalls(c *Ctx, p *Prog, rule, typ, method, callee, what string) {
	r := c.R
	fn := p.Method(p.Slog, typ, method)
	key := "every-round:" + typ + "." + method
	if fn == nil {
		r.Unk(rule, key, "-", "method not found")
		return
	}
	var site ssa.CallInstruction
	var tree []*ssa.Function
	for f := range staticReach([]*ssa.Function{fn}, func(f *ssa.Function) bool { return f.Pkg != p.Slog || nm(f) == callee }) {
		tree = append(tree, f)
	}
	sort.Slice(tree, func(i, j int) bool { return shortName(tree[i]) < shortName(tree[j]) })
	for _, f := range tree {
		for _, cs := range callsIn(f) {
			if cal := calleeOf(cs); cal != nil && nm(cal) == callee && inLoop(cs.Block()) && f != cal {
				site = cs
			}
		}
	}
	if site == nil {
		r.Unk(rule, key, p.FuncPos(fn), "no call of %s inside a loop", callee)
		return
	}
	h, body := natLoop(site.Block())
	skipped := false
	for _, s := range h.Succs {
		if !body[s] || s == site.Block() {
			continue
		}
		if reachAvoiding(s, h, func(x *ssa.BasicBlock) bool { return x == site.Block() || !body[x] }) {
			skipped = true
		}
	}
	r.Check(!skipped, rule, key, p.Pos(instrPos(site)), "every round of the loop passes "+callee, "a round of the loop can end without "+callee+" having been called: "+what)
}

// noClearOnLists: a package-level list is emptied by storing nil / an empty list: the builtin clear on a slice keeps
// its length and zeroes the entries, which the readers then dereference.
func noClearOnLists(c *Ctx, p *Prog, rule string) {
	r := c.R
	var bad []string
	for _, fn := range p.RepoFuncs() {
		if fn.Pkg != p.Slog {
			continue
		}
		for _, cs := range callsIn(fn) {
			if !isBuiltinCall(cs, "clear") {
				continue
			}
			a := cs.Common().Args[0]
			if _, isS := a.Type().Underlying().(*types.Slice); !isS {
				continue
			}
			if _, isG := globalLoad(a); isG {
				bad = append(bad, shortName(fn)+" at "+p.Pos(instrPos(cs)))
			}
		}
	}
	sort.Strings(bad)
	r.Check(len(bad) == 0, rule, "no-clear-on-lists", "-", "no package-level list is emptied with the builtin clear", "a package-level list is \"emptied\" with clear() ("+strings.Join(bad, "; ")+"): on a slice that keeps the length and zeroes the entries - the rules stay in the list as nil entries and the next path check dereferences them")
}

// deleteUnderFound: the statement that cuts an entry out of a package-level list runs only on the "found" edge of the
// comparison with the argument: a default position shared with "not found" deletes another entry.
func deleteUnderFound(c *Ctx, p *Prog, rule, fname, gname string) {
	r := c.R
	fn := p.Func(p.Slog, fname)
	g := p.Global(p.Slog, gname)
	key := "delete-under-found:" + fname
	if fn == nil || g == nil {
		r.Unk(rule, key, "-", "%s / %s not found", fname, gname)
		return
	}
	n := 0
	var bad []string
	for _, b := range fn.Blocks {
		for _, in := range b.Instrs {
			st, ok := in.(*ssa.Store)
			if !ok || st.Addr != ssa.Value(g) {
				continue
			}
			if isNilConst(st.Val) {
				continue
			}
			n++
			found := false
			for _, gd := range guardsOf(b) {
				cond, neg := normCond(gd.If.Cond)
				bo, isB := cond.(*ssa.BinOp)
				if !isB || (bo.Op != token.EQL && bo.Op != token.NEQ) {
					continue
				}
				dep := false
				for _, prm := range fn.Params {
					if dependsOn(bo, prm) {
						dep = true
					}
				}
				eqOnTrue := (bo.Op == token.EQL) != neg
				if dep && (gd.Succ == 0) == eqOnTrue {
					found = true
				}
			}
			if !found {
				bad = append(bad, p.Pos(instrPos(st)))
			}
		}
	}
	if n == 0 {
		r.Unk(rule, key, p.FuncPos(fn), "no store to %s", gname)
		return
	}
	sort.Strings(bad)
	r.Check(len(bad) == 0, rule, key, p.FuncPos(fn), "the list is only rewritten on the edge where the entry compared equal to the argument",
		"the list is rewritten at "+strings.Join(bad, ", ")+" although no entry compared equal to the argument on that path: removing a pattern that is not registered removes another rule")
}

// tagLookupHitOnly: Level.ShortTag returns an entry of the tag tables only when the table HAS an entry for the
// level: a plain m[k] returns "" on a miss (a level without tags of its own would get a zero-width tag).
func tagLookupHitOnly(c *Ctx, p *Prog, rule string) {
	r := c.R
	fn := p.Method(p.Slog, "Level", "ShortTag")
	if fn == nil {
		r.Unk(rule, "Level.ShortTag:lookup-hit", "-", "Level.ShortTag not found")
		return
	}
	n := 0
	var bad []string
	rets, _ := exitBlocks(fn)
	for _, b := range rets {
		ret := b.Instrs[len(b.Instrs)-1].(*ssa.Return)
		if len(ret.Results) != 1 {
			continue
		}
		var lks []struct {
			lk  *ssa.Lookup
			blk *ssa.BasicBlock
		}
		seen := map[ssa.Value]bool{}
		var walk func(v ssa.Value, at *ssa.BasicBlock)
		walk = func(v ssa.Value, at *ssa.BasicBlock) {
			if v == nil || seen[v] {
				return
			}
			seen[v] = true
			switch x := v.(type) {
			case *ssa.Phi:
				for i, e := range x.Edges {
					walk(e, x.Block().Preds[i])
				}
			case *ssa.Extract:
				if lk, ok := x.Tuple.(*ssa.Lookup); ok && x.Index == 0 {
					lks = append(lks, struct {
						lk  *ssa.Lookup
						blk *ssa.BasicBlock
					}{lk, at})
				}
			case *ssa.Lookup:
				if _, isM := x.X.Type().Underlying().(*types.Map); isM {
					lks = append(lks, struct {
						lk  *ssa.Lookup
						blk *ssa.BasicBlock
					}{x, at})
				}
			}
		}
		walk(ret.Results[0], b)
		for _, l := range lks {
			n++
			okGuard := false
			if l.lk.CommaOk {
				for _, gd := range append(guardsOf(l.blk), guardsOf(b)...) {
					cond, neg := normCond(gd.If.Cond)
					if ex, ok := cond.(*ssa.Extract); ok && ex.Tuple == ssa.Value(l.lk) && ex.Index == 1 && (gd.Succ == 0) != neg {
						okGuard = true
					}
				}
			}
			if !okGuard {
				bad = append(bad, p.Pos(instrPos(l.lk)))
			}
		}
	}
	if n == 0 {
		r.Unk(rule, "Level.ShortTag:lookup-hit", p.FuncPos(fn), "no table entry returned")
		return
	}
	sort.Strings(bad)
	r.Check(len(bad) == 0, rule, "Level.ShortTag:lookup-hit", p.FuncPos(fn), fmt.Sprintf("the %d table entries returned are returned on the hit edge of their lookup", n),
		"a tag table entry is returned without the lookup having hit (at "+strings.Join(bad, ", ")+"): a level without an entry of its own gets the empty string - a tag of 0 characters instead of `length`")
}

// asTargetUsedOnSuccess: a pointer local that only errors.As can set is nil until As succeeded: every dereference of
// it lies on the true edge of that As call. (`errors.As(err, &pe) || errors.Is(pe.Err, ..)` dereferences the nil
// pointer exactly when the error is of another kind - inside the handling of a failed Write.)
func asTargetUsedOnSuccess(c *Ctx, p *Prog, rule string) {
	r := c.R
	n := 0
	var bad []string
	for _, fn := range p.RepoFuncs() {
		if fn.Pkg != p.Slog {
			continue
		}
		for _, cs := range callsIn(fn) {
			cal := calleeOf(cs)
			if cal == nil || cal.String() != "errors.As" || len(cs.Common().Args) != 2 {
				continue
			}
			call, isCall := cs.(*ssa.Call)
			if !isCall {
				continue
			}
			var al *ssa.Alloc
			switch x := strip(cs.Common().Args[1]).(type) {
			case *ssa.Alloc:
				al = x
			case *ssa.MakeInterface:
				al, _ = strip(x.X).(*ssa.Alloc)
			}
			if al == nil {
				continue
			}
			if _, isPtr := al.Type().Underlying().(*types.Pointer).Elem().Underlying().(*types.Pointer); !isPtr {
				continue // the target is not a pointer-typed local
			}
			// other stores to the local make it non-nil by other means: not our pattern
			onlyAs := true
			for _, ref := range *al.Referrers() {
				if st, ok := ref.(*ssa.Store); ok && st.Addr == ssa.Value(al) && !isNilConst(st.Val) {
					onlyAs = false
				}
			}
			if !onlyAs {
				continue
			}
			n++
			for _, ref := range *al.Referrers() {
				ld, ok := ref.(*ssa.UnOp)
				if !ok || ld.Op != token.MUL {
					continue
				}
				for _, use := range *ld.Referrers() {
					deref := false
					switch u := use.(type) {
					case *ssa.FieldAddr:
						deref = u.X == ssa.Value(ld)
					case *ssa.UnOp:
						deref = u.Op == token.MUL && u.X == ssa.Value(ld)
					}
					if !deref {
						continue
					}
					okEdge := false
					for _, g := range guardsOf(use.Block()) {
						cond, neg := normCond(g.If.Cond)
						if cond == ssa.Value(call) && (g.Succ == 0) != neg {
							okEdge = true
						}
					}
					if !okEdge {
						bad = append(bad, shortName(fn)+" at "+p.Pos(instrPos(use)))
					}
				}
			}
		}
	}
	sort.Strings(bad)
	if n == 0 {
		r.OkTrivial(rule, "as-target", "-", "no pointer local is filled by errors.As")
		return
	}
	r.Check(len(bad) == 0, rule, "as-target", "-", fmt.Sprintf("the %d pointer locals filled by errors.As are dereferenced on its success edge only", n),
		"a pointer that only errors.As sets is dereferenced where As did not succeed ("+strings.Join(dedupStr(bad), "; ")+"): for an error of another kind the nil pointer is dereferenced - the logging call panics while handling a failed Write, the destinations after the failing one get nothing and no diagnostic is issued")
}
